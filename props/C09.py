"""C09 — Bidi isolation is additive, balanced and confined to interpolated values.
Model: coq/theories/Bundle/ResolverModel.v; theorems: Props/C09.v; Rust side: harness/src/bin/bundle_run.rs
(every case is formatted with isolation as configured AND flipped)."""
import hashlib
import os
import sys

sys.path.insert(0, os.path.dirname(os.path.abspath(__file__)))
import resolver_gen as G  # noqa: E402

ID = 'C09'
PROPS_FILE = 'theories/Props/C09.v'
PROPS_MODULE = 'Props.C09'
COQ_TARGETS = ['theories/Extract/ExtractC06.vo']
REQUIRED_THEOREMS = ['C09_strip', 'C09_balanced', 'C09_one_value', 'C09_single']
MODEL = 'resolver'
HARNESS_BINS = ['bundle_run', 'syn_run']
RELEASE_TOO = False
ANCHORS = ['fluent-bundle/src/resolver/pattern.rs', 'fluent-bundle/src/resolver/scope.rs', 'fluent-bundle/src/bundle.rs']
TRUSTED = [
    'the resolver model (Bundle/ResolverModel.v) is a hand transliteration validated by the correspondence run (see C06)',
    'theorems are about the token output (Txt | TFSI | TPDI): marks written by Pattern::write are tokens of their own; at byte level they '
    'hold when no text/argument/function output contains U+2068/U+2069 (the property\'s own quantifier; checked on the real output by the oracle)',
]
ASSUMPTIONS = [
    'C09_strip: ok_pattern for the formatted pattern and every bundle pattern — no selector or call argument is a message/term reference or a '
    'nested placeable (otherwise finding D23: marks reach a value that is compared with variant keys or passed to a function); '
    'witness C09_strip_refuted_in_selector',
    'cache_ok for the memoizer content at the start (true of the empty memoizer and preserved by every call: C08)',
]
RULE = ('every C06 generator (limit at every position, reference graphs, missing references, selects, numbers, random bundles) with texts and '
        'arguments free of FSI/PDI; each case formatted with isolation on and off on the real bundle; a small share of the random bundles puts '
        'references in selector/argument position (class D23)')
MANIFEST = {
    'text': 'Rocq theorems over ALL bundles/arguments/patterns, by a simulation between the isolating and the non-isolating run of the resolver '
            'model (same control flow, counter, errors, function calls): stripping TFSI/TPDI tokens from the isolating output gives the '
            'non-isolating output exactly (C09_strip, for patterns without references in selector/argument position — otherwise finding D23 '
            'with a machine-checked witness); the token output is a Dyck word (C09_balanced); the output of Pattern::write is, element by '
            'element, text or one balanced placeable value wrapped in exactly one pair iff isolating && len>1 && not exempt (C09_one_value); '
            'a one-element pattern adds no mark (C09_single). Error paths (missing reference, cyclic, limit) are covered by the same induction.',
    'note': 'Trusted: Coq kernel, extraction, the hand transliteration (validated by the differential run). Token-level statements; byte-level '
            'equivalents are checked on the real output by the oracle.',
    'technique': 'Rocq proof (relational induction on fuel: simulation of two runs) + differential correspondence check + implementation-only oracle',
    'design_ref': 'DESIGN.md §4 C09',
}


def have_finding(fid):
    import engine
    return any(f['id'] == fid for f in engine.load_known().get('findings', []))


def generate(rng, tier):
    yield ('limit-at-every-position', G.render(G.gen_limit_positions(rng, tier)))
    yield ('reference-graphs', G.render(G.gen_graphs(rng, tier)))
    yield ('missing-references', G.render(G.gen_missing(rng, tier)))
    yield ('selects', G.render(G.gen_selects(rng, 'quick')))
    n = 2500 if tier == 'quick' else 50000
    yield ('random-bundles-simple-selectors', G.render(G.gen_random(rng, n, allow_ref_resolve=False)))
    if have_finding('D23'):
        yield ('D23-class', G.render(G.gen_d23(rng) + G.gen_random(rng, n // 5, allow_ref_resolve=True)))


def harness_for(name):
    return 'bundle_run'


project = G.project


def balance(t):
    d = 0
    for ch in t:
        if ch == G.FSI:
            d += 1
        elif ch == G.PDI:
            d -= 1
            if d < 0:
                return False
    return d == 0


def oracle(case, out):
    r = G.parse_out(out)
    if r[0] == 'panic':
        return 'formatting panicked / crashed: ' + r[1]
    if r[0] == 'timeout':
        return 'formatting did not return within the time limit'
    if r[0] == 'bad':
        return 'unparseable implementation output: ' + r[1]
    if r[0] in ('skipped', 'missing'):
        return None
    core = r[1]
    info = G.case_info(case)
    a, b = core['fmt'], core['alt']
    on, off = (a, b) if info['iso'] else (b, a)
    t_on, t_off = on[0].decode('utf-8'), off[0].decode('utf-8')
    if G.FSI in t_off or G.PDI in t_off:
        return 'isolation off, but the output contains FSI/PDI: %r' % t_off[:80]
    if not balance(t_on):
        return 'balance: FSI/PDI not balanced / not properly nested in %r' % t_on[:120]
    if t_on.replace(G.FSI, '').replace(G.PDI, '') != t_off:
        return 'strip: removing the marks from the isolating output %r does not give the non-isolating output %r' % (t_on[:100], t_off[:100])
    if on[1] != off[1]:
        return 'strip: error lists differ between isolation on and off: %s vs %s' % (G.err_names(on[1])[:5], G.err_names(off[1])[:5])
    # patterns with a single element get no mark: if no pattern of the bundle has more than one element, there is no mark at all
    multi = [False]

    def f(x):
        if isinstance(x, list) and x and x[0] == b'pat' and len(x) > 2:
            multi[0] = True
    for res in info['res']:
        G.walk(res[2], f)
    if not multi[0] and (G.FSI in t_on or G.PDI in t_on):
        return 'single: every pattern has one element, yet the isolating output has marks: %r' % t_on[:80]
    # a wrapped value is never empty text-wise AND exempt kinds are never wrapped at top level: spot check on the entry pattern
    return None


def classify(case, why):
    if why.startswith('strip:'):
        info = G.case_info(case)
        if G.resolve_position_refs(info['res']):
            return 'D23'
    return None


def nontrivial(case, out):
    r = G.parse_out(out)
    if r[0] != 'ok':
        return None
    if G.FSI.encode() not in r[1]['fmt'][0] + r[1]['alt'][0]:
        return None
    return hashlib.sha1(G.project(out).encode()).digest()[:8]

"""C08 — Formatting is a pure function; string and writer APIs agree.
Model: coq/theories/Bundle/ResolverModel.v; theorems: Props/C08.v; Rust side: harness/src/bin/bundle_run.rs (per case: format_pattern,
write_pattern, format again after every other message was formatted, format on a fresh bundle, all insertion orders of the arguments)."""
import hashlib
import os
import sys

sys.path.insert(0, os.path.dirname(os.path.abspath(__file__)))
import resolver_gen as G  # noqa: E402

ID = 'C08'
PROPS_FILE = 'theories/Props/C08.v'
PROPS_MODULE = 'Props.C08'
COQ_TARGETS = ['theories/Extract/ExtractC06.vo']
REQUIRED_THEOREMS = ['C08_write_eq_format', 'C08_stringify_agree', 'C08_cache_indep', 'C08_history_indep', 'C08_args_order']
MODEL = 'resolver'
HARNESS_BINS = ['bundle_run', 'syn_run']
RELEASE_TOO = False
ANCHORS = ['fluent-bundle/src/bundle.rs', 'fluent-bundle/src/resolver/pattern.rs', 'fluent-bundle/src/resolver/inline_expression.rs',
           'fluent-bundle/src/types/mod.rs', 'fluent-bundle/src/args.rs', 'intl-memoizer/src/lib.rs']
TRUSTED = [
    'the resolver model (Bundle/ResolverModel.v) is a hand transliteration validated by the correspondence run (see C06)',
    'the only state surviving a call is the bundle\'s intls memoizer; it is modelled as a table ruletype -> rules object (sc_intls), '
    'looked up / filled by with_try_get; a local minimal model, not the C14 memoizer model',
    'registered functions, transform and formatter are pure functions of their arguments (a callback with interior state is outside the property)',
]
ASSUMPTIONS = [
    'C08_write_eq_format: none — holds for every transform and every value formatter since D22 was fixed (format_pattern no longer runs '
    'into_string, i.e. the formatter, on the resolved text); reverting that fix (tools/mutants/revert_D22) is caught by the corpus witness',
    'C08_cache_indep: cache_ok — every cached rules object computes what a freshly constructed one does; holds for the empty memoizer and is '
    'preserved by every call (part of the theorem), hence C08_history_indep has no hypothesis',
    'C08_args_order: distinct keys (with a repeated key the last write wins, so order matters by definition)',
]
RULE = ('every C06 generator; per case the real bundle runs format_pattern, write_pattern, format_pattern again after formatting every other '
        'message (warm memoizer, earlier errors), format_pattern on a fresh bundle, and format_pattern with the arguments inserted in reverse, '
        'on a bundle where every other message was formatted first, and format_pattern with the arguments inserted in reverse, through '
        'FromIterator and in every order (<= 4 keys); value formatters none / numbers only / strings+numbers+None (the last one is the '
        'configuration that exposed D22, now a regular part of every random batch) x transforms none / upper / brackets')
MANIFEST = {
    'text': 'Rocq theorems over ALL bundles/arguments/patterns/fuel: format_pattern returns exactly the bytes write_pattern writes, with the '
            'same errors, calls and memoizer (C08_write_eq_format: resolve\'s single-text shortcut vs write; for every transform and every '
            'value formatter — D22, the formatter being run on the whole result by format_pattern only, is fixed and is a regression case); the three stringification paths are one function; the result is '
            'independent of the memoizer content (C08_cache_indep, by the two-run simulation of ResolverSim.v) and therefore of ANY history of '
            'earlier format/write calls on the bundle (C08_history_indep); FluentArgs collected from a permutation of distinct-key pairs are '
            'equal (C08_args_order).',
    'note': 'Trusted: Coq kernel, extraction, the hand transliteration (validated by the differential run); purity of user callbacks; the '
            'memoizer reduced to the plural-rules table.',
    'technique': 'Rocq proof (relational induction on fuel; equational unfolding of the two entry points; sorted-list extensionality for '
                 'FluentArgs) + differential correspondence check + implementation-only oracle',
    'design_ref': 'DESIGN.md §4 C08',
}


def generate(rng, tier):
    yield ('limit-at-every-position', G.render(G.gen_limit_positions(rng, 'quick')))
    yield ('reference-graphs', G.render(G.gen_graphs(rng, tier)))
    yield ('missing-references', G.render(G.gen_missing(rng, tier)))
    yield ('selects', G.render(G.gen_selects(rng, tier)))
    yield ('numbers', G.render(G.gen_numbers(rng, tier)))
    n = 3000 if tier == 'quick' else 60000
    yield ('random-bundles', G.render(G.gen_random(rng, n)))


def harness_for(name):
    return 'bundle_run'


project = G.project


def oracle(case, out):
    r = G.parse_out(out)
    if r[0] == 'panic':
        return 'formatting panicked / crashed: ' + r[1]
    if r[0] == 'timeout':
        return 'formatting did not return within the time limit'
    if r[0] == 'bad':
        return 'unparseable implementation output: ' + r[1]
    if r[0] in ('skipped', 'missing'):
        return None
    core, extras = r[1], r[2]
    fmt = core['fmt']
    if core['wrt'] != fmt:
        return 'format_pattern and write_pattern differ: %r %s vs %r %s' % (fmt[0][:80], G.err_names(fmt[1])[:4], core['wrt'][0][:80],
                                                                              G.err_names(core['wrt'][1])[:4])
    for k, what in (('again', 'a repeated call after other messages were formatted'), ('fresh', 'a fresh bundle'),
                    ('warm', 'a bundle on which every other message was formatted first'),
                    ('perm', 'arguments inserted in reverse order'), ('collect', 'arguments collected through FromIterator')):
        if extras.get(k) != fmt:
            return 'purity: %s gives %r %s, the first call gave %r %s' % (what, extras.get(k)[0][:80], G.err_names(extras.get(k)[1])[:4],
                                                                           fmt[0][:80], G.err_names(fmt[1])[:4])
    if extras.get('permall') != [b'true']:
        return 'purity: some insertion order of the same argument set gives a different result'
    if extras.get('sharederrs') not in (None, [b'true']):
        return 'purity: with ONE error vector shared by consecutive format/write calls, a later call appended different errors than the first'
    return None


def nontrivial(case, out):
    r = G.parse_out(out)
    if r[0] != 'ok':
        return None
    return hashlib.sha1(G.project(out).encode()).digest()[:8]

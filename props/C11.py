"""C11 — FluentArgs is a map.  Model: coq/theories/Bundle/Args.v; theorems: Props/C11.v."""
import itertools
import struct
import sexp

ID = 'C11'
PROPS_FILE = 'theories/Props/C11.v'
PROPS_MODULE = 'Props.C11'
COQ_TARGETS = ['theories/Extract/ExtractC11.vo']
REQUIRED_THEOREMS = ['C11_set_total', 'C11_sorted', 'C11_last_write_wins', 'C11_get_set', 'C11_iter_once']
MODEL = 'c11'
HARNESS_BINS = ['args_run']
ANCHORS = ['fluent-bundle/src/args.rs', 'fluent/src/lib.rs']
TRUSTED = [
    "modelled, not verified: slice::binary_search_by_key is modelled by its documented contract on a strictly sorted slice "
    "(unique answer there; sortedness of every reachable state is theorem C11_sorted); Vec::insert / index assignment as list ops",
    "values are opaque in the model (type parameter V); that the real FluentValue comes back unchanged (type, number options, "
    "borrowed/owned) is checked by the correspondence run only",
]
ASSUMPTIONS = ['keys are valid UTF-8 strings (Rust str); order is bytewise lexicographic = impl Ord for str']
RULE = ('op sequences (set/get/iter) over FluentArgs built by set, collect(), fluent_args! or with_capacity; exhaustive over '
        '4 prefix-related keys up to a length bound, plus random sequences with empty/non-ASCII/prefix-related keys and typed values; '
        'a case is non-trivial when it contains a set and a get/iter; distinct = distinct implementation outputs')

KEYS = [b'', b'a', b'ab', b'b', b'a\xc3\xa9', b'\xc3\xa9', b'z', b'Z', b'name', b'nam', b'name2', b'\xf0\x9f\x98\x80', b'a-b', b'a b']
DEF_OPTS = [b'cardinal', b'decimal', b'none', b'symbol', b'true', b'none', b'none', b'none', b'none', b'none']


def f64bits(x):
    return struct.pack('>d', x)


def num(x, opts=None):
    return [b'num', f64bits(x), opts or DEF_OPTS]


INT_TYPES = {'i8': (-2**7, 2**7 - 1), 'i16': (-2**15, 2**15 - 1), 'i32': (-2**31, 2**31 - 1), 'i64': (-2**63, 2**63 - 1),
             'i128': (-2**127, 2**127 - 1), 'isize': (-2**63, 2**63 - 1), 'u8': (0, 2**8 - 1), 'u16': (0, 2**16 - 1),
             'u32': (0, 2**32 - 1), 'u64': (0, 2**64 - 1), 'u128': (0, 2**128 - 1), 'usize': (0, 2**64 - 1)}


def rand_value(rng):
    k = rng.randrange(8)
    if k == 0:
        return [b'str', rng.choice([b'b', b'o']), rng.choice([b'', b'John', b'\xc3\xa9t\xc3\xa9', b'1.0', b'x y'])]
    if k == 1:
        return num(rng.choice([0.0, -0.0, 1.0, 1.5, -2.25, 1e300, float('inf'), float('-inf'), 5e-324, 123456.789]))
    if k == 2:
        o = [rng.choice([b'cardinal', b'ordinal']), rng.choice([b'decimal', b'currency', b'percent']),
             rng.choice([b'none', [b'some', b'USD']]), rng.choice([b'symbol', b'code', b'name']),
             rng.choice([b'true', b'false'])] + [rng.choice([b'none', [b'some', rng.randrange(0, 21)]]) for _ in range(5)]
        return num(rng.choice([1.0, 2.5, 1000000.0]), o)
    if k == 3:
        ty = rng.choice(sorted(INT_TYPES))
        lo, hi = INT_TYPES[ty]
        v = rng.choice([lo, hi, 0, 1, min(hi, 2**53 + 1), max(lo, -(2**53) - 1) if lo < 0 else 0, rng.randint(lo, hi)])
        return [b'conv', [b'int', ty, str(v).encode() if abs(v) >= 2**62 else v], num(float(v))]
    if k == 4:
        x = rng.choice([0.1, 1.0 / 3.0, 1e-7, 16777217.0, 3.4e38])
        f32 = struct.unpack('>f', struct.pack('>f', x))[0]
        if rng.random() < 0.5:
            return [b'conv', [b'flt', b'f32', struct.pack('>f', x)], num(f32)]
        return [b'conv', [b'flt', b'f64', f64bits(x)], num(x)]
    if k == 5:
        return rng.choice([b'none', b'error'])
    return [b'str', b'o', ('v%d' % rng.randrange(1000)).encode()]


def canon(v):
    return v[2] if isinstance(v, list) and v and v[0] == b'conv' else v


def generate(rng, tier):
    # bounded-exhaustive: all op sequences over 4 prefix-related keys
    keys = [b'a', b'ab', b'', b'b']
    bound = 4 if tier == 'quick' else 6
    cases = []
    alphabet = [('s', k) for k in keys] + [('g', k) for k in keys] + [('i', None)]
    for n in range(0, bound + 1):
        for seq in itertools.product(alphabet, repeat=n):
            if n and seq[-1][0] == 's':
                continue  # a trailing set is unobservable
            ops = []
            for j, (t, k) in enumerate(seq):
                if t == 's':
                    ops.append([b'set', b'b', k, [b'str', b'o', ('v%d' % j).encode()]])
                elif t == 'g':
                    ops.append([b'get', b'b', k])
                else:
                    ops.append([b'iter'])
            cases.append(sexp.dumps([b'c11', b'set', ops]))
    yield ('exhaustive-4keys-len%d' % bound, cases)
    # random: richer keys, typed values, all construction modes
    n = 3000 if tier == 'quick' else 60000
    cases = []
    for _ in range(n):
        mode = rng.choice([b'set', b'from_iter', b'macro', b'capacity'])
        ks = rng.sample(KEYS, rng.randint(1, 6))
        ops = []
        nsets = rng.randint(0, 4 if mode == b'macro' else 12)
        for _ in range(nsets):
            ops.append([b'set', rng.choice([b'b', b'o']), rng.choice(ks), rand_value(rng)])
        for _ in range(rng.randint(1, 10)):
            r = rng.random()
            if r < 0.35:
                ops.append([b'set', rng.choice([b'b', b'o']), rng.choice(ks), rand_value(rng)])
            elif r < 0.85:
                ops.append([b'get', rng.choice([b'b', b'o']), rng.choice(ks + [rng.choice(KEYS)])])
            else:
                ops.append([b'iter'])
        ops.append([b'iter'])
        cases.append(sexp.dumps([b'c11', mode, ops]))
    yield ('random-typed', cases)
    # long write lists with many repeated keys (collection of large iterators; bulk-building shortcuts must keep last-write-wins)
    cases = []
    for _ in range(300 if tier == 'quick' else 6000):
        mode = rng.choice([b'from_iter', b'from_iter', b'set', b'capacity'])
        ks = rng.sample(KEYS, rng.randint(2, 8))
        ops = []
        for j in range(rng.randint(21, 120)):
            ops.append([b'set', rng.choice([b'b', b'o']), rng.choice(ks), [b'str', b'o', ('w%d' % j).encode()]])
        for k in ks:
            ops.append([b'get', rng.choice([b'b', b'o']), k])
        ops.append([b'iter'])
        cases.append(sexp.dumps([b'c11', mode, ops]))
    yield ('long-write-lists', cases)


def oracle(case, out):
    """Property on the implementation alone: a Python dict is the keyed map."""
    c = sexp.loads(case)
    try:
        o = sexp.loads(out)
    except ValueError:
        return 'unparseable implementation output: ' + out[:200]
    if sexp.tag(o) in ('PANIC', 'CRASH'):
        return 'implementation panicked: ' + out[:200]
    d = {}
    exp = []
    for op in c[2]:
        t = sexp.tag(op)
        if t == 'set':
            d[op[2]] = canon(op[3])
        elif t == 'get':
            exp.append(('get', op[2], d.get(op[2])))
        else:
            exp.append(('iter', None, dict(d)))
    if len(o) != len(exp):
        return 'expected %d results, got %d' % (len(exp), len(o))
    for (t, k, e), got in zip(exp, o):
        if t == 'get':
            want = [b'ok', b'none'] if e is None else [b'ok', [b'some', e]]
            if got != want:
                return 'get %r: expected %s got %s' % (k, sexp.dumps(want), sexp.dumps(got))
        else:
            ks = [p[0] for p in got]
            if len(set(ks)) != len(ks):
                return 'iter yields a key twice: ' + sexp.dumps(got)
            if {p[0]: p[1] for p in got} != e:
                return 'iter does not yield the last-written value of every key: ' + sexp.dumps(got)
    return None


def nontrivial(case, out):
    if '(set' in case and ('(get' in case or '(iter' in case):
        return out
    return None

MANIFEST = {
    'text': 'Rocq theorems over ALL write lists and keys: set is total, every reachable FluentArgs is strictly sorted, get returns the '
            'last write (none for unset keys), set changes no other key, iter yields each key once with its last value. The model is '
            'tied to args.rs by running the extracted model and the real FluentArgs on the same op sequences (exhaustive over 4 '
            'prefix-related keys to a length bound + random typed sequences through set/collect/fluent_args!).',
    'note': 'Trusted: Coq kernel; extraction (ExtrOcamlBasic); binary_search_by_key modelled by its contract on sorted slices; values '
            'opaque in the model, their round trip (type, options, borrowed/owned) is covered by the correspondence run only.',
    'technique': 'Rocq proof (induction over write lists, refinement to last-write map) + differential correspondence check',
    'design_ref': 'DESIGN.md §4 C11',
}

"""Shared case builders, generators and output helpers for the resolver properties C06, C08, C09
(harness/src/bin/bundle_run.rs  <->  coq/theories/Extract/ExtractC06.v).  Not a plugin itself."""
import math
import struct
from decimal import Decimal

import engine
import sexp

DEF = [b'cardinal', b'decimal', b'none', b'symbol', b'true', b'none', b'none', b'none', b'none', b'none']
ALL_FUNCS = [b'NUMBER', b'IDENTITY', b'CONCAT', b'FAIL', b'NONE', b'COUNT', b'CUSTOM', b'NUM']
LOCALES = [b'en', b'en-US', b'pl', b'fr', b'ar', b'ja', b'lt', b'cs', b'ru', b'xx', b'nn', b'eo', b'lb']
FSI = '⁨'
PDI = '⁩'
MAXP = 100


def opts(ty=b'cardinal', mfd=None, minint=None, maxfd=None):
    o = list(DEF)
    o[0] = ty
    if minint is not None:
        o[5] = [b'some', minint]
    if mfd is not None:
        o[6] = [b'some', mfd]
    if maxfd is not None:
        o[7] = [b'some', maxfd]
    return o


def rust_display(x):
    """Rust's `f64::to_string()`: shortest round-trip digits, positional notation."""
    if math.isnan(x):
        return 'NaN'
    if math.isinf(x):
        return 'inf' if x > 0 else '-inf'
    s = format(Decimal(repr(x)), 'f')
    if '.' in s:
        s = s.rstrip('0').rstrip('.')
    return s


def mnum(x, o=None):
    return [b'mnum', rust_display(x).encode(), o or DEF]


def v_str(s, own=b'o'):
    return [b'str', own, s]


def v_int(ty, v):
    return [b'conv', [b'int', ty, str(v).encode() if abs(v) >= 2 ** 62 else v], mnum(float(v))]


def v_f64(x):
    return [b'conv', [b'flt', b'f64', struct.pack('>d', x)], mnum(x)]


def v_f32(x):
    f = struct.unpack('>f', struct.pack('>f', x))[0]
    return [b'conv', [b'flt', b'f32', struct.pack('>f', x)], mnum(f)]


def v_numstr(s):
    """FluentValue::try_number(s) for s in the literal grammar."""
    t = s.decode()
    mfd = len(t) - t.index('.') - 1 if '.' in t else None
    return [b'conv', [b'numstr', s], mnum(float(t), opts(mfd=mfd))]


INT_TYPES = {'i8': (-2 ** 7, 2 ** 7 - 1), 'i16': (-2 ** 15, 2 ** 15 - 1), 'i32': (-2 ** 31, 2 ** 31 - 1),
             'i64': (-2 ** 63, 2 ** 63 - 1), 'i128': (-2 ** 127, 2 ** 127 - 1), 'isize': (-2 ** 63, 2 ** 63 - 1),
             'u8': (0, 2 ** 8 - 1), 'u16': (0, 2 ** 16 - 1), 'u32': (0, 2 ** 32 - 1), 'u64': (0, 2 ** 64 - 1),
             'u128': (0, 2 ** 128 - 1), 'usize': (0, 2 ** 64 - 1)}

EXTREME_F64 = [float('nan'), float('inf'), float('-inf'), 1e300, -1e300, 5e-324, 2.2250738585072014e-308, -0.0, 0.0,
               1.7976931348623157e308, 0.1234567890123456, 123456789.12345679, 0.30000000000000004, 1e21, 1e22,
               9007199254740993.0, 18446744073709551615.0, 1.5, 2.5, 1000000.0, 0.1, 1e-7, 4.35, 100.0, 11.0, 12.0, 21.0]


def extreme_values():
    vs = [v_f64(x) for x in EXTREME_F64]
    for ty, (lo, hi) in sorted(INT_TYPES.items()):
        for v in (lo, hi, 0, 1, 2, 5, 11, 21, 101):
            if lo <= v <= hi:
                vs.append(v_int(ty.encode(), v))
    vs += [v_f32(x) for x in (0.1, 1.0 / 3.0, 3.4e38, 1e-45, 16777217.0)]
    vs += [v_numstr(s) for s in (b'1.0', b'1.50', b'01', b'-0', b'-0.0', b'1.00000000000000000000', b'0.000', b'100.10', b'2.000000000000000000000')]
    vs += [mnum(1.0, opts(mfd=n)) for n in (0, 1, 2, 19, 20, 21, 25)]
    vs += [mnum(1.5, opts(mfd=n)) for n in (0, 1, 19, 20, 21, 30)]
    vs += [mnum(3.0, opts(ty=b'ordinal')), mnum(2.0, opts(ty=b'ordinal', mfd=1)), mnum(123456.789, opts(mfd=2, minint=3, maxfd=1))]
    return vs


def rand_value(rng):
    k = rng.randrange(10)
    if k == 0:
        return v_str(rng.choice([b'', b'John', b'\xc3\xa9t\xc3\xa9', b'one', b'other', b'few', b'1', b'1.0', b'a b', b'bcd', b'x']), rng.choice([b'b', b'o']))
    if k == 1:
        return v_f64(rng.choice(EXTREME_F64))
    if k == 2:
        ty = rng.choice(sorted(INT_TYPES))
        lo, hi = INT_TYPES[ty]
        return v_int(ty.encode(), rng.choice([lo, hi, 0, 1, 2, 3, 5, 11, 12, 21, 22, 100, 101, rng.randint(lo, hi), rng.randint(max(lo, -200), min(hi, 200))]))
    if k == 3:
        return mnum(rng.choice([0.0, 1.0, 2.0, 3.0, 1.5, 11.0, 21.0, 1000000.0, 0.5]),
                    opts(ty=rng.choice([b'cardinal', b'ordinal']), mfd=rng.choice([None, 0, 1, 2, 3, 19, 20, 25])))
    if k == 4:
        return rng.choice([b'none', b'error', [b'custom', b'cust']])
    if k == 5:
        return v_numstr(rng.choice([b'1', b'1.0', b'1.00', b'2', b'0', b'0.0', b'-1', b'3.50', b'5.000000000000000000000', b'12', b'22.0']))
    if k == 6:
        return v_f32(rng.choice([0.1, 1.0, 2.5, 3.4e38]))
    return mnum(float(rng.randrange(0, 30)))


class Case:
    def __init__(self, ftls, entry, args=None, iso=True, transform=b'none', formatter=b'none', funcs=None,
                 locales=(b'en',), flavour=b'single', expect=(), forbid=()):
        self.ftls = [f if isinstance(f, bytes) else f.encode() for f in ftls]
        self.entry = entry
        self.args = args
        self.cfg = [b'cfg', b'true' if iso else b'false', transform, formatter, list(ALL_FUNCS if funcs is None else funcs),
                    list(locales), flavour]
        self.expect = list(expect)
        self.forbid = list(forbid)


def msg(id_, attr=None):
    return [b'msg', id_ if isinstance(id_, bytes) else id_.encode(),
            b'none' if attr is None else [b'some', attr if isinstance(attr, bytes) else attr.encode()]]


def term(id_, attr=None):
    return [b'term', id_ if isinstance(id_, bytes) else id_.encode(),
            b'none' if attr is None else [b'some', attr if isinstance(attr, bytes) else attr.encode()]]


def mkargs(d):
    """d: list of (key, value) pairs (insertion order) or None."""
    if d is None:
        return b'none'
    return [b'args'] + [[k if isinstance(k, bytes) else k.encode(), v] for k, v in d]


_TREE_CACHE = {}


def trees_for(texts):
    """AST of each FTL text as the REAL runtime parser builds it (harness syn_run)."""
    need = [t for t in dict.fromkeys(texts) if t not in _TREE_CACHE]
    if need:
        outs = engine.run_lines(engine.harness_bin('syn_run'), [sexp.dumps([b'parse_runtime', t]) for t in need])
        for t, o in zip(need, outs):
            r = sexp.loads(o)
            if sexp.tag(r) != 'ok':
                raise RuntimeError('syn_run failed on %r: %s' % (t, o[:200]))
            _TREE_CACHE[t] = r[1]
    return {t: _TREE_CACHE[t] for t in set(texts)}


def render(cases):
    """Case objects -> case lines, with the tree of every resource text embedded."""
    texts = []
    for c in cases:
        texts.extend(c.ftls)
    tr = trees_for(texts)
    lines = []
    for c in cases:
        x = [b'fmt', c.cfg, [[b'r', t, tr[t]] for t in c.ftls], c.entry, mkargs(c.args)]
        if c.expect:
            x.append([b'expect'] + [e.encode() if isinstance(e, str) else e for e in c.expect])
        if c.forbid:
            x.append([b'forbid'] + [e.encode() if isinstance(e, str) else e for e in c.forbid])
        lines.append(sexp.dumps(x))
    return lines


# ---------------------------------------------------------------------------------------------
# designed generators

HELPERS = '''m7 = { "b" }{ "c" }{ "d" }
-t7 = { "b" }{ "c" }{ "d" }
    .attr = { "e" }{ "f" }x
m8 = v
    .attr = { "e" }{ "f" }y
novalue =
    .attr = q
'''

PROBES = [
    '{ 1 ->\n    [one] {m7}\n   *[other] y\n }',           # historical D9 witness
    '{ { m7 } }',                                            # historical D9 witness
    '{ $n ->\n    [one] { m7 }\n   *[other] { m7 }z\n }',
    '{ 1.00000000000000000000 ->\n    [one] { m7 }\n   *[other] o{ m7 }\n }',   # D10 witness inside
    '{ IDENTITY(m7) }', '{ CONCAT(m7, -t7, "k") }', '{ NUMBER(m7) }', '{ NOPE(m7) }', '{ COUNT(m7, m7) }',
    '{ -t7 }', '{ -t7(a: 1) }', '{ m8.attr }', '{ m7 }',
    '{ -t7.attr ->\n    [x] X\n   *[other] { m7 }\n }',
    '{ IDENTITY(m7) ->\n    [bcd] hit{ m7 }\n   *[other] { m7 }\n }',
    '{ NUMBER(1, minimumFractionDigits: 25) ->\n    [one] { m7 }\n   *[other] o{ m7 }\n }',
    '{ $x }', '{ "lit" }', '{ 5 }', '{ { { $x } } }', '{ { { { m7 } } } }',
    '{ missing }', '{ -missing }', '{ NOFN() }', '{ novalue }', '{ m8.nope }', '{ -t7(a: IDENTITY(m7)) }',
    '{ IDENTITY(IDENTITY(IDENTITY(m7))) }', '{ FAIL(m7) }', '{ { FAIL() } }', '{ { 1 } }', '{ { "s" } }',
    '{ CUSTOM("p") ->\n   *[other] { m7 }\n }',
]


def gen_limit_positions(rng, tier):
    """The placeable limit forced to trip at every syntactic position: k literal placeables first."""
    cases = []
    ks = range(92, 102) if tier == 'quick' else range(85, 103)
    for pi, probe in enumerate(PROBES):
        for k in ks:
            ftl = HELPERS + 'entry = ' + '{ "a" }' * k + probe + '{ $z }tail\n'
            for iso in ((True, False) if (k + pi) % 2 == 0 or tier != 'quick' else (True,)):
                cases.append(Case([ftl], msg('entry'), [('n', mnum(1.0)), ('x', v_str(b'X')), ('z', v_str(b'Z'))], iso=iso,
                                  expect=['TooManyPlaceables'] if k >= MAXP else [], forbid=['Cyclic']))
    # the same inside a term attribute / message attribute / variant pattern as the entry point
    for k in (97, 98, 99, 100, 101):
        ftl = HELPERS + 'holder = h\n    .attr = ' + '{ "a" }' * k + '{ { m7 } }\n-tt = x\n    .attr = ' + '{ "a" }' * k + '{ 1 ->\n    [one] {m7}\n   *[other] y\n }\n'
        cases.append(Case([ftl], msg('holder', 'attr'), None, expect=['TooManyPlaceables'] if k >= MAXP else []))
        cases.append(Case([ftl], term('tt', 'attr'), None, expect=['TooManyPlaceables'] if k >= MAXP else []))
    return cases


def gen_graphs(rng, tier):
    cases = []
    # chains
    for n in (1, 2, 10, 50, 99, 100, 101, 102, 150) + ((300, 1000) if tier != 'quick' else ()):
        ftl = ''.join('m%d = { m%d }\n' % (i, i + 1) for i in range(n)) + 'm%d = end\n' % n
        cases.append(Case([ftl], msg('m0'), None, expect=['TooManyPlaceables'] if n > MAXP else [], forbid=['Cyclic']))
        ftl2 = ''.join('-t%d = x{ -t%d }\n' % (i, i + 1) for i in range(n)) + '-t%d = end\nm = { -t0 }\n' % n
        cases.append(Case([ftl2], msg('m'), None, iso=(n % 2 == 0), expect=['TooManyPlaceables'] if n + 1 > MAXP else []))
    # fan-out ("billion laughs") of several arities
    for arity in range(2, 11):
        for depth in range(1, 10 if tier != 'quick' else 8):
            total = sum(arity ** i for i in range(1, depth + 1))
            ftl = 'lol0 = lol\n' + ''.join('lol%d = %s\n' % (d, ('{ lol%d }' % (d - 1)) * arity) for d in range(1, depth + 1))
            cases.append(Case([ftl], msg('lol%d' % depth), None, iso=(arity + depth) % 2 == 0,
                              expect=['TooManyPlaceables'] if total > MAXP else [], forbid=['Cyclic'] + ([] if total > MAXP else ['TooManyPlaceables'])))
            if depth <= 4:
                ftl_t = '-lol0 = lol\n' + ''.join('-lol%d = %s\n' % (d, ('{ -lol%d }' % (d - 1)) * arity) for d in range(1, depth + 1)) + \
                        'm = a{ CONCAT(%s) }\n' % ', '.join(['-lol%d' % depth] * 3)
                cases.append(Case([ftl_t], msg('m'), None))
    # amplification through term parameters (D32): a named argument whose value is a REFERENCE, not a literal, hands the whole resolved
    # string to the term, which can print it several times per level; no limit trips, the output grows as arity^depth
    for arity, depth in ((2, 6), (3, 5), (3, 13), (2, 20)):
        ftl = '-t = ' + '{$x}' * arity + '\nm0 = ab\n' + ''.join('m%d = { -t(x: m%d) }\n' % (i, i - 1) for i in range(1, depth + 1))
        cases.append(Case([ftl], msg('m%d' % depth), None, iso=False))
    ftl = '-t = {$x}{$x}{$x}\nm0 = ab\n' + ''.join('m%d = { -t(x: IDENTITY(m%d)) }\n' % (i, i - 1) for i in range(1, 13))
    cases.append(Case([ftl], msg('m12'), None, iso=False))
    # fan-out through select variants, attributes and call arguments
    ftl = 'lol0 = lol\n' + ''.join(
        'lol%d = { $n ->\n    [one] %s\n   *[other] %s\n }\n    .a = %s\n' % (d, ('{ lol%d }' % (d - 1)) * 4, ('{ lol%d.a }' % (d - 1)) * 5 if d > 1 else 'x',
                                                                             ('{ IDENTITY(lol%d) }' % (d - 1)) * 3) for d in range(1, 7))
    for d in range(1, 7):
        for n in (1.0, 2.0):
            cases.append(Case([ftl], msg('lol%d' % d), [('n', mnum(n))]))
            cases.append(Case([ftl], msg('lol%d' % d, 'a'), [('n', mnum(n))], iso=False))
    # cycles through messages, terms, attributes, variants, call arguments; self reference
    cyc = [
        ('a = { a }\n', msg('a')),
        ('a = x{ a }y\n', msg('a')),
        ('a = { b }\nb = { a }\n', msg('a')),
        ('a = { b }\nb = { c }\nc = { d }\nd = { e }\ne = { a }\n', msg('c')),
        ('-t = { -t }\nm = { -t }\n', msg('m')),
        ('-t = { -u }\n-u = x{ -t }\nm = m{ -t }\n', msg('m')),
        ('m = x\n    .a = { m.b }\n    .b = { m.a }\n', msg('m', 'a')),
        ('m = { m.a }\n    .a = { m }\n', msg('m')),
        ('s = { $n ->\n    [one] { s }\n   *[other] o\n }\n', msg('s')),
        ('s = { $n ->\n    [one] a{ s }b\n   *[other] o\n }\n', msg('s')),
        ('-t = { $n ->\n    [0] done\n   *[other] { -t(n: 0) }\n }\nm = { -t(n: 1) }\n', msg('m')),
        ('a = { IDENTITY(a) }\n', msg('a')),
        ('a = { CONCAT(b, b) }\nb = { a }\n', msg('a')),
        ('-t = x\n    .a = { -t.a ->\n       *[other] y\n     }\nm = { -t.a ->\n   *[other] z\n }\n', msg('m')),
        ('a = { a }{ a }{ a }\n', msg('a')),
        ('a = { b }{ b }\nb = { a }{ a }\n', msg('a')),
        ('a = { { a } }\n', msg('a')),
        ('a = { 1 ->\n    [one] { a }\n   *[other] o\n }\n', msg('a')),
        ('-t = { -t }\n', term('t')),
        ('-t = x\n    .a = { -t.a ->\n       *[other] y\n     }\n', term('t', 'a')),
    ]
    for ftl, entry in cyc:
        for iso in (True, False):
            cases.append(Case([ftl], entry, [('n', mnum(1.0))], iso=iso, expect=['Cyclic']))
    # long cycles and cycles below a fan-out
    for n in (3, 7, 30, 99, 100, 101):
        ftl = ''.join('c%d = { c%d }\n' % (i, (i + 1) % n) for i in range(n))
        cases.append(Case([ftl], msg('c0'), None, expect=['Cyclic'] if n <= MAXP else ['TooManyPlaceables']))
    ftl = 'top = { mid }{ mid }{ mid }\nmid = { cyc }{ top }\ncyc = { cyc }\n'
    cases.append(Case([ftl], msg('top'), None, expect=['Cyclic']))
    # D31 (fixed): entries with the same pattern TEXT are different objects; cycle detection is by identity
    same = '{ $k ->\n    [1] { -b(k: 2) }\n   *[other] end\n }\n'
    ftl = '-a = ' + same + '-b = ' + same + 'e = { -a(k: 1) }\nf = { -b(k: 2) }\ng = { -b(k: 1) }\nh = x{ -a(k: 1) }{ -a(k: 1) }{ -b(k: 2) }\n'
    for e, exp, forb in (('e', [], ['Cyclic']), ('f', [], ['Cyclic']), ('g', ['Cyclic'], []), ('h', [], ['Cyclic'])):
        for iso in (True, False):
            cases.append(Case([ftl], msg(e), None, iso=iso, expect=exp, forbid=forb))
    ftl = 'm1 = a{ $x }\nm2 = a{ $x }\n-t1 = a{ $x }\n-t2 = a{ $x }\n    .a = a{ $x }\ntop = { m1 }{ m2 }{ -t1 }{ -t2 }{ m1 }\nnest = a{ $x }\n'
    cases.append(Case([ftl], msg('top'), [('x', v_str(b'X'))], forbid=['Cyclic']))
    cases.append(Case([ftl], term('t2', 'a'), [('x', v_str(b'X'))], forbid=['Cyclic']))
    return cases


def gen_missing(rng, tier):
    base = '-t = term{ $arg }\n    .attr = tattr\nm = val\n    .attr = mattr\nnovalue =\n    .attr = q\n'
    refs = ['missing', 'missing.attr', 'm.nope', '-missing', '-t(x: 1)', '-missing(x: 1)', 'NOPE()', 'NOPE(missing, $nope)', '$nope', 'novalue',
            'novalue.nope', 'IDENTITY($nope)', 'IDENTITY(missing)', 'IDENTITY(-missing)', 'CONCAT(m.nope, novalue, NOPE())', 'NUMBER($nope)',
            'NUMBER("str")', 'NUMBER()', 'FAIL()', 'NONE()', 'IDENTITY(FAIL())', 'IDENTITY(NONE())', 'CUSTOM()', 'IDENTITY()', 'm', 'm.attr', '-t',
            'NUM(1, 2, 3)', 'COUNT()', 'number', 'NUMBER', 'IDENTITY']
    sels = ['$nope', 'NOPE()', '-t.nope', '-missing.attr', '-t.attr', 'FAIL()', 'NONE()', 'CUSTOM("x")', 'IDENTITY($nope)', 'IDENTITY(missing)', '"str"', '1']
    cases = []
    for r in refs:
        for shape in ('e = { %s }\n', 'e = a{ %s }b\n', 'e = { { %s } }\n', 'e = { IDENTITY(%s) }\n', 'e = x{ CONCAT(%s, "k") }\n'):
            if shape.count('(') and r in ('number', 'NUMBER', 'IDENTITY'):
                continue
            ftl = base + shape % r
            cases.append(Case([ftl], msg('e'), [('arg', v_str(b'A'))], iso=len(cases) % 3 != 0))
    for s in sels:
        ftl = base + 'e = { %s ->\n    [one] One\n    [str] Str\n   *[other] Other\n }\n' % s
        cases.append(Case([ftl], msg('e'), None))
        ftl = base + 'e = { %s ->\n    [one] One\n    [other] Other\n }\n' % s          # no default: parser error, junk
        cases.append(Case([ftl], msg('e'), None))
    # term parameters: missing local argument is not an error; caller's variables are invisible in terms
    ftl = base + 'e1 = { -t }\ne2 = { -t(arg: "L") }\ne3 = { -t(other: 1) }\ne4 = a{ -t(arg: 1) }{ $arg }{ -t }\n' \
                 '-outer = { -inner } { $arg }\n-inner = x\ne5 = { -outer(arg: "A") }\n' \
                 '-outer2 = { -inner2(arg: "I") } { $arg }\n-inner2 = i{ $arg }\ne6 = { -outer2(arg: "O") } { $arg }\n'
    for e in ('e1', 'e2', 'e3', 'e4', 'e5', 'e6'):
        for a in (None, [('arg', v_str(b'CALLER'))]):
            cases.append(Case([ftl], msg(e), a))
    # functions/messages/terms sharing one key space; functions not registered
    ftl = 'NUMBER = I am a message\nIDENTITY = me too\nm = { NUMBER(1) }{ IDENTITY("x") }{ NUMBER }{ CONCAT("a") }\n'
    cases.append(Case([ftl], msg('m'), None))
    cases.append(Case([ftl], msg('m'), None, funcs=[]))
    cases.append(Case(['t = message\n-t = term\nm = { t }{ -t }\n'], msg('m'), None))
    cases.append(Case(['-t = term\nt = message\nm = { t }{ -t }\n'], msg('m'), None))
    cases.append(Case(['m = first\nm = second\ne = { m }\n', 'm = third\n-m = fourth\n'], msg('e'), None))
    cases.append(Case(['e = { m }{ -m }\n', 'm = third\n-m = fourth\n'], msg('e'), None))
    return cases


KEYSETS = [
    ['[one] One', '[few] Few', '[many] Many', '[zero] Zero', '[two] Two', '*[other] Other'],
    ['[1] Exact1', '[one] One', '*[other] Other'],
    ['[one] One', '[1] Exact1', '*[other] Other'],
    ['[1.0] Exact10', '[0] Zero', '[-1] Neg', '*[x] X'],
    ['[other] Other', '*[one] DefOne'],
    ['[John] J', '[one] One', '[1] Exact1', '[1.5] Exact15', '*[bcd] Dflt'],
    ['[two] Two', '[2] Exact2', '[few] Few', '*[many] Many'],
]


def gen_selects(rng, tier):
    cases = []
    vals = extreme_values() + [v_str(s) for s in (b'one', b'other', b'John', b'1', b'1.0', b'', b'few', b'bcd')] + \
        [b'none', b'error', [b'custom', b'c1']] + [mnum(float(i)) for i in list(range(0, 26)) + [100, 101, 102, 111, 1000000]] + \
        [mnum(x, opts(mfd=m)) for x in (0.0, 1.0, 2.0, 5.0) for m in (0, 1, 2)] + \
        [mnum(float(i), opts(ty=b'ordinal')) for i in (1, 2, 3, 4, 11, 12, 13, 21, 22, 23, 101, 111)]
    locs = LOCALES if tier != 'quick' else [b'en', b'pl', b'ar', b'lt', b'fr', b'cs', b'ru', b'ja', b'nn', b'eo']
    j = 0
    for ks in KEYSETS:
        body = ''.join('    %s{ $n }\n' % k if i % 2 == 0 else '    %s\n' % k for i, k in enumerate(ks))
        for sel in ('$n', 'NUMBER($n)', 'NUMBER($n, type: "ordinal")', 'IDENTITY($n)', 'NUMBER($n, minimumFractionDigits: 1)'):
            ftl = 'e = { %s ->\n%s }\n' % (sel, body)
            step = 1 if tier != 'quick' else 5
            for v in vals[j % step::step]:
                j += 1
                cases.append(Case([ftl], msg('e'), [('n', v)], locales=[locs[j % len(locs)]], iso=j % 2 == 0,
                                  flavour=b'concurrent' if j % 7 == 0 else b'single'))
    # cardinal and ordinal rules needed by different messages of one bundle (memoizer keyed by rule type)
    two = 'o = { NUMBER($n, type: "ordinal") ->\n    [one] st\n    [two] nd\n    [few] rd\n   *[other] th\n }\n' \
          'c = { $n ->\n    [one] one\n    [two] two\n    [few] few\n    [many] many\n   *[other] other\n }\n'
    for i in (0, 1, 2, 3, 4, 5, 11, 12, 21, 22, 23, 101):
        for e in ('o', 'c'):
            cases.append(Case([two], msg(e), [('n', mnum(float(i)))], locales=[b'en' if i % 2 else b'pl']))
            # languages with cardinal but without ordinal rules: the ordinal request must fall back, not fail
            cases.append(Case([two], msg(e), [('n', mnum(float(i)))], locales=[(b'nn', b'eo', b'lb')[i % 3]]))
    # literal selectors and function results
    for sel in ('1', '1.0', '1.00', '0', '2', '5', '11', '-1', '1.5', '1.00000000000000000000', '0.000000000000000000000', '2.0000000000000000000000',
                '"one"', '"John"', 'NUM()', 'NUM(1)', 'NUM(1, 2)', 'CUSTOM("a")', 'FAIL()', 'NONE()', 'CONCAT("o", "ne")', 'NUMBER(1, minimumFractionDigits: 20)',
                'NUMBER(1.5, minimumFractionDigits: 25)', 'NUMBER(7, type: "ordinal")', 'NUMBER(3, type: "ordinal", minimumFractionDigits: 0)'):
        for ks in KEYSETS[:5]:
            ftl = 'e = { %s ->\n%s }\n' % (sel, ''.join('    %s\n' % k for k in ks))
            for loc in (b'en', b'pl', b'lt', b'ar'):
                cases.append(Case([ftl], msg('e'), None, locales=[loc]))
    return cases


def gen_numbers(rng, tier):
    """Number printing: literals, NUMBER options (never a huge minimumFractionDigits), arguments of every type."""
    cases = []
    lits = ['0', '1', '-1', '01', '007', '1.0', '1.50', '-0', '-0.0', '0.0', '3.14', '100', '100.00', '123456789012345', '0.00001', '1.00000000000000000000',
            '12.345678901234', '-5.5', '000.500', '99999999999999', '0.000000000000000000000000000001', '1000000000000000000000', '0.5000000000000000000000']
    body = ''.join('l%d = { %s } | { NUMBER(%s) } | { NUMBER(%s, minimumFractionDigits: 3) } | { IDENTITY(%s) }\n' % (i, l, l, l, l) for i, l in enumerate(lits))
    for i in range(len(lits)):
        for fm in (b'none', b'num'):
            cases.append(Case([body], msg('l%d' % i), None, formatter=fm, iso=i % 2 == 0))
    optsets = ['minimumFractionDigits: 0', 'minimumFractionDigits: 2', 'minimumFractionDigits: 19', 'minimumFractionDigits: 20', 'minimumFractionDigits: 21',
               'minimumFractionDigits: 30', 'minimumFractionDigits: 2.9', 'minimumFractionDigits: -1', 'minimumFractionDigits: "2"', 'type: "ordinal"',
               'type: "bogus"', 'type: 1', 'style: "percent"', 'currency: "USD", currencyDisplay: "name"', 'useGrouping: "false"', 'useGrouping: "no"',
               'minimumIntegerDigits: 3, maximumFractionDigits: 1, minimumSignificantDigits: 2, maximumSignificantDigits: 4', 'unknown: 1',
               'minimumFractionDigits: 1, type: "ordinal", style: "currency"']
    vals = extreme_values()
    step = 1 if tier != 'quick' else 3
    for oi, o in enumerate(optsets):
        ftl = 'e = { NUMBER($n, %s) } / { $n } / { NUMBER($n, %s) ->\n    [one] One\n    [few] Few\n   *[other] Other\n }\n' % (o, o)
        for v in vals[oi % step::step]:
            cases.append(Case([ftl], msg('e'), [('n', v)], formatter=b'none' if oi % 2 else b'num'))
    return cases


# ---------------------------------------------------------------------------------------------
# random bundles from a grammar

class RandBundle:
    def __init__(self, rng, allow_ref_resolve=True, string_formatter=False):
        self.rng = rng
        self.msgs = ['m%d' % i for i in range(rng.randint(1, 6))]
        self.terms = ['t%d' % i for i in range(rng.randint(0, 4))]
        self.allow_ref_resolve = allow_ref_resolve

    def text(self):
        return self.rng.choice(['a', 'b c', 'Hello', 'x', ' y ', 'é', '1', '.', '-', 'ok '])

    def numlit(self):
        return self.rng.choice(['0', '1', '2', '3', '5', '11', '21', '1.0', '1.50', '-1', '0.5', '100', '1.000000000000000000000', '2.00'])

    def strlit(self):
        return '"%s"' % self.rng.choice(['', 'a', 'one', 'other', 's t', '\\u0041', '\\\\', 'few', 'bcd', '\\"q'])

    def msgref(self):
        m = self.rng.choice(self.msgs + ['mx'])
        return m + self.rng.choice(['', '', '', '.a', '.b', '.zz'])

    def termref(self, depth):
        t = '-' + self.rng.choice(self.terms + ['tx'])
        r = self.rng.random()
        if r < 0.3:
            t += '(%s)' % ', '.join('%s: %s' % (self.rng.choice(['x', 'y', 'n']), self.rng.choice([self.numlit(), self.strlit()]))
                                    for _ in range(self.rng.randint(0, 2)))
        return t

    def call(self, depth, resolve_pos):
        f = self.rng.choice(['NUMBER', 'IDENTITY', 'CONCAT', 'FAIL', 'NONE', 'COUNT', 'CUSTOM', 'NUM', 'NOPE'])
        n = self.rng.randint(0, 3) if f != 'NUMBER' else self.rng.randint(1, 2)
        a = [self.inline(depth + 1, True) for _ in range(n)]
        if f == 'NUMBER' and self.rng.random() < 0.6:
            a.append(self.rng.choice(['minimumFractionDigits: %d' % self.rng.choice([0, 1, 2, 20, 25]), 'type: "ordinal"', 'type: "cardinal"',
                                      'useGrouping: "false"', 'style: "percent"']))
        elif self.rng.random() < 0.2:
            a.append('%s: %s' % (self.rng.choice(['k', 'x']), self.rng.choice([self.numlit(), self.strlit()])))
        return '%s(%s)' % (f, ', '.join(a))

    def inline(self, depth, resolve_pos=False):
        r = self.rng.random()
        if depth > 3:
            r *= 0.45
        if r < 0.15:
            return self.strlit()
        if r < 0.3:
            return self.numlit()
        if r < 0.45:
            return '$' + self.rng.choice(['x', 'y', 'n', 'q'])
        if r < 0.6:
            if resolve_pos and not self.allow_ref_resolve:
                return '$' + self.rng.choice(['x', 'n'])
            return self.msgref()
        if r < 0.72:
            if resolve_pos and not self.allow_ref_resolve:
                return self.numlit()
            return self.termref(depth)
        if r < 0.9:
            return self.call(depth, resolve_pos)
        if resolve_pos and not self.allow_ref_resolve:
            return self.strlit()
        return '{ %s }' % self.expr(depth + 1, False)

    def selector(self, depth):
        r = self.rng.random()
        if r < 0.45:
            return '$' + self.rng.choice(['x', 'y', 'n', 'q'])
        if r < 0.6:
            return self.numlit()
        if r < 0.68:
            return self.strlit()
        if r < 0.9 or not self.allow_ref_resolve or not self.terms:
            return self.call(depth, True)
        return '-%s.%s' % (self.rng.choice(self.terms), self.rng.choice(['a', 'b']))

    def expr(self, depth, allow_select=True):
        if allow_select and depth < 3 and self.rng.random() < 0.25:
            keys = self.rng.sample(['one', 'other', 'few', 'many', 'two', 'zero', '1', '2', '0', '1.0', 'a', 'bcd', 'John'], self.rng.randint(1, 4))
            d = self.rng.randrange(len(keys))
            ind = '    ' * (depth + 1)
            vs = ''.join('%s%s[%s] %s\n' % (ind, '*' if i == d else ' ', k, self.pattern(depth + 1, inline_only=True)) for i, k in enumerate(keys))
            return '%s ->\n%s%s' % (self.selector(depth), vs, ind)
        return self.inline(depth)

    def pattern(self, depth=0, inline_only=False):
        n = self.rng.choice([1, 1, 2, 2, 3, 4])
        parts = []
        for _ in range(n):
            if self.rng.random() < 0.45:
                parts.append(self.text())
            else:
                parts.append('{ %s }' % self.expr(depth + 1, allow_select=True))
        s = ''.join(parts)
        if s.strip() == '' or s[0] in ' .[*}':
            s = 'T' + s
        return s

    def ftl(self):
        out = []
        for m in self.msgs:
            if self.rng.random() < 0.1:
                out.append('%s =\n' % m)
                attrs = ['a']
            else:
                out.append('%s = %s\n' % (m, self.pattern()))
                attrs = [a for a in ('a', 'b') if self.rng.random() < 0.3]
            for a in attrs:
                out.append('    .%s = %s\n' % (a, self.pattern()))
        for t in self.terms:
            out.append('-%s = %s\n' % (t, self.pattern()))
            for a in ('a', 'b'):
                if self.rng.random() < 0.4:
                    out.append('    .%s = %s\n' % (a, self.pattern()))
        return ''.join(out)


def gen_random(rng, n, allow_ref_resolve=True, formatters=(b'none', b'none', b'num', b'all'), prefix_limit=0.15):
    cases = []
    for _ in range(n):
        rb = RandBundle(rng, allow_ref_resolve=allow_ref_resolve)
        ftl = rb.ftl()
        if rng.random() < prefix_limit:
            # push the counter close to the limit before the random pattern starts
            k = rng.randint(90, 100)
            ftl += 'pre = %s{ %s }\n' % ('{ "a" }' * k, rb.msgs[0])
            entries = [msg('pre')]
        else:
            entries = [msg(m) for m in rb.msgs] + [msg(rb.msgs[0], 'a')] + [term(t) for t in rb.terms[:1]]
        a = None
        if rng.random() < 0.85:
            a = [(k, rand_value(rng)) for k in rng.sample(['x', 'y', 'n'], rng.randint(0, 3))]
            if a and rng.random() < 0.15:
                a.append((a[0][0], rand_value(rng)))           # repeated key: last write wins
        cfg = dict(iso=rng.random() < 0.6, transform=rng.choice([b'none', b'none', b'upper', b'brackets']), formatter=rng.choice(formatters),
                   funcs=rng.choice([None, None, None, [b'NUMBER'], [], [b'CONCAT', b'IDENTITY', b'NUM']]),
                   locales=[rng.choice(LOCALES)] + ([b'en'] if rng.random() < 0.2 else []),
                   flavour=b'concurrent' if rng.random() < 0.15 else b'single')
        for e in entries[:rng.randint(1, 3)]:
            cases.append(Case([ftl], e, a, **cfg))
    return cases


# ---------------------------------------------------------------------------------------------
# reading outputs / cases

def parse_out(out):
    """-> ('panic', msg) | ('timeout',) | ('skipped',) | ('missing',) | ('ok', core dict, extras dict) | ('bad', text)"""
    try:
        o = sexp.loads(out)
    except ValueError:
        return ('bad', out[:200])
    t = sexp.tag(o)
    if t in ('PANIC', 'CRASH', 'HARNESS-PARSE-ERROR', 'OUT-OF-FUEL', 'BAD-CASE'):
        return ('panic', out[:300])
    if t == 'TIMEOUT':
        return ('timeout',)
    if t == 'SKIPPED-AFTER-TIMEOUT':
        return ('skipped',)
    if t != 'ok':
        return ('bad', out[:200])
    if o[1] == b'missing':
        return ('missing',)
    core = {}
    for part in o[1]:
        core[sexp.tag(part)] = part[1:]
    extras = {}
    if len(o) > 2:
        for part in o[2][1:]:
            extras[sexp.tag(part)] = part[1:]
    return ('ok', core, extras)


def project(out):
    """What model and implementation are compared on: the core part; any panic is just PANIC."""
    try:
        o = sexp.loads(out)
    except ValueError:
        return out
    t = sexp.tag(o)
    if t in ('PANIC',):
        return '(PANIC)'
    if t == 'ok' and len(o) > 2:
        return sexp.dumps(o[:2])
    return out


def err_names(errs):
    return [sexp.tag(e) for e in errs]


def case_info(case):
    c = sexp.loads(case)
    cfg = c[1]
    info = {'iso': cfg[1] == b'true', 'transform': cfg[2], 'formatter': cfg[3], 'funcs': cfg[4], 'locales': cfg[5], 'flavour': cfg[6],
            'res': c[2], 'entry': c[3], 'args': c[4], 'expect': [], 'forbid': []}
    for extra in c[5:]:
        if extra and extra[0] in (b'expect', b'forbid'):
            info[extra[0].decode()] = [x.decode() for x in extra[1:]]
    return info


def walk(x, f):
    f(x)
    if isinstance(x, list):
        for y in x:
            walk(y, f)


def count_nodes(res, tagname):
    n = [0]

    def f(x):
        if isinstance(x, list) and x and x[0] == tagname.encode():
            n[0] += 1
    for r in res:
        walk(r[2], f)
    return n[0]


def resolve_position_refs(res):
    """True if some selector or call argument is a message/term reference or a nested placeable
    (class D23: isolation marks can reach a value that is compared or passed on)."""
    hit = [False]

    def is_ref(i):
        return isinstance(i, list) and i and i[0] in (b'mref', b'tref', b'pl')

    def f(x):
        if isinstance(x, list) and x:
            if x[0] == b'sel' and is_ref(x[1]):
                hit[0] = True
            if x[0] == b'args' and len(x) == 3:
                for i in x[1]:
                    if is_ref(i):
                        hit[0] = True
                for nm in x[2]:
                    if isinstance(nm, list) and len(nm) == 3 and is_ref(nm[2]):
                        hit[0] = True
    for r in res:
        walk(r[2], f)
    return hit[0]


# ---------------------------------------------------------------------------------------------
# witnesses of past failures and of the two recorded findings (also written to corpus/ by tools below)

def witnesses_c06():
    cs = []
    for k in (99, 100):
        for probe in PROBES[:2]:
            cs.append(Case([HELPERS + 'entry = ' + '{ "a" }' * k + probe + '\n'], msg('entry'), None, expect=['TooManyPlaceables']))
    cs.append(Case(['e = { 1.00000000000000000000 ->\n    [one] A\n   *[other] B\n }\n'], msg('e'), None))                      # D10
    cs.append(Case(['e = { NUMBER(1, minimumFractionDigits: 25) ->\n    [one] A\n   *[other] B\n }\n'], msg('e'), None))          # D10
    cs.append(Case(['e = { NUMBER($n, minimumFractionDigits: 20) ->\n    [one] A\n   *[other] B\n }\n'], msg('e'), [('n', mnum(1.5))], locales=[b'lt']))
    cs.append(Case(['-inner = x\n-outer = { -inner } { $arg }\nmsg = { -outer(arg: "A") }\n'], msg('msg'), None))               # D12
    cs.append(Case(['-inner = x\n-outer = { -inner } { $arg }\nmsg = { -outer(arg: "A") }\n'], msg('msg'), [('arg', v_str(b'CALLER'))]))
    cs.append(Case(['e = { NOPE() ->\n    [a] A\n   *[b] B\n }\nf = { NUMBER(NOPE()) }\n'], msg('e'), None))                     # D13
    cs.append(Case(['e = { NOPE() ->\n    [a] A\n   *[b] B\n }\nf = { NUMBER(NOPE()) }\n'], msg('f'), None))
    cs.append(Case(['e = { NUMBER($n, type: "ordinal") ->\n    [1] first\n   *[other] nth\n }\n'], msg('e'), [('n', mnum(1.0))]))  # D14
    cs.append(Case(['e = { 1.0 ->\n    [1] A\n   *[other] B\n }\n'], msg('e'), None))                                             # D14
    cs.append(Case(['lol0 = lol\n' + ''.join('lol%d = %s\n' % (d, ('{ lol%d }' % (d - 1)) * 10) for d in range(1, 10))], msg('lol9'), None,
                   expect=['TooManyPlaceables']))
    cs.append(Case(['a = { b }\nb = { a }\n'], msg('a'), None, expect=['Cyclic']))
    return cs


def witnesses_d31():
    same = '{ $k ->\n    [1] { -b(k: 2) }\n   *[other] end\n }\n'
    ftl = '-a = ' + same + '-b = ' + same + 'e = { -a(k: 1) }\nf = { -b(k: 2) }\ng = { -b(k: 1) }\n'
    return [Case([ftl], msg('e'), None, iso=False, forbid=['Cyclic']), Case([ftl], msg('f'), None, iso=False, forbid=['Cyclic']),
            Case([ftl], msg('g'), None, iso=False, expect=['Cyclic'])]


def witnesses_c08():
    cs = [Case(['hello = Hello { $name }\n'], msg('hello'), [('name', v_str(b'X'))], formatter=b'all'),          # D22 (fixed): regression case
          Case(['hello = Hello\n'], msg('hello'), None, formatter=b'all'),                                     # D22 (fixed), single-text shortcut: regression case
          Case(['hello = Hello\n'], msg('hello'), None, transform=b'upper'),                                   # shortcut must transform
          Case(['hello = Hello { $n }\n'], msg('hello'), [('n', mnum(1.5))], formatter=b'num'),
          Case(['-inner = x\n-outer = { -inner } { $arg }\nmsg = { -outer(arg: "A") }\n'], msg('msg'), [('arg', v_str(b'C'))]),
          Case(['e = { $a }{ $b }{ $c }{ $d }\n'], msg('e'), [('d', v_str(b'4')), ('b', v_str(b'2')), ('a', v_str(b'1')), ('c', v_str(b'3'))]),
          Case(['e = { $n ->\n    [one] One\n   *[other] Other\n }\nf = { $n ->\n    [few] Few\n   *[other] Other\n }\n'], msg('e'),
               [('n', mnum(1.0))], locales=[b'pl'])]
    return cs


def witnesses_c09():
    d23 = '-t = x\n    .attr = a{ 1 }\nmsg = { -t.attr ->\n    [a1] MATCH\n   *[other] DEFAULT\n }\n'
    cs = [Case([d23], msg('msg'), None),                                                                         # D23
          Case(['-t = a{ 1 }\nmsg = x{ CONCAT(-t, "|") }\n'], msg('msg'), None),                               # D23 class (harmless here)
          Case(['e = a{ missing }b{ -gone }c{ NOPE() }d{ $nope }\n'], msg('e'), None),
          Case(['e = a{ e }b\n'], msg('e'), None, expect=['Cyclic']),
          Case([HELPERS + 'entry = ' + '{ 1 }' * 99 + 'x{ { m7 } }y\n'], msg('entry'), None, expect=['TooManyPlaceables']),
          Case([HELPERS + 'entry = ' + '{ 1 }' * 100 + 'x{ $x }y\n'], msg('entry'), None, expect=['TooManyPlaceables']),
          Case(['e = { $x }\nf = { e }\ng = a{ f }{ "lit" }{ -t }{ $x }\n-t = T{ $x }\n'], msg('g'), [('x', v_str(b'X'))]),
          Case(['e = { $x }\n'], msg('e'), [('x', v_str(b'X'))])]
    return cs


def gen_d23(rng):
    cs = []
    for inner in ('a{ 1 }', '{ $n }b', 'a{ NUM() }b', '{ 1 }{ 2 }'):
        ftl = '-t = x\n    .attr = %s\nmsg = { -t.attr ->\n    [a1] MATCH\n    [ab] B\n    [b] T\n   *[other] DEFAULT\n }\n' \
              'arg = z{ CONCAT(-t.attr) }{ IDENTITY(-t.attr) }\n' % inner
        for e in ('msg', 'arg'):
            cs.append(Case([ftl], msg(e), [('n', mnum(1.0))]))
    return cs

"""C02 — Well-formed FTL parses to exactly the tree the grammar assigns.
Spec: coq/theories/Syntax/Render.v (grammar as printer + wf_resource); theorems: Props/C02.v.
Generation is two-stage: random (tree, layout) pairs are rendered by the EXTRACTED Coq `render`, then the real parser
(and the model parser) parse the text; the oracle compares the parsed tree with the generator's tree."""
import os
import sexp
import synprops
import engine

ID = 'C02'
PROPS_FILE = 'theories/Props/C02.v'
PROPS_MODULE = 'Props.C02'
COQ_TARGETS = ['theories/Extract/ExtractSyntax.vo']
REQUIRED_THEOREMS = ['C02_roundtrip_simple_partial', 'C02_simple_is_wellformed', 'C02_layout_independent_simple_partial', 'C02_roundtrip_statement_refuted_by_D7', 'C02_roundtrip_multiline_partial', 'C02_multiline_is_wellformed', 'C02_layout_independent_multiline_partial', 'C02_simple_in_multiline', 'C02_roundtrip_select_partial', 'C02_select_is_wellformed', 'C02_layout_independent_select_partial', 'C02_select_depth_monotone', 'C02_roundtrip_wellformed_partial', 'C02_layout_independent_wellformed_partial', 'C02_roundtrip_nested_partial', 'C02_nested_is_wellformed', 'C02_wellformed_in_nested', 'C02_D7_parse', 'C02_wellformed_refuted_exactly', 'C02_D7_excluded', 'C02_rendered_source_is_utf8', 'C02_parse_all_layouts_partial', 'C02_rendered_is_layout', 'C02_nested_depth_monotone', 'C02_select_in_nested', 'C02_errorfree_source_tree_wellformed_partial', 'C02_relayout_errorfree_source_partial', 'C02_errorfree_source_tree_wellformed_crlf_partial', 'C02_relayout_errorfree_source_crlf_partial']
MODEL = 'syn'
HARNESS_BINS = ['syn_run']
ANCHORS = ['fluent-syntax/src/parser/core.rs', 'fluent-syntax/src/parser/pattern.rs', 'fluent-syntax/src/parser/expression.rs',
           'fluent-syntax/src/parser/comment.rs', 'fluent-syntax/src/parser/helper.rs', 'fluent-syntax/src/ast/mod.rs']
TRUSTED = ['Syntax/Render.v is OUR formalisation of the Fluent 1.0 grammar as a printer with layout choices; its adequacy is trusted and '
           'validated only by tests (reference JSON fixtures of the repo, round trips)',
           'the parser model (ParserModel.v) and its trusted base (C01)']
ASSUMPTIONS = ['resources are well-formed in the sense of wf_resource (Render.v)']
RULE = ('random well-formed trees x random layout choice streams, rendered by the extracted Coq render, parsed by the real full and '
        'runtime parsers; systematic per-construct enumeration of layouts; plus the reference .ftl/.json fixture pairs; '
        'non-trivial = tree has a message or term; distinct by implementation output')

IDS = [b'a', b'b', b'key', b'msg-1', b'x_y', b'Z9']
FUNCS = [b'FUN', b'NUMBER', b'F-1_X', b'A']
WORDS = [b'x', b'Hello', b'a b', b'\xc3\xa9t\xc3\xa9', b'x.y', b'1', b'w [z', b'q*', b'"q"', b'\\', b'= =', b'#no', b'-d', b'.d'[1:], b'(p)', b'\xf0\x9f\x98\x80']


def atom_opt(x):
    return b'none' if x is None else [b'some', x]


def gen_inline(rng, depth):
    k = rng.randrange(9 if depth > 0 else 6)
    if k == 0:
        return [b'str', rng.choice([b'', b'abc', b'\\u00e9', b'\\"', b'\\\\', b'\\{', b'\xc3\xa9', b'\\U01F600', b' sp ', b'{', b'}', b'a\\u0041b'])]
    if k == 1:
        return [b'num', rng.choice([b'0', b'1', b'-1', b'3.14', b'-0.5', b'007', b'1.000'])]
    if k == 2:
        return [b'vref', rng.choice(IDS)]
    if k == 3:
        return [b'mref', rng.choice(IDS), atom_opt(rng.choice([None, None, rng.choice(IDS)]))]
    if k == 4:
        return [b'tref', rng.choice(IDS), b'none', b'none']
    if k == 5:
        return [b'tref', rng.choice(IDS), b'none', [b'some', gen_args(rng, 0)]]
    if k == 6:
        return [b'fn', rng.choice(FUNCS), gen_args(rng, depth - 1)]
    if k == 7:
        return [b'pl', gen_expr(rng, depth - 1, allow_select=rng.random() < 0.3)]
    return [b'tref', rng.choice(IDS), b'none', [b'some', gen_args(rng, depth - 1)]]


def gen_args(rng, depth):
    pos = [gen_inline(rng, max(depth, 0)) for _ in range(rng.randrange(3))]
    names = rng.sample(IDS, rng.randrange(3))
    named = [[b'named', n, rng.choice([[b'str', b'v'], [b'num', b'1'], [b'num', b'-2.5'], [b'str', b'']])] for n in names]
    return [b'args', pos, named]


def gen_expr(rng, depth, allow_select=True):
    if allow_select and depth > 0 and rng.random() < 0.35:
        sel = rng.choice([[b'vref', rng.choice(IDS)], [b'fn', rng.choice(FUNCS), gen_args(rng, 0)], [b'num', b'1'], [b'str', b's'],
                          [b'tref', rng.choice(IDS), [b'some', rng.choice(IDS)], b'none'],
                          [b'tref', rng.choice(IDS), [b'some', rng.choice(IDS)], [b'some', gen_args(rng, 0)]]])
        n = rng.randint(1, 3)
        d = rng.randrange(n)
        keys = rng.sample([[b'id', b'one'], [b'id', b'other'], [b'id', b'few'], [b'num', b'0'], [b'num', b'1'], [b'num', b'2.5'], [b'num', b'-1'], [b'id', b'many']], n)
        return [b'sel', sel, [[b'var', keys[i], gen_pattern(rng, depth - 1), b'true' if i == d else b'false'] for i in range(n)]]
    i = gen_inline(rng, depth)
    if i[0] == b'tref' and i[2] != b'none':
        i[2] = b'none'
    return [b'in', i]


def gen_pattern(rng, depth, multiline=None):
    """joined-form pattern satisfying the line rules"""
    nlines = 1 if (multiline is False or (multiline is None and rng.random() < 0.6)) else rng.randint(2, 4)
    lines = []          # each line: list of items: bytes (text) or ('p', expr)
    for ln in range(nlines):
        if 0 < ln < nlines - 1 and rng.random() < 0.2:
            lines.append([])                      # blank line
            continue
        items = []
        for j in range(rng.randint(1, 3)):
            if rng.random() < 0.4:
                items.append(('p', gen_expr(rng, depth)))
            else:
                t = rng.choice(WORDS)
                if items and isinstance(items[-1], bytes):
                    items[-1] = items[-1] + b' ' + t
                else:
                    items.append(t)
        lines.append(items)
    # line rules: continuation lines do not start with . [ * ; leading spaces profile with minimum 0 — or, sometimes, with every
    # continuation line indented (well-formed only as a top-level value in block form: Render.v needs_block; the model's wf flag filters)
    indents = [0] * nlines
    if nlines > 1:
        cont = [i for i in range(1, nlines) if lines[i]]
        for i in cont:
            indents[i] = rng.choice([0, 0, 1, 2, 4])
        if cont and min(indents[i] for i in cont) > 0 and rng.random() < 0.4:
            indents[rng.choice(cont)] = 0
    els = []
    cur = b''
    for ln, items in enumerate(lines):
        if ln > 0:
            cur += b'\n'
        if not items:
            continue
        cur += b' ' * indents[ln]
        first = items[0]
        if isinstance(first, bytes) and ln > 0 and first[:1] in (b'.', b'[', b'*'):
            items[0] = b'x' + first
        if isinstance(items[0], bytes) and ln == 0 and items[0][:1] == b' ':
            items[0] = items[0].lstrip(b' ') or b'x'
        for it in items:
            if isinstance(it, bytes):
                cur += it
            else:
                if cur:
                    els.append([b't', cur])
                    cur = b''
                els.append([b'p', it[1]])
    if cur:
        els.append([b't', cur])
    # no trailing blank
    if els and els[-1][0] == b't':
        v = els[-1][1].rstrip(b' \n')
        if v:
            els[-1][1] = v
        else:
            els.pop()
    if not els:
        els = [[b't', b'x']]
    if els[0][0] == b't' and (els[0][1][:1] in (b' ', b'\n')):
        els[0][1] = b'x' + els[0][1].lstrip(b' \n')
    # sometimes the FIRST line of a multi-line value is indented deeper than a later line (fixture multiline_values key10
    # "  two\nzero\n    four"): a tree of the grammar that only the block form can express; the model's wf flag filters the rest
    if nlines > 1 and rng.random() < 0.15:
        k = rng.randint(1, 4)
        if els[0][0] == b't':
            els[0][1] = b' ' * k + els[0][1]
        else:
            els.insert(0, [b't', b' ' * k])
    return [b'pat'] + els


def gen_comment_lines(rng):
    return [rng.choice([b'c', b'doc \xc3\xa9', b'', b' lead', b'a = b', b'#', b'x  ']) for _ in range(rng.randint(1, 3))]


def gen_entry(rng):
    k = rng.randrange(10)
    if k == 0:
        return [rng.choice([b'comment', b'gcomment', b'rcomment'])] + gen_comment_lines(rng)
    cm = [b'some', [b'c'] + gen_comment_lines(rng)] if rng.random() < 0.25 else b'none'
    attrs = [[b'attr', rng.choice(IDS), gen_pattern(rng, 1)] for _ in range(rng.choice([0, 0, 1, 2]))]
    if k in (1, 2):
        return [b'term', rng.choice(IDS), gen_pattern(rng, 2), attrs, cm]
    if k == 3:
        attrs = attrs or [[b'attr', rng.choice(IDS), gen_pattern(rng, 1)]]
        return [b'msg', rng.choice(IDS), b'none', attrs, cm]
    return [b'msg', rng.choice(IDS), [b'some', gen_pattern(rng, 2)], attrs, cm]


def gen_tree(rng):
    return [b'res'] + [gen_entry(rng) for _ in range(rng.randint(1, 4))]


def systematic(rng):
    """per-construct trees: every expression form at several nesting positions; multi-line profiles"""
    out = []
    inl = [[b'str', b'a\\"b'], [b'num', b'-3.50'], [b'vref', b'v'], [b'mref', b'm', b'none'], [b'mref', b'm', [b'some', b'at']],
           [b'tref', b't', b'none', b'none'], [b'tref', b't', b'none', [b'some', [b'args', [], [[b'named', b'k', [b'str', b'v']]]]]],
           [b'fn', b'F', [b'args', [[b'num', b'1'], [b'vref', b'x']], [[b'named', b'k', [b'num', b'2']]]]], [b'fn', b'F', [b'args', [], []]]]
    for i in inl:
        wrap = [[b'in', i], [b'in', [b'pl', [b'in', i]]], [b'in', [b'fn', b'G', [b'args', [i], []]]]]
        if i[0] in (b'str', b'num', b'vref', b'fn'):
            wrap.append([b'sel', i, [[b'var', [b'id', b'a'], [b'pat', [b't', b'one']], b'false'], [b'var', [b'num', b'1'], [b'pat', [b't', b'x'], [b'p', [b'in', i]]], b'true']]])
        for e in wrap:
            for pat in ([b'pat', [b'p', e]], [b'pat', [b't', b'pre '], [b'p', e], [b't', b' post']], [b'pat', [b't', b'l1\n'], [b'p', e], [b't', b'\n  l3']],
                        [b'pat', [b'p', e], [b't', b'\nl2\n\n   l4']]):
                out.append([b'res', [b'msg', b'a', [b'some', pat], [], b'none']])
                out.append([b'res', [b'term', b'a', [b't', b'x'] and [b'pat', [b't', b'v']], [[b'attr', b'at', pat]], [b'some', [b'c', b'doc']]]])
    profiles = [[0], [0, 0], [2, 0], [0, 4], [1, 0, 2], [0, 0, 7], [4, 2, 0]]
    for prof in profiles:
        for kinds in ('tt', 'tp', 'pt', 'tb', 'pp'):
            lines = [b'first']
            for j, ind in enumerate(prof):
                k = kinds[j % len(kinds)]
                lines.append((k, ind))
            els = []
            cur = b'first'
            for k, ind in lines[1:]:
                cur += b'\n'
                if k == 'b':
                    cur += b'\n' + b' ' * ind + b'after'
                elif k == 't':
                    cur += b' ' * ind + b'line'
                else:
                    cur += b' ' * ind
                    els.append([b't', cur])
                    cur = b''
                    els.append([b'p', [b'in', [b'vref', b'v']]])
            if cur:
                els.append([b't', cur])
            out.append([b'res', [b'msg', b'k', [b'some', [b'pat'] + els], [], b'none'], [b'msg', b'z', [b'some', [b'pat', [b't', b'end']]], [], b'none']])
    cms = [[[b'comment', b'c'], [b'msg', b'a', [b'some', [b'pat', [b't', b'x']]], [], b'none']],
           [[b'comment', b'c'], [b'comment', b'd']], [[b'comment', b'c'], [b'gcomment', b'g'], [b'rcomment', b'r', b''], [b'term', b't', [b'pat', [b't', b'x']], [], [b'some', [b'c', b'', b'doc']]]],
           [[b'msg', b'a', [b'some', [b'pat', [b't', b'x']]], [], b'none'], [b'comment', b'last', b'']], [[b'gcomment', b''], [b'gcomment', b' ']]]
    for c in cms:
        out.append([b'res'] + c)
    return out


def render_all(trees, rng, per_tree):
    lines = []
    meta = []
    for t in trees:
        for _ in range(per_tree):
            mode = rng.random()
            if mode < 0.15:
                cs = []
            elif mode < 0.3:
                cs = [rng.choice([0, 1, 2, 3, 4])] * 400
            else:
                cs = [rng.randrange(60) for _ in range(400)]
            lines.append(sexp.dumps([b'render', cs, t]))
            meta.append(t)
    outs = engine.run_lines(engine.model_bin(MODEL), lines, wrap_ulimit=True)
    cases = []
    notwf = 0
    for t, o in zip(meta, outs):
        try:
            r = sexp.loads(o)
        except ValueError:
            continue
        if sexp.tag(r) != 'ok':
            continue
        if r[2] != b'true':
            notwf += 1
            continue
        cases.append(sexp.dumps([b'parse_all', r[1], t]))
    return cases, notwf


BLANK_LINE_SPACES = True


def blank_line_variants(rng, cases, n):
    """A layout freedom that Render.v does not enumerate: a blank line is `blank_inline? line_end`, so ANY number of spaces on a
    line that holds nothing else is insignificant, wherever the line is (between entries, inside a multi-line pattern, LF or
    CRLF).  Take rendered sources with blank lines, put 1..9 spaces on some of them, expect the same tree."""
    out = []
    pool = [c for c in cases if b'\n\n' in sexp.loads(c)[1] or b'\n \n' in sexp.loads(c)[1] or b'\r\n\r\n' in sexp.loads(c)[1]]
    rng.shuffle(pool)
    for c in pool[:n]:
        x = sexp.loads(c)
        lines = x[1].split(b'\n')
        changed = False
        for i in range(len(lines) - 1):
            body = lines[i][:-1] if lines[i].endswith(b'\r') else lines[i]
            if body.strip(b' ') == b'' and rng.random() < 0.7:
                lines[i] = b' ' * rng.choice([1, 2, 3, 4, 5, 6, 8, 9]) + lines[i].lstrip(b' ')
                changed = True
        if changed:
            out.append(sexp.dumps([b'parse_all', b'\n'.join(lines), x[2]]))
    return out


def generate(rng, tier):
    yield ('reference-fixtures', reference_cases())
    n = 2500 if tier == 'quick' else 120000
    sysm = systematic(rng)
    cases, notwf = render_all(sysm, rng, 3 if tier == 'quick' else 40)
    yield ('exhaustive-constructs-x-layouts', cases)
    trees = [gen_tree(rng) for _ in range(n)]
    cases, notwf2 = render_all(trees, rng, 1)
    generate.not_wf = notwf + notwf2
    yield ('random-trees-x-layouts', cases)
    if BLANK_LINE_SPACES:
        yield ('spaces-on-blank-lines', blank_line_variants(rng, cases, 600 if tier == 'quick' else 20000))



# ---------------------------------------------------------------------------------------------
# reference fixtures: the .json files in fluent-syntax/tests/fixtures are trees produced by the REFERENCE implementation
# (fluent.js) for the .ftl files next to them; they pin the real parser and the model parser to the reference trees.

def ref_inline(x):
    t = x['type']
    if t == 'StringLiteral':
        return [b'str', x['value'].encode()]
    if t == 'NumberLiteral':
        return [b'num', x['value'].encode()]
    if t == 'VariableReference':
        return [b'vref', x['id']['name'].encode()]
    if t == 'MessageReference':
        return [b'mref', x['id']['name'].encode(), atom_opt(x['attribute']['name'].encode() if x.get('attribute') else None)]
    if t == 'TermReference':
        return [b'tref', x['id']['name'].encode(), atom_opt(x['attribute']['name'].encode() if x.get('attribute') else None),
                b'none' if not x.get('arguments') else [b'some', ref_args(x['arguments'])]]
    if t == 'FunctionReference':
        return [b'fn', x['id']['name'].encode(), ref_args(x['arguments'])]
    if t == 'Placeable':
        return [b'pl', ref_expr(x['expression'])]
    raise ValueError(t)


def ref_args(a):
    return [b'args', [ref_inline(p) for p in a['positional']],
            [[b'named', n['name']['name'].encode(), ref_inline(n['value'])] for n in a['named']]]


def ref_expr(x):
    if x['type'] == 'SelectExpression':
        return [b'sel', ref_inline(x['selector']),
                [[b'var', [b'id', v['key']['name'].encode()] if v['key']['type'] == 'Identifier' else [b'num', v['key']['value'].encode()],
                  ref_pattern(v['value']), b'true' if v['default'] else b'false'] for v in x['variants']]]
    return [b'in', ref_inline(x)]


def ref_pattern(p):
    els = []
    for e in p['elements']:
        if e['type'] == 'TextElement':
            els.append([b't', e['value'].encode()])
        else:
            els.append([b'p', ref_expr(e['expression'])])
    return [b'pat'] + els


def ref_comment(c):
    return [x.encode() for x in c['content'].split('\n')]


def ref_entry(e):
    t = e['type']
    if t in ('Message', 'Term'):
        cm = b'none' if not e.get('comment') else [b'some', [b'c'] + ref_comment(e['comment'])]
        attrs = [[b'attr', a['id']['name'].encode(), ref_pattern(a['value'])] for a in e['attributes']]
        if t == 'Message':
            return [b'msg', e['id']['name'].encode(), b'none' if not e.get('value') else [b'some', ref_pattern(e['value'])], attrs, cm]
        return [b'term', e['id']['name'].encode(), ref_pattern(e['value']), attrs, cm]
    if t in ('Comment', 'GroupComment', 'ResourceComment'):
        return [{'Comment': b'comment', 'GroupComment': b'gcomment', 'ResourceComment': b'rcomment'}[t]] + ref_comment(e)
    if t == 'Junk':
        return [b'junk', e['content'].encode()]
    raise ValueError(t)


def reference_cases():
    import json
    import glob
    out = []
    root = os.path.join(engine.REPO, 'fluent-syntax')
    pairs = [(f, f[:-4] + '.json') for f in sorted(glob.glob(os.path.join(root, 'tests/fixtures/*.ftl')))]
    pairs += [(f, os.path.join(root, 'tests/fixtures/benches', os.path.basename(f)[:-4] + '.json')) for f in sorted(glob.glob(os.path.join(root, 'benches/*.ftl')))]
    for ftl, js in pairs:
        if not os.path.exists(js):
            continue
        text = open(ftl, 'rb').read()
        try:
            text.decode('utf-8')
            ref = json.load(open(js, encoding='utf-8'))
            tree = [b'res'] + [ref_entry(e) for e in ref['body']]
        except Exception:
            continue
        if len(text) > 40000:
            continue
        out.append(sexp.dumps([b'parse_all', text, tree, os.path.basename(ftl).encode()]))
    return out


def join_pattern(p):
    out = [b'pat']
    for el in p[1:]:
        if sexp.tag(el) == 't' and len(out) > 1 and sexp.tag(out[-1]) == 't':
            out[-1] = [b't', out[-1][1] + el[1]]
        elif sexp.tag(el) == 't':
            out.append([b't', el[1]])
        else:
            out.append([b'p', join_expr(el[1])])
    return out


def join_expr(e):
    if sexp.tag(e) == 'sel':
        return [b'sel', join_inline(e[1]), [[b'var', v[1], join_pattern(v[2]), v[3]] for v in e[2]]]
    return [b'in', join_inline(e[1])]


def join_args(a):
    return [b'args', [join_inline(x) for x in a[1]], [[b'named', n[1], join_inline(n[2])] for n in a[2]]]


def join_inline(i):
    t = sexp.tag(i)
    if t == 'pl':
        return [b'pl', join_expr(i[1])]
    if t == 'fn':
        return [b'fn', i[1], join_args(i[2])]
    if t == 'tref' and i[3] != b'none':
        return [b'tref', i[1], i[2], [b'some', join_args(i[3][1])]]
    return i


def join_entry(e):
    t = sexp.tag(e)
    if t == 'msg':
        return [e[0], e[1], e[2] if e[2] == b'none' else [b'some', join_pattern(e[2][1])], [[b'attr', a[1], join_pattern(a[2])] for a in e[3]], e[4]]
    if t == 'term':
        return [e[0], e[1], join_pattern(e[2]), [[b'attr', a[1], join_pattern(a[2])] for a in e[3]], e[4]]
    return e


# reference trees that differ from fluent-rs for a recorded reason
def ref_normalise(e):
    """comparison of a fixture entry: CRLF in the reference text is a line break; whitespace-only comment lines are kept"""
    return e


def oracle_reference(c, out):
    name = c[3].decode()
    expected = [join_entry(e) for e in c[2][1:]]
    tag, res = synprops.parse_out(out)
    if tag != 'ok':
        return 'parser did not return (%s)' % tag
    got = [join_entry(e) for e in res[0][0]]
    crlf = 'crlf' in name
    if crlf:
        def fix(x):
            if isinstance(x, list):
                return [fix(y) for y in x]
            if isinstance(x, bytes):
                return x.replace(b'\r\n', b'\n')
            return x
        expected = fix(expected)
        got = fix(got)
    if len(got) != len(expected):
        return 'reference fixture %s: %d entries, the reference tree has %d' % (name, len(got), len(expected))
    for a, b in zip(got, expected):
        if a != b:
            return 'reference fixture %s: entry differs from the reference tree: %s vs %s' % (name, sexp.dumps(a)[:150], sexp.dumps(b)[:150])
    return None


def oracle(case, out):
    c = sexp.loads(case)
    if len(c) > 3:
        return oracle_reference(c, out)
    expected = [join_entry(e) for e in c[2][1:]]
    tag, res = synprops.parse_out(out)
    if tag != 'ok':
        return 'parser did not return (%s)' % tag
    body, errs = res[0]
    if errs:
        return 'well-formed resource parsed with errors: ' + sexp.dumps(errs)[:200]
    got = [join_entry(e) for e in body]
    if got != expected:
        return 'full parser: tree differs from the tree the grammar assigns'
    rbody, rerrs = res[2]
    if rerrs:
        return 'runtime parser reports errors on a well-formed resource'
    exp_rt = [e[:4] + [b'none'] for e in expected if sexp.tag(e) in ('msg', 'term')]
    if [join_entry(e) for e in rbody] != exp_rt:
        return 'runtime parser: messages/terms differ from the grammar tree'
    return None


def has_indented_placeable_line(x):
    """D25 class: somewhere in the tree a text element ends in '\\n' + spaces and the next element is a placeable"""
    if isinstance(x, list):
        if x and x[0] == b'pat':
            els = x[1:]
            for a, b in zip(els, els[1:]):
                if sexp.tag(a) == 't' and sexp.tag(b) == 'p':
                    v = a[1]
                    stripped = v.rstrip(b' ')
                    if len(stripped) < len(v) and stripped.endswith(b'\n'):
                        return True
        return any(has_indented_placeable_line(y) for y in x)
    return False


def classify(case, why, out=''):

    # D7: a comment whose last line is empty, rendered as the last line of the input without a line end
    text = sexp.loads(case)[1]
    if text.split(b'\n')[-1] in (b'#', b'##', b'###'):
        return 'D7'
    return None


def nontrivial(case, out):
    return out if ('(msg ' in out or '(term ' in out) else None


PARTIAL = ('the round trip parse (render cs t) = t is PROVED for ALL well-formed trees (wf_resource, all text valid UTF-8) and ALL layouts, under ONE extra '
           'premise (last_comment_ok): if the LAST entry of the tree is a stand-alone comment, its last line is not empty. That premise is exactly '
           'the tree shape of the known finding D7 (a comment whose last line is empty, at the end of input without a final line end, parses to a '
           'comment with one line fewer); comments ending in empty or whitespace-only lines anywhere else are covered. The unrestricted statement '
           'is refuted on the current tree by D7: C02_wellformed_refuted_exactly shows the round trip FAILS for every well-formed tree whose last entry '
           'is a comment of >= 2 lines with an empty last line (C02_D7_parse gives the tree the parser returns instead); the one-line case is '
           'C02_roundtrip_statement_refuted_by_D7. C02_rendered_source_is_utf8: every rendered source is valid UTF-8, so C01 applies to it. Conversely (C02_errorfree_source_tree_wellformed_crlf_partial, '
           'C02_relayout_errorfree_source_crlf_partial): the tree of EVERY error-free UTF-8 source with LF or CR LF line ends (no zero-line comment) is a tree of the grammar, and '
           're-rendering it under any layout parses back to the same tree — layout independence for all such sources, not only rendered ones. Adequacy of Render.v w.r.t. the Fluent EBNF is trusted.')

MANIFEST = {
    'text': 'The Fluent grammar is formalised as a printer with layout choices (Render.v: render, wf_resource); the property is the '
            'round trip parse (render cs t) = t for all well-formed t and all layouts cs. PROVED in Rocq for every well-formed tree '
            '(comments, attributes, multi-line patterns with the dedent rule, nested placeables, selects, call arguments of any nesting '
            'depth) and every layout, with the single extra premise last_comment_ok = the tree is not of the shape of D7 (C02_roundtrip_wellformed_partial); layout '
            'independence as a corollary. On every run the implementation is also tested directly against the extracted formal printer '
            '(random trees x random layouts, systematic per-construct layouts) and against the reference JSON trees of the repo fixtures; '
            'the model parser is tied to the real one by the correspondence check.',
    'note': 'PARTIAL proof (fragment). Trusted: Render.v as our reading of the Fluent 1.0 EBNF (validated by tests only); parser model '
            'trusted base as C01. Known finding D7 refutes the unrestricted statement (comment whose last line is empty at end of input).',
    'technique': 'Rocq proof (print/parse round-trip lemmas over the parser model, fragment) + spec-driven differential testing with the extracted printer',
    'design_ref': 'DESIGN.md §4 C02, §10',
}

"""Reader of the repository's resolver fixtures (fluent-bundle/tests/fixtures/*.yaml) for props/C07.py.

The fixtures are the maintainers' reading of Fluent semantics: resources, bundle settings, arguments, expected
string and expected error kinds (+ Display text of Reference errors).  `load(repo)` flattens them into one
record per assert, following fluent-bundle/tests/resolver_fixtures.rs (scope levels accumulate resources and
bundles; a bundle sees the resources declared up to its own level; `skip: true` is honoured).

PyYAML is used when it can be imported; otherwise `mini_yaml` below parses the subset these files use (block
mappings and sequences, plain / quoted scalars, `|-` literal blocks).  `self_test()` compares the two."""
import glob
import os
import re

try:
    import yaml as _yaml
except Exception:  # pragma: no cover
    _yaml = None


# ---------------------------------------------------------------------------------------------
# minimal YAML (subset)

_INT = re.compile(r'^[-+]?[0-9]+$')
_FLOAT = re.compile(r'^[-+]?([0-9]+\.[0-9]*|\.[0-9]+)([eE][-+]?[0-9]+)?$')


def _scalar(tok):
    tok = tok.strip()
    if tok == '' or tok == '~' or tok == 'null':
        return None
    if tok[0] == '"':
        body = tok[1:tok.rindex('"')]
        out = []
        i = 0
        while i < len(body):
            c = body[i]
            if c == '\\':
                n = body[i + 1]
                if n == 'u':
                    out.append(chr(int(body[i + 2:i + 6], 16)))
                    i += 6
                    continue
                if n == 'U':
                    out.append(chr(int(body[i + 2:i + 10], 16)))
                    i += 10
                    continue
                if n == 'x':
                    out.append(chr(int(body[i + 2:i + 4], 16)))
                    i += 4
                    continue
                out.append({'n': '\n', 't': '\t', '"': '"', '\\': '\\', '/': '/', '0': '\0', 'r': '\r'}.get(n, n))
                i += 2
                continue
            out.append(c)
            i += 1
        return ''.join(out)
    if tok[0] == "'":
        return tok[1:tok.rindex("'")].replace("''", "'")
    if tok in ('true', 'True'):
        return True
    if tok in ('false', 'False'):
        return False
    if _INT.match(tok):
        return int(tok)
    if _FLOAT.match(tok):
        return float(tok)
    return tok


def _strip_comment(line):
    # a '#' starts a comment only at line start or after a blank, outside quotes
    inq = None
    for i, c in enumerate(line):
        if inq:
            if c == inq:
                inq = None
        elif c in '"\'':
            inq = c
        elif c == '#' and (i == 0 or line[i - 1] in ' \t'):
            return line[:i]
    return line


def mini_yaml(text):
    raw = text.split('\n')
    lines = []          # (indent, content, raw line index)
    for idx, l in enumerate(raw):
        lines.append((len(l) - len(l.lstrip(' ')), l, idx))
    pos = [0]

    def skip_blank():
        while pos[0] < len(lines) and _strip_comment(lines[pos[0]][1]).strip() == '':
            pos[0] += 1

    def block_scalar(parent_indent, chomp):
        # literal block: lines more indented than the parent; indentation = that of the first non-blank line
        body = []
        ind = None
        while pos[0] < len(lines):
            i, l, _ = lines[pos[0]]
            if l.strip() == '':
                body.append('')
                pos[0] += 1
                continue
            if i <= parent_indent:
                break
            if ind is None:
                ind = i
            body.append(l[ind:])
            pos[0] += 1
        while body and body[-1] == '':
            body.pop()
        s = '\n'.join(body)
        return s if chomp == '-' else s + '\n'

    def value_after(rest, indent):
        rest = _strip_comment(rest).strip()
        if rest in ('|', '|-', '|+', '>', '>-'):
            return block_scalar(indent, rest[1:] if len(rest) > 1 else '')
        if rest == '':
            skip_blank()
            if pos[0] < len(lines) and (lines[pos[0]][0] > indent or
                                        (lines[pos[0]][0] == indent and lines[pos[0]][1].lstrip().startswith('- ')) or
                                        (lines[pos[0]][0] == indent and lines[pos[0]][1].strip() == '-')):
                return node(lines[pos[0]][0])
            return None
        return _scalar(rest)

    def node(indent):
        skip_blank()
        i, l, _ = lines[pos[0]]
        s = l.strip()
        if s == '-' or s.startswith('- '):
            out = []
            while True:
                skip_blank()
                if pos[0] >= len(lines):
                    break
                i2, l2, _ = lines[pos[0]]
                s2 = _strip_comment(l2).strip()
                if i2 != indent or not (s2 == '-' or s2.startswith('- ')):
                    break
                rest = s2[1:].strip()
                pos[0] += 1
                if rest == '':
                    skip_blank()
                    out.append(node(lines[pos[0]][0]) if pos[0] < len(lines) and lines[pos[0]][0] > indent else None)
                elif re.match(r'^[A-Za-z_][A-Za-z0-9_]*:( |$)', rest):
                    # "- key: value" : a mapping starting on the dash line; its indent is that of `key`
                    sub_indent = i2 + (len(l2[i2:]) - len(l2[i2:][1:].lstrip()))
                    lines.insert(pos[0], (sub_indent, ' ' * sub_indent + rest, -1))
                    out.append(node(sub_indent))
                else:
                    out.append(_scalar(rest))
            return out
        out = {}
        while True:
            skip_blank()
            if pos[0] >= len(lines):
                break
            i2, l2, _ = lines[pos[0]]
            if i2 != indent:
                break
            s2 = l2.strip()
            m = re.match(r'^("[^"]*"|[^:#]+?):( (.*))?$', s2)
            if not m:
                raise ValueError('mini_yaml: cannot parse line %r' % l2)
            key = _scalar(m.group(1))
            pos[0] += 1
            out[key] = value_after(m.group(3) or '', indent)
        return out

    skip_blank()
    if pos[0] >= len(lines):
        return None
    return node(lines[pos[0]][0])


def parse(text, force_mini=False):
    if _yaml is not None and not force_mini:
        return _yaml.safe_load(text)
    return mini_yaml(text)


# ---------------------------------------------------------------------------------------------
# flattening (resolver_fixtures.rs)

def _fixture_dir(repo):
    return os.path.join(repo, 'fluent-bundle', 'tests', 'fixtures')


def load(repo, force_mini=False):
    """-> (asserts, stats).  assert = dict(file, path, kind 'value'|'missing', id, attribute, args (list of (k, v)) or None,
    value, errors [(type, desc)], resources [text], functions [names], transform, iso (bool), locales [str], skipped)"""
    d = _fixture_dir(repo)
    defaults = {}
    p = os.path.join(d, 'defaults.yaml')
    if os.path.exists(p):
        defaults = (parse(open(p, encoding='utf-8').read(), force_mini) or {}).get('bundle', {}) or {}
    out = []
    stats = {'files': 0, 'asserts': 0, 'skipped': 0, 'missing_asserts': 0, 'value_asserts': 0, 'unusable': 0}
    for f in sorted(glob.glob(os.path.join(d, '*.yaml'))):
        if os.path.basename(f) == 'defaults.yaml':
            continue
        stats['files'] += 1
        doc = parse(open(f, encoding='utf-8').read(), force_mini)
        for s in doc.get('suites') or []:
            _suite(os.path.basename(f), s, [], defaults, out, stats, False)
    return out, stats


def _suite(fname, s, levels, defaults, out, stats, skipped):
    skipped = skipped or s.get('skip') is True
    levels = levels + [(s.get('name'), s.get('resources') or [], s.get('bundles') or [])]
    for t in s.get('tests') or []:
        tskip = skipped or t.get('skip') is True
        lv = levels + [(t.get('name'), t.get('resources') or [], t.get('bundles') or [])]
        for a in t.get('asserts') or []:
            stats['asserts'] += 1
            if tskip:
                stats['skipped'] += 1
                continue
            rec = _assert(fname, lv, a, defaults)
            if rec is None:
                stats['unusable'] += 1
                continue
            stats['missing_asserts' if rec['kind'] == 'missing' else 'value_asserts'] += 1
            out.append(rec)
    for ss in s.get('suites') or []:
        _suite(fname, ss, levels, defaults, out, stats, skipped)


def _assert(fname, levels, a, defaults):
    # Scope::get_bundles: walk the levels, resources accumulate, each bundle is built from what is available so far
    available = []
    bundles = []
    for (_name, ress, bnds) in levels:
        available.extend(ress)
        for b in bnds:
            bundles.append((b, list(available)))
    if not bundles:
        bundles.append((None, list(available)))
    want = a.get('bundle')
    chosen = None
    if want is not None:
        for b, av in bundles:
            if b is not None and b.get('name') == want:
                chosen = (b, av)      # HashMap insert: the last bundle of that name wins
        if chosen is None:
            return None
    elif len(bundles) == 1:
        chosen = bundles[0]
    else:
        return None                    # the Rust driver panics here
    b, av = chosen
    b = b or {}
    subset = b.get('resources')
    texts = []
    for r in av:
        if subset is not None and r.get('name') is not None and r.get('name') not in subset:
            continue
        texts.append(r.get('source') or '')
    iso = b.get('useIsolating')
    if iso is None:
        iso = defaults.get('useIsolating')
    rec = {
        'file': fname,
        'path': ' > '.join(str(n) for (n, _, _) in levels),
        'id': str(a.get('id')),
        'attribute': a.get('attribute'),
        'resources': texts,
        'functions': list(b.get('functions') or []),
        'transform': b.get('transform') or defaults.get('transform'),
        'iso': True if iso is None else bool(iso),       # FluentBundle::new: use_isolating = true
        'locales': list(b.get('locales') or defaults.get('locales') or ['en-US']),
        'errors': [(e.get('type'), e.get('desc')) for e in (a.get('errors') or [])],
    }
    if a.get('missing') is not None:
        rec['kind'] = 'missing'
        rec['missing'] = bool(a.get('missing'))
        return rec
    if a.get('value') is None:
        return None
    rec['kind'] = 'value'
    v = a.get('value')
    rec['value'] = v if isinstance(v, str) else str(v)
    args = a.get('args')
    if args is None:
        rec['args'] = None
    else:
        # serde untagged String | Number(f64): YAML numbers are numbers, everything else must be a string
        lst = []
        for k, val in args.items():
            if isinstance(val, bool) or not isinstance(val, (int, float, str)):
                return None
            lst.append((str(k), val))
        rec['args'] = lst
    return rec


def self_test(repo='/repo'):
    """mini_yaml agrees with PyYAML on every fixture file (run when PyYAML is present)."""
    if _yaml is None:
        return 'PyYAML absent'
    d = _fixture_dir(repo)
    for f in sorted(glob.glob(os.path.join(d, '*.yaml'))):
        text = open(f, encoding='utf-8').read()
        a = _yaml.safe_load(text)
        try:
            b = mini_yaml(text)
        except Exception as e:
            return '%s: mini_yaml failed: %r' % (f, e)
        if _norm(a) != _norm(b):
            return '%s: mini_yaml disagrees with PyYAML' % f
    return None


def _norm(x):
    import datetime
    if isinstance(x, dict):
        return {str(k): _norm(v) for k, v in x.items()}
    if isinstance(x, list):
        return [_norm(v) for v in x]
    if isinstance(x, (datetime.date, datetime.datetime)):
        return x.isoformat()
    return x


if __name__ == '__main__':
    print('self test:', self_test())
    recs, st = load('/repo')
    print(st)
    recs2, st2 = load('/repo', force_mini=True)
    print('mini loader:', st2, 'same records:', [_norm(r) for r in recs] == [_norm(r) for r in recs2])

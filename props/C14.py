"""C14 — the formatter memoizer constructs each formatter once, per key, under any schedule.
Models: coq/theories/Memo/Memoizer.v (sequential), Memo/Concurrent.v (threads/schedules); theorems: Props/C14.v.

Besides the usual model-vs-implementation run (harness bin memo_run) this plugin builds a *schedule explorer*:
a scratch copy of <repo>/intl-memoizer (from the current tree, on every run; cached by source hash) in which
`use std::sync::Mutex;` of concurrent.rs is textually replaced by `use shuttle::sync::Mutex;`, plus
props/C14_shuttle/main.rs as a bin.  Cases `(shuttle ...)` make memo_run call that bin; its DFS outcome sets are
compared with the outcome sets the Coq model gives over ALL interleavings of atomic with_try_get steps, which is
what ties the model's granularity to the code.  Bounded exploration, not a theorem."""
import fcntl
import hashlib
import itertools
import os
import re
import shutil
import subprocess
import sys
import sexp

ID = 'C14'
PROPS_FILE = 'theories/Props/C14.v'
PROPS_MODULE = 'Props.C14'
COQ_TARGETS = ['theories/Extract/ExtractC14.vo']
REQUIRED_THEOREMS = ['C14_once', 'C14_args_lang', 'C14_args_lang_memo', 'C14_same_inst', 'C14_fail',
                     'C14_fail_only_construct', 'C14_other_keys', 'C14_entries_stable',
                     'C14_langs', 'C14_langs_shared', 'C14_langs_fresh', 'C14_langs_drop',
                     'C14_schedules', 'C14_schedules_complete', 'C14_schedules_once', 'C14_schedules_args_lang',
                     'C14_schedules_same_inst', 'C14_schedules_fail',
                     'C14_fine_grained_mutex',
                     'C14_fine_grained_reduces_to_atomic',
                     'C14_fine_grained_request_is_with_try_get',
                     'C14_fine_grained_once',
                     'C14_fine_grained_sequential',
                     'C14_fine_grained_complete',
                     'C14_fine_grained_same_inst',
                     'C14_fine_grained_fail',
                     'C14_fine_grained_realizes_atomic',
                     'C14_check_then_act_refuted']
MODEL = 'c14'
HARNESS_BINS = ['memo_run']
ANCHORS = ['intl-memoizer/src/lib.rs', 'intl-memoizer/src/concurrent.rs', 'fluent-bundle/src/memoizer.rs',
           'fluent-bundle/src/concurrent.rs', 'fluent-bundle/src/bundle.rs']
PARTIAL = ('The theorems are complete for the model. The atomic-step model (one with_try_get = one step) is now DERIVED from a fine-grained '
           'model with an explicit mutex (Memo/FineGrained.v: lock, lookup type, lookup args, construct, insert, callback, unlock): mutual '
           'exclusion is proved, every fine schedule reduces to the atomic schedule given by the order of successful locks '
           '(C14_fine_grained_reduces_to_atomic), once-only holds at every point of every fine schedule, and the check-then-act variant is '
           'refuted (C14_check_then_act_refuted). What remains a reading of concurrent.rs is the ORDER of the seven micro-steps and the scope of '
           'the guard (the MutexGuard is taken first and outlives construct, insert and cb(e)). '
           'Interleavings inside the critical section, mutex poisoning (a panicking constructor/callback, lock().unwrap()) and '
           're-entrancy (a callback calling the memoizer again: try_borrow_mut().expect("Cannot use memoizer reentrantly") in lib.rs, '
           'self-deadlock in concurrent.rs) are runtime behaviour the Gallina model cannot exhibit: construct/callback are pure total '
           'functions there. The granularity is supported, not proved, by shuttle schedule exploration (DFS exhaustive for 2-3 threads '
           'with 1-2 requests each, PCT/random for larger programs) of the real concurrent.rs with std::sync::Mutex textually replaced '
           'by shuttle::sync::Mutex, whose outcome sets are compared with the model\'s over all interleavings. TypeMap/HashMap are '
           'modelled as one flat finite map (type, args) -> instance; Rc/Weak as allocation ids with the strong count = live handles.')
TRUSTED = [
    'modelled, not verified: std::sync::Mutex (mutual exclusion; guard scope as written), RefCell, Rc/Weak (upgrade succeeds iff a strong '
    'handle is live; allocations never alias while live), type_map::TypeMap + HashMap entry API as one finite map keyed by (type, args)',
    'atomicity of one with_try_get is a modelling decision read off the source; supported by bounded shuttle exploration '
    '(shuttle 0.9.3, DFS/PCT/random) of a textually patched scratch copy of intl-memoizer, see PARTIAL',
    'construct and callbacks are arbitrary pure total functions (Section variables); panicking or re-entrant ones are outside the model',
    'shuttle 0.9.3 itself and the one-line textual patch (use std::sync::Mutex -> use shuttle::sync::Mutex) of concurrent.rs',
]
ASSUMPTIONS = ['every Rc<IntlLangMemoizer> handed out by get_for_lang is held by the client as a handle until dropped (no other strong owners)',
               'Memoizable::construct and the callback do not call back into the memoizer and do not panic',
               'Args: Eq + Hash agree (two args are the same key iff they are equal); modelled as byte strings']
RULE = ('op histories (get_for_lang / drop / with_try_get / with_try_get_threadsafe) over 2 formatter types, equal / distinct / '
        'always-failing / failing-then-succeeding args, 2-3 languages: bounded-exhaustive over a 10-op alphabet after an initial get '
        '(length 5 quick, 6 thorough) + random histories up to 30 ops; 8 OS threads on one concurrent memoizer with a slow constructor; '
        'shuttle schedule exploration of 2-3 threads (DFS exhaustive outcome sets compared with the model, PCT/random checked by the oracle). '
        'non-trivial = at least one with_try_get answered; distinct = distinct implementation outputs')

ROOT = os.path.dirname(os.path.dirname(os.path.abspath(__file__)))
REPO = os.path.realpath(os.environ.get('VERIF_REPO', '/repo'))
SHUTTLE_DIR = os.path.join(ROOT, '.cache', 'shuttle', re.sub(r'[^A-Za-z0-9]', '_', REPO))
SHUTTLE_BIN = os.path.join(SHUTTLE_DIR, 'target', 'debug', 'c14_shuttle')
SHUTTLE_SRC = os.path.join(ROOT, 'props', 'C14_shuttle', 'main.rs')
_shuttle_log = ['']

CARGO_TOML = '''# generated by props/C14.py: scratch copy of intl-memoizer with shuttle's Mutex (schedule exploration for C14)
[package]
name = "intl-memoizer"
version = "0.0.0"
edition = "2021"
publish = false

[workspace]

[dependencies]
unic-langid = "0.9"
type-map = "0.5"
shuttle = "0.9"

[profile.dev]
debug = false
opt-level = 1
'''


def _fail(msg):
    """the reason is left next to where the bin would be; memo_run relays it in (shuttle-bin-missing ...)"""
    open(os.path.join(SHUTTLE_DIR, 'build.log'), 'w').write(msg)
    return False, msg


def ensure_shuttle():
    """(Re)build the schedule explorer from the CURRENT sources when they changed.  Returns (ok, log)."""
    src = os.path.join(REPO, 'intl-memoizer', 'src')
    h = hashlib.sha1()
    try:
        files = sorted(f for f in os.listdir(src) if f.endswith('.rs'))
        for f in files:
            h.update(f.encode() + b'\0' + open(os.path.join(src, f), 'rb').read() + b'\0')
    except OSError as e:
        return False, 'cannot read %s: %s' % (src, e)
    h.update(open(SHUTTLE_SRC, 'rb').read())
    h.update(CARGO_TOML.encode())
    digest = h.hexdigest()
    os.makedirs(SHUTTLE_DIR, exist_ok=True)
    with open(os.path.join(SHUTTLE_DIR, '.lock'), 'w') as lk:
        fcntl.flock(lk, fcntl.LOCK_EX)
        stamp = os.path.join(SHUTTLE_DIR, '.srchash')
        if os.path.exists(stamp) and open(stamp).read() == digest and os.path.exists(SHUTTLE_BIN):
            return True, 'cached'
        if os.path.exists(stamp):
            os.remove(stamp)
        if os.path.exists(SHUTTLE_BIN):
            os.remove(SHUTTLE_BIN)
        dst = os.path.join(SHUTTLE_DIR, 'src')
        shutil.rmtree(dst, ignore_errors=True)
        os.makedirs(os.path.join(dst, 'bin'))
        for f in files:
            shutil.copyfile(os.path.join(src, f), os.path.join(dst, f))
        shutil.copyfile(SHUTTLE_SRC, os.path.join(dst, 'bin', 'c14_shuttle.rs'))
        cpath = os.path.join(dst, 'concurrent.rs')
        text = open(cpath).read() if os.path.exists(cpath) else ''
        patched = text.replace('std::sync::Mutex', 'shuttle::sync::Mutex')

        def _grouped(m):
            rest = [x.strip() for x in m.group(1).split(',') if x.strip() and x.strip() != 'Mutex']
            return 'use shuttle::sync::Mutex;' + ('\nuse std::sync::{%s};' % ', '.join(rest) if rest else '')
        patched = re.sub(r'use std::sync::\{([^}]*\bMutex\b[^}]*)\};', _grouped, patched)
        if patched == text:
            return _fail('concurrent.rs does not import std::sync::Mutex any more, so shuttle\'s Mutex cannot be substituted: the lock of the '
                         'concurrent memoizer changed; the schedule exploration (and the atomicity reading of the model) must be redone')
        open(cpath, 'w').write(patched)
        open(os.path.join(SHUTTLE_DIR, 'Cargo.toml'), 'w').write(CARGO_TOML)
        lock = os.path.join(REPO, 'Cargo.lock')
        if not os.path.exists(os.path.join(SHUTTLE_DIR, 'Cargo.lock')) and os.path.exists(lock):
            shutil.copyfile(lock, os.path.join(SHUTTLE_DIR, 'Cargo.lock'))
        env = dict(os.environ)
        env.update({'CARGO_NET_OFFLINE': 'true', 'CARGO_TARGET_DIR': os.path.join(SHUTTLE_DIR, 'target'), 'RUSTFLAGS': '-Awarnings'})
        cmd = ['cargo', 'build', '--offline', '-q', '--bin', 'c14_shuttle']
        try:
            p = subprocess.run(cmd, cwd=SHUTTLE_DIR, env=env, stdout=subprocess.PIPE, stderr=subprocess.STDOUT, text=True, timeout=900)
            if p.returncode != 0 and 'lock' in p.stdout.lower():
                os.remove(os.path.join(SHUTTLE_DIR, 'Cargo.lock'))
                p = subprocess.run(cmd, cwd=SHUTTLE_DIR, env=env, stdout=subprocess.PIPE, stderr=subprocess.STDOUT, text=True, timeout=900)
        except subprocess.TimeoutExpired:
            return _fail('cargo build of the schedule explorer timed out')
        if p.returncode != 0 or not os.path.exists(SHUTTLE_BIN):
            return _fail('schedule explorer does not build against the current intl-memoizer:\n' + p.stdout[-1500:])
        open(stamp, 'w').write(digest)
        return True, 'built'


if '--replay' in sys.argv:
    _ok, _log = ensure_shuttle()
    _shuttle_log[0] = _log


# ---------------------------------------------------------------------------------------------- generators

A0, A1, AF, AF1, AF2 = b'\x00', b'\x00\x01', b'\x01', b'\x02\x01', b'\x02\x03'


def w(h, t, a, cb, k=False):
    return [b'withk' if k else b'with', h, t, a, cb]


def seq_case(ops):
    return sexp.dumps([b'seq', ops])


def sh_case(mode, iters, seed, lang, threads):
    return sexp.dumps([b'shuttle', mode, iters, seed, lang, [[[t, a, cb] for (t, a, cb) in th] for th in threads]])


DFS_SCENARIOS = [
    # simultaneous first lookups of the same key
    [[(0, A0, 1)], [(0, A0, 2)]],
    [[(0, A0, 1)], [(0, A0, 2)], [(0, A0, 3)]],
    # of different keys / types
    [[(0, A0, 1)], [(0, A1, 2)]],
    [[(0, A0, 1)], [(1, A0, 2)], [(0, A0, 3)]],
    # two requests each: same key twice, crossing keys
    [[(0, A0, 1), (0, A0, 2)], [(0, A0, 3), (0, A0, 4)]],
    [[(0, A0, 1), (1, A0, 2)], [(1, A0, 3), (0, A0, 4)]],
    # failing-then-succeeding and always-failing constructors under a race
    [[(0, AF1, 1)], [(0, AF1, 2)], [(0, AF1, 3)]],
    [[(0, AF1, 1), (0, AF1, 2)], [(0, AF1, 3), (0, A0, 4)]],
    [[(0, AF, 1), (0, A0, 2)], [(0, AF, 3), (0, A0, 4)]],
]


def generate(rng, tier):
    ok, log = ensure_shuttle()
    _shuttle_log[0] = log
    # --- bounded-exhaustive histories after an initial (get en)
    bound = 5 if tier == 'quick' else 6
    alphabet = [('g', b'en'), ('g', b'fr'), ('d', 0), ('d', 1),
                ('w', 0, 0, A0), ('w', 0, 0, AF1), ('w', 0, 1, A0), ('w', 0, 0, A1), ('w', 1, 0, A0), ('w', 0, 0, AF)]
    cases = []
    for n in range(0, bound + 1):
        for s in itertools.product(alphabet, repeat=n):
            ops = [[b'get', b'en']]
            for j, x in enumerate(s):
                if x[0] == 'g':
                    ops.append([b'get', x[1]])
                elif x[0] == 'd':
                    ops.append([b'drop', x[1]])
                else:
                    ops.append(w(x[1], x[2], x[3], j + 1))
            cases.append(seq_case(ops))
    yield ('exhaustive-seq-len%d' % bound, cases)
    # --- random longer histories
    n = 4000 if tier == 'quick' else 80000
    # languages that differ only in script, region or VARIANT are different languages
    langs = [b'en', b'fr', b'en-US', b'ca-ES', b'ca-ES-valencia', b'sr-Cyrl', b'sr-Latn', b'sl', b'sl-rozaj']
    argset = [A0, A1, AF, AF1, AF2, b'', b'\x02\x06', b'\x00\x00', b'\x03', b'\x02\x00']
    cases = []
    for _ in range(n):
        ops = []
        nh = 0
        for j in range(rng.randint(1, 30)):
            r = rng.random()
            if nh == 0 or r < 0.15:
                ops.append([b'get', rng.choice(langs[:rng.choice([1, 2, 3, 5, 9])])])
                nh += 1
            elif r < 0.28:
                ops.append([b'drop', rng.randrange(nh + (1 if rng.random() < 0.1 else 0))])
            else:
                ops.append(w(rng.randrange(nh), rng.randrange(2), rng.choice(argset[:rng.choice([2, 5, 10])]), j, rng.random() < 0.3))
        cases.append(seq_case(ops))
    yield ('random-seq', cases)
    # --- real threads on the real concurrent memoizer (smoke)
    cases = []
    for i in range(4 if tier == 'quick' else 30):
        keys = [(rng.randrange(2), rng.choice([A0, A1, b'', b'\x05'])) for _ in range(rng.randint(1, 3))]
        reqs = [[t, a, j + 1] for j, (t, a) in enumerate(keys + keys[:1])]
        cases.append(sexp.dumps([b'threads', 8 if i % 2 == 0 else rng.choice([2, 3, 5]), rng.choice([b'en', b'fr']), reqs]))
    # distinct arguments that COLLIDE under Hash (type 1 has a deliberately weak Hash in the harness: length mod 3) must stay distinct keys
    for n in (2, 5):
        for pair in ((A0, b'\x03'), (b'\x07', b'\x08'), (b'\x05\x02\x03\x04', b'\x09'), (b'', b'\x04\x01\x01')):   # constructible arguments only
            reqs = [[1, pair[0], 1], [1, pair[1], 2], [1, pair[0], 3], [1, pair[1], 4]]
            cases.append(sexp.dumps([b'threads', n, b'en', reqs]))
    yield ('threads-smoke', cases)
    # --- schedule exploration
    cases = [sh_case(b'dfs', 0, 0, b'en', sc) for sc in DFS_SCENARIOS]
    yield ('shuttle-dfs', cases)
    cases = []
    iters = 3000 if tier == 'quick' else 40000
    for i in range(6 if tier == 'quick' else 40):
        keys = [(0, A0), (1, A0), (0, A1), (0, AF1), (0, AF), (0, AF2)][:rng.choice([2, 3, 6])]
        threads = [[rng.choice(keys) + (10 * t + j + 1,) for j in range(rng.randint(1, 3))] for t in range(rng.choice([2, 3, 3]))]
        cases.append(sh_case(b'pct' if i % 2 == 0 else b'random', iters, rng.randrange(1 << 30), b'en', threads))
    yield ('shuttle-random', cases)


# ---------------------------------------------------------------------------------------------- oracle

def rule_fails(args, n):
    """the test formatter's constructor (harness side): not part of the property, used to cross-check the harness"""
    if args[:1] == b'\x01':
        return True
    if args[:1] == b'\x02':
        return n < (args[1] if len(args) > 1 else 0)
    return False


def oracle_seq(c, o):
    if sexp.tag(o) != 'seq' or len(o) != 3:
        return 'unexpected result shape'
    ops, outs, trace = c[1], o[1], o[2][1:]
    if len(outs) != len(ops):
        return 'expected %d results, got %d' % (len(ops), len(outs))
    handles = []        # handle -> mid | None
    mid_lang = {}       # mid -> language it was requested for
    nev = 0             # construct calls so far
    first_ok = {}       # (mid, t, args) -> instance fields [lang, t, args, n] of its first successful construction
    for j, (op, out) in enumerate(zip(ops, outs)):
        t = sexp.tag(op)
        where = 'op %d %s: ' % (j, sexp.dumps(op))
        if t == 'get':
            lang = op[1]
            if sexp.tag(out) != 'memo':
                return where + 'no memoizer returned'
            mid = out[1]
            live = sorted(set(m for m in handles if m is not None and mid_lang[m] == lang))
            if live:
                if mid != live[0] or len(live) != 1:
                    return where + 'a memoizer for this language is in use (handle on memoizer %s) but get_for_lang returned memoizer %s: not shared' % (live, mid)
            else:
                if mid in mid_lang:
                    return where + 'no live handle has this language, yet an old memoizer (%d, language %r) came back: %s' % (
                        mid, mid_lang[mid], 'shared across languages' if mid_lang[mid] != lang else 'not fresh after all handles were dropped')
                mid_lang[mid] = lang
            handles.append(mid)
        elif t == 'drop':
            h = op[1]
            alive = h < len(handles) and handles[h] is not None
            if out != (b'drop' if alive else b'dead'):
                return where + 'drop result'
            if alive:
                handles[h] = None
        else:
            h, ty, args, cb = op[1], op[2], op[3], op[4]
            if h >= len(handles) or handles[h] is None:
                if out != b'dead':
                    return where + 'dead handle answered'
                continue
            mid = handles[h]
            lang = mid_lang[mid]
            key = (mid, ty, args)
            if key in first_ok:
                # cached: no construction, callback on THE instance, result unchanged
                want = [b'ok', cb, [b'inst'] + first_ok[key]]
                if nev < len(trace) and trace[nev][1:5] == [mid, lang, ty, args]:
                    return where + 'key already constructed successfully by this memoizer (instance n=%d) but construct was called again: %s' % (
                        first_ok[key][3], sexp.dumps(trace[nev]))
                if out != want:
                    return where + 'callback did not run on the one instance of its key / result changed: expected %s got %s' % (sexp.dumps(want), sexp.dumps(out))
                continue
            # not cached: exactly one construct call, with exactly the requested args and the memoizer's language
            if sexp.tag(out) == 'ok' and isinstance(out[2], list) and len(out[2]) == 5 and out[2][4] < nev:
                return where + 'key never constructed successfully by this memoizer, yet the callback ran on an older instance %s (of another key or memoizer)' % sexp.dumps(out[2])
            if nev >= len(trace):
                return where + 'key not cached but construct was not called'
            e = trace[nev]
            want_e = [b'c', mid, lang, ty, args, nev]
            if e[:6] != want_e:
                return where + 'construct called with %s, expected memoizer/lang/type/args/n = %s' % (sexp.dumps(e), sexp.dumps(want_e))
            okflag = e[6] == b'ok'
            if okflag == rule_fails(args, nev):
                return where + 'HARNESS: test constructor rule disagrees: ' + sexp.dumps(e)
            nev += 1
            inst = [lang, ty, args, e[5]]
            if okflag:
                want = [b'ok', cb, [b'inst'] + inst]
                first_ok[key] = inst
            else:
                want = [b'err'] + inst
            if out != want:
                return where + 'expected %s got %s' % (sexp.dumps(want), sexp.dumps(out))
    if nev != len(trace):
        return 'construct was called %d times but only %d calls are explained by with_try_get requests on uncached keys: %s' % (
            len(trace), nev, sexp.dumps(trace[nev]))
    # once (redundant with the walk above, stated directly on the trace)
    seen = set()
    for e in trace:
        if e[6] == b'ok':
            k = (e[1], e[3], e[4])
            if k in seen:
                return 'key %r constructed successfully twice by memoizer %d' % ((e[3], e[4]), e[1])
            seen.add(k)
    return None


def interleavings(progs):
    """all complete interleavings of the threads' request lists as lists of (tid, req)"""
    idx = [0] * len(progs)
    out = []
    cur = []

    def rec():
        done = True
        for t in range(len(progs)):
            if idx[t] < len(progs[t]):
                done = False
                cur.append((t, progs[t][idx[t]]))
                idx[t] += 1
                rec()
                idx[t] -= 1
                cur.pop()
        if done:
            out.append(list(cur))
    rec()
    return out


def sequential_outcome(lang, progs, order):
    """what a plain dictionary memoizer gives when the requests run one after the other in `order`"""
    table = {}
    n = 0
    res = [[] for _ in progs]
    tr = []
    for tid, (ty, args, cb) in order:
        k = (ty, args)
        if k in table:
            res[tid].append([b'ok', cb, [b'inst'] + table[k]])
            continue
        inst = [lang, ty, args, n]
        fail = rule_fails(args, n)
        tr.append([b'c'] + inst + [b'fail' if fail else b'ok'])
        n += 1
        if fail:
            res[tid].append([b'err'] + inst)
        else:
            table[k] = inst
            res[tid].append([b'ok', cb, [b'inst'] + inst])
    return [b'o'] + [[b't'] + r for r in res] + [[b'tr'] + tr]


def check_outcome(lang, progs, oc):
    """the property's statement on one observed concurrent outcome"""
    threads, tr = oc[1:-1], oc[-1][1:]
    if len(threads) != len(progs):
        return 'thread count'
    seen = {}
    for i, e in enumerate(tr):
        if e[1] != lang:
            return 'construct called with language %r, memoizer has %r' % (e[1], lang)
        if e[4] != i:
            return 'HARNESS: call numbers out of order'
        if not any((e[2], e[3]) == (ty, a) for p in progs for (ty, a, _) in p):
            return 'construct called with a key nobody requested: ' + sexp.dumps(e)
        if e[5] == b'ok':
            k = (e[2], e[3])
            if k in seen:
                return 'key %r constructed successfully twice (calls %d and %d)' % (k, seen[k][3], e[4])
            seen[k] = e[1:5]
    for tid, (p, t) in enumerate(zip(progs, threads)):
        rs = t[1:]
        if len(rs) != len(p):
            return 'thread %d answered %d of %d requests' % (tid, len(rs), len(p))
        for (ty, a, cb), r in zip(p, rs):
            if sexp.tag(r) == 'ok':
                if (ty, a) not in seen or r != [b'ok', cb, [b'inst'] + seen[(ty, a)]]:
                    return 'thread %d request %r: callback did not run on the instance of the successful construction of its key: %s' % (tid, (ty, a, cb), sexp.dumps(r))
            else:
                if not any(e[5] == b'fail' and [b'err'] + e[1:5] == r for e in tr) or r[2:4] != [ty, a]:
                    return 'thread %d request %r: error result is not a failed construction of its key: %s' % (tid, (ty, a, cb), sexp.dumps(r))
    return None


def oracle_shuttle(c, o):
    tag = sexp.tag(o)
    lang = c[4]
    progs = [[(r[0], r[1], r[2]) for r in th] for th in c[5]]
    scen = '/'.join(','.join('%d:%s:%d' % (t, a.hex(), cb) for (t, a, cb) in p) for p in progs)
    if tag == 'shuttle-bin-missing':
        # not a failing input: the tie between the model's granularity and the code cannot be re-established.  The model's
        # output differs from this line, so the run ends in "correspondence broken ... no-failing-input-found".
        print('  C14: schedule explorer unavailable: ' + (o[2].decode('utf-8', 'replace') if len(o) > 2 else _shuttle_log[0])[-800:], file=sys.stderr)
        return None
    if tag != 'shuttle' or len(o) < 4:
        return 'schedule explorer failed: ' + sexp.dumps(o)[:400]
    if o[2] == b'fail':
        sched = o[4].decode() if len(o) > 4 else '?'
        return ('a thread schedule violates C14 on the real concurrent.rs: %s | shuttle schedule %s | replay: %s replay 0 0 %s %s %s'
                % (o[3].decode('utf-8', 'replace')[:600], sched, SHUTTLE_BIN, lang.decode(), scen, sched))
    if o[2] != b'ok':
        return 'schedule explorer: ' + sexp.dumps(o)[:300]
    outcomes = o[4][1:]
    if not outcomes:
        return 'schedule explorer reported no outcome'
    allowed = None
    for oc in outcomes:
        why = check_outcome(lang, progs, oc)
        if why:
            return 'outcome of some schedule violates C14: %s : %s' % (why, sexp.dumps(oc)[:600])
        if allowed is None:
            allowed = set(sexp.dumps(sequential_outcome(lang, progs, order)) for order in interleavings(progs))
        if sexp.dumps(oc) not in allowed:
            return 'outcome equals no sequential order of the requests: ' + sexp.dumps(oc)[:600]
    return None


def oracle_threads(c, o):
    if sexp.tag(o) != 'threads':
        return 'unexpected result shape'
    n, lang, reqs = c[1], c[2], c[3]
    keys = set((r[0], r[1]) for r in reqs)
    if o[1] != [b'constructs', len(keys)]:
        return '%d OS threads, %d distinct keys (all constructible), but construct was called %s times' % (n, len(keys), sexp.dumps(o[1]))
    if o[2] != [b'same', b'true']:
        return 'threads saw different instances for one key'
    want = [[b'ok', r[2], [b'inst', lang, r[0], r[1]]] for r in reqs]
    if len(o[3]) != n or any(t != want for t in o[3]):
        return 'a thread got a wrong result: ' + sexp.dumps(o[3])[:300]
    return None


def oracle(case, out):
    c = sexp.loads(case)
    try:
        o = sexp.loads(out)
    except ValueError:
        return 'unparseable implementation output: ' + out[:200]
    if sexp.tag(o) in ('PANIC', 'CRASH', 'HARNESS-PARSE-ERROR'):
        return 'implementation panicked: ' + out[:300]
    t = sexp.tag(c)
    if t == 'seq':
        return oracle_seq(c, o)
    if t == 'threads':
        return oracle_threads(c, o)
    if t == 'shuttle':
        return oracle_shuttle(c, o)
    return 'unknown case'


def project(out):
    """what model and implementation must agree on: everything, except that for schedule exploration it is the SET of
    outcomes of an exhaustive DFS (the model enumerates all interleavings of atomic steps); for PCT/random/replay runs,
    which see a subset, only the verdict (their outcomes are judged by the oracle)."""
    if not out.startswith('(shuttle'):
        return out
    try:
        o = sexp.loads(out)
    except ValueError:
        return out
    if len(o) >= 5 and o[2] == b'ok':
        if o[1] == b'dfs':
            return '(shuttle dfs ok ' + ' '.join(sorted(set(sexp.dumps(x) for x in o[4][1:]))) + ')'
        return '(shuttle %s ok)' % o[1].decode()
    return out


def nontrivial(case, out):
    if '(ok ' in out or '(err ' in out:
        return hashlib.sha1(out.encode()).digest()[:10]
    return None


MANIFEST = {
    'text': 'Rocq theorems over ALL histories of get_for_lang/drop/with_try_get, ALL constructors and callbacks, and for the mutex-based '
            'memoizer ALL thread programs and ALL schedules of atomic with_try_get steps: at most one successful construction per '
            '(memoizer, type, args); every construct call carries exactly the requested args and the memoizer\'s language; every callback '
            'runs on the instance of that one construction and its result comes back unchanged; a failed construction returns the '
            'error, caches nothing, disturbs no other key and is retried; per-language memoizers are shared while a handle lives, fresh '
            'afterwards, never shared across languages; every schedule equals the sequential run in the schedule\'s order. Tied to the '
            'code by running the extracted model and the real intl-memoizer on the same histories (exhaustive to a length bound + '
            'random), 8 OS threads on the real concurrent memoizer, and shuttle schedule exploration of the real concurrent.rs.',
    'note': 'PARTIAL in one respect: "one with_try_get = one atomic step" is read off the code (the MutexGuard outlives the callback), not '
            'proved; interleavings inside the critical section, poisoning and re-entrancy (RefCell expect-panic / mutex self-deadlock) are '
            'outside the Gallina model. Supported by bounded shuttle exploration (DFS outcome sets = model outcome sets; PCT/random), which '
            'is evidence, not a theorem. Trusted: Coq kernel, extraction, Mutex/RefCell/Rc/Weak/TypeMap/HashMap semantics as modelled, shuttle.',
    'technique': 'Rocq proof (state invariant over histories, simulation of schedules by sequential runs) + differential correspondence '
                 'check + shuttle schedule exploration',
    'design_ref': 'DESIGN.md §4 C14',
}

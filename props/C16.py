"""C16 — Locale fallback picks the first locale that can answer, in every API shape.
Model: coq/theories/Fallback/Walk.v; theorems: Props/C16.v; Rust side: harness/src/bin/fallback_run.rs (tag c16).

case   := (c16 <mode> (<bundle> ...) (<req> ...))        (format documented in Extract/ExtractC16.v)
The oracle below is an independent implementation of the property STATEMENT (first locale that has
the message with a value; error list locale by locale; batch = per key; sync = async), computed
from the case alone and compared with the implementation's output."""
import itertools
import sexp

ID = 'C16'
PROPS_FILE = 'theories/Props/C16.v'
PROPS_MODULE = 'Props.C16'
COQ_TARGETS = ['theories/Extract/ExtractC16.vo']
REQUIRED_THEOREMS = ['C16_value', 'C16_errors', 'C16_batch', 'C16_batch_errs', 'C16_messages', 'C16_sync_async',
                     'C16_no_panic']
MODEL = 'c16'
HARNESS_BINS = ['fallback_run']
ANCHORS = ['fluent-fallback/src/bundles.rs', 'fluent-fallback/src/errors.rs', 'fluent-fallback/src/types.rs',
           'fluent-fallback/src/generator.rs']
TRUSTED = [
    "modelled, not verified: `$step` (Cache/AsyncCache iterators over the generator, cache.rs) is the list of items it yields, "
    "served in order, lazily, each pulled once (that is property C17); a generator that never ends is outside the model",
    "FluentBundle::format_pattern is a Section variable (text, appended resolver errors) — properties C06/C07; the correspondence "
    "run instantiates it with text + variable-reference patterns on real FluentBundles built from FTL",
    "the iterator and stream instantiations of each macro are modelled by one function (they are the same macro body); that the "
    "two really behave alike is checked by the correspondence run in both modes and by the oracle",
]
ASSUMPTIONS = [
    'every bundle the generator yields was built with a non-empty locale list (otherwise `bundle.locales[0]` panics as soon as an '
    'error has to name the locale: modelled as Panic, reproduced on the real code, excluded by hypothesis `has_locale`)',
    'the generator yields finitely many bundles',
]
RULE = ('availability matrices (locales x keys x {absent, value-less, value, value with resolver error} x broken-bundle flag), '
        'exhaustive for 3 locales x 2 keys in the thorough tier (2 locales x 2 keys + a sample in quick), every API shape '
        '(value/values/messages x sync/async API) x both modes, repeated on one instance; random larger cases with duplicate keys, '
        'arguments, attributes, empty key/locale lists; non-trivial = at least one request answered by a non-first locale or by none; '
        'distinct = distinct implementation outputs')

LOCALES = [b'pl', b'en-US', b'de', b'fr', b'it', b'en-GB']
ABSENT, VALUELESS, VALUE, VALUE_ERR = range(4)


def T(s):
    return [b't', s]


def V(s):
    return [b'v', s]


def msg_for(state, loc, kid):
    """message entry of key kid in the bundle of locale loc"""
    tagv = b'V-' + loc + b'-' + kid
    taga = b'A-' + loc + b'-' + kid
    if state == ABSENT:
        return None
    if state == VALUELESS:
        return [kid, b'none', [[b'a', [T(taga)]]]]
    if state == VALUE:
        return [kid, [T(tagv)], []]
    return [kid, [T(tagv), V(b'x')], [[b't', [T(taga), V(b'y')]]]]


def matrix_case(mode, nloc, keys, states, broken, rot):
    bundles = []
    for li in range(nloc):
        loc = LOCALES[li]
        msgs = [m for m in (msg_for(states[li][ki], loc, k) for ki, k in enumerate(keys)) if m is not None]
        bundles.append([[b'e' + loc] if broken[li] else b'ok', [loc], msgs])
    k = [[kk, b'none'] for kk in keys]
    reqs = [
        [b'value', b'sync', keys[0], b'none'],
        [b'values', b'sync', [k[0], k[1]]],
        [b'messages', b'async', [k[1], k[0]]],
        [b'value', b'async', keys[1], b'none'],
        [b'values', b'async', [k[1], k[0], k[1]]],
        [b'messages', b'sync', [k[0], k[1], k[0]]],
    ]
    reqs = reqs[rot % 6:] + reqs[:rot % 6]
    return sexp.dumps([b'c16', mode, bundles, reqs])


def matrices(nloc, nkeys):
    for cells in itertools.product(range(4), repeat=nloc * nkeys):
        states = [cells[i * nkeys:(i + 1) * nkeys] for i in range(nloc)]
        for broken in itertools.product([0, 1], repeat=nloc):
            yield states, broken


def rand_pat(rng, tag, p_var=0.3):
    els = [T(tag)]
    if rng.random() < p_var:
        els.append(V(rng.choice([b'x', b'y'])))
        if rng.random() < 0.3:
            els.append(T(b'-z'))
    return els


def rand_args(rng):
    r = rng.random()
    if r < 0.5:
        return b'none'
    if r < 0.6:
        return []
    return [[n, rng.choice([b'AX', b'B-Y', b'c'])] for n in rng.sample([b'x', b'y', b'w'], rng.randint(1, 2))]


def random_case(rng):
    nloc = rng.choice([0, 1, 1, 2, 2, 3, 3, 4, 5])
    ids = [b'k%d' % i for i in range(rng.randint(1, 5))]
    bundles = []
    for li in range(nloc):
        loc = rng.choice(LOCALES) if rng.random() < 0.2 else LOCALES[li]
        msgs = []
        for kid in ids:
            st = rng.choice([ABSENT, ABSENT, VALUELESS, VALUE, VALUE, VALUE_ERR])
            if st == ABSENT:
                continue
            attrs = [[b'a%d' % j, rand_pat(rng, b'A%d-' % j + loc + b'-' + kid)] for j in range(rng.randint(0, 3))]
            if st == VALUELESS:
                if not attrs:
                    attrs = [[b'a0', rand_pat(rng, b'A0-' + loc + b'-' + kid)]]
                msgs.append([kid, b'none', attrs])
            else:
                msgs.append([kid, rand_pat(rng, b'V-' + loc + b'-' + kid, 1.0 if st == VALUE_ERR else 0.0), attrs])
        r = rng.random()
        status = b'ok' if r < 0.7 else [b'e%d%d' % (li, j) for j in range(rng.randint(0, 2))]
        bundles.append([status, [loc], msgs])
    pool = ids + [b'zz']
    reqs = []
    for _ in range(rng.randint(1, 8)):
        api = rng.choice([b'sync', b'async'])
        r = rng.random()
        if r < 0.3:
            reqs.append([b'value', api, rng.choice(pool), rand_args(rng)])
        else:
            keys = [[rng.choice(pool), rand_args(rng)] for _ in range(rng.choice([0, 1, 2, 3, 3, 4, 6]))]
            reqs.append([b'values' if r < 0.65 else b'messages', api, keys])
    return sexp.dumps([b'c16', rng.choice([b'sync', b'async']), bundles, reqs])


def generate(rng, tier):
    keys = [b'k1', b'k2']
    if tier == 'quick':
        cases = []
        for i, (st, br) in enumerate(matrices(2, 2)):
            cases.append(matrix_case(b'sync' if i % 2 else b'async', 2, keys, st, br, i))
            cases.append(matrix_case(b'async' if i % 2 else b'sync', 2, keys, st, br, i + 3))
        yield ('exhaustive-2loc-2keys', cases)
        allm = list(matrices(3, 2))
        cases = []
        for i in rng.sample(range(len(allm)), 4000):
            st, br = allm[i]
            cases.append(matrix_case(rng.choice([b'sync', b'async']), 3, keys, st, br, i))
        yield ('sample-3loc-2keys', cases)
        n = 4000
    else:
        cases = []
        for i, (st, br) in enumerate(matrices(3, 2)):
            cases.append(matrix_case(b'sync', 3, keys, st, br, i))
            cases.append(matrix_case(b'async', 3, keys, st, br, i + 1))
        yield ('exhaustive-3loc-2keys', cases)
        n = 60000
    yield ('random-larger', [random_case(rng) for _ in range(n)])


# ---------------------------------------------------------------------------------------------
# the property statement, in Python

def fmt(pat, args):
    text, errs = b'', []
    amap = {}
    if isinstance(args, list):
        for n, v in args:
            amap[n] = v
    for el in pat:
        if el[0] == b'v':
            if el[1] in amap:
                text += amap[el[1]]
            else:
                text += b'{$' + el[1] + b'}'
                errs.append([b'ref-var', el[1]])
        else:
            text += el[1]
    return text, errs


class Bundle:
    def __init__(self, b):
        self.carried = [[b'Bundle', t] for t in b[0]] if isinstance(b[0], list) else []
        self.locales = b[1]
        self.msgs = {}
        for m in b[2]:
            self.msgs.setdefault(m[0], m)

    def loc(self):
        return [b'some', self.locales[0]]


def some(x):
    return b'none' if x is None else [b'some', x]


def expect_walk(bundles, keys, kind):
    """results and error list of a walk for `keys` (kind 'v': needs a value; 'm': needs the message)."""
    def answers(b, k):
        m = b.msgs.get(k[0])
        return m is not None and (kind == 'm' or m[1] != b'none')
    depth = []
    for k in keys:
        d = len(bundles)
        for j, b in enumerate(bundles):
            if answers(b, k):
                d = j + 1
                break
        depth.append(d)
    results, finals = [], []
    for k, d in zip(keys, depth):
        hit = d > 0 and answers(bundles[d - 1], k)
        if hit:
            m = bundles[d - 1].msgs[k[0]]
            if kind == 'v':
                results.append(some(fmt(m[1], k[1])[0]))
            else:
                val = b'none' if m[1] == b'none' else some(fmt(m[1], k[1])[0])
                results.append(some([b'msg', val, [[a[0], fmt(a[1], k[1])[0]] for a in m[2]]]))
        else:
            results.append(b'none')
            if kind == 'v' and any(k[0] in b.msgs for b in bundles):
                finals.append([b'MissingValue', k[0], b'none'])
            else:
                finals.append([b'MissingMessage', k[0], b'none'])
    # an empty batch returns before the loop: no bundle is asked for, no error is pushed (D18, fixed)
    visited = 0 if (not bundles or not keys) else max([1] + depth)
    errors = []
    for j in range(visited):
        b = bundles[j]
        errors += b.carried
        for k, d in zip(keys, depth):
            if j >= d:
                continue
            m = b.msgs.get(k[0])
            if m is None:
                errors.append([b'MissingMessage', k[0], b.loc()])
            elif kind == 'v' and m[1] == b'none':
                errors.append([b'MissingValue', k[0], b.loc()])
            else:
                res = []
                if m[1] != b'none':
                    res += fmt(m[1], k[1])[1]
                if kind == 'm':
                    for a in m[2]:
                        res += fmt(a[1], k[1])[1]
                if res:
                    errors.append([b'Resolver', k[0], b.locales[0], res])
    return results, errors + finals, visited


def expected(case):
    c = sexp.loads(case)
    mode, bundles, reqs = c[1], [Bundle(b) for b in c[2]], c[3]
    if any(not b.locales for b in bundles):
        return None                     # outside the quantifier: a per-locale bundle has a locale
    out = []
    pulled = 0
    for r in reqs:
        if r[1] == b'sync' and mode == b'async':
            out.append([b'err', b'SyncRequestInAsyncMode', [], pulled])
            continue
        if r[0] == b'value':
            res, errs, n = expect_walk(bundles, [[r[2], r[3]]], 'v')
            res = res[0]
        else:
            res, errs, n = expect_walk(bundles, r[2], 'v' if r[0] == b'values' else 'm')
        pulled = max(pulled, n)
        out.append([b'ok', res, errs, pulled])
    return out


def oracle(case, out):
    try:
        o = sexp.loads(out)
    except ValueError:
        return 'unparseable implementation output: ' + out[:200]
    exp = expected(case)
    if exp is None:
        return None
    if sexp.tag(o) in ('PANIC', 'CRASH', 'HARNESS-PARSE-ERROR'):
        return 'implementation panicked: ' + out[:200]
    if len(o) != len(exp):
        return 'expected %d results, got %d' % (len(exp), len(o))
    reqs = sexp.loads(case)[3]
    for i, (e, g) in enumerate(zip(exp, o)):
        if e != g:
            what = 'result' if e[:2] != g[:2] else ('error list' if e[2] != g[2] else 'bundles pulled from the generator')
            return 'request %d %s: %s differs from the property statement: expected %s got %s' % (
                i, sexp.dumps(reqs[i])[:120], what, sexp.dumps(e), sexp.dumps(g))
    return None


def project(line):
    return '(PANIC)' if line.startswith('(PANIC') else line


def nontrivial(case, out):
    if '(some ' + LOCALES[0].decode() + ')' in out or ' none)' in out:
        return out
    return None


MANIFEST = {
    'text': 'Rocq theorems over ALL pulled bundle sequences, key lists (duplicates included) and formatters: format_value returns the '
            'formatting from the first locale whose bundle has the message with a value and None iff none has; its error list is, '
            'bundle by bundle, the carried errors then MissingMessage/MissingValue{locale}, at the answering bundle the carried '
            'errors then Resolver{..} iff non-empty, else the locale-less closing entry; format_values / format_messages give per '
            'index exactly the single-request answer, their error list is the locale-major merge of the per-key lists and they '
            'visit exactly max_i depth_i bundles (0 and no error at all for an empty key list, >= 1 otherwise); the iterator and stream variants are one function of the pulled sequence and the '
            '*_sync API on an async-mode set returns SyncRequestInAsyncMode without touching errors or the generator. The model '
            'is tied to bundles.rs by running the extracted model and the real Localization/Bundles API on a scripted generator '
            '(availability matrices exhaustively, random larger cases, both modes, all six API methods, repeated requests).',
    'note': 'Trusted: Coq kernel; extraction; the cache (C17) abstracted as "the sequence, pulled lazily once"; format_pattern abstract. '
            'Hypothesis: every yielded bundle has a non-empty locale list — otherwise bundles.rs panics on locales[0] (reproduced). '
            'D18 (an empty batch used to pull the first bundle) is fixed in /repo: C16_batch_errs / C16_messages state that an empty '
            'key list pulls nothing and pushes nothing; reverting the fix is caught by the oracle (corpus/C16/boundary.case).',
    'technique': 'Rocq proof (induction over the pulled sequence, cell invariant for the batch loops) + differential correspondence '
                 'check + independent Python implementation of the statement as oracle',
    'design_ref': 'DESIGN.md §4 C16',
}

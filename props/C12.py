"""C12 — Numbers keep their written precision and select the locale's plural category.
Model: coq/theories/Bundle/Number.v, ResolverModel.v (colleague) ; spec: Bundle/NumberSpec.v; proofs: Bundle/NumberSpecProofs.v;
theorems: Props/C12.v; Rust side: harness/src/bin/number_run.rs.

The oracle below is an independent Python implementation of the property: the literal grammar, positional notation, the CLDR
operands (UTS #35) read off the WRITTEN digits, the CLDR 37 plural rules of en, pl, ru, fr, ar, lt, cs, ja (cardinal and ordinal),
written from the CLDR rule text (plurals.xml / ordinals.xml), the option semantics of NUMBER() and first-match selection.  It does not
import the model or Bundle/Plural.v."""
import hashlib
import math
import struct
from decimal import Decimal
from fractions import Fraction

import sexp

ID = 'C12'
PROPS_FILE = 'theories/Props/C12.v'
PROPS_MODULE = 'Props.C12'
COQ_TARGETS = ['theories/Extract/ExtractC12.vo']
REQUIRED_THEOREMS = ['C12_literal_grammar', 'C12_print', 'C12_print_placeable', 'C12_operands', 'C12_operands_beyond', 'C12_operands_total',
                     'C12_cldr_trailing_zeros', 'C12_number_opts', 'C12_number_opts_resolved', 'C12_numeric_key', 'C12_select',
                     'C12_select_expression', 'C12_exact_key_first', 'C12_locale_partial', 'C12_select_literal', 'C12_option_keys_from_source']
MODEL = 'c12'
HARNESS_BINS = ['number_run']
RELEASE_TOO = True
ANCHORS = ['fluent-bundle/src/types/number.rs', 'fluent-bundle/src/types/plural.rs', 'fluent-bundle/src/types/mod.rs',
           'fluent-bundle/src/builtins.rs', 'fluent-bundle/src/resolver/expression.rs']
TRUSTED = [
    'modelled, not verified (validated by the correspondence run only): the hand-written Gallina transliteration of FluentNumber / FluentNumberOptions / '
    'PluralOperands::try_from / NUMBER (Bundle/Number.v) and of the resolver (Bundle/ResolverModel.v), one definition per Rust function',
    'numbers are exact decimals = the Display text of the f64: decimal -> binary64 -> shortest decimal is the identity for at most 15 significant '
    'digits (DBL_DIG; IEEE-754, Rust f64::from_str and Display are trusted, sampled by the correspondence run: 0 deviations with <= 15 digits, '
    '10 % of literals with 16, 92 % with 17, all with 18)',
    '`rules` (the PluralRules object of the bundle\'s first locale) is THIRD-PARTY code: intl_pluralrules 7.0.2 (CLDR 37 tables) behind '
    'fluent_langneg negotiation; in the theorems it is a section variable. The model-side table Bundle/Plural.v that instantiates it in the '
    'extraction transcribes the CRATE, not CLDR; the oracle of this plugin is written from CLDR and found the crate deviating (finding D29)',
    'FluentArgs holds one entry per key, sorted (theorem C11_sorted); with_try_get(...).unwrap() on the memoizer never fails',
    'outside the model (not generated for the correspondence, the oracle alone covers the real code there): binary-float ARGUMENTS with '
    '2^53 <= |x| < 2^64 whose shortest round-trip digits are not their exact integer value (68309228277707248.0 displays 68309228277707250): '
    'operand i of the real code is the exact integer (`value as u64`), the exact-decimal model reads the displayed digits',
]
ASSUMPTIONS = [
    'exact_guard: the literal has at most 15 significant digits (beyond it the real code rounds: known finding D15)',
    'C12_operands: integer part and fraction digits, read as integers, fit a u64 (beyond: C12_operands_beyond gives the saturated values min(., 2^64-1))',
    'C12_select / C12_select_expression: the selector number is in the range of an f64 (its operands conversion returns: C06_operands_total / '
    'C12_operands_total for literals) and the memoizer holds only objects built by `rules` (true of the empty memoizer and preserved)',
]
RULE = ('literals = sign x leading zeros x 0-18 (and 19-30) fraction digits with digit patterns of interest (all-zero, trailing zeros, 9-runs, '
        'boundaries at 15/16/17 significant digits), exhaustive over the grid i in 0..200 + boundaries, v in 0..3, all f for v <= 2; numeric arguments '
        'of every Rust number type at type boundaries; NUMBER option combinations incl. wrong kinds and unknown keys; per locale (8 plural systems, '
        'region variants, unknown locale, locale lists) the category chosen by the REAL bundle vs the CLDR rule on the operand grid, cardinal and '
        'ordinal; exact numeric keys vs category keys in both orders; debug and release builds; distinct = distinct implementation outputs')
PARTIAL = ('C12_locale_partial is as far as the model carries it: the rules object used is `rules ty`, cached per type and never replaced; that `rules` is '
           'PluralRules::construct(FIRST locale, ty) and what that third-party object computes is decided by the oracle (locale lists, CLDR tables) only. '
           'The IEEE-754 fact behind exact_guard is trusted, not proved.')
MANIFEST = {
    'text': 'Rocq theorems over ALL literals of the grammar -?d+(.d+)? (recogniser parse_literal, no length bound): within 15 significant digits '
            'as_string(parse s) is s with the leading zeros of the integer part stripped, every written fraction digit kept, same value '
            '(C12_print, C12_print_placeable); the plural operands equal the CLDR operands of the written digits n,i,v,w,f,t when they fit u64 '
            '(C12_operands), saturate at 2^64-1 otherwise and never panic (C12_operands_beyond, C12_operands_total); NUMBER(x, opts) sets exactly '
            'the named options of the right kind, overriding x, keeping the rest (C12_number_opts, _resolved); a select takes the first variant whose '
            'numeric key equals the selector by VALUE (arithmetic equality, C12_numeric_key) or whose keyword is rules(type)(operands), else the '
            'default (C12_select, C12_select_expression, C12_exact_key_first); the rules object is rules(type), memoised (C12_locale_partial). '
            'The model is tied to the Rust code by running the extracted model and the real FluentNumber / NUMBER / FluentBundle on the same cases; '
            'an independent CLDR oracle decides the property on the implementation alone.',
    'note': 'Trusted: Coq kernel, extraction, hand transliteration (validated differentially), exact-decimal stand-in for f64 within 15 significant '
            'digits. `rules` is third-party code (intl_pluralrules 7.0.2, CLDR 37): a section variable in the theorems; Bundle/Plural.v transcribes the '
            'crate, not CLDR. Known findings: D15 (f64 loses digits beyond 15), D29 (the crate\'s tables deviate from CLDR for ar, lt, en ordinal).',
    'technique': 'Rocq proof (induction over digit strings; arithmetic characterisation of decimal equality) + differential correspondence check + '
                 'implementation-only CLDR oracle',
    'design_ref': 'DESIGN.md §4 C12',
}

U64 = 2 ** 64 - 1
DEF = [b'cardinal', b'decimal', b'none', b'symbol', b'true', b'none', b'none', b'none', b'none', b'none']
KEYWORDS = [b'zero', b'one', b'two', b'few', b'many', b'other']
LANGS = ('en', 'pl', 'ru', 'fr', 'ar', 'lt', 'cs', 'ja', 'pt', 'pt-PT')
GUARD = 15


# =============================================================================================
# the specification, in Python

def parse_lit(s):
    """-?d+(.d+)?  ->  (neg, int digits, fraction digits or None) | None"""
    if isinstance(s, bytes):
        try:
            s = s.decode('ascii')
        except UnicodeDecodeError:
            return None
    neg = s.startswith('-')
    b = s[1:] if neg else s
    if '.' in b:
        i, f = b.split('.', 1)
        if not (i.isdigit() and f.isdigit() and i.isascii() and f.isascii()):
            return None
        return (neg, i, f)
    if not (b.isdigit() and b.isascii()):
        return None
    return (neg, b, None)


def sig_digits(i, f):
    return len((i + (f or '')).lstrip('0').rstrip('0'))


def canonical_print(neg, i, f):
    return ('-' if neg else '') + (i.lstrip('0') or '0') + ('' if f is None else '.' + f)


def abs_text(i, f):
    """the absolute value as the shortest positional decimal (what Display prints for an exactly represented value)"""
    ff = (f or '').rstrip('0')
    return (i.lstrip('0') or '0') + ('.' + ff if ff else '')


class Num:
    """a number as the property sees it: exact value (Fraction | 'nan' | 'inf' | '-inf'), sign, written/visible
    fraction digits, options (dict)"""

    def __init__(self, neg, i, f, special=None, opts=None, sig=0):
        self.neg, self.i, self.f, self.special = neg, i, f, special   # i, f digit strings of the shortest decimal of |value|
        self.opts = dict(opts) if opts else default_opts()
        self.sig = sig
        self.i_exact = None          # binary floating-point arguments: the exact integer part of the value (Display prints the
                                     # shortest digits that round-trip, which above 2^53 need not be the exact integer)

    def value(self):
        if self.special:
            return self.special
        v = Fraction(int(self.i + self.f), 10 ** len(self.f))
        return -v if self.neg else v

    def display(self):
        if self.special:
            return self.special
        return ('-' if self.neg else '') + self.i + ('.' + self.f if self.f else '')

    def as_string(self):
        d = self.display()
        mfd = self.opts['mfd']
        if mfd is not None:
            if '.' in d:
                d += '0' * max(0, mfd - len(self.f))
            else:
                d += '.' + '0' * mfd
        return d

    def operands(self):
        """CLDR operands including the visible fraction digits (minimum_fraction_digits), saturated at u64"""
        if self.special == 'NaN':
            return ('NaN', 0, 0, 0, 0, 0)
        if self.special:
            return ('inf', U64, 0, 0, 0, 0)
        i = int(self.i)
        w = len(self.f)
        t = int(self.f or '0')
        v = w
        f = t
        mfd = self.opts['mfd']
        if mfd is not None and mfd > v:
            f = 0 if t == 0 else (t * 10 ** (mfd - v) if mfd - v <= 20 else U64 + 1)      # beyond 10^20 every non-zero f exceeds u64
            v = mfd
        if self.i_exact is not None:
            i = self.i_exact
        return (self.i + ('.' + self.f if self.f else ''), min(i, U64), v, w, min(f, U64), t)


def default_opts():
    return {'type': b'cardinal', 'style': b'decimal', 'currency': None, 'cd': b'symbol', 'ug': True,
            'minint': None, 'mfd': None, 'maxfd': None, 'minsd': None, 'maxsd': None}


OPT_ORDER = ['type', 'style', 'currency', 'cd', 'ug', 'minint', 'mfd', 'maxfd', 'minsd', 'maxsd']


def opts_of_sexp(o):
    d = default_opts()
    d['type'], d['style'] = o[0], o[1]
    d['currency'] = None if o[2] == b'none' else o[2][1]
    d['cd'] = o[3]
    d['ug'] = o[4] == b'true'
    for k, x in zip(OPT_ORDER[5:], o[5:]):
        d[k] = None if x == b'none' else x[1]
    return d


def opts_to_sexp(d, text=False):
    """case form (integers) or, with text=True, result form (the five digit options as decimal text: a usize does not fit an integer atom)"""
    so = lambda x: b'none' if x is None else [b'some', x]
    sd = lambda x: b'none' if x is None else [b'some', str(x).encode() if text else x]
    return [d['type'], d['style'], so(d['currency']), d['cd'], b'true' if d['ug'] else b'false'] + [sd(d[k]) for k in OPT_ORDER[5:]]


def num_of_literal(s):
    """FluentNumber::from_str / FluentValue::try_number on a literal of the grammar"""
    p = parse_lit(s)
    if p is None:
        return None
    neg, i, f = p
    n = Num(neg, i.lstrip('0') or '0', (f or '').rstrip('0'), sig=sig_digits(i, f))
    if f is not None:
        n.opts['mfd'] = len(f)
    return n


def num_of_display(t, opts=None):
    """a number given by the Display text of its f64"""
    if isinstance(t, bytes):
        t = t.decode()
    if t == 'NaN':
        return Num(False, '', '', special='NaN', opts=opts)
    if t in ('inf', '-inf'):
        return Num(t[0] == '-', '', '', special=t, opts=opts)
    neg, i, f = parse_lit(t)
    return Num(neg, i, f or '', opts=opts)


def rust_display(x):
    """Rust's f64::to_string(): shortest round-trip digits, positional notation"""
    if math.isnan(x):
        return 'NaN'
    if math.isinf(x):
        return 'inf' if x > 0 else '-inf'
    s = format(Decimal(repr(x)), 'f')
    if '.' in s:
        s = s.rstrip('0').rstrip('.')
    return s


def as_usize(n):
    """`value as usize` of an f64"""
    v = n.value()
    if v == 'NaN' or v == '-inf':
        return 0
    if v == 'inf':
        return U64
    if v < 0:
        return 0
    return min(int(v), U64)


def apply_number_opts(n, named):
    """NUMBER(n, named): named = list of (key bytes, ('s', bytes) | ('n', Num) | ('x',)); one entry per key (last wins)"""
    o = dict(n.opts)
    look = {}
    for k, v in named:
        look[k] = v
    for k, v in look.items():
        if v[0] == 's':
            s = v[1]
            if k == b'type':
                o['type'] = s if s in (b'cardinal', b'ordinal') else b'cardinal'
            elif k == b'style':
                o['style'] = s if s in (b'decimal', b'currency', b'percent') else b'decimal'
            elif k == b'currency':
                o['currency'] = s
            elif k == b'currencyDisplay':
                o['cd'] = s if s in (b'symbol', b'code', b'name') else b'symbol'
            elif k == b'useGrouping':
                o['ug'] = s != b'false'
        elif v[0] == 'n':
            key = {b'minimumIntegerDigits': 'minint', b'minimumFractionDigits': 'mfd', b'maximumFractionDigits': 'maxfd',
                   b'minimumSignificantDigits': 'minsd', b'maximumSignificantDigits': 'maxsd'}.get(k)
            if key:
                o[key] = as_usize(v[1])
    r = Num(n.neg, n.i, n.f, special=n.special, opts=o, sig=n.sig)
    r.i_exact = n.i_exact
    return r


# ---- CLDR 37 plural rules (plurals.xml, ordinals.xml), on the operands n (Fraction), i, v, w, f, t ----

def _int_in(x, lo, hi):
    """CLDR range relation: x is an INTEGER within lo..hi"""
    return x.denominator == 1 and lo <= x <= hi


def cldr_category(lang, ty, n, i, v, w, f, t):
    if ty == b'ordinal':
        if lang == 'en':
            # one: n % 10 = 1 and n % 100 != 11; two: n % 10 = 2 and n % 100 != 12; few: n % 10 = 3 and n % 100 != 13
            if n % 10 == 1 and n % 100 != 11:
                return b'one'
            if n % 10 == 2 and n % 100 != 12:
                return b'two'
            if n % 10 == 3 and n % 100 != 13:
                return b'few'
            return b'other'
        if lang == 'fr':
            return b'one' if n == 1 else b'other'       # one: n = 1
        return b'other'                                 # pl, ru, ar, lt, cs, ja: other only
    if lang == 'pt':
        return b'one' if i in (0, 1) else b'other'                            # CLDR 37 pt: one: i = 0..1
    if lang == 'pt-PT':
        return b'one' if i == 1 and v == 0 else b'other'                      # CLDR 37 pt_PT: one: i = 1 and v = 0
    if lang == 'en':
        return b'one' if i == 1 and v == 0 else b'other'                      # one: i = 1 and v = 0
    if lang == 'pl':
        if i == 1 and v == 0:
            return b'one'
        if v == 0 and 2 <= i % 10 <= 4 and not 12 <= i % 100 <= 14:
            return b'few'
        if (v == 0 and i != 1 and 0 <= i % 10 <= 1) or (v == 0 and 5 <= i % 10 <= 9) or (v == 0 and 12 <= i % 100 <= 14):
            return b'many'
        return b'other'
    if lang == 'ru':
        if v == 0 and i % 10 == 1 and i % 100 != 11:
            return b'one'
        if v == 0 and 2 <= i % 10 <= 4 and not 12 <= i % 100 <= 14:
            return b'few'
        if (v == 0 and i % 10 == 0) or (v == 0 and 5 <= i % 10 <= 9) or (v == 0 and 11 <= i % 100 <= 14):
            return b'many'
        return b'other'
    if lang == 'fr':
        return b'one' if i in (0, 1) else b'other'                            # CLDR 37: one: i = 0,1
    if lang == 'ar':
        if n == 0:
            return b'zero'
        if n == 1:
            return b'one'
        if n == 2:
            return b'two'
        if _int_in(n % 100, 3, 10):
            return b'few'
        if _int_in(n % 100, 11, 99):
            return b'many'
        return b'other'
    if lang == 'lt':
        if n % 10 == 1 and not _int_in(n % 100, 11, 19):
            return b'one'
        if _int_in(n % 10, 2, 9) and not _int_in(n % 100, 11, 19):
            return b'few'
        if f != 0:
            return b'many'
        return b'other'
    if lang == 'cs':
        if i == 1 and v == 0:
            return b'one'
        if 2 <= i <= 4 and v == 0:
            return b'few'
        if v != 0:
            return b'many'
        return b'other'
    return b'other'                                                           # ja


def negotiate(locales):
    """PluralRules::construct: the bundle's FIRST locale, looked up among the locales with rules, default en"""
    if not locales:
        return 'en'
    if locales[0] == b'pt-PT':
        return 'pt-PT'                      # the only region with its own plural rule set
    lang = locales[0].decode().split('-')[0].lower()
    return lang if lang in LANGS else 'en'


def category_of(locales, n):
    """plural category of number n (a Num) in a bundle with these locales; None for NaN / infinities"""
    if n.special:
        return None
    _, i, v, w, f, t = n.operands()
    i_exact = int(n.i) if n.i_exact is None else n.i_exact
    if i_exact > U64:
        return None
    return cldr_category(negotiate(locales), n.opts['type'], abs(n.value()), i_exact, v, w, f, t)


def num_equal(a, b):
    va, vb = a.value(), b.value()
    if 'NaN' in (va, vb):
        return False
    return va == vb


# =============================================================================================
# case construction

def lit_case(s, pr=True):
    return sexp.dumps([b'num', [b'lit', s if isinstance(s, bytes) else s.encode()], b'true' if pr else b'false'])


def mnum(display, opts=None):
    return [b'mnum', display.encode() if isinstance(display, str) else display, opts_to_sexp(opts) if isinstance(opts, dict) else (opts or DEF)]


def v_int(ty, v):
    return [b'conv', [b'int', ty.encode(), str(v).encode() if abs(v) >= 2 ** 62 else v], mnum(rust_display(float(v)))]


def v_f64(x):
    return [b'conv', [b'flt', b'f64', struct.pack('>d', x)], mnum(rust_display(x))]


def model_valid_f64(x):
    """The exact-decimal model holds the DISPLAY digits of an f64; `value as u64` (operand i of a number without fraction) works on the
    binary value.  The two differ for 2^53 <= |x| < 2^64 when the shortest round-trip digits are not the exact integer
    (68309228277707248.0 displays 68309228277707250): outside the model's validity, not generated."""
    if math.isnan(x) or math.isinf(x) or abs(x) < 2 ** 53 or abs(x) >= 2 ** 64:
        return True
    return int(abs(x)) == int(rust_display(abs(x)))


def v_f32(x):
    f = struct.unpack('>f', struct.pack('>f', x))[0]
    return [b'conv', [b'flt', b'f32', struct.pack('>f', x)], mnum(rust_display(f))]


def v_numstr(s):
    """FluentValue::try_number(s): the model form is what the f64 displays, with the written fraction digits"""
    t = s.decode() if isinstance(s, bytes) else s
    p = parse_lit(t)
    o = default_opts()
    if p[2] is not None:
        o['mfd'] = len(p[2])
    return [b'conv', [b'numstr', t.encode()], mnum(rust_display(float(t)), o)]


def v_str(s):
    return [b'str', b'o', s]


INT_TYPES = {'i8': (-2 ** 7, 2 ** 7 - 1), 'i16': (-2 ** 15, 2 ** 15 - 1), 'i32': (-2 ** 31, 2 ** 31 - 1),
             'i64': (-2 ** 63, 2 ** 63 - 1), 'i128': (-2 ** 127, 2 ** 127 - 1), 'isize': (-2 ** 63, 2 ** 63 - 1),
             'u8': (0, 2 ** 8 - 1), 'u16': (0, 2 ** 16 - 1), 'u32': (0, 2 ** 32 - 1), 'u64': (0, 2 ** 64 - 1),
             'u128': (0, 2 ** 128 - 1), 'usize': (0, 2 ** 64 - 1)}


def num_case(src, pr=True):
    return sexp.dumps([b'num', src, b'true' if pr else b'false'])


def number_case(value, named):
    return sexp.dumps([b'number', value, [b'args'] + [[k, v] for k, v in named]])


ALLKEYS = [[b'id', k] for k in KEYWORDS] + [[b'id', b'x']]      # default = the 7th variant: "no key matched"


def sel_case(locales, selector, keys=None, default=None):
    keys = ALLKEYS if keys is None else keys
    if default is None:
        default = len(keys) - 1
    return sexp.dumps([b'sel', [l if isinstance(l, bytes) else l.encode() for l in locales], selector, keys, default])


def sel_lit(s):
    return [b'lit', s.encode() if isinstance(s, str) else s]


def sel_arg(v):
    return [b'arg', v]


def sel_fn(v, opts):
    """opts: list of (name, ('s', text) | ('n', literal))"""
    return [b'fn', v, [[k.encode(), [b's' if kind == 's' else b'n', x.encode() if isinstance(x, str) else x]] for k, (kind, x) in opts]]


# =============================================================================================
# the value of a case-level value form, as the property sees it (computed from the IMPLEMENTATION form)

def num_of_value(v):
    """-> ('num', Num) | ('str', bytes) | ('other',)"""
    if isinstance(v, bytes):
        return ('other',)
    t = v[0]
    if t == b'conv':
        return num_of_value(v[1])
    if t == b'mnum':
        return ('num', num_of_display(v[1], opts_of_sexp(v[2])))
    if t == b'str':
        return ('str', v[2])
    if t == b'numstr':
        n = num_of_literal(v[1])
        return ('num', n) if n is not None else ('str', v[1])
    if t == b'int':
        x = int(v[2].decode()) if isinstance(v[2], bytes) else v[2]
        s = str(abs(x))
        n = Num(x < 0, s, '', sig=len(s.rstrip('0')))
        return ('num', n)
    if t == b'flt':
        if v[1] == b'f64':
            x = struct.unpack('>d', v[2])[0]
        else:
            x = struct.unpack('>f', v[2])[0]
        n = num_of_display(rust_display(x))
        if not (math.isnan(x) or math.isinf(x)):
            n.i_exact = int(abs(x))
        return ('num', n)
    return ('other',)


def selector_of(sel):
    """the selector value of a sel case and the literals it was written with"""
    t = sel[0]
    if t == b'lit':
        n = num_of_literal(sel[1])
        return ('num', n) if n else ('other',)
    if t == b'arg':
        return num_of_value(sel[1])
    if t == b'fn':
        x = num_of_value(sel[1])
        if x[0] != 'num':
            return ('error',)
        named = []
        for o in sel[2]:
            k, (kind, val) = o[0], o[1]
            if kind == b's':
                named.append((k, ('s', val)))
            else:
                m = num_of_literal(val)
                named.append((k, ('n', m) if m else ('s', val)))
        return ('num', apply_number_opts(x[1], named))
    return ('other',)


def too_precise(case):
    """class D15: some literal / numeric string / integer argument of the case has more than 15 significant digits"""
    hit = [False]

    def lit(s):
        p = parse_lit(s)
        if p and sig_digits(p[1], p[2]) > GUARD:
            hit[0] = True

    def walk(x):
        if isinstance(x, list) and x:
            if x[0] in (b'lit', b'numstr', b'num', b'n') and len(x) == 2 and isinstance(x[1], bytes):
                lit(x[1])
            if x[0] == b'int' and len(x) == 3:
                v = x[2].decode() if isinstance(x[2], bytes) else str(x[2])
                if len(v.lstrip('-').rstrip('0')) > GUARD:
                    hit[0] = True
            for y in x:
                walk(y)
    walk(case)
    return hit[0]


# =============================================================================================
# oracle

def _ops_expected(n):
    nd, i, v, w, f, t = n.operands()
    return [b'ops', nd.encode(), str(i).encode(), str(v).encode(), str(w).encode(), str(f).encode(), str(t).encode()]


def oracle(case, out):
    try:
        o = sexp.loads(out)
    except ValueError:
        return 'unparseable implementation output: ' + out[:200]
    tg = sexp.tag(o)
    if tg in ('PANIC', 'CRASH', 'HARNESS-PARSE-ERROR', 'NOT-RUN'):
        return 'implementation panicked / crashed: ' + out[:300]
    if tg != 'ok':
        return 'unexpected implementation output: ' + out[:200]
    c = sexp.loads(case)
    kind = c[0]
    if kind == b'num':
        src, pr = c[1], c[2] == b'true'
        if src[0] == b'lit':
            n = num_of_literal(src[1])
            if n is None:
                return None                       # outside the grammar: nothing is claimed
        else:
            x = num_of_value(src)
            if x[0] != 'num':
                return None if o[1] == b'notnum' else 'a non-number became a number: ' + out[:200]
            n = x[1]
        if o[1] == b'notnum':
            return 'a number literal / numeric argument did not become a FluentNumber'
        got_num, got_str, got_ops = o[1], o[2], o[3]
        if got_num[1].decode() != n.display():
            return 'value changed: written %s, the number holds %s' % (n.display(), got_num[1].decode())
        if got_num[2] != opts_to_sexp(n.opts, True):
            return 'options: expected %s got %s' % (sexp.dumps(opts_to_sexp(n.opts, True)), sexp.dumps(got_num[2]))
        if pr and got_str[1].decode() != n.as_string():
            return 'prints %s, expected %s (every written fraction digit, no leading zeros)' % (got_str[1].decode(), n.as_string())
        exp = _ops_expected(n)
        if n.special is None and got_ops != exp:          # NaN / infinities: only "does not panic" is claimed
            return 'plural operands (n i v w f t) = %s, CLDR operands of the written digits = %s' % (
                b' '.join(got_ops[1:]).decode(), b' '.join(exp[1:]).decode())
        return None
    if kind == b'number':
        x = num_of_value(c[1])
        named = []
        for kv in c[2][1:]:
            y = num_of_value(kv[1])
            named.append((kv[0], ('s', y[1]) if y[0] == 'str' else ('n', y[1]) if y[0] == 'num' else ('x',)))
        if x[0] != 'num':
            return None if o[1] == b'error' else 'NUMBER of a non-number did not return an error: ' + out[:200]
        r = apply_number_opts(x[1], named)
        want = [b'num', r.display().encode(), opts_to_sexp(r.opts, True)]
        if o[1] != want:
            return 'NUMBER(x, opts) = %s, expected %s (named options of the right kind override, all others are kept)' % (
                sexp.dumps(o[1]), sexp.dumps(want))
        return None
    if kind == b'sel':
        locales, sel, keys, default = c[1], c[2], c[3], c[4]
        text, errs, text2 = o[1].decode('utf-8', 'replace'), o[2], o[3].decode('utf-8', 'replace')
        if text2 != text:
            return 'second format_pattern on the same bundle gives %r, the first %r' % (text2, text)
        s = selector_of(sel)
        if s[0] not in ('num', 'str'):
            return None
        chosen = None
        if s[0] == 'num':
            n = s[1]
            cat = category_of(locales, n)
            for idx, k in enumerate(keys):
                if k[0] == b'num':
                    kn = num_of_literal(k[1])
                    if kn is not None and num_equal(kn, n):
                        chosen = idx
                        break
                elif k[1] in KEYWORDS and n.special is None and cat is not None and k[1] == cat:
                    chosen = idx
                    break
                elif k[1] in KEYWORDS and (n.special is not None or cat is None):
                    return None                          # category of NaN / infinities / i beyond u64: not claimed
            printed = n.as_string()
        else:
            for idx, k in enumerate(keys):
                if k[0] == b'id' and k[1] == s[1]:
                    chosen = idx
                    break
            printed = s[1].decode('utf-8', 'replace')
        if chosen is None:
            chosen = default
        want = 'V%d|%s' % (chosen, printed)
        if text != want:
            what = ''
            if s[0] == 'num':
                what = ' (selector %s, type %s, locale %s: CLDR category %s)' % (
                    s[1].as_string(), s[1].opts['type'].decode(), negotiate(locales), (category_of(locales, s[1]) or b'-').decode())
            return 'formats %r, expected %r%s' % (text, want, what)
        if errs:
            return 'errors reported: ' + sexp.dumps(errs)
        return None
    return 'unknown case kind'


def release_agrees(case, dbg, rel):
    return project(dbg) == project(rel)


def project(out):
    if out.startswith('(PANIC'):
        return '(PANIC)'
    return out


def d29_class(c):
    """(first locale negotiates to ar or lt, cardinal, integer part >= 20 or non-zero fraction) or (en ordinal and non-zero fraction)"""
    if c[0] != b'sel':
        return False
    s = selector_of(c[2])
    if s[0] != 'num' or s[1].special:
        return False
    n = s[1]
    lang = negotiate(c[1])
    if n.opts['type'] == b'cardinal' and lang in ('ar', 'lt'):
        return int(n.i) >= 20 or n.f != ''
    if n.opts['type'] == b'ordinal' and lang == 'en':
        return n.f != ''
    return False


def classify(case, why, out=None):
    if out is not None and (out.startswith('(PANIC') or out.startswith('(CRASH')):
        return None
    c = sexp.loads(case)
    if too_precise(c):
        return 'D15'
    if d29_class(c):
        return 'D29'
    return None


def nontrivial(case, out):
    if not out.startswith('(ok'):
        return None
    return hashlib.sha1(out.encode()).digest()[:8]


# =============================================================================================
# generators

FRAC3 = ['000', '001', '010', '100', '500', '999', '123', '990', '009', '101', '050', '110']
I_BOUNDS = [201, 202, 211, 212, 222, 999, 1000, 1001, 1002, 1003, 1011, 1012, 1021, 1022, 1111, 10000, 100000, 1000000, 1000001, 1000002,
            2000000, 10 ** 9, 2 ** 31 - 1, 2 ** 31, 2 ** 32, 10 ** 12, 10 ** 14, 10 ** 15 - 1, 123456789012345]


def grid_fracs(vmax_all=2):
    fr = [None]
    for v in range(1, vmax_all + 1):
        fr += [format(x, '0%dd' % v) for x in range(10 ** v)]
    return fr + FRAC3


def lit_str(i, f, neg=False, zeros=0):
    return ('-' if neg else '') + '0' * zeros + str(i) + ('' if f is None else '.' + f)


def gen_literal_grid(tier):
    cases = []
    imax = 200
    fr = grid_fracs()
    for i in list(range(0, imax + 1)) + I_BOUNDS:
        for f in (fr if i <= imax else [None, '0', '5', '00', '10', '05', '000', '001', '990']):
            cases.append(lit_case(lit_str(i, f)))
    return cases


def digit_patterns(rng, n):
    """digit strings of length n of interest"""
    if n == 0:
        return ['']
    ps = {'0' * n, '9' * n, '0' * (n - 1) + '1', '1' + '0' * (n - 1), '5' + '0' * (n - 1), '9' * (n - 1) + '0', '0' * (n - 1) + '5',
          ('12345678901234567890' * 3)[:n], ''.join(rng.choice('0123456789') for _ in range(n)),
          ''.join(rng.choice('0123456789') for _ in range(n - 1)) + rng.choice('123456789')}
    if n >= 2:
        ps.add('1' + '0' * (n - 2) + '1')
        ps.add('4' + '9' * (n - 1))
        ps.add(''.join(rng.choice('09') for _ in range(n)))
    return sorted(ps)


def gen_literal_patterns(rng, tier):
    """sign x leading zeros x integer patterns x 0..18 (and 19..30) fraction digits; a share beyond 15 significant digits (class D15)"""
    lits = set()
    ints = ['0', '1', '2', '5', '7', '9', '10', '11', '12', '21', '99', '100', '101', '111', '1000', '12345', '999999', '1000000',
            '123456789', '99999999999999', '100000000000000', '999999999999999', '123456789012345', '1000000000000000', '9007199254740992',
            '9007199254740993', '18446744073709551615', '18446744073709551616', '100000000000000000000', '1000000000000000000000000']
    for v in list(range(0, 19)) + [19, 20, 21, 25, 30]:
        for f in digit_patterns(rng, v):
            for i in (ints if v <= 18 else ints[:12]):
                if tier == 'quick' and rng.random() < 0.4:
                    continue
                if sig_digits(i, f if v else None) > GUARD and rng.random() < 0.85:
                    continue                              # keep the share of class-D15 literals small
                neg = rng.random() < 0.3
                zeros = rng.choice([0, 0, 0, 1, 2, 5])
                lits.add(lit_str(i, f if v else None, neg, zeros))
    # boundaries at 15 / 16 / 17 significant digits, the point at every position
    for nd in (14, 15, 16, 17):
        for _ in range(40 if tier == 'quick' else 400):
            d = rng.choice('123456789') + ''.join(rng.choice('0123456789') for _ in range(nd - 2)) + rng.choice('123456789')
            v = rng.randrange(0, 19)
            if v == 0:
                s = d
            elif v < nd:
                s = d[:nd - v] + '.' + d[nd - v:]
            else:
                s = '0.' + '0' * (v - nd) + d
            lits.add(('-' if rng.random() < 0.2 else '') + s)
            lits.add(s + '0' * rng.randrange(0, 4) if '.' in s else s)
    for s in ['-0', '-0.0', '0.0', '00', '000.000', '-00.10', '0.50', '007', '1.0', '1.00', '1.000000000000000000', '1.000000000000000001',
              '1.0000000000000000000000000', '0.00000000000000000000', '1.00000000000000000000', '1.0000000000000000000', '1.5000000000000000000000000',
              '0.1000000000000000000000001', '76.09248484134036', '9007199254740993', '0.000000000000000000000000000001', '123456789012345678901234567890']:
        lits.add(s)
    return [lit_case(s) for s in sorted(lits)]


def gen_numeric_arguments(rng, tier):
    cases = []
    for ty, (lo, hi) in sorted(INT_TYPES.items()):
        vs = {lo, hi, lo + 1, hi - 1, 0, 1, 2, 5, 11, 21, 100, 101, 10 ** 15 - 1, 10 ** 15, 2 ** 53, 2 ** 53 + 1, -(2 ** 53) - 1, -1, -2, 10 ** 15 * 7}
        for _ in range(4 if tier == 'quick' else 40):
            vs.add(rng.randint(lo, hi))
            vs.add(rng.randint(max(lo, -10 ** 15), min(hi, 10 ** 15)))
        for v in sorted(vs):
            if lo <= v <= hi:
                cases.append(num_case(v_int(ty, v)))
    f64s = [0.0, -0.0, 1.0, -1.0, 1.5, 2.5, 0.1, 0.2, 0.30000000000000004, 1e-7, 1e21, 1e22, 1e300, -1e300, 5e-324, 2.2250738585072014e-308,
            1.7976931348623157e308, 123456789.12345679, 9007199254740993.0, 18446744073709551615.0, 4.35, 100.0, 0.5, 1e15, 1e16, 123456.789,
            float('nan'), float('inf'), float('-inf')]
    for x in f64s:
        cases.append(num_case(v_f64(x)))
    for _ in range(300 if tier == 'quick' else 20000):
        # random binary floats are written with at most 15 significant digits: their Display text is then that decimal (beyond it the
        # shortest round-trip digits can be a tie, which Rust and Python's repr break differently: 0x1.7a094f3b999bap+49 = ...007.25
        # prints ...007.3 in Rust and ...007.2 in Python; the case must carry Rust's text)
        nd = rng.randint(1, 15)
        digits = str(rng.randint(1, 10 ** nd - 1))
        x = float(digits + 'e' + str(rng.randint(-nd - 6, 6)))
        if rng.random() < 0.3:
            x = -x
        if model_valid_f64(x):
            cases.append(num_case(v_f64(x)))
    for x in (0.1, 1.0 / 3.0, 3.4e38, 1e-45, 16777217.0, 1.0, 2.5, 0.5):
        cases.append(num_case(v_f32(x)))
    for s in ('1', '1.0', '1.50', '01', '-0', '-0.0', '0.000', '100.10', '007.00', '1.00000000000000000000', '2.000000000000000000000', '123456789012345.0'):
        cases.append(num_case(v_numstr(s)))
    # values with their own minimum_fraction_digits (what NUMBER / try_number leave behind), around v, 19, 20 and the u32 boundary
    for disp in ('0', '1', '2', '1.5', '0.25', '12.125', '100', '0.1', '-1', '-1.5', '1000000', '0.001', '18446744073709552000', 'NaN', 'inf', '-inf'):
        for mfd in (0, 1, 2, 3, 4, 17, 18, 19, 20, 21, 25, 40):
            o = default_opts()
            o['mfd'] = mfd
            o['type'] = rng.choice([b'cardinal', b'ordinal'])
            cases.append(num_case(mnum(disp, o)))
        for mfd in (4294967295, 4294967296, 4294967297, 2 ** 62 - 1):
            o = default_opts()
            o['mfd'] = mfd
            cases.append(num_case(mnum(disp, o), pr=False))
    return cases


STR_OPTS = {b'type': [b'cardinal', b'ordinal', b'bogus', b''], b'style': [b'decimal', b'currency', b'percent', b'x'],
            b'currency': [b'USD', b'EUR', b''], b'currencyDisplay': [b'symbol', b'code', b'name', b'zz'], b'useGrouping': [b'false', b'true', b'no', b'']}
NUM_OPTS = [b'minimumIntegerDigits', b'minimumFractionDigits', b'maximumFractionDigits', b'minimumSignificantDigits', b'maximumSignificantDigits']
NUM_OPT_VALUES = ['0', '1', '2', '3', '20', '2.9', '-1', '-0.5', '1000000', '18446744073709552000', '1e300', 'NaN', 'inf', '-inf', '0.999']


def rand_named(rng, kmax=4):
    named = {}
    for _ in range(rng.randint(0, kmax)):
        r = rng.random()
        if r < 0.35:
            k = rng.choice(sorted(STR_OPTS))
            v = v_str(rng.choice(STR_OPTS[k])) if rng.random() < 0.8 else mnum(rng.choice(['1', '0']))       # wrong kind
        elif r < 0.8:
            k = rng.choice(NUM_OPTS)
            v = mnum(rust_display(float(rng.choice(NUM_OPT_VALUES)))) if rng.random() < 0.8 else v_str(rng.choice([b'2', b'x']))
        elif r < 0.9:
            k = rng.choice([b'unknown', b'Type', b'minimumfractiondigits', b'', b'x'])
            v = rng.choice([v_str(b'ordinal'), mnum('3')])
        else:
            k = rng.choice(sorted(STR_OPTS) + NUM_OPTS)
            v = rng.choice([b'none', b'error'])
        named[k] = v
    items = list(named.items())
    rng.shuffle(items)
    return items


def rand_own_opts(rng):
    o = default_opts()
    if rng.random() < 0.7:
        o['type'] = rng.choice([b'cardinal', b'ordinal'])
        o['style'] = rng.choice([b'decimal', b'currency', b'percent'])
        o['currency'] = rng.choice([None, b'PLN'])
        o['cd'] = rng.choice([b'symbol', b'code', b'name'])
        o['ug'] = rng.random() < 0.5
        for k in OPT_ORDER[5:]:
            o[k] = rng.choice([None, 0, 1, 2, 7, 21])
    return o


def gen_number_options(rng, tier):
    cases = []
    base = [mnum('1'), mnum('1.5'), mnum('0'), mnum('-2.25'), mnum('1000000')]
    # every key alone, with every value of interest, on a value with and without own options
    for k in sorted(STR_OPTS):
        for s in STR_OPTS[k]:
            for x in (mnum('1'), mnum('2.5', rand_own_opts(rng))):
                cases.append(number_case(x, [(k, v_str(s))]))
        cases.append(number_case(mnum('1', rand_own_opts(rng)), [(k, mnum('1'))]))                 # wrong kind: ignored
    for k in NUM_OPTS:
        for t in NUM_OPT_VALUES:
            cases.append(number_case(rng.choice(base), [(k, mnum(rust_display(float(t))))]))
        cases.append(number_case(mnum('1', rand_own_opts(rng)), [(k, v_str(b'2'))]))               # wrong kind: ignored
        cases.append(number_case(mnum('1', rand_own_opts(rng)), [(k, v_numstr('2.50'))]))
    for x in (v_str(b'1'), b'none', b'error'):
        cases.append(number_case(x, [(b'type', v_str(b'ordinal'))]))
    for _ in range(4000 if tier == 'quick' else 100000):
        x = rng.choice([mnum(rng.choice(['0', '1', '1.5', '-3', '12.125', '1000000', 'NaN']), rand_own_opts(rng)),
                        v_numstr(rng.choice(['1', '1.0', '2.50', '-0.0'])), v_int('i32', rng.randint(-5, 200)), v_f64(rng.choice([0.5, 2.0, 1e21]))])
        cases.append(number_case(x, rand_named(rng)))
    return cases


LOCALE_FORMS = {'en': ['en', 'en-US', 'en-GB'], 'pl': ['pl', 'pl-PL'], 'ru': ['ru', 'ru-RU'], 'fr': ['fr', 'fr-CA'], 'ar': ['ar', 'ar-EG'],
                'lt': ['lt', 'lt-LT'], 'cs': ['cs', 'cs-CZ'], 'ja': ['ja', 'ja-JP'], 'pt': ['pt', 'pt-BR', 'pt-AO'], 'pt-PT': ['pt-PT']}


def gen_select_grid(rng, tier):
    """per locale: the category chosen by the real bundle on the operand grid, cardinal and ordinal"""
    cases = []
    imax = 200
    ints = list(range(0, imax + 1)) + [200, 201, 202, 203, 211, 212, 213, 222, 1000, 1001, 1002, 1003, 1011, 1012, 1013, 1021, 1022, 1023, 1111,
                                       10000, 1000000, 1000001, 1000002, 1000005, 2000000, 10 ** 9, 10 ** 12 + 1]
    fracs_small = [None, '0', '1', '5', '00', '10', '01', '50', '000', '001', '100']
    for lang in LANGS:
        for i in ints:
            for f in (fracs_small if (i <= 30 or i % 10 in (0, 1, 2, 5) or tier != 'quick') else [None, '0', '5']):
                loc = [rng.choice(LOCALE_FORMS[lang])]
                if rng.random() < 0.15:
                    loc.append(rng.choice(['en', 'pl', 'ar', 'ja']))
                s = lit_str(i, f)
                form = rng.randrange(3)
                if form == 0:
                    selector = sel_lit(s)
                elif form == 1:
                    selector = sel_arg(v_numstr(s))
                else:
                    selector = sel_fn(v_numstr(s), [('type', ('s', 'cardinal'))])
                cases.append(sel_case(loc, selector))
            # ordinal: integers (and a few fractions: the type decides, not the digits)
            for f in ([None] if (i > 30 and tier == 'quick') else [None, '0', '5']):
                s = lit_str(i, f)
                cases.append(sel_case([rng.choice(LOCALE_FORMS[lang])], sel_fn(v_numstr(s), [('type', ('s', 'ordinal'))])))
    # unknown locales and no locale at all fall back to en; only the FIRST locale counts
    for loc in (['pt-PT', 'pt-BR'], ['pt-BR', 'pt-PT'], ['pt'], ['pt-PT'], ['xx'], ['und'], [], ['xx', 'pl'], ['pl', 'en'], ['en', 'pl'], ['ar', 'lt'], ['lt', 'ar'], ['ja', 'en'], ['cs', 'ru', 'pl']):
        for s in ('0', '1', '2', '3', '5', '11', '12', '21', '22', '1.0', '1.5', '0.0', '100', '101'):
            cases.append(sel_case(loc, sel_lit(s)))
            cases.append(sel_case(loc, sel_fn(v_numstr(s), [('type', ('s', 'ordinal'))])))
    # numeric arguments of every Rust type as selectors
    for ty, (lo, hi) in sorted(INT_TYPES.items()):
        for v in (0, 1, 2, 3, 5, 11, 21, 22, 101, hi, lo):
            if lo <= v <= hi:
                cases.append(sel_case([rng.choice(['en', 'pl', 'ru', 'cs', 'ar', 'lt'])], sel_arg(v_int(ty, v))))
    for x in (0.0, -0.0, 1.0, 1.5, 2.0, 0.5, 21.0, 1e21, float('nan'), float('inf'), float('-inf')):
        for loc in ('en', 'pl', 'fr', 'cs'):
            cases.append(sel_case([loc], sel_arg(v_f64(x)), keys=[[b'num', b'0'], [b'num', b'1'], [b'num', b'1.5'], [b'id', b'x']]))
            if not (math.isnan(x) or math.isinf(x)):
                cases.append(sel_case([loc], sel_arg(v_f64(x))))
    return cases


KEY_LITS = ['0', '1', '1.0', '01', '1.00', '-1', '-0', '0.0', '2', '1.5', '1.50', '5', '11', '100', '21']


def gen_select_keys(rng, tier):
    """exact numeric keys against category keys in both orders; numeric equality by value, not by options or spelling"""
    cases = []
    sels = ['0', '1', '1.0', '1.00', '01', '-1', '-0', '0.0', '2', '1.5', '1.50', '5', '11', '21', '100', '100.0']
    for s in sels:
        for k in KEY_LITS:
            for cat in (b'one', b'other', b'few', b'many'):
                for order in (0, 1):
                    keys = [[b'num', k.encode()], [b'id', cat]]
                    if order:
                        keys.reverse()
                    keys.append([b'id', b'dflt'])
                    if tier == 'quick' and rng.random() < 0.5:
                        continue
                    loc = rng.choice(['en', 'pl', 'cs', 'lt', 'fr'])
                    cases.append(sel_case([loc], sel_lit(s), keys))
        # D14: options of the selector (type, minimumFractionDigits) do not take part in numeric key equality
        for optset in ([('type', ('s', 'ordinal'))], [('minimumFractionDigits', ('n', '2'))], [('useGrouping', ('s', 'false')), ('style', ('s', 'percent'))],
                       [('maximumFractionDigits', ('n', '0')), ('type', ('s', 'ordinal')), ('minimumIntegerDigits', ('n', '3'))]):
            for k in ('1', '1.0', '2', '0', '1.5'):
                cases.append(sel_case([rng.choice(['en', 'pl'])], sel_fn(v_numstr(s), optset), [[b'num', k.encode()], [b'id', b'one'], [b'id', b'other'], [b'id', b'd']]))
                cases.append(sel_case([rng.choice(['en', 'pl'])], sel_fn(v_numstr(s), optset), [[b'id', b'one'], [b'num', k.encode()], [b'id', b'two'], [b'id', b'few'], [b'id', b'd']]))
    # NUMBER options given in the translation override those of the value (type, fraction digits) and decide the category
    for val in (mnum('1'), mnum('1', dict(default_opts(), type=b'ordinal')), mnum('2', dict(default_opts(), mfd=1)), mnum('3', dict(default_opts(), type=b'ordinal', mfd=2)),
                v_numstr('1.0'), v_numstr('2'), v_int('u8', 3), v_f64(1.0)):
        for optset in ([], [('type', ('s', 'ordinal'))], [('type', ('s', 'cardinal'))], [('type', ('s', 'bogus'))], [('minimumFractionDigits', ('n', '0'))],
                       [('minimumFractionDigits', ('n', '1'))], [('minimumFractionDigits', ('n', '3'))], [('minimumFractionDigits', ('s', '3'))],
                       [('type', ('n', '1'))], [('minimumFractionDigits', ('n', '20'))], [('minimumFractionDigits', ('n', '25'))],
                       [('minimumFractionDigits', ('n', '1.9'))], [('unknown', ('n', '1'))]):
            for loc in ('en', 'pl', 'cs', 'lt', 'ru', 'fr'):
                cases.append(sel_case([loc], sel_fn(val, optset)))
    # string selectors and string-valued keys
    for sv in (b'one', b'other', b'1', b'John', b''):
        cases.append(sel_case(['en'], sel_arg(v_str(sv)), [[b'id', b'one'], [b'num', b'1'], [b'id', b'John'], [b'id', b'other'], [b'id', b'dflt']]))
    # random key lists
    for _ in range(4000 if tier == 'quick' else 120000):
        nk = rng.randint(1, 6)
        keys = []
        for _ in range(nk):
            if rng.random() < 0.5:
                keys.append([b'id', rng.choice(KEYWORDS + [b'x', b'John'])])
            else:
                keys.append([b'num', rng.choice(KEY_LITS).encode()])
        keys.append([b'id', b'dflt'])
        d = rng.randrange(len(keys))
        s = rng.choice(sels + ['3', '4', '12', '22', '0.5', '2.0', '1.000000000000000001', '1.00000000000000000000'])
        form = rng.randrange(3)
        selector = sel_lit(s) if form == 0 else sel_arg(v_numstr(s)) if form == 1 else sel_fn(v_numstr(s), rng.choice(
            [[], [('type', ('s', 'ordinal'))], [('minimumFractionDigits', ('n', str(rng.choice([0, 1, 2, 19, 20, 21]))))]]))
        cases.append(sel_case([rng.choice(['en', 'pl', 'ru', 'fr', 'ar', 'lt', 'cs', 'ja', 'en-US', 'xx', 'pt-BR', 'pt-PT'])], selector, keys, d))
    return cases


def gen_near_miss_keys(rng, tier):
    """selectors that are NOT equal to a numeric key but extremely close to it (exact-number matching must be exact, no tolerance)"""
    cases = []
    keysets = [[[b'num', b'0'], [b'id', b'one'], [b'id', b'dflt']], [[b'num', b'1'], [b'num', b'0'], [b'id', b'dflt']],
               [[b'num', b'0.3'], [b'id', b'dflt']], [[b'num', b'-0'], [b'num', b'0.0'], [b'id', b'dflt']]]
    tiny = ['0.0000000000000001', '-0.00000000000000015', '0.00000000000000001', '0.000000000000000001', '0.0000000001', '-0.0000000000000001']
    for keys in keysets:
        for loc in (['en'], ['lt'], ['fr']):
            for s in tiny:
                cases.append(sel_case(loc, sel_lit(s), keys))
                cases.append(sel_case(loc, sel_arg(v_numstr(s)), keys))
            for x in (1e-16, -1e-16, 5e-324, 1e-300, 2.2e-16, 1e-17):
                cases.append(sel_case(loc, sel_arg(v_f64(x)), keys))
    return cases


def gen_precision_loss(rng, tier):
    """a small share of literals beyond 15 significant digits (class D15) and of numbers in the classes where intl_pluralrules
    deviates from CLDR (D29), so that the known findings stay visible"""
    cases = [sel_case(['lt'], sel_lit('1.000000000000000001')), lit_case('76.09248484134036'), lit_case('9007199254740993'),
             lit_case('1.000000000000000001'), num_case(v_int('u64', 2 ** 64 - 1)), num_case(v_int('i64', 2 ** 53 + 1))]
    for s in ('103', '111', '3.5', '11.5', '22', '2.5'):
        cases.append(sel_case(['ar' if s in ('103', '111', '3.5', '11.5') else 'lt'], sel_lit(s)))
    cases.append(sel_case(['en'], sel_fn(v_numstr('1.5'), [('type', ('s', 'ordinal'))])))
    for _ in range(30 if tier == 'quick' else 1000):
        nd = rng.choice([16, 17, 18, 19, 20])
        d = rng.choice('123456789') + ''.join(rng.choice('0123456789') for _ in range(nd - 2)) + rng.choice('123456789')
        v = rng.randrange(1, 19)
        s = d[:nd - v] + '.' + d[nd - v:] if v < nd else '0.' + '0' * (v - nd) + d
        cases.append(sel_case(['lt'], sel_lit(s)))
        cases.append(lit_case(s))
    return cases


def generate(rng, tier):
    yield ('exhaustive-literal-grid', gen_literal_grid(tier))
    yield ('literal-patterns', gen_literal_patterns(rng, tier))
    yield ('numeric-arguments', gen_numeric_arguments(rng, tier))
    yield ('number-options', gen_number_options(rng, tier))
    yield ('select-grid-per-locale', gen_select_grid(rng, tier))
    yield ('select-keys', gen_select_keys(rng, tier))
    yield ('near-miss-numeric-keys', gen_near_miss_keys(rng, tier))
    yield ('beyond-the-guard', gen_precision_loss(rng, tier))

"""C05 — Runtime parser agrees with the full parser apart from comments."""
import re
import sexp
import synprops

ID = 'C05'
PROPS_FILE = 'theories/Props/C05.v'
PROPS_MODULE = 'Props.C05'
COQ_TARGETS = ['theories/Extract/ExtractSyntax.vo']
REQUIRED_THEOREMS = ['C05_entries_agree', 'C05_runtime_no_comments', 'C05_junk_agree']
MODEL = 'syn'
HARNESS_BINS = ['syn_run']
ANCHORS = ['fluent-syntax/src/parser/runtime.rs', 'fluent-syntax/src/parser/core.rs', 'fluent-syntax/src/parser/comment.rs']
TRUSTED = ['modelled, not verified: as C01 (str slicing, usize arithmetic); get_message/get_term are one model function shared by both loops, as in the Rust code']
ASSUMPTIONS = ['input is valid UTF-8']
RULE = ('parse_all cases as C01 plus comment-splicing: comments of all three levels inserted before, between, inside (as continuation '
        'look-alikes) and after entries, LF and CRLF, adjacent to Junk; non-trivial = input has a # line and a message/term')


def splice_comments(rng, text):
    lines = text.split(b'\n')
    for _ in range(rng.randint(1, 4)):
        i = rng.randrange(len(lines) + 1)
        c = rng.choice([b'#', b'##', b'###']) + rng.choice([b'', b' c', b' = x', b' a = b', b'x', b'#', b' \xc3\xa9', b' {', b' }'])
        if rng.random() < 0.2:
            c = rng.choice([b' ', b'    ']) + c      # continuation look-alike
        if rng.random() < 0.2:
            c += b'\r'
        lines.insert(i, c)
    return b'\n'.join(lines)


def generate(rng, tier):
    import ftlgen
    for b in synprops.standard_batches(rng, tier):
        yield b
    n = 4000 if tier == 'quick' else 120000
    small = [b for _, b in ftlgen.fixtures() if len(b) < 1200]
    cases = []
    for _ in range(n):
        r = rng.random()
        base = rng.choice(small) if r < 0.3 else (ftlgen.gen_resource(rng) if r < 0.8 else b''.join(rng.choice(ftlgen.TOKENS) for _ in range(rng.randint(1, 10))))
        if rng.random() < 0.3:
            base = ftlgen.mutate(rng, base, 1)
        cases.append(synprops.case(splice_comments(rng, base)))
    yield ('comment-splicing', cases)


WF_COMMENT = re.compile(rb'#{1,3}( .*)?\Z', re.S)


def all_hash_lines_wf(text):
    """every line that starts with '#' is a well-formed comment line: 1-3 '#', then end of line or ' ' + anything.
    (a line ends at LF or CRLF or end of input; a lone CR is ordinary content)"""
    lines = text.split(b'\n')
    for i, line in enumerate(lines):
        if i < len(lines) - 1 and line.endswith(b'\r'):
            line = line[:-1]
        if line.startswith(b'#') and not WF_COMMENT.match(line):
            return False
    return True


def strip_comment(e):
    if sexp.tag(e) in ('msg', 'term'):
        return e[:4] + [b'none']
    return e


def oracle(case, out):
    tag, res = synprops.parse_out(out)
    if tag != 'ok':
        return 'parser did not return (%s): %s' % (tag, out[:160])
    full_body, full_errs = res[0]
    rt_body, rt_errs = res[2]
    mt_full = [strip_comment(e) for e in full_body if sexp.tag(e) in ('msg', 'term')]
    mt_rt = [e for e in rt_body if sexp.tag(e) in ('msg', 'term')]
    if mt_full != mt_rt:
        return 'messages/terms differ between full and runtime parser'
    if any(sexp.tag(e) in ('comment', 'gcomment', 'rcomment') for e in rt_body):
        return 'runtime parser returned a comment entry'
    if any(sexp.tag(e) in ('msg', 'term') and e[4] != b'none' for e in rt_body):
        return 'runtime parser attached a comment'
    if all_hash_lines_wf(synprops.case_text(case)):
        j_full = [e for e in full_body if sexp.tag(e) == 'junk']
        j_rt = [e for e in rt_body if sexp.tag(e) == 'junk']
        if j_full != j_rt:
            return 'all # lines are well-formed comments but Junk differs'
        if full_errs != rt_errs:
            return 'all # lines are well-formed comments but error lists differ'
    return None


def nontrivial(case, out):
    return out if (b'#' in synprops.case_text(case) and ('(msg ' in out or '(term ' in out)) else None


MANIFEST = {
    'text': 'Rocq theorems over ALL byte strings relating the two entry loops of the parser model (same get_message/get_term, '
            'comment vs skip_comment position lemma). Tied to the code by the parse_all correspondence (model vs real parsers).',
    'note': 'Trusted: as C01.',
    'technique': 'Rocq proof (simulation of two entry loops over one cursor) + differential correspondence check',
    'design_ref': 'DESIGN.md §4 C05',
}

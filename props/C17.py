"""C17 — fallback bundles are generated lazily, once, in order, under any interleaving.
Model: coq/theories/Fallback/Cache.v; theorems: Props/C17.v; harness: cache_run (drives the real cache through
Bundles / Localization with a scripted bundle source and a manual executor)."""
import hashlib
import itertools
import sexp

ID = 'C17'
PROPS_FILE = 'theories/Props/C17.v'
PROPS_MODULE = 'Props.C17'
COQ_TARGETS = ['theories/Extract/ExtractC17.vo']
REQUIRED_THEOREMS = ['C17_schedules_reachable', 'C17_prefix', 'C17_once', 'C17_same_order', 'C17_lazy', 'C17_lazy_depth',
                     'C17_lazy_single_end_pull_refuted', 'C17_no_lost_wakeup', 'C17_progress', 'C17_request_refines', 'C17_lazy_empty_request',
                     'C17_sync_histories_reachable', 'C17_sync_prefix', 'C17_sync_once', 'C17_sync_same_order', 'C17_sync_lazy',
                     'C17_sync_request_refines']
MODEL = 'c17'
HARNESS_BINS = ['cache_run']
ANCHORS = ['fluent-fallback/src/cache.rs', 'fluent-fallback/src/bundles.rs', 'fluent-fallback/src/lib.rs']
TRUSTED = [
    "modelled, not verified: ChunkyVec as an append-only list whose references stay valid (push_get = append); RefCell / PinCell as "
    "plain state (the source never re-enters the cache); Waker::wake as setting a per-consumer flag",
    "the futures waker contract is the property's own hypothesis: a pending fused source keeps only the last registered waker and "
    "wakes it when it becomes ready (step SourceReady); past its end it returns None for ever",
    "`fluent_fallback::cache` is public only under --cfg fluent_rs_verif (hook commit 14ed6ff in /repo; lib/engine.py sets the cfg for every "
    "harness build): the handle-level batches poll the real AsyncCacheStream / CacheIter handles one poll_next / next per step; the "
    "request-level batches go through Bundles / Localization (one step = one poll of a request future = poll_next repeated until "
    "Pending / answered / end; theorem C17_request_refines)",
]
ASSUMPTIONS = [
    'the wrapped iterator / stream is fused (property quantifier); not fused: every consumer that reaches the end asks the source again',
    'no cancellation: a request that is waiting is not dropped (property quantifier)',
    'fairness for C17_progress: a runnable request (not waiting, or woken) is eventually polled and a pending source eventually becomes ready',
]
RULE = ('handle level (hasync / hsync): one step = one poll_next of a named AsyncCacheStream (own waker, spurious polls included) or one '
        'SourceReady, resp. one next() of a named CacheIter, over a scripted fused source that keeps only the latest waker, then the '
        "model's fair scheduler as drain; bounded-exhaustive over ALL schedules until every handle is told None, without no-op fires "
        '(quick: k=1 x script<=4 x <=2 spurious, k=2 x script<=3 x <=2 spurious, k=2 x script<=4 x <=1 spurious; thorough: k=2 x script<=4 x '
        '<=2, k=3 x script<=2 x <=2, k=3 x script<=3 x <=1, k=3 x script=4 sampled every 23rd), all interleavings of <=2 (3) CacheIters over '
        '<=3 items, random longer ones. '
        'request level (async / sync): k concurrent format_value / format_values / format_messages futures of chosen fallback depths through '
        'Bundles::new and Localization::bundles, polled in a scripted order with own wakers, then a fair drain; bounded-exhaustive over all '
        'schedules to completion (quick: k<=2 requests x script<=4 x <=2 spurious; thorough: k<=2 x script<=5 x <=2, k=3 x script<=3 x <=2, '
        'k=3 x script<=4 x <=1; requests include batches with an EMPTY key list), the same over keys whose message is present but formats '
        'WITH a resolver error (missing variable / unknown reference; every API in every consumer position; quick k<=2 x script<=3, thorough '
        'k<=2 x script<=4), every 5th/11th also cut at a random prefix and finished by the drain, all short sync request sequences (clean and '
        'resolver-error keys), random longer ones mixing all of these. non-trivial = a poll returned Pending or the run is synchronous; distinct = distinct implementation outputs')

END = 99  # a key that no bundle has: the request walks to the end of the source
EMPTY = -1  # a batch request (format_values / format_messages) with an empty key list: needs no bundle at all


# ---------------------------------------------------------------------------------------------
# reference simulation used ONLY by the generators, to enumerate schedules without no-op steps
# (the oracle below does not use it)

class Sim:
    def __init__(self, script, goals):
        self.script, self.goals = script, goals
        self.pos = 0
        self.items = 0
        self.waiting = None
        self.pw = []
        n = len(goals)
        self.curr = [0] * n
        self.blocked = [False] * n
        self.woken = [False] * n
        self.done = [False] * n

    def copy(self):
        s = Sim(self.script, self.goals)
        s.pos, s.items, s.waiting, s.pw = self.pos, self.items, self.waiting, list(self.pw)
        s.curr, s.blocked, s.woken, s.done = list(self.curr), list(self.blocked), list(self.woken), list(self.done)
        return s

    def key(self):
        return (self.pos, self.items, self.waiting, tuple(sorted(set(self.pw))), tuple(self.curr), tuple(self.blocked),
                tuple(self.woken), tuple(self.done))

    def poll(self, c):
        self.woken[c] = False
        if self.goals[c] == EMPTY:
            self.done[c] = True
            return
        while True:
            if self.curr[c] < self.items:
                self.curr[c] += 1
                got = self.curr[c] - 1
            elif self.curr[c] == self.items:
                if self.pos < len(self.script) and self.script[self.pos] == 'p':
                    self.waiting = c
                    self.pw.append(c)
                    self.blocked[c] = True
                    return
                for w in self.pw:
                    self.woken[w] = True
                self.pw = []
                self.curr[c] += 1
                if self.pos >= len(self.script):
                    got = None
                else:
                    self.pos += 1
                    self.items += 1
                    got = self.items - 1
            else:
                got = None
            self.blocked[c] = False
            if got is None or got >= self.goals[c]:
                self.done[c] = True
                return

    def fire(self):
        if self.waiting is not None:
            self.woken[self.waiting] = True
            self.waiting = None
            self.pos += 1


def schedules(script, goals, max_spurious, cap):
    """all schedules (to completion of every request) without no-op steps and with at most max_spurious
    polls of a request that is waiting and has not been woken"""
    out = []
    seen_states = {}

    def dfs(sim, sched, spurious):
        if len(out) >= cap:
            return
        if all(sim.done):
            out.append(list(sched))
            return
        for c in range(len(goals)):
            if sim.done[c]:
                continue
            sp = sim.blocked[c] and not sim.woken[c]
            if sp and spurious >= max_spurious:
                continue
            s2 = sim.copy()
            s2.poll(c)
            sched.append(c)
            dfs(s2, sched, spurious + (1 if sp else 0))
            sched.pop()
        if sim.waiting is not None:
            s2 = sim.copy()
            s2.fire()
            sched.append('f')
            dfs(s2, sched, spurious)
            sched.pop()

    dfs(Sim(script, goals), [], 0)
    return out


APIS = [b'v', b'vs', b'ms']


ERR_KINDS = [b'e', b'g']  # message present, value formats WITH a resolver error: missing variable / unknown message reference


def key(d, kind=None):
    """clean key m<d>, or (e d) / (g d): present from bundle d on but formatting there reports a resolver error;
    for the fallback walk such a key is FOUND in bundle d"""
    return d if kind is None else [kind, d]


def depth(k):
    return k if isinstance(k, int) else k[1]


def consumer(i, goal, rng=None, err=False, shift=0):
    if goal == EMPTY:
        return [APIS[1 + (i + shift) % 2]]
    api = APIS[(i + shift) % 3]
    if rng is not None:
        api = rng.choice(APIS)
        kind = lambda: rng.choice(ERR_KINDS) if rng.random() < 0.35 else None
        if api != b'v' and rng.random() < 0.6:
            extra = [key(rng.choice([0, goal, rng.randrange(0, 6), END]), kind()) for _ in range(rng.randint(1, 2))]
            ds = extra + [key(goal, kind())]
            rng.shuffle(ds)
            return [api] + ds
        return [api, key(goal, kind())]
    return [api, key(goal, ERR_KINDS[i % 2] if err else None)]


def mk_case(mode, via, consumers, script, sched):
    return sexp.dumps([b'c17', mode, via, consumers, [s.encode() for s in script],
                       [x if isinstance(x, int) else b'f' for x in sched]])


def goal_of(cons):
    return max(depth(x) for x in cons[1:]) if len(cons) > 1 else EMPTY


def exhaustive_async(k, lmax, spur, pick_via, err=False, shift=0):
    cases = []
    for L in range(0, lmax + 1):
        for script in itertools.product('rp', repeat=L):
            m = script.count('r')
            gchoices = list(range(m)) + [END, EMPTY]
            for goals in itertools.product(gchoices, repeat=k):
                for j, sched in enumerate(schedules(script, list(goals), spur, 10 ** 9)):
                    via = b'loc' if (j + L + k) % 4 == 0 else b'bundles'
                    cons = [consumer(i, g, err=err, shift=shift) for i, g in enumerate(goals)]
                    cases.append(mk_case(b'async', via, cons, script, sched))
    return cases


# ---- handle level (one step = one poll_next / next): reference simulation for the generators only ----

class HSim:
    def __init__(self, script, k):
        self.script, self.pos, self.items, self.waiting, self.pw = script, 0, 0, None, []
        self.curr, self.blocked, self.woken, self.fin = [0] * k, [False] * k, [False] * k, [False] * k

    def copy(self):
        t = HSim(self.script, len(self.curr))
        t.pos, t.items, t.waiting, t.pw = self.pos, self.items, self.waiting, list(self.pw)
        t.curr, t.blocked, t.woken, t.fin = list(self.curr), list(self.blocked), list(self.woken), list(self.fin)
        return t

    def poll(self, c):
        self.woken[c] = False
        if self.curr[c] < self.items:
            self.curr[c] += 1
            self.blocked[c] = False
        elif self.curr[c] == self.items:
            if self.pos < len(self.script) and self.script[self.pos] == 'p':
                self.waiting = c
                self.pw.append(c)
                self.blocked[c] = True
                return
            for w in self.pw:
                self.woken[w] = True
            self.pw = []
            self.curr[c] += 1
            self.blocked[c] = False
            if self.pos >= len(self.script):
                self.fin[c] = True
            else:
                self.pos += 1
                self.items += 1
        else:
            self.blocked[c] = False
            self.fin[c] = True

    def fire(self):
        if self.waiting is not None:
            self.woken[self.waiting] = True
            self.waiting = None
            self.pos += 1


def hschedules(script, k, max_spurious):
    """all handle-level schedules until every handle has been told None, without no-op fires, with at most
    max_spurious spurious polls (of a handle that is waiting and not woken, or already finished)"""
    out = []

    def dfs(sim, sched, sp):
        if all(sim.fin):
            out.append(list(sched))
            return
        for c in range(k):
            spur = sim.fin[c] or (sim.blocked[c] and not sim.woken[c])
            if spur and sp >= max_spurious:
                continue
            t = sim.copy()
            t.poll(c)
            sched.append(c)
            dfs(t, sched, sp + (1 if spur else 0))
            sched.pop()
        if sim.waiting is not None:
            t = sim.copy()
            t.fire()
            sched.append('f')
            dfs(t, sched, sp)
            sched.pop()

    dfs(HSim(script, k), [], 0)
    return out


def mk_hcase(mode, k, script, sched):
    return sexp.dumps([b'c17', mode, k, [], [x.encode() for x in script], [x if isinstance(x, int) else b'f' for x in sched]])


def exhaustive_hasync(k, lmax, spur, stride=1):
    cases = []
    n = 0
    for L in range(0, lmax + 1):
        for script in itertools.product('rp', repeat=L):
            for sched in hschedules(script, k, spur):
                n += 1
                if n % stride == 0:
                    cases.append(mk_hcase(b'hasync', k, script, sched))
    return cases


def hsync_histories(m, k, max_spurious):
    """all interleavings of next() calls until every iterator has returned None (+ spurious calls after None)"""
    out = []

    def dfs(curr, fin, items, hist, sp):
        if all(fin):
            out.append(list(hist))
            return
        for i in range(k):
            if fin[i]:
                if sp >= max_spurious:
                    continue
                hist.append(i)
                dfs(curr, fin, items, hist, sp + 1)
                hist.pop()
                continue
            c2, f2, it2 = list(curr), list(fin), items
            if curr[i] < items:
                c2[i] += 1
            else:
                c2[i] += 1
                if items < m:
                    it2 += 1
                else:
                    f2[i] = True
            hist.append(i)
            dfs(c2, f2, it2, hist, sp)
            hist.pop()

    dfs([0] * k, [False] * k, 0, [], 0)
    return out


def generate_handle(rng, tier):
    quick = tier == 'quick'
    plan = [(1, 4, 2, 1), (2, 3, 2, 1), (2, 4, 1, 1)] if quick else [(1, 6, 3, 1), (2, 4, 2, 1), (3, 2, 2, 1), (3, 3, 1, 1)]
    allc = []
    for (k, lmax, spur, stride) in plan:
        cases = exhaustive_hasync(k, lmax, spur, stride)
        allc.append(cases)
        yield ('exhaustive-handle-async-k%d-script%d-spurious%d' % (k, lmax, spur), cases)
    if not quick:
        # k = 3 x scripts of length 4: 3.8 million schedules even without spurious polls; every 23rd
        yield ('sampled-handle-async-k3-script4', exhaustive_hasync_len(3, 4, 0, 23))
    pref = []
    for cases in allc:
        for c in cases[::5 if quick else 11]:
            x = sexp.loads(c)
            if len(x[5]) >= 2:
                x[5] = x[5][:rng.randrange(0, len(x[5]))]
                pref.append(sexp.dumps(x))
    yield ('handle-prefix-then-drain', pref)
    cases = []
    for k in range(0, 3 if quick else 4):
        for m in range(0, 4):
            for h in hsync_histories(m, k, 1 if k < 3 else 0):
                cases.append(mk_hcase(b'hsync', k, 'r' * m, h))
    yield ('exhaustive-handle-sync-k%d-items3' % (2 if quick else 3), cases)
    cases = []
    for _ in range(5000 if quick else 80000):
        k = rng.randint(1, 5)
        L = rng.randint(0, 10)
        pp = rng.choice([0.2, 0.5, 0.8])
        script = ['p' if rng.random() < pp else 'r' for _ in range(L)]
        if rng.random() < 0.15:
            m = script.count('r')
            cases.append(mk_hcase(b'hsync', k, 'r' * m, [rng.randrange(k) for _ in range(rng.randint(0, 3 * (m + 2)))]))
            continue
        sim = HSim(script, k)
        sched = []
        for _ in range(rng.randint(0, 60)):
            r = rng.random()
            runnable = [c for c in range(k) if not sim.fin[c] and (not sim.blocked[c] or sim.woken[c])]
            if r < 0.55 and runnable:
                c = rng.choice(runnable)
            elif r < 0.8:
                c = rng.randrange(k)
            else:
                c = 'f'
            sched.append(c)
            if c == 'f':
                sim.fire()
            else:
                sim.poll(c)
        cases.append(mk_hcase(b'hasync', k, script, sched))
    yield ('random-handle', cases)


def exhaustive_hasync_len(k, L, spur, stride):
    cases = []
    n = 0
    for script in itertools.product('rp', repeat=L):
        for sched in hschedules(script, k, spur):
            n += 1
            if n % stride == 0:
                cases.append(mk_hcase(b'hasync', k, script, sched))
    return cases


def generate_requests(rng, tier):
    quick = tier == 'quick'
    # ---- bounded-exhaustive, async: ALL schedules to completion (no no-op steps) ----------------------
    #   quick:    k <= 2 requests x scripts of length <= 4 x <= 2 spurious polls
    #   thorough: k <= 2 x scripts <= 5 x <= 2 spurious;  k = 3 x scripts <= 3 x <= 2 spurious;  k = 3 x scripts <= 4 x <= 1 spurious
    plan = [(1, 4, 2), (2, 4, 2)] if quick else [(1, 6, 3), (2, 5, 2), (3, 3, 2), (3, 4, 1)]
    allc = []
    for (k, lmax, spur) in plan:
        cases = exhaustive_async(k, lmax, spur, None)
        allc.append(cases)
        yield ('exhaustive-async-k%d-script%d-spurious%d' % (k, lmax, spur), cases)
    # the same with keys whose message is present but formats WITH a resolver error (missing variable / unknown
    # reference): found is found - the request must stop at that bundle; every API in every consumer position
    eplan = [(1, 4, 2), (2, 3, 2)] if quick else [(1, 5, 2), (2, 4, 2)]
    for (k, lmax, spur) in eplan:
        cases = []
        for shift in ((1, 2) if quick else (0, 1, 2)):
            cases += exhaustive_async(k, lmax, spur, None, err=True, shift=shift)
        allc.append(cases)
        yield ('exhaustive-async-resolver-error-keys-k%d-script%d-spurious%d' % (k, lmax, spur), cases)
    # schedule prefixes: the fair drain has to finish the job from every intermediate state
    pref = []
    for cases in allc:
        for c in cases[::5 if quick else 11]:
            x = sexp.loads(c)
            if len(x[5]) >= 2:
                cut = rng.randrange(0, len(x[5]))
                x[5] = x[5][:cut]
                pref.append(sexp.dumps(x))
    yield ('prefix-then-drain', pref)
    # ---- bounded-exhaustive, sync: all request sequences -------------------------------------------
    cases = []
    for m in range(0, 4):
        for nreq in range(0, 4 if quick else 5):
            for goals in itertools.product(list(range(m + 1)) + [END, EMPTY], repeat=nreq):
                for via in (b'bundles', b'loc'):
                    cons = [consumer(i, g) for i, g in enumerate(goals)]
                    cases.append(mk_case(b'sync', via, cons, 'r' * m, []))
                    if any(g != EMPTY for g in goals):
                        for shift in (1, 2):
                            cons = [consumer(i, g, err=True, shift=shift) for i, g in enumerate(goals)]
                            cases.append(mk_case(b'sync', via, cons, 'r' * m, []))
    yield ('exhaustive-sync-requests', cases)
    # ---- random, longer ------------------------------------------------------------------------------
    n = 6000 if quick else 100000
    cases = []
    for _ in range(n):
        k = rng.randint(1, 5)
        L = rng.randint(0, 10)
        pp = rng.choice([0.2, 0.5, 0.8])
        script = ['p' if rng.random() < pp else 'r' for _ in range(L)]
        m = script.count('r')
        cons = [consumer(i, rng.choice(list(range(m + 1)) + [END, EMPTY]), rng) for i in range(k)]
        if rng.random() < 0.12:
            cases.append(mk_case(b'sync', rng.choice([b'bundles', b'loc']), cons, script, []))
            continue
        # schedule biased towards plausible executors, with spurious polls and early / repeated fires
        sim = Sim(script, [goal_of(c) for c in cons])
        sched = []
        for _ in range(rng.randint(0, 40)):
            r = rng.random()
            runnable = [c for c in range(k) if not sim.done[c] and (not sim.blocked[c] or sim.woken[c])]
            if r < 0.55 and runnable:
                c = rng.choice(runnable)
            elif r < 0.8:
                c = rng.randrange(k)
            else:
                c = 'f'
            sched.append(c)
            if c == 'f':
                sim.fire()
            elif not sim.done[c]:
                sim.poll(c)
        cases.append(mk_case(b'async', rng.choice([b'bundles', b'loc']), cons, script, sched))
    yield ('random-long', cases)


def generate(rng, tier):
    # handle level (one step = one poll_next / next of a named handle: the LTS of Fallback/Cache.v) ...
    for batch in generate_handle(rng, tier):
        yield batch
    # ... and request level (futures of Bundles / Localization: the glue of bundles.rs)
    for batch in generate_requests(rng, tier):
        yield batch


# ---------------------------------------------------------------------------------------------
# the property, checked on the implementation's output alone

def _bad(o):
    if isinstance(o, list):
        if o and isinstance(o[0], bytes) and o[0] in (b'PANIC', b'CRASH', b'HARNESS-PARSE-ERROR', b'UNEXPECTED-TEXT', b'HARNESS-NO-CACHE-MODULE', b'HARNESS-SETUP'):
            return sexp.dumps(o)[:200]
        for x in o:
            r = _bad(x)
            if r:
                return r
    elif isinstance(o, bytes) and o in (b'DRAIN-OVERFLOW', b'UNEXPECTED-MESSAGE', b'OUT-OF-FUEL', b'BAD-CASE'):
        return o.decode()
    return None


def _counters(o):
    """all (polls, readies, yielded) triples in an async or sync output"""
    out = []
    if isinstance(o, list):
        if o and isinstance(o[0], bytes) and o[0] in (b'poll', b'fire') and len(o) >= 4:
            out.append((o[-3], o[-2], o[-1]))
        elif o and isinstance(o[0], bytes) and o[0] == b'req' and len(o) == 5:
            out.append((o[2], o[2], o[3]))
        else:
            for x in o:
                out.extend(_counters(x))
    return out


def _expect_results(depths, m):
    return [[b'some', d] if d < m else b'none' for d in depths]


def oracle(case, out):
    c = sexp.loads(case)
    try:
        o = sexp.loads(out)
    except ValueError:
        return 'unparseable implementation output: ' + out[:200]
    b = _bad(o)
    if b:
        return 'implementation panicked / harness failure: ' + b
    mode = c[1]
    if mode in (b'hasync', b'hsync'):
        return oracle_handle(c, o)
    reqs = [[depth(x) for x in r[1:]] for r in c[3]]   # a key found with a resolver error is found: only its depth matters
    script = [s == b'r' for s in c[4]]
    m = sum(script)
    # bundles request c has to look at (none for a batch with an empty key list) ...
    need = [min(max(r) + 1, m) if r else 0 for r in reqs]
    # ... and whether it has to learn that there are no more
    to_end = [bool(r) and max(r) >= m for r in reqs]
    if mode == b'sync':
        return oracle_sync(reqs, m, need, to_end, o)
    sched = c[5]
    if not (isinstance(o, list) and len(o) == 3):
        return 'malformed output'
    steps, drain, final = o
    if len(steps) != len(sched):
        return 'expected %d step results, got %d' % (len(sched), len(steps))
    n = len(reqs)
    trace = [(s if isinstance(s, int) else 'f', r) for s, r in zip(sched, steps)]
    for d in drain:
        trace.append((d[0] if isinstance(d[0], int) else 'f', d[1]))
    polls = readies = yielded = 0
    done = [False] * n
    blocked = [False] * n
    woken = [False] * n
    polled = [False] * n
    for who, r in trace:
        if r == b'skip':
            if who != 'f' and who < n and not done[who]:
                return 'request %d skipped though incomplete' % who
            continue
        tag = r[0]
        p2, r2, y2 = r[-3], r[-2], r[-1]
        newly = r[-4]
        if y2 > m:
            return 'the source yielded %d bundles, it has only %d: a bundle was produced more than once' % (y2, m)
        if p2 < polls or r2 < readies or y2 < yielded:
            return 'counters decreased'
        if tag == b'fire':
            if (p2, r2, y2) != (polls, readies, yielded):
                return 'the source was polled by a wake-up alone'
            if len(newly) > 1:
                return 'source woke more than its last registered waker'
            for w in newly:
                woken[w] = True
            continue
        cidx = who
        woken[cidx] = False
        polled[cidx] = True
        res = r[1]
        dy = y2 - yielded
        dn = (r2 - readies) - dy          # Ready(None) answers of the source in this step
        dp = p2 - polls
        allowed = max([need[i] for i in range(n) if polled[i]] or [0])
        if y2 > allowed:
            return ('not lazy: %d bundles generated, the deepest request polled so far needs %d' % (y2, allowed))
        if y2 > max(yielded, need[cidx]):
            return ('not lazy: the poll of request %d (needs %d bundle(s)%s) made the source generate bundle #%d'
                    % (cidx, need[cidx], ', empty key list' if not reqs[cidx] else '', y2))
        if not reqs[cidx] and (dp or res == b'pending'):
            return 'empty batch asked the bundle source (%d polls, %s)' % (dp, 'suspended' if res == b'pending' else 'completed')
        if res == b'pending':
            # suspended: it asked the source, which said Pending, after using up everything cached
            if dp != dy + 1 or dn != 0:
                return 'request %d suspended with %d source polls for %d new bundles' % (cidx, dp, dy)
            if y2 >= need[cidx] and not to_end[cidx]:
                return 'request %d suspended though the bundles it needs (%d) are cached (%d)' % (cidx, need[cidx], y2)
            blocked[cidx] = True
        else:
            blocked[cidx] = False
            done[cidx] = True
            want = _expect_results(reqs[cidx], m)
            if res[1] != want:
                return 'request %d: expected %s, got %s (wrong / skipped / repeated bundle)' % (cidx, sexp.dumps(want), sexp.dumps(res[1]))
            if to_end[cidx]:
                if dn != 1 or dp != dy + 1:
                    return 'request %d reached the end with %d end-of-source answers and %d polls for %d new bundles' % (cidx, dn, dp, dy)
            else:
                if dn != 0 or dp != dy:
                    return ('source asked when not needed: request %d was answered by bundle %d; %d source polls for %d new bundles'
                            % (cidx, max(reqs[cidx]), dp, dy))
        for w in newly:
            woken[w] = True
        if r2 > readies:
            # the source answered: everybody who is waiting must have been woken by now
            lost = [i for i in range(n) if blocked[i] and not woken[i] and i != cidx]
            if lost:
                return 'lost wake-up: source answered during the poll of request %d but waiting request(s) %s were not woken' % (cidx, lost)
        polls, readies, yielded = p2, r2, y2
    # fair completion: after the drain nobody may be left waiting
    if len(final) != n:
        return 'final: expected %d entries' % n
    for i in range(n):
        st, seen = final[i]
        if st != b'done' or not done[i]:
            return 'request %d is left waiting for ever after a fair drain (lost wake-up): %s' % (i, sexp.dumps(final))
        if seen != list(range(need[i])):
            return 'request %d saw bundles %s, expected %s in this order, none lost or duplicated' % (i, sexp.dumps(seen), list(range(need[i])))
    if n:
        if yielded != max(need):
            return '%d bundles generated, the deepest request needs %d' % (yielded, max(need))
        if readies - yielded != sum(to_end):
            return 'end of source asked %d times for %d requests that walk to the end' % (readies - yielded, sum(to_end))
    return None


def oracle_handle(c, o):
    """the same sentences at handle granularity: one step = one poll_next / next of a named handle"""
    mode, k = c[1], c[2]
    m = sum(1 for x in c[4] if x == b'r')
    sched = c[5]
    if mode == b'hsync':
        if not (isinstance(o, list) and len(o) == 2 and len(o[0]) == len(sched) and len(o[1]) == k):
            return 'malformed output'
        got = [[] for _ in range(k)]
        fin = [False] * k
        calls = ln = 0
        for i, r in zip(sched, o[0]):
            res, c2, l2 = r[1], r[2], r[3]
            if i >= k:
                if (res, c2, l2) != (b'none', calls, ln):
                    return 'next() on a handle that does not exist changed something'
                continue
            pos = len(got[i])
            if fin[i]:
                want, dc, dl = b'none', 0, 0
            elif pos < ln:
                want, dc, dl = [b'some', pos], 0, 0                  # cached: the iterator is not asked
            elif ln < m:
                want, dc, dl = [b'some', ln], 1, 1                   # pulled once, pushed once
            else:
                want, dc, dl = b'none', 1, 0
            if res != want:
                return 'iterator %d: expected %s, got %s (order / loss / duplicate)' % (i, sexp.dumps(want), sexp.dumps(res))
            if c2 != calls + dc:
                return 'iterator %d at position %d with %d cached: wrapped iterator asked %d times, expected %d' % (i, pos, ln, c2 - calls, dc)
            if l2 != ln + dl:
                return 'cache length %d, expected %d' % (l2, ln + dl)
            if want == b'none':
                fin[i] = True
            else:
                got[i].append(want[1])
            calls, ln = c2, l2
        if o[1] != got:
            return 'harness bookkeeping mismatch'
        return None
    if not (isinstance(o, list) and len(o) == 3):
        return 'malformed output'
    steps, drain, final = o
    if len(steps) != len(sched):
        return 'expected %d step results, got %d' % (len(sched), len(steps))
    trace = [(x if isinstance(x, int) else 'f', r) for x, r in zip(sched, steps)]
    for d in drain:
        trace.append((d[0] if isinstance(d[0], int) else 'f', d[1]))
    got = [[] for _ in range(k)]
    fin = [False] * k
    blocked = [False] * k
    woken = [False] * k
    polls = readies = yielded = ln = 0
    for who, r in trace:
        tag = r[0]
        newly = r[-5]
        p2, r2, y2, l2 = r[-4], r[-3], r[-2], r[-1]
        if l2 != y2:
            return 'cache holds %d items but the source yielded %d: an item was not pushed exactly once' % (l2, y2)
        if y2 > m:
            return 'the source yielded %d items, it has only %d' % (y2, m)
        if tag == b'fire':
            if (p2, r2, y2, l2) != (polls, readies, yielded, ln):
                return 'a wake-up alone polled the source / changed the cache'
            if len(newly) > 1:
                return 'source woke more than its last registered waker'
            for w in newly:
                woken[w] = True
            continue
        ci = who
        res = r[1]
        if ci >= k:
            if (res, p2, r2, y2, l2) != (b'pending', polls, readies, yielded, ln):
                return 'poll of a handle that does not exist changed something'
            continue
        woken[ci] = False
        pos = len(got[ci])
        dp, dr, dy = p2 - polls, r2 - readies, y2 - yielded
        if fin[ci]:
            if res != [b'ready', b'none'] or dp != 0:
                return 'finished handle %d: expected Ready(None) without asking the source, got %s with %d source polls' % (ci, sexp.dumps(res), dp)
            blocked[ci] = False
        elif pos < ln:
            # cached: handed the next item in order, the source is not asked
            if res != [b'ready', [b'some', pos]]:
                return 'handle %d at position %d with %d cached: expected item %d, got %s (order / loss / duplicate)' % (ci, pos, ln, pos, sexp.dumps(res))
            if dp != 0:
                return 'source asked when not needed: handle %d at position %d, %d items cached' % (ci, pos, ln)
            got[ci].append(pos)
            blocked[ci] = False
        else:
            # at the frontier: the source is asked exactly once
            if dp != 1:
                return 'handle %d at the frontier (%d): source polled %d times' % (ci, ln, dp)
            if res == b'pending':
                if dr != 0:
                    return 'handle %d suspended although the source answered' % ci
                blocked[ci] = True
            elif res == [b'ready', b'none']:
                if dr != 1 or dy != 0:
                    return 'handle %d told None: %d source answers, %d new items' % (ci, dr, dy)
                fin[ci] = True
                blocked[ci] = False
            elif res == [b'ready', [b'some', ln]]:
                if dr != 1 or dy != 1:
                    return 'handle %d got item %d: %d source answers, %d new items' % (ci, ln, dr, dy)
                got[ci].append(ln)
                blocked[ci] = False
            else:
                return 'handle %d at the frontier (%d): got %s (order / loss / duplicate)' % (ci, ln, sexp.dumps(res))
        for w in newly:
            woken[w] = True
        if r2 > readies:
            lost = [i for i in range(k) if blocked[i] and not woken[i]]
            if lost:
                return 'lost wake-up: source answered during the poll of handle %d but waiting handle(s) %s were not woken' % (ci, lost)
        polls, readies, yielded, ln = p2, r2, y2, l2
    if len(final) != k:
        return 'final: expected %d entries' % k
    for i in range(k):
        st, seen = final[i]
        if st != b'fin' or not fin[i]:
            return 'handle %d is left waiting for ever after a fair drain (lost wake-up): %s' % (i, sexp.dumps(final))
        if seen != list(range(m)) or got[i] != seen:
            return 'handle %d saw %s, expected %s in this order, none lost or duplicated' % (i, sexp.dumps(seen), list(range(m)))
    if k:
        if yielded != m or readies - yielded != k:
            return '%d items generated (source has %d), end of source asked %d times for %d handles' % (yielded, m, readies - yielded, k)
    elif polls:
        return 'source polled without any handle'
    return None


def oracle_sync(reqs, m, need, to_end, o):
    if len(o) != len(reqs):
        return 'expected %d request results, got %d' % (len(reqs), len(o))
    calls = yielded = 0
    for i, r in enumerate(o):
        if r[0] != b'req':
            return 'malformed'
        res, c2, y2, seen = r[1], r[2], r[3], r[4]
        want = _expect_results(reqs[i], m)
        if res != want:
            return 'request %d: expected %s, got %s (wrong / skipped / repeated bundle)' % (i, sexp.dumps(want), sexp.dumps(res))
        if seen != list(range(need[i])):
            return 'request %d saw bundles %s, expected %s' % (i, sexp.dumps(seen), list(range(need[i])))
        wy = max(yielded, need[i])
        if y2 != wy:
            return 'request %d%s: %d bundles generated so far, expected %d (lazy, each once)' % (
                i, ' (empty batch pulled a bundle)' if not reqs[i] else '', y2, wy)
        wc = calls + (wy - yielded) + (1 if to_end[i] else 0)
        if c2 != wc:
            return 'request %d: iterator asked %d times so far, expected %d' % (i, c2, wc)
        calls, yielded = c2, y2
    return None


def nontrivial(case, out):
    if 'sync ' in case[:12] or 'pending' in out:
        return hashlib.sha1(out.encode()).digest()[:10]
    return None


MANIFEST = {
    'text': 'Rocq theorems about a literal transition-system model of cache.rs (Cache/CacheIter::next and AsyncCache/poll_next/'
            'poll_next_item with pending_wakes), over ALL source scripts (ready/pending/end), ALL numbers of consumers and ALL schedules of '
            'polls (spurious ones included) and source wake-ups: cached items are always a prefix of the source sequence and the source is '
            'polled only by a consumer with curr = len (C17_prefix); every element is pulled and pushed exactly once (C17_once); every '
            'consumer sees exactly the first curr items in order (C17_same_order); nothing is pulled that was not handed to the consumer '
            'that asked, and #answers of the source = #items + #consumers that reached the end (C17_lazy); every waiting consumer is woken or '
            'queued in pending_wakes with a rescuer (source holds a waker, or a woken consumer at the frontier), and a source answer wakes '
            'all of them (C17_no_lost_wakeup); a variant bounds the number of fair steps of ANY schedule and a fair step is enabled until all '
            'consumers are done (C17_progress). Same for the synchronous iterator. The request loops of bundles.rs refine the handle-level '
            'system (C17_request_refines). Tied to the code by running the extracted model and the real code over a scripted source with a manual '
            'executor, both at handle level (one poll_next / next per step on the real AsyncCacheStream / CacheIter) and at request level '
            '(Bundles / Localization futures), on all schedules to completion for small k/scripts plus random long ones.',
    'note': 'Observed and stated in the theorems, not alarmed: the cache does not remember the end of the source, so every consumer that '
            'walks to the end polls the (fused) source once more (C17_lazy counts it; C17_lazy_single_end_pull_refuted). A batch with an empty key list asks for no bundle (D18, '
            'fixed in /repo c955faa; model request_step / request_sync_step mirror the early return; theorem C17_lazy_empty_request). Trusted: Coq kernel, extraction, ChunkyVec/RefCell/PinCell/Waker modelled '
            'as list/state/flag, the last-registered-waker contract of the source (property hypothesis).',
    'technique': 'Rocq proof (inductive invariants over a labelled transition system, decreasing variant for progress) + differential '
                 'correspondence check + implementation-only oracle',
    'design_ref': 'DESIGN.md §4 C17',
}

"""C06 — Formatting is total and bounded.  Model: coq/theories/Bundle/ResolverModel.v (+ Number.v);
theorems: Props/C06.v; Rust side: harness/src/bin/bundle_run.rs."""
import hashlib
import os
import sys

sys.path.insert(0, os.path.dirname(os.path.abspath(__file__)))
import resolver_gen as G  # noqa: E402
import sexp  # noqa: E402

ID = 'C06'
PROPS_FILE = 'theories/Props/C06.v'
PROPS_MODULE = 'Props.C06'
COQ_TARGETS = ['theories/Extract/ExtractC06.vo']
REQUIRED_THEOREMS = ['C06_budget_const']
MODEL = 'resolver'
HARNESS_BINS = ['bundle_run', 'syn_run']
RELEASE_TOO = True
ANCHORS = ['fluent-bundle/src/resolver/pattern.rs', 'fluent-bundle/src/resolver/scope.rs', 'fluent-bundle/src/resolver/expression.rs',
           'fluent-bundle/src/resolver/inline_expression.rs', 'fluent-bundle/src/types/number.rs', 'fluent-bundle/src/types/mod.rs',
           'fluent-bundle/src/bundle.rs']
TRUSTED = []
ASSUMPTIONS = []
RULE = ''
MANIFEST = {}


def generate(rng, tier):
    yield ('limit-at-every-position', G.render(G.gen_limit_positions(rng, tier)))
    yield ('reference-graphs', G.render(G.gen_graphs(rng, tier)))
    yield ('missing-references', G.render(G.gen_missing(rng, tier)))
    yield ('selects', G.render(G.gen_selects(rng, tier)))
    yield ('numbers', G.render(G.gen_numbers(rng, tier)))
    n = 2500 if tier == 'quick' else 60000
    yield ('random-bundles', G.render(G.gen_random(rng, n)))


def harness_for(name):
    return 'bundle_run'


project = G.project


def oracle(case, out):
    r = G.parse_out(out)
    if r[0] == 'panic':
        return 'formatting panicked / crashed: ' + r[1]
    if r[0] == 'timeout':
        return 'formatting did not return within the time limit (8 s)'
    if r[0] == 'bad':
        return 'unparseable implementation output: ' + r[1]
    if r[0] in ('skipped', 'missing'):
        return None
    core, extras = r[1], r[2]
    info = G.case_info(case)
    if extras.get('slow') == [b'true']:
        return 'formatting took more than 3 s'
    nfn = G.count_nodes(info['res'], 'fn')
    ncalls = len(core['calls'])
    if ncalls > (G.MAXP + 1) * nfn:
        return 'a registered function was invoked %d times: more than (MAX_PLACEABLES+1) x %d call sites' % (ncalls, nfn)
    wc = extras.get('wcalls')
    if wc and wc[0] > (G.MAXP + 1) * nfn:
        return 'write_pattern invoked functions %d times: more than (MAX_PLACEABLES+1) x %d call sites' % (wc[0], nfn)
    size = sum(len(x[1]) for x in info['res'])
    if info['args'] != b'none':
        for kv in info['args'][1:]:
            size += 400
            if isinstance(kv[1], list) and kv[1][0] == b'str':
                size += len(kv[1][2])
    leaves = [0]

    def f(x):
        if isinstance(x, list) and x and x[0] == b'args' and len(x) == 3:
            leaves[0] += len(x[1]) + len(x[2])
    for res in info['res']:
        G.walk(res[2], f)
    bound = (G.MAXP + 2) * (size + 400) * (1 + leaves[0])
    for which in ('fmt', 'wrt', 'alt'):
        text, errs = core[which]
        if len(text) > bound:
            return '%s output has %d bytes: more than the bound %d' % (which, len(text), bound)
        names = G.err_names(errs)
        for e in info['expect']:
            if e not in names:
                return '%s: %s expected among the errors, got %s' % (which, e, names[:6])
        if names.count('TooManyPlaceables') > 1:
            return '%s: TooManyPlaceables reported %d times' % (which, names.count('TooManyPlaceables'))
    return None


def release_agrees(case, dbg, rel):
    return G.project(dbg) == G.project(rel)


def nontrivial(case, out):
    r = G.parse_out(out)
    if r[0] != 'ok':
        return None
    return hashlib.sha1(G.project(out).encode()).digest()[:8]

"""C06 — Formatting is total and bounded.  Model: coq/theories/Bundle/ResolverModel.v (+ Number.v);
theorems: Props/C06.v; Rust side: harness/src/bin/bundle_run.rs."""
import hashlib
import os
import sys

sys.path.insert(0, os.path.dirname(os.path.abspath(__file__)))
import resolver_gen as G  # noqa: E402

ID = 'C06'
PROPS_FILE = 'theories/Props/C06.v'
PROPS_MODULE = 'Props.C06'
COQ_TARGETS = ['theories/Extract/ExtractC06.vo']
REQUIRED_THEOREMS = ['C06_total', 'C06_budget', 'C06_limit_error', 'C06_cycle_error', 'C06_operands_total',
                     'C06_exact_parser_in_range', 'C06_calls_bounded', 'C06_bounded_partial', 'C06_bounded_bytes_partial',
                     'C06_bounded_bytes', 'C06_bounded_bytes_linear', 'C06_exact_parser_prints_short',
                     'C06_bounded_bytes_parsed', 'C06_bounded_bytes_linear_parsed']
MODEL = 'resolver'
HARNESS_BINS = ['bundle_run', 'syn_run']
RELEASE_TOO = True
ANCHORS = ['fluent-bundle/src/resolver/pattern.rs', 'fluent-bundle/src/resolver/scope.rs', 'fluent-bundle/src/resolver/expression.rs',
           'fluent-bundle/src/resolver/inline_expression.rs', 'fluent-bundle/src/resolver/errors.rs', 'fluent-bundle/src/types/number.rs',
           'fluent-bundle/src/types/mod.rs', 'fluent-bundle/src/builtins.rs', 'fluent-bundle/src/entry.rs', 'fluent-bundle/src/bundle.rs']
TRUSTED = [
    'modelled, not verified (validated by the correspondence run only): the hand-written Gallina transliteration of the resolver '
    '(Bundle/ResolverModel.v, one definition per Rust function), of FluentNumber/PluralOperands (Bundle/Number.v) and of the bundle lookup '
    '(an association list id -> message/term/function, first registration wins)',
    'numbers are exact decimals = the Display text of the f64; valid for literals with at most 15 significant digits and for every f64/integer '
    'argument (the case carries Rust\'s own Display text, the harness checks it); f64::from_str / Display themselves are trusted',
    'fmt::Write is an infallible buffer (String); Scope::track compares pattern OBJECTS (std::ptr::eq): an object of the bundle is identified '
    'by its key (term?, id, attribute) — lookups are first-match, so one key is one AST node; the caller\'s pattern is identified by `top`',
    'with_try_get(...).unwrap() on the plural-rules memoizer never fails (PluralRules::construct negotiates against the locales that have rules, default en)',
    'external code as section variables: registered functions, transform, formatter (pure total functions), CLDR rules, custom-type printing, '
    'unescape_unicode (total by C13), f64::from_str; the CLDR tables of Bundle/Plural.v instantiate `rules` in the extraction only',
]
ASSUMPTIONS = [
    'values_are_f64: what f64::from_str returns, what registered functions return and what the caller passes are numbers in the range of an f64 '
    '(fval_in_f64_range: with a fraction, integer and fraction part each fit a u64 — true of every f64 Display text); without it '
    'PluralOperands::try_from(f64).expect(..) is reachable in the exact-decimal model, not in Rust',
    'C06_bounded_partial / C06_calls_bounded: see PARTIAL',
]
PARTIAL = ('the byte bound is PROVED from bounds on the INPUTS only (C06_bounded_bytes_linear: bytes <= 102 x Tmax + 808 x W, Tmax = largest '
           'text sum of a pattern, W from the longest string of the resources, the longest printed argument and the bound F on user callbacks; '
           'C06_bounded_bytes: the product form), under two premises on the resources: (1) named_args_ok — no named-argument value is a '
           'message/term reference or placeable: since the fix of D32 a THEOREM about every parser output, so for bundles built from parsed '
           'resources the premise is discharged (C06_bounded_bytes_parsed, C06_bounded_bytes_linear_parsed; Bundle/ParsedBundle.v, ParsedNamedArgs.v); (2) every minimumFractionDigits literal <= K — this excludes exactly the known finding D11 '
           '(NUMBER(1, minimumFractionDigits: 99999999999) asks for ~10^11 bytes). The exact-decimal float parser used by the extracted model '
           'meets values_are_f64 for literals of at most 19 bytes (C06_exact_parser_in_range), not for all strings.')
RULE = ('designed generators: placeable limit forced to trip at every syntactic position (select variant, nested placeable, call argument, term '
        'and message attribute, selector) by a counted prefix of placeables; reference graphs (chains, fan-out of arity 2..10, cycles through '
        'messages/terms/attributes/variants/arguments); missing references of every kind; selects on every value kind x locales; number literals, '
        'NUMBER options and arguments of every Rust number type incl. NaN/inf/1e300/subnormals; plus random bundles from a grammar; each case is '
        'run on a debug and a release build (format_pattern, write_pattern, isolation flipped); distinct = distinct implementation outputs')
MANIFEST = {
    'text': 'Rocq theorems over ALL bundles, argument sets and patterns: with the explicit fuel (#patterns+1)x(deepest pattern+2) the resolver '
            'model returns Done — no unreachable!/expect/unwrap/u8 overflow, no non-termination (C06_total; lexicographic measure: patterns not '
            'on `travelled`, AST depth); the placeable counter ends <= MAX_PLACEABLES+1 < 2^8 (C06_budget, constants regenerated from pattern.rs); '
            'counter at the limit or dirty => TooManyPlaceables reported, re-entered pattern => Cyclic (C06_limit_error, C06_cycle_error); '
            'plural operands never panic for any f64 and any minimum_fraction_digits (C06_operands_total); function invocations and tokens '
            'written are bounded by (MAX_PLACEABLES+1) x local size (C06_calls_bounded, C06_bounded_partial); output BYTES are bounded by a '
            'fixed multiple of input sizes (C06_bounded_bytes_linear; premises: named arguments are literals, minimumFractionDigits bounded). The model is tied to the Rust '
            'resolver by running the extracted model and the real bundle (debug and release) on the same generated cases.',
    'note': 'Trusted: Coq kernel, extraction, the hand transliteration (validated by the differential run), exact-decimal stand-in for f64 '
            '(<= 15 significant digits), purity/totality of user callbacks. Byte bound proved under named_args_ok and a bound on minimumFractionDigits (D11). D32 (exponential output through reference-valued named arguments) found by this proof and fixed.',
    'technique': 'Rocq proof (induction on fuel over the 8 mutually recursive resolver functions with a scope invariant) + differential '
                 'correspondence check + implementation-only oracle',
    'design_ref': 'DESIGN.md §4 C06',
}


def generate(rng, tier):
    yield ('limit-at-every-position', G.render(G.gen_limit_positions(rng, tier)))
    yield ('reference-graphs', G.render(G.gen_graphs(rng, tier)))
    yield ('missing-references', G.render(G.gen_missing(rng, tier)))
    yield ('selects', G.render(G.gen_selects(rng, tier)))
    yield ('numbers', G.render(G.gen_numbers(rng, tier)))
    n = 3000 if tier == 'quick' else 60000
    yield ('random-bundles', G.render(G.gen_random(rng, n)))


def harness_for(name):
    return 'bundle_run'


project = G.project


def oracle(case, out):
    r = G.parse_out(out)
    if r[0] == 'panic':
        return 'formatting panicked / crashed: ' + r[1]
    if r[0] == 'timeout':
        return 'formatting did not return within the time limit (8 s)'
    if r[0] == 'bad':
        return 'unparseable implementation output: ' + r[1]
    if r[0] in ('skipped', 'missing'):
        return None
    core, extras = r[1], r[2]
    info = G.case_info(case)
    if extras.get('slow') == [b'true']:
        return 'formatting took more than 3 s'
    nfn = G.count_nodes(info['res'], 'fn')
    ncalls = len(core['calls'])
    if ncalls > (G.MAXP + 1) * nfn:
        return 'a registered function was invoked %d times: more than (MAX_PLACEABLES+1) x %d call sites' % (ncalls, nfn)
    wc = extras.get('wcalls')
    if wc and wc[0] > (G.MAXP + 1) * nfn:
        return 'write_pattern invoked functions %d times: more than (MAX_PLACEABLES+1) x %d call sites' % (wc[0], nfn)
    size = sum(len(x[1]) for x in info['res'])
    if info['args'] != b'none':
        for kv in info['args'][1:]:
            size += 400
            if isinstance(kv[1], list) and kv[1][0] == b'str':
                size += len(kv[1][2])
    leaves = [0]

    def f(x):
        if isinstance(x, list) and x and x[0] == b'args' and len(x) == 3:
            leaves[0] += len(x[1]) + len(x[2])
    for res in info['res']:
        G.walk(res[2], f)
    bound = (G.MAXP + 2) * (size + 400) * (1 + leaves[0])
    for which in ('fmt', 'wrt', 'alt'):
        text, errs = core[which]
        if len(text) > bound:
            return '%s output has %d bytes: more than the bound %d' % (which, len(text), bound)
        names = G.err_names(errs)
        for e in info['expect']:
            if e not in names:
                return '%s: %s expected among the errors, got %s' % (which, e, names[:6])
        for e in info['forbid']:
            if e in names:
                return '%s: %s reported although the reference graph has no cycle / stays below the limit: %s' % (which, e, names[:6])
        if names.count('TooManyPlaceables') > 1:
            return '%s: TooManyPlaceables reported %d times' % (which, names.count('TooManyPlaceables'))
    return None


def release_agrees(case, dbg, rel):
    return G.project(dbg) == G.project(rel)


def nontrivial(case, out):
    r = G.parse_out(out)
    if r[0] != 'ok':
        return None
    return hashlib.sha1(G.project(out).encode()).digest()[:8]

//! C14 schedule exploration.  Built by props/C14.py inside a scratch copy of /repo/intl-memoizer whose
//! `concurrent.rs` imports `shuttle::sync::Mutex` instead of `std::sync::Mutex` (nothing else is changed).
//! Runs N shuttle threads against ONE real `concurrent::IntlLangMemoizer`, every thread executing a list
//! of `with_try_get` requests, under shuttle's DFS / PCT / random schedulers, and prints one line:
//!
//!   (shuttle <mode> ok <iterations> (outcomes <outcome> ...))          every explored schedule passed
//!   (shuttle <mode> fail #<panic message> #<shuttle schedule> ...)     a schedule violated C14
//!
//! usage: c14_shuttle <dfs|pct|random|replay> <iterations|0> <seed> <lang> <scenario> [schedule]
//!   scenario = threads separated by '/', requests by ',', request = <type>:<hexargs>:<cb>
//! An outcome is `(o (t <result>...)... (tr <event>...))` (per-thread results, then the construct trace).
//! The Memoizable types, `construct` rule and result shapes are the same as in harness/src/bin/memo_run.rs.
use intl_memoizer::concurrent::IntlLangMemoizer;
use intl_memoizer::Memoizable;
use std::collections::BTreeSet;
use std::sync::atomic::{AtomicUsize, Ordering};
use std::sync::{Arc, Mutex as StdMutex};
use unic_langid::LanguageIdentifier;

static COUNTER: AtomicUsize = AtomicUsize::new(0);
static TRACE: StdMutex<Vec<String>> = StdMutex::new(Vec::new());
static OUTCOMES: StdMutex<BTreeSet<String>> = StdMutex::new(BTreeSet::new());

fn hex(b: &[u8]) -> String {
    let mut s = String::from("#");
    for c in b {
        s.push_str(&format!("{:02x}", c));
    }
    s
}

#[derive(Clone, Debug)]
struct Inst {
    lang: String,
    ty: usize,
    args: Vec<u8>,
    n: usize,
}

impl Inst {
    fn text(&self) -> String {
        format!("{} {} {} {}", hex(self.lang.as_bytes()), self.ty, hex(&self.args), self.n)
    }
}

/// args = [mode, x, ..]: mode 1 always fails, mode 2 fails while the global construction counter is < x,
/// anything else succeeds.  The counter value at the call is the identity of the instance.
fn construct(lang: LanguageIdentifier, ty: usize, args: &[u8]) -> Result<Inst, Inst> {
    let n = COUNTER.fetch_add(1, Ordering::SeqCst);
    let i = Inst { lang: lang.to_string(), ty, args: args.to_vec(), n };
    let fail = match args.first() {
        Some(1) => true,
        Some(2) => n < args.get(1).copied().unwrap_or(0) as usize,
        _ => false,
    };
    TRACE.lock().unwrap().push(format!("(c {} {})", i.text(), if fail { "fail" } else { "ok" }));
    if fail {
        Err(i)
    } else {
        Ok(i)
    }
}

struct FmtA(Inst);
struct FmtB(Inst);
impl Memoizable for FmtA {
    type Args = Vec<u8>;
    type Error = Inst;
    fn construct(lang: LanguageIdentifier, args: Self::Args) -> Result<Self, Self::Error> {
        construct(lang, 0, &args).map(FmtA)
    }
}
impl Memoizable for FmtB {
    type Args = (Vec<u8>,);
    type Error = Inst;
    fn construct(lang: LanguageIdentifier, args: Self::Args) -> Result<Self, Self::Error> {
        construct(lang, 1, &args.0).map(FmtB)
    }
}

#[derive(Clone)]
struct Req {
    ty: usize,
    args: Vec<u8>,
    cb: usize,
}

fn unhex(s: &str) -> Vec<u8> {
    (0..s.len() / 2).map(|i| u8::from_str_radix(&s[2 * i..2 * i + 2], 16).expect("hex")).collect()
}

fn parse_scenario(s: &str) -> Vec<Vec<Req>> {
    s.split('/')
        .map(|t| {
            t.split(',')
                .filter(|r| !r.is_empty())
                .map(|r| {
                    let p: Vec<&str> = r.split(':').collect();
                    Req { ty: p[0].parse().unwrap(), args: unhex(p[1]), cb: p[2].parse().unwrap() }
                })
                .collect()
        })
        .collect()
}

fn one_request(m: &IntlLangMemoizer, r: &Req) -> (String, Option<usize>) {
    let cb = r.cb;
    let res = if r.ty == 0 {
        m.with_try_get::<FmtA, _, _>(r.args.clone(), |i| (cb, i.0.clone()))
    } else {
        m.with_try_get::<FmtB, _, _>((r.args.clone(),), |i| (cb, i.0.clone()))
    };
    match res {
        Ok((cb, i)) => (format!("(ok {} (inst {}))", cb, i.text()), Some(i.n)),
        Err(e) => (format!("(err {})", e.text()), None),
    }
}

/// One execution: fresh memoizer, fresh counter; returns nothing, records the outcome, and panics
/// (so that shuttle reports the schedule) when the outcome violates the property.
fn body(lang: &str, threads: &[Vec<Req>]) {
    COUNTER.store(0, Ordering::SeqCst);
    TRACE.lock().unwrap().clear();
    let memo = Arc::new(IntlLangMemoizer::new(lang.parse().expect("lang")));
    let mut hs = vec![];
    for prog in threads.iter().cloned() {
        let memo = Arc::clone(&memo);
        hs.push(shuttle::thread::spawn(move || {
            let mut out = vec![];
            for r in &prog {
                let (text, n) = one_request(&memo, r);
                out.push((r.clone(), text, n));
            }
            out
        }));
    }
    let results: Vec<Vec<(Req, String, Option<usize>)>> = hs.into_iter().map(|h| h.join().expect("join")).collect();
    let trace = TRACE.lock().unwrap().clone();
    let mut text = String::from("(o");
    for t in &results {
        text.push_str(" (t");
        for (_, s, _) in t {
            text.push(' ');
            text.push_str(s);
        }
        text.push(')');
    }
    text.push_str(" (tr");
    for e in &trace {
        text.push(' ');
        text.push_str(e);
    }
    text.push_str("))");
    // the property, checked here only so that shuttle prints the schedule of a violating execution
    let mut seen: Vec<((usize, Vec<u8>), usize)> = vec![];
    for t in &results {
        for (r, _, n) in t {
            if let Some(n) = n {
                let k = (r.ty, r.args.clone());
                match seen.iter().find(|(k2, _)| *k2 == k) {
                    Some((_, n0)) if n0 != n => panic!("C14 violated: key served by two instances: {}", text),
                    Some(_) => {}
                    None => seen.push((k, *n)),
                }
            }
        }
    }
    let mut ok_keys: Vec<String> = trace.iter().filter(|e| e.ends_with(" ok)")).map(|e| {
        let p: Vec<&str> = e.split(' ').collect();
        format!("{} {}", p[2], p[3])
    }).collect();
    let total = ok_keys.len();
    ok_keys.sort();
    ok_keys.dedup();
    if ok_keys.len() != total {
        panic!("C14 violated: key constructed twice: {}", text);
    }
    OUTCOMES.lock().unwrap().insert(text);
}

fn main() {
    let a: Vec<String> = std::env::args().collect();
    if a.len() < 6 {
        eprintln!("usage: c14_shuttle <dfs|pct|random|replay> <iterations> <seed> <lang> <scenario> [schedule]");
        std::process::exit(2);
    }
    let mode = a[1].clone();
    let iters: usize = a[2].parse().expect("iterations");
    let seed: u64 = a[3].parse().expect("seed");
    let lang = a[4].clone();
    let threads = parse_scenario(&a[5]);
    let sched = a.get(6).cloned().unwrap_or_default();
    let f = move || body(&lang, &threads);
    let m = mode.clone();
    let r = std::panic::catch_unwind(move || -> usize {
        let cfg = shuttle::Config::default();
        match m.as_str() {
            "dfs" => shuttle::Runner::new(
                shuttle::scheduler::DfsScheduler::new(if iters == 0 { None } else { Some(iters) }, false), cfg).run(f),
            "pct" => shuttle::Runner::new(shuttle::scheduler::PctScheduler::new_from_seed(seed, 3, iters), cfg).run(f),
            "random" => shuttle::Runner::new(shuttle::scheduler::RandomScheduler::new_from_seed(seed, iters), cfg).run(f),
            "replay" => {
                shuttle::replay(f, &sched);
                1
            }
            _ => panic!("mode"),
        }
    });
    match r {
        Ok(n) => {
            let o = OUTCOMES.lock().unwrap();
            let mut s = format!("(shuttle {} ok {} (outcomes", mode, n);
            for x in o.iter() {
                s.push(' ');
                s.push_str(x);
            }
            s.push_str("))");
            println!("{}", s);
        }
        Err(e) => {
            let msg = if let Some(s) = e.downcast_ref::<String>() {
                s.clone()
            } else if let Some(s) = e.downcast_ref::<&str>() {
                s.to_string()
            } else {
                "?".into()
            };
            println!("(shuttle {} fail {})", mode, hex(msg.as_bytes()));
        }
    }
}

"""C18 — Localization reflects every state change as a fresh instance would.
Model: coq/theories/Fallback/Localization.v; theorems: Props/C18.v; Rust side: harness/src/bin/fallback_run.rs (tag c18).

case := (c18 <sync|async> (<locale> ...) (<resid> ...) (<op> ...))        (format documented in Extract/ExtractC18.v)
The oracle is an independent implementation of the property STATEMENT: it tracks the resource-id set (keyed by value,
first type wins), the mode, the provider's locales and the change epochs, and says for every request which bundle set
must answer (a new one, built from exactly the current ids/locales/mode — what a freshly built Localization would ask
its generator for — or the one of the current epoch), and what a set obtained earlier must keep answering."""
import itertools
import sexp

ID = 'C18'
PROPS_FILE = 'theories/Props/C18.v'
PROPS_MODULE = 'Props.C18'
COQ_TARGETS = ['theories/Extract/ExtractC18.vo']
REQUIRED_THEOREMS = ['C18_fresh', 'C18_reuse', 'C18_snapshot', 'C18_every_mutator_invalidates']
MODEL = 'c18'
HARNESS_BINS = ['fallback_run']
ANCHORS = ['fluent-fallback/src/localization.rs', 'fluent-fallback/src/bundles.rs', 'fluent-fallback/src/types.rs',
           'fluent-fallback/src/env.rs']
TRUSTED = [
    "modelled, not verified: FxHashSet<ResourceId> as a duplicate-free list in insertion order (equality/hash by `value` only, "
    "insert/extend/from_iter keep the element already present); its iteration order is not observable (contents compared sorted)",
    "OnceCell<Rc<Bundles>> as option; identity of an Rc = index of the generator call that built it (Bundles::new consults the "
    "generator exactly once, at construction); the correspondence run checks identity with Rc::ptr_eq on Rcs it keeps alive",
    "the generator is a Section variable applied to (stream?, locales, res_ids); the provider is a shared cell (as in the repo's tests)",
]
ASSUMPTIONS = [
    'C18_fresh assumes the discipline of the property statement: after the environment changes the provider\'s locales, on_change() '
    'is called before the next request (`notified`); without it the stale set of the current epoch keeps being served (modelled, '
    'and exercised by the correspondence run)',
    'prefetch_sync on an async-mode instance / prefetch_async on a sync-mode one panics (bundles.rs); modelled as Panic, excluded '
    'from the property (the oracle skips such histories, the correspondence run covers them)',
]
RULE = ('all op sequences up to length 4 (quick) / 5 (thorough) over a 12-op alphabet (add a/required, add a/optional, add b, bulk add '
        'with duplicates, remove by value, bulk remove, set_async, provider mutation, on_change, prefetch, bundles(), use of the '
        'first set ever obtained) each followed by a closing request; random longer histories with richer ids, initial duplicates, '
        'both initial modes, empty locale lists, explicit prefetch variants; non-trivial = the generator was consulted at least '
        'twice; distinct = distinct implementation outputs')

LOCS = [[b'de', b'pl'], [b'pl'], [], [b'en-US', b'de', b'pl']]


def alphabet_op(i, nloc):
    return [
        [b'add', [b'a', b'r']],
        [b'add', [b'a', b'o']],
        [b'add', [b'b', b'r']],
        [b'adds', [[b'b', b'o'], [b'c', b'r'], [b'b', b'r']]],
        [b'rm', [b'a', b'o']],
        [b'rms', [[b'c', b'r'], [b'a', b'r']]],
        [b'set_async'],
        [b'locales', LOCS[nloc % len(LOCS)]],
        [b'on_change'],
        [b'prefetch'],
        [b'bundles'],
        [b'use', 0],
    ][i]


NOPS = 12


def seq_case(mode, seq):
    ops = []
    nloc = 0
    for i in seq:
        ops.append(alphabet_op(i, nloc))
        if i == 7:
            nloc += 1
    ops.append([b'bundles'])
    return sexp.dumps([b'c18', mode, [b'pl'], [[b'a', b'r']], ops])


def rand_res(rng):
    return [rng.choice([b'a', b'b', b'c', b'd', b'']), rng.choice([b'r', b'o'])]


def random_case(rng):
    mode = rng.choice([b'sync', b'sync', b'async'])
    ids = [rand_res(rng) for _ in range(rng.choice([0, 1, 2, 3, 5]))]
    locs = rng.choice(LOCS)
    ops = []
    for _ in range(rng.randint(4, 16)):
        r = rng.random()
        if r < 0.12:
            ops.append([b'add', rand_res(rng)])
        elif r < 0.2:
            ops.append([b'adds', [rand_res(rng) for _ in range(rng.randint(0, 4))]])
        elif r < 0.3:
            ops.append([b'rm', rand_res(rng)])
        elif r < 0.36:
            ops.append([b'rms', [rand_res(rng) for _ in range(rng.randint(0, 3))]])
        elif r < 0.42:
            ops.append([b'set_async'])
        elif r < 0.52:
            ops.append([b'locales', rng.choice(LOCS)])
            if rng.random() < 0.7:
                ops.append([b'on_change'])
        elif r < 0.58:
            ops.append([b'on_change'])
        elif r < 0.66:
            ops.append([b'prefetch'])
        elif r < 0.68:
            ops.append([rng.choice([b'prefetch_sync', b'prefetch_async'])])
        elif r < 0.88:
            ops.append([b'bundles'])
        else:
            ops.append([b'use', rng.randint(0, 3)])
    ops.append([b'bundles'])
    return sexp.dumps([b'c18', mode, locs, ids, ops])


def generate(rng, tier):
    bound = 4 if tier == 'quick' else 5
    cases = []
    for n in range(0, bound + 1):
        for seq in itertools.product(range(NOPS), repeat=n):
            cases.append(seq_case(b'sync', seq))
    yield ('exhaustive-12ops-len%d' % bound, cases)
    if tier != 'quick':
        cases = []
        for n in range(0, 5):
            for seq in itertools.product(range(NOPS), repeat=n):
                cases.append(seq_case(b'async', seq))
        yield ('exhaustive-12ops-len4-async-start', cases)
    n = 5000 if tier == 'quick' else 100000
    yield ('random-histories', [random_case(rng) for _ in range(n)])
    yield ('remove-by-matcher', matcher_cases(rng, 300 if tier == 'quick' else 5000))


# ---------------------------------------------------------------------------------------------
# the property statement, in Python

class Outside(Exception):
    pass


NO_MODEL = ('remove-by-matcher',)   # the generic matcher form of remove_resource_id is outside the Gallina model (it removes by id)


def matcher_cases(rng, n):
    """remove_resource_id with a caller-defined matcher (T: PartialEq<ResourceId>) that equals SEVERAL stored ids: all of them go"""
    cases = []
    pool = [b'browser/menu', b'browser/tabs', b'browser/x', b'toolkit/about', b'toolkit/b', b'main']
    for _ in range(n):
        start = [[v, rng.choice([b'r', b'o'])] for v in rng.sample(pool, rng.randint(1, 5))]
        ops = []
        for _ in range(rng.randint(2, 6)):
            r = rng.random()
            if r < 0.35:
                ops.append([b'rmprefix', rng.choice([b'browser/', b'toolkit/', b'b', b'', b'main', b'zzz'])])
            elif r < 0.55:
                ops.append([b'add', [rng.choice(pool), rng.choice([b'r', b'o'])]])
            else:
                ops.append([b'bundles'])
        ops.append([b'bundles'])
        cases.append(sexp.dumps([b'c18', rng.choice([b'sync', b'async']), rng.choice(LOCS), start, ops]))
    return cases


def expected(case):
    c = sexp.loads(case)
    sync = c[1] != b'async'
    locales = list(c[2])
    ids = {}
    for v, t in c[3]:
        ids.setdefault(v, t)
    sets = []          # every bundle set ever built: dict(call, sync, locales, ids)
    current = None     # the set of the current epoch (index into sets) or None after a change
    held = []          # distinct sets handed out by bundles(), in order of first appearance
    prefetches = []
    out = []

    def request():
        nonlocal current
        if current is None:
            # a newly built Localization with the current ids, locales and mode asks its generator for exactly this
            sets.append({'call': len(sets), 'sync': sync, 'locales': list(locales),
                         'ids': sorted([v, t] for v, t in ids.items())})
            current = len(sets) - 1
        return current

    def answer(idx, s):
        st = sets[s]
        ans = [b'some', b'c' + b'i' * st['call']] if st['locales'] else b'none'
        return [b'set', idx, [b'ok', ans] if st['sync'] else [b'err', b'SyncRequestInAsyncMode'], ans]

    for op in c[4]:
        t = op[0]
        if t == b'add':
            ids.setdefault(op[1][0], op[1][1])
            current = None
            out.append(b'u')
        elif t == b'adds':
            for v, ty in op[1]:
                ids.setdefault(v, ty)
            current = None
            out.append(b'u')
        elif t == b'rm':
            ids.pop(op[1][0], None)
            current = None
            out.append([b'len', len(ids)])
        elif t == b'rmprefix':
            for v in [v for v in ids if v.startswith(op[1])]:
                ids.pop(v)
            current = None
            out.append([b'len', len(ids)])
        elif t == b'rms':
            for v, _ in op[1]:
                ids.pop(v, None)
            current = None
            out.append([b'len', len(ids)])
        elif t == b'set_async':
            if sync:
                sync = False
                current = None
            out.append(b'u')
        elif t == b'on_change':
            current = None
            out.append(b'u')
        elif t == b'locales':
            locales = list(op[1])
            out.append(b'u')
        elif t in (b'prefetch', b'prefetch_sync', b'prefetch_async'):
            s = request()
            want_async = (not sets[s]['sync']) if t == b'prefetch' else (t == b'prefetch_async')
            if want_async == sets[s]['sync']:
                raise Outside()
            prefetches.append([sets[s]['call'], b'async' if want_async else b'sync'])
            out.append(b'u')
        elif t == b'bundles':
            s = request()
            if s not in held:
                held.append(s)
            out.append(answer(held.index(s), s))
        elif t == b'use':
            i = op[1]
            out.append(answer(i, held[i]) if i < len(held) else b'none')
        else:
            raise ValueError(t)
    out.append([b'calls'] + [[b'iter' if s['sync'] else b'stream', s['locales'], s['ids']] for s in sets])
    out.append([b'prefetches'] + prefetches)
    return out


def oracle(case, out):
    try:
        o = sexp.loads(out)
    except ValueError:
        return 'unparseable implementation output: ' + out[:200]
    try:
        exp = expected(case)
    except Outside:
        return None
    if sexp.tag(o) in ('PANIC', 'CRASH', 'HARNESS-PARSE-ERROR'):
        return 'implementation panicked: ' + out[:200]
    if o == exp:
        return None
    ops = sexp.loads(case)[4]
    for i, (e, g) in enumerate(zip(exp, o)):
        if e != g:
            if i < len(ops):
                return 'op %d %s: expected %s got %s (a freshly built Localization / the current epoch\'s set would answer the former)' % (
                    i, sexp.dumps(ops[i]), sexp.dumps(e), sexp.dumps(g))
            return 'generator consultations differ: expected %s got %s' % (sexp.dumps(e), sexp.dumps(g))
    return 'expected %d results, got %d' % (len(exp), len(o))


def nontrivial(case, out):
    i = out.find('(calls ')
    if i >= 0 and (out.count('(iter ', i) + out.count('(stream ', i)) >= 2:
        return out
    return None


MANIFEST = {
    'text': 'Rocq theorems over ALL op lists (add/remove single and bulk, set_async, provider mutation, on_change, prefetch, requests): '
            'if every provider mutation is announced by on_change before the next request, bundles() returns a set built from exactly '
            'the current mode, ids and locales — the set a Localization freshly built with those would return; between changes the same '
            'set is returned and the generator is not consulted again; when the cell is empty it is consulted exactly once with the '
            'current arguments; the generator log is append-only so a set obtained earlier keeps its creation-time arguments; every '
            'mutator empties the cell (set_async only when it flips). The model is tied to localization.rs by running the extracted '
            'model and the real Localization on all op sequences up to a length bound plus random histories, with a recording '
            'generator, a shared-cell provider, Rc identity, and requests on sets held across later changes.',
    'note': 'Trusted: Coq kernel; extraction; FxHashSet<ResourceId> as a duplicate-free list keyed by value; OnceCell/Rc as option + '
            'generator-call index. Wrong-mode prefetch panics (modelled, outside the property). Without on_change a provider mutation '
            'is not seen until the next invalidating mutator (modelled and exercised; the property is silent about it).',
    'technique': 'Rocq proof (invariant over op lists) + differential correspondence check + independent Python implementation of the '
                 'statement as oracle',
    'design_ref': 'DESIGN.md §4 C18',
}

"""C13 — String-literal escapes decode exactly and never fail.
Model: coq/theories/Syntax/UnescapeModel.v; theorems: Props/C13.v."""
import itertools
import sexp

ID = 'C13'
PROPS_FILE = 'theories/Props/C13.v'
PROPS_MODULE = 'Props.C13'
COQ_TARGETS = ['theories/Extract/ExtractC13.vo']
REQUIRED_THEOREMS = ['C13_total', 'C13_spec', 'C13_writer_eq', 'C13_borrowed', 'C13_utf8_out']
MODEL = 'c13'
HARNESS_BINS = ['unescape_run']
ANCHORS = ['fluent-syntax/src/unicode.rs', 'fluent-bundle/src/resolver/inline_expression.rs']
TRUSTED = [
    'modelled, not verified: str indexing / str::get / is_char_boundary (Base/Utf8.v slice, slice_get), '
    'u8::is_ascii_hexdigit, u32::from_str_radix(_,16) (sign handling and overflow written out), char::from_u32, '
    'char::encode_utf8; the writer W is an infallible append-only buffer (String); all validated by the correspondence run only',
    'the specification unescape_spec (UnescapeModel.v, ~40 lines) carries the meaning of "decode exactly"; its malformed-escape '
    'rule (one U+FFFD, swallowing 1/5/7 bytes after the backslash rounded up to a character) is pinned to what the code does',
    'use by the resolver (inline_expression.rs) is covered by the correspondence run only (literal formatted through a bundle)',
]
ASSUMPTIONS = ['the input is a Rust str, i.e. well-formed UTF-8 (hypothesis utf8_valid of every theorem)',
               'the fmt::Write sink does not fail (String)']
RULE = ('strings over the tokens backslash,u,U,quote,hex digit,non-hex letter,+,2/3/4-byte characters,d800,110000: exhaustive up to '
        'a length bound, plus random longer token strings and random writer prefixes; a case is non-trivial when the text contains a '
        'backslash; distinct = distinct (borrowed/owned, output) pairs')

TOKENS = ['\\', 'u', 'U', '"', '1', 'x', '+', '\u00e9', '\u20ac', '\U0001f600', 'd800', '110000']
MORE_TOKENS = TOKENS + ['a', 'F', '0', '\\u', '\\U', '00e9', '01F60A', 'g', ' ', '\n', '{', '\ufffd', '\u0080', '\u07ff', '\u0800',
                        '\uffff', '\U00010000', '\U0010ffff', 'dfff', 'e000', '10ffff', '-', '00', '0000']
HEX = '0123456789abcdefABCDEF'


def case(prefix, text):
    return sexp.dumps([b'unescape', prefix.encode('utf-8'), text.encode('utf-8')])


def generate(rng, tier):
    bound = 6 if tier == 'quick' else 7
    cases = []
    for n in range(0, bound + 1):
        for seq in itertools.product(TOKENS, repeat=n):
            if n > 3 and '\\' not in seq:
                continue        # nothing to decode: covered up to length 3 and by the random generator
            cases.append(case('', ''.join(seq)))
    yield ('exhaustive-12tokens-len%d' % bound, cases)
    n = 20000 if tier == 'quick' else 400000
    cases = []
    for _ in range(n):
        k = rng.randint(6, 40)
        toks = []
        for _ in range(k):
            r = rng.random()
            if r < 0.25:
                toks.append('\\')
            elif r < 0.40:
                toks.append(rng.choice('uU'))
            elif r < 0.70:
                toks.append(rng.choice(HEX))
            else:
                toks.append(rng.choice(MORE_TOKENS))
        prefix = rng.choice(['', '', 'p', '\u00e9\\', '\\u00'])
        cases.append(case(prefix, ''.join(toks)))
    yield ('random-tokens', cases)
    # long runs without escapes, and escapes at the very end
    cases = []
    for _ in range(200 if tier == 'quick' else 2000):
        body = ''.join(rng.choice(['a', 'u', '1', '\u00e9', '\u20ac', '\U0001f600', ' ']) for _ in range(rng.randint(50, 400)))
        tail = rng.choice(['', '\\', '\\u', '\\u1', '\\u12', '\\u123', '\\u1234', '\\U', '\\U1234', '\\U12345', '\\U0001F6', '\\"', '\\\\',
                           '\\\u00e9', '\\u12\u00e9', '\\u123\u20ac', '\\U12345\U0001f600'])
        cases.append(case('', body + tail))
        cases.append(case('w', tail + body))
    yield ('long-runs', cases)
    # every ASCII byte (control bytes included) and a few multi-byte characters in every digit position of \\uXXXX / \\UXXXXXX,
    # alone and next to its case/bit variants: "hex digit" must mean exactly [0-9a-fA-F]
    cases = []
    alphabet = [chr(c) for c in range(0, 128)] + ['\u00e9', '\u20ac', '\U0001f600', '\u0660', '\uff11']
    for kind, k in (('u', 4), ('U', 6)):
        base = '0041' if k == 4 else '000041'
        for pos in range(k):
            for ch in alphabet:
                body = base[:pos] + ch + base[pos + 1:]
                cases.append(case('', 'a\\' + kind + body + 'b'))
        for ch in alphabet:
            cases.append(case('', '\\' + kind + ch * k))
            cases.append(case('w', '\\' + kind + ch * (k - 1)))
    yield ('exhaustive-digit-positions', cases)


def reference(b):
    """The property's statement, executed on bytes.  Returns (has_escape, output bytes)."""
    out = bytearray()
    i, n = 0, len(b)
    seen = False
    while i < n:
        if b[i] != 0x5C:
            out.append(b[i])
            i += 1
            continue
        seen = True
        nxt = b[i + 1:i + 2]
        if nxt in (b'\\', b'"'):
            out += nxt
            i += 2
            continue
        k = {b'u': 4, b'U': 6}.get(nxt, 0)
        digits = b[i + 2:i + 2 + k]
        if k and len(digits) == k and all(chr(d) in HEX for d in digits):
            v = int(digits, 16)
            out += (chr(v) if (v < 0xD800 or 0xE000 <= v <= 0x10FFFF) else '\ufffd').encode('utf-8')
            i += 2 + k
            continue
        # malformed: one U+FFFD; swallow the backslash, the next byte and (u/U) k more, then finish the character
        out += '\ufffd'.encode('utf-8')
        i += 2 + k
        while i < n and 0x80 <= b[i] <= 0xBF:
            i += 1
    return seen, bytes(out)


def oracle(case_line, out):
    c = sexp.loads(case_line)
    try:
        o = sexp.loads(out)
    except ValueError:
        return 'unparseable implementation output: ' + out[:200]
    if sexp.tag(o) in ('PANIC', 'CRASH'):
        return 'unescape panicked: ' + out[:200]
    if sexp.tag(o) != 'ok' or len(o) != 5:
        return 'unexpected output shape: ' + out[:200]
    prefix, text = c[1], c[2]
    seen, want = reference(text)
    kind, s, w, lit = o[1], o[2], o[3], o[4]
    if s != want:
        return 'unescape_unicode_to_string(%r) = %r, the property says %r' % (text, s, want)
    try:
        s.decode('utf-8')
    except UnicodeDecodeError:
        return 'output is not UTF-8: %r' % s
    if w != prefix + s:
        return 'writer form differs from string form: writer=%r string=%r prefix=%r' % (w, s, prefix)
    if seen and kind != b'owned':
        return 'input with a backslash returned borrowed'
    if not seen and (kind != b'borrowed' or s != text):
        return 'input without a backslash not returned borrowed and unchanged: %s %r' % (kind, s)
    if lit != b'none':
        if lit[1] != s or lit[2] != s:
            return 'string literal formatted through a bundle gives %r / %r, unescape gives %r' % (lit[1], lit[2], s)
    return None


def project(out):
    # the bundle column exists on the Rust side only (atoms contain no blanks or parentheses)
    if out.startswith('(ok '):
        if out.endswith(' none)'):
            return out[:-6] + ')'
        k = out.rfind(' (some ')
        if k > 0:
            return out[:k] + ')'
    if out.startswith('(PANIC'):
        return '(PANIC)'
    return out


def nontrivial(case_line, out):
    return out if '5c' in case_line.split('#')[-1] else None


MANIFEST = {
    'text': 'Rocq theorems over ALL well-formed UTF-8 strings: the byte-cursor decoder of unicode.rs (modelled with an explicit Panic at '
            'every str index and explicit fuel) never panics and never runs out of fuel; its output equals a short character-level '
            'specification (the four escape kinds, U+FFFD for non-scalars and malformed escapes, everything else unchanged in order); '
            'writer form = string form for every prior writer content; no backslash <-> Borrowed and unchanged; output is valid UTF-8. '
            'The model is tied to the code by running the extracted model and the real functions on every string over 12 tokens up to '
            'a length bound plus random longer strings; an independent Python decoder is the oracle on the implementation alone, and '
            'well-formed literals are also formatted through a FluentBundle (write and resolve paths).',
    'note': 'Trusted: Coq kernel; extraction; the model of str slicing/from_str_radix/char::from_u32; the specification unescape_spec '
            '(its malformed-escape rule is pinned to the behaviour of the non-panicking code). The fmt::Write sink is assumed infallible.',
    'technique': 'Rocq proof (character view of UTF-8, loop invariant over character prefixes, strong induction on the remaining '
                 'characters) + differential correspondence check + independent reference decoder',
    'design_ref': 'DESIGN.md §4 C13',
}

"""C15 — a concurrent bundle formats the same from many threads as from one.
Model: coq/theories/Bundle/ConcurrentBundle.v (the resolver as a process over the C14 memoizer, threads, schedules); proofs:
Bundle/ConcurrentBundleProofs.v; theorems: Props/C15.v; Rust side: harness/src/bin/concurrent_run.rs.

Three things run on every case:
 * real OS threads (2/4/8) sharing `&FluentBundle::new_concurrent(..)` with a cold memoizer, several repetitions per case with
   different release patterns (barrier = cold-cache race, staggered both ways, unsynchronised, yields), against (a) every request
   on its own fresh bundle and (b) all requests sequentially on one bundle: the implementation-only oracle;
 * the extracted Coq model on the same case, under sampled schedules (sequential orders, round-robin, random schedules from the
   case) and, for tiny cases, EVERY schedule (depth-first): it must predict one schedule-independent result, equal to the
   reference the real code returned;
 * for `(shuttle ...)` cases the schedule explorer: this plugin builds, from the CURRENT sources, a scratch workspace in which
   intl-memoizer/src/concurrent.rs imports shuttle::sync::Mutex instead of std::sync::Mutex and fluent-bundle is compiled from
   the repository's sources against that memoizer; concurrent_run.rs compiled with --cfg c15_shuttle runs the threads as shuttle
   threads under shuttle's DFS / PCT / random schedulers; a schedule under which some request differs from its single-threaded
   result, panics or deadlocks is a failing schedule, replayable from the printed shuttle schedule string."""
import fcntl
import hashlib
import os
import re
import shutil
import subprocess
import sys

sys.path.insert(0, os.path.dirname(os.path.abspath(__file__)))
import sexp  # noqa: E402
import resolver_gen as G  # noqa: E402

ID = 'C15'
PROPS_FILE = 'theories/Props/C15.v'
PROPS_MODULE = 'Props.C15'
COQ_TARGETS = ['theories/Extract/ExtractC15.vo']
REQUIRED_THEOREMS = ['C15_process_is_resolver', 'C15_schedule_indep', 'C15_all_answered', 'C15_cold_cache', 'C15_no_deadlock',
                     'C15_custom_values',
                     'C15_fine_grained_mutex',
                     'C15_fine_grained_reduces_to_atomic',
                     'C15_fine_grained_access_is_atomic_step',
                     'C15_fine_grained_realizes_atomic',
                     'C15_fine_grained_schedule_independent',
                     'C15_fine_grained_cold_cache',
                     'C15_fine_grained_no_deadlock']
MODEL = 'c15'
HARNESS_BINS = ['concurrent_run', 'syn_run']
RELEASE_TOO = False
ANCHORS = ['fluent-bundle/src/concurrent.rs', 'fluent-bundle/src/memoizer.rs', 'fluent-bundle/src/types/mod.rs',
           'fluent-bundle/src/types/plural.rs', 'intl-memoizer/src/concurrent.rs', 'fluent-bundle/src/bundle.rs']
PARTIAL = ('The theorems are complete for the model. The model\'s granularity is: ONE with_try_get_threadsafe call (FluentValue::matches -> '
           'concurrent.rs -> intl-memoizer concurrent.rs with_try_get: lock, lookup, construct if absent, insert, callback `pr.select(n) == cat`, '
           'unlock) = ONE atomic step on the shared memoizer; everything a format_pattern call does between two such steps is private to the '
           'call (Scope, error vector, output are owned by the call; entries/transform/formatter/args are immutable while the bundle is shared). '
           'As for C14 this granularity is now DERIVED: Bundle/ConcurrentBundleFine.v runs every memoizer access as the seven micro-steps of '
           'Memo/FineGrained.v under an explicit mutex; mutual exclusion, reduction of every fine schedule to an atomic one, schedule '
           'independence (= the single-threaded answer, cold cache included) and no deadlock are proved for all fine schedules '
           '(C15_fine_grained_*). What stays a reading of the code is the order of the micro-steps and that the rest of a call is private. Beyond that, the semantics of std::sync::Mutex '
           '(mutual exclusion, poisoning — the poison flag is modelled, and shown unreachable for f64 values), and a user callback that '
           're-enters the bundle\'s memoizer or panics (custom FluentType::as_string_threadsafe, value formatter, registered function: pure '
           'total Section variables in the model) are outside the Gallina model. Support, not proof: real threads (2/4/8, cold cache, varied '
           'release patterns) and shuttle schedule exploration (DFS exhaustive for 2 threads with one short request each, bounded DFS / PCT / '
           'random beyond) of the repository\'s fluent-bundle compiled against intl-memoizer with std::sync::Mutex textually replaced by '
           'shuttle::sync::Mutex: every explored schedule gives every request its single-threaded result, without panic or deadlock.')
TRUSTED = [
    'the resolver model Bundle/ResolverModel.v (hand transliteration validated by the C06-C09 correspondence runs); its process form in '
    'Bundle/ConcurrentBundle.v is PROVED equal to it (C15_process_is_resolver), so no second transliteration is trusted',
    'the memoizer model Memo/Memoizer.v with_try_get (C14) as the atomic step; std::sync::Mutex as mutual exclusion with poisoning',
    'atomicity of one with_try_get_threadsafe and privacy of everything else in a call are modelling decisions read off the source; supported '
    'by real-thread runs and by bounded shuttle exploration (shuttle 0.9.3) of a textually patched scratch copy, see PARTIAL',
    'registered functions, transform, formatter and FluentType::as_string_threadsafe are pure total functions that do not touch the bundle',
    'Bundle/Plural.v (CLDR rules of the test locales) instantiates PluralRules::construct in the extracted model only; no theorem depends on it',
]
ASSUMPTIONS = [
    'C15_schedule_indep / C15_custom_values: values_are_f64 (the hypotheses of C06_total: the model\'s exact decimals stand for f64 values) — '
    'otherwise the `expect` of From<&FluentNumber> for PluralOperands would fire under the mutex and poison it (witness '
    'C15_example_poison_is_modelled; unreachable for f64 by C06_operands_total)',
    'C15_schedule_indep / C15_custom_values: constructs_rules — PluralRules::construct succeeds for the bundle\'s first locale and yields the '
    'rules the sequential model is parametrised with (it negotiates against the available locales with default "en", so it cannot fail)',
    'C15_cold_cache, C15_no_deadlock, C15_all_answered, C15_process_is_resolver: no hypotheses',
]
RULE = ('thread programs (2, 4 or 8 threads, 1-3 format_pattern requests each) against one new_concurrent bundle with a cold memoizer: '
        'cardinal and ordinal plural selects (through $n with number options and through NUMBER(type: "ordinal")) in 8+ locales, nested '
        'selects, exact-number and string variants, custom values (plain and fetching a second formatter type from the memoizer inside '
        'as_string_threadsafe), registered functions, terms with arguments, missing references, formatters and transforms; random bundles '
        'from the C06 grammar; every case: reference (fresh bundle per request), sequential on one bundle, N repetitions with real threads; '
        'the model under sampled schedules (and ALL schedules for tiny cases); shuttle DFS/PCT/random exploration of the patched build. '
        'non-trivial = some request performed a plural lookup or printed a custom value; distinct = distinct reference results')
MANIFEST = {
    'text': 'Rocq theorems over ALL bundles, functions, formatters, custom-type printers, CLDR rules, thread counts, request lists and '
            'schedules of atomic memoizer steps: every format_pattern call issued from any thread returns Done (text, errors) — never a panic '
            '— equal to what ResolverModel.format_pattern returns single-threadedly from any memoizer content (C15_schedule_indep, via '
            'C08 cache independence, C06 totality and the C14 memoizer step); threads answer their requests in program order and all of them '
            '(C15_all_answered); under any schedule each PluralRules object is constructed at most once, with the memoizer\'s language, and '
            'every step — also simultaneous first lookups on a cold cache — runs its callback on that one instance (C15_cold_cache); no step '
            'is ever blocked and every schedule can be completed within a computable number of steps (C15_no_deadlock); a concurrent bundle '
            'prints custom values through as_string_threadsafe only, identically on every thread (C15_custom_values). The process form of '
            'the resolver used for this is proved equal to the sequential resolver model (C15_process_is_resolver). Tied to the code by '
            'real threads (2/4/8) on cold new_concurrent bundles vs single-threaded references, by the extracted model predicting the same '
            'schedule-independent results, and by shuttle exploration of fluent-bundle compiled against a shuttle-mutex intl-memoizer.',
    'note': 'PARTIAL as C14: granularity "one with_try_get_threadsafe = one atomic step, the rest of a call is private" is read off the code, '
            'not proved; interleavings inside the critical section, std Mutex semantics, and user callbacks that re-enter the memoizer or panic '
            '(as_string_threadsafe, formatter, functions) are outside the Gallina model. Real-thread runs and shuttle exploration are evidence, '
            'not theorems. Trusted: Coq kernel, extraction, the resolver and memoizer models, shuttle, the one-line textual patch.',
    'technique': 'Rocq proof (free-monad/process form of the resolver proved equal to the state-passing model; state invariant over schedules; '
                 'variant for progress) + differential correspondence check + real-thread oracle + shuttle schedule exploration',
    'design_ref': 'DESIGN.md §4 C15',
}

ROOT = os.path.dirname(os.path.dirname(os.path.abspath(__file__)))
REPO = os.path.realpath(os.environ.get('VERIF_REPO', '/repo'))
SHUTTLE_DIR = os.path.join(ROOT, '.cache', 'shuttle', re.sub(r'[^A-Za-z0-9]', '_', REPO) + '_c15')
SHUTTLE_BIN = os.path.join(SHUTTLE_DIR, 'target', 'debug', 'c15_shuttle')
_shuttle_log = ['']

TOP_TOML = '''# generated by props/C15.py: harness lib + concurrent_run.rs as a shuttle schedule explorer (C15)
[package]
name = "verif-harness"
version = "0.0.0"
edition = "2021"
publish = false
autobins = false

[workspace]

[lib]
path = "src/lib.rs"

[[bin]]
name = "c15_shuttle"
path = "src/bin/c15_shuttle.rs"

[dependencies]
fluent-bundle = { path = "fluent-bundle" }
intl-memoizer = { path = "intl-memoizer" }
fluent-syntax = { path = "@REPO@/fluent-syntax" }
unic-langid = "0.9"
intl_pluralrules = "7.0"
shuttle = "0.9"

[profile.dev]
debug = false
opt-level = 1
'''

MEMO_TOML = '''# generated by props/C15.py: scratch copy of intl-memoizer with shuttle's Mutex
[package]
name = "intl-memoizer"
version = "0.5.2"
edition = "2021"
publish = false

[dependencies]
unic-langid = "0.9"
type-map = "0.5"
shuttle = "0.9"
'''

BUNDLE_TOML = '''# generated by props/C15.py: the repository's fluent-bundle sources against the patched intl-memoizer
[package]
name = "fluent-bundle"
version = "0.15.3"
edition = "2021"
publish = false

[dependencies]
fluent-langneg = "0.13"
fluent-syntax = { path = "@REPO@/fluent-syntax" }
intl_pluralrules = "7.0"
rustc-hash = "2"
unic-langid = "0.9"
intl-memoizer = { path = "../intl-memoizer" }
self_cell = "1.0"
smallvec = "1.13"
'''


def _fail(msg):
    os.makedirs(SHUTTLE_DIR, exist_ok=True)
    open(os.path.join(SHUTTLE_DIR, 'build.log'), 'w').write(msg)
    return False, msg


def _tree(d):
    out = []
    for base, _, fs in sorted(os.walk(d)):
        for f in sorted(fs):
            if f.endswith('.rs'):
                out.append(os.path.join(base, f))
    return out


def ensure_shuttle():
    """(Re)build the schedule explorer from the CURRENT sources when they changed.  Returns (ok, log)."""
    memo_src = os.path.join(REPO, 'intl-memoizer', 'src')
    bundle_src = os.path.join(REPO, 'fluent-bundle', 'src')
    harness_src = os.path.join(ROOT, 'harness', 'src')
    harness_files = [os.path.join(harness_src, f) for f in ('lib.rs', 'values.rs', 'ast.rs')] + \
        [os.path.join(harness_src, 'bin', 'concurrent_run.rs')]
    h = hashlib.sha1()
    try:
        for f in _tree(memo_src) + _tree(bundle_src) + harness_files:
            h.update(f.encode() + b'\0' + open(f, 'rb').read() + b'\0')
    except OSError as e:
        return False, 'cannot read sources: %s' % e
    h.update((TOP_TOML + MEMO_TOML + BUNDLE_TOML).encode())
    digest = h.hexdigest()
    os.makedirs(SHUTTLE_DIR, exist_ok=True)
    with open(os.path.join(SHUTTLE_DIR, '.lock'), 'w') as lk:
        fcntl.flock(lk, fcntl.LOCK_EX)
        stamp = os.path.join(SHUTTLE_DIR, '.srchash')
        if os.path.exists(stamp) and open(stamp).read() == digest and os.path.exists(SHUTTLE_BIN):
            return True, 'cached'
        if os.path.exists(stamp):
            os.remove(stamp)
        if os.path.exists(SHUTTLE_BIN):
            os.remove(SHUTTLE_BIN)
        for sub in ('src', 'intl-memoizer', 'fluent-bundle'):
            shutil.rmtree(os.path.join(SHUTTLE_DIR, sub), ignore_errors=True)
        os.makedirs(os.path.join(SHUTTLE_DIR, 'src', 'bin'))
        for f in ('lib.rs', 'values.rs', 'ast.rs'):
            shutil.copyfile(os.path.join(harness_src, f), os.path.join(SHUTTLE_DIR, 'src', f))
        shutil.copyfile(os.path.join(harness_src, 'bin', 'concurrent_run.rs'), os.path.join(SHUTTLE_DIR, 'src', 'bin', 'c15_shuttle.rs'))
        shutil.copytree(memo_src, os.path.join(SHUTTLE_DIR, 'intl-memoizer', 'src'))
        shutil.copytree(bundle_src, os.path.join(SHUTTLE_DIR, 'fluent-bundle', 'src'))
        cpath = os.path.join(SHUTTLE_DIR, 'intl-memoizer', 'src', 'concurrent.rs')
        text = open(cpath).read() if os.path.exists(cpath) else ''
        patched = text.replace('std::sync::Mutex', 'shuttle::sync::Mutex')

        def _grouped(m):
            rest = [x.strip() for x in m.group(1).split(',') if x.strip() and x.strip() != 'Mutex']
            return 'use shuttle::sync::Mutex;' + ('\nuse std::sync::{%s};' % ', '.join(rest) if rest else '')
        patched = re.sub(r'use std::sync::\{([^}]*\bMutex\b[^}]*)\};', _grouped, patched)
        if patched == text:
            return _fail('intl-memoizer/src/concurrent.rs does not import std::sync::Mutex any more, so shuttle\'s Mutex cannot be substituted: '
                         'the lock of the concurrent memoizer changed; the schedule exploration (and the atomicity reading of the model) must be redone')
        open(cpath, 'w').write(patched)
        open(os.path.join(SHUTTLE_DIR, 'Cargo.toml'), 'w').write(TOP_TOML.replace('@REPO@', REPO))
        open(os.path.join(SHUTTLE_DIR, 'intl-memoizer', 'Cargo.toml'), 'w').write(MEMO_TOML)
        open(os.path.join(SHUTTLE_DIR, 'fluent-bundle', 'Cargo.toml'), 'w').write(BUNDLE_TOML.replace('@REPO@', REPO))
        lock = os.path.join(REPO, 'Cargo.lock')
        if not os.path.exists(os.path.join(SHUTTLE_DIR, 'Cargo.lock')) and os.path.exists(lock):
            shutil.copyfile(lock, os.path.join(SHUTTLE_DIR, 'Cargo.lock'))
        env = dict(os.environ)
        env.update({'CARGO_NET_OFFLINE': 'true', 'CARGO_TARGET_DIR': os.path.join(SHUTTLE_DIR, 'target'),
                    'RUSTFLAGS': '--cfg c15_shuttle -Awarnings'})
        cmd = ['cargo', 'build', '--offline', '-q', '--bin', 'c15_shuttle']
        try:
            p = subprocess.run(cmd, cwd=SHUTTLE_DIR, env=env, stdout=subprocess.PIPE, stderr=subprocess.STDOUT, text=True, timeout=1200)
            if p.returncode != 0 and 'lock' in p.stdout.lower():
                os.remove(os.path.join(SHUTTLE_DIR, 'Cargo.lock'))
                p = subprocess.run(cmd, cwd=SHUTTLE_DIR, env=env, stdout=subprocess.PIPE, stderr=subprocess.STDOUT, text=True, timeout=1200)
        except subprocess.TimeoutExpired:
            return _fail('cargo build of the schedule explorer timed out')
        if p.returncode != 0 or not os.path.exists(SHUTTLE_BIN):
            return _fail('schedule explorer does not build against the current fluent-bundle / intl-memoizer:\n' + p.stdout[-2500:])
        open(stamp, 'w').write(digest)
        return True, 'built'


if '--replay' in sys.argv:
    _ok, _log = ensure_shuttle()
    _shuttle_log[0] = _log


# ---------------------------------------------------------------------------------------------- cases

PLURAL_FTL = '''card = { $n ->
    [zero] c-zero
    [one] c-one { $n }
    [two] c-two
    [few] c-few
    [many] c-many
   *[other] c-other { $n }
 }
ord = { NUMBER($n, type: "ordinal") ->
    [one] { $n }st
    [two] { $n }nd
    [few] { $n }rd
    [many] o-many
   *[other] { $n }th
 }
both = { card } / { ord } / { $c }
cust = { $c } and { CUSTOM("memoX") } and { CUSTOM("p") }
exact = { $n ->
    [1] exactly-one
    [one] one
   *[other] other
 }
nested = { $n ->
    [one] { $m ->
        [one] 11
       *[other] 1x
     }
   *[other] { ord }
 }
str = { $s ->
    [a] A
    [one] One-as-string
   *[b] B
 }
-t = term { $n ->
    [one] T1
   *[other] Tx
 } { $arg }
useterm = { -t(n: 1, arg: "x") } { -t(n: 5) } { $n }
miss = { nope } { -nope } { NOPE() } { $nope } { card.x } { card }
fn = { CONCAT($n, $c, "k", k: 1) } { NUM($n, $m) } { IDENTITY($c) } { NUMBER($n, minimumFractionDigits: 2) }
selfn = { NUMBER($m, type: "ordinal", minimumFractionDigits: 0) ->
    [few] m-few
   *[other] { card }
 }
noval =
    .attr = { ord }
'''
PLURAL_ENTRIES = [G.msg('card'), G.msg('ord'), G.msg('both'), G.msg('cust'), G.msg('exact'), G.msg('nested'), G.msg('str'), G.msg('useterm'),
                  G.msg('miss'), G.msg('fn'), G.msg('selfn'), G.msg('noval', 'attr'), G.msg('noval'), G.msg('absent'), G.term('t'), G.msg('card', 'x')]
LOCALES = [b'en', b'en-US', b'pl', b'ru', b'fr', b'ar', b'lt', b'cs', b'ja', b'xx', b'pt-PT', b'pt', b'nn', b'eo', b'pt-PT']   # region-specific rules (pt-PT), cardinal-only languages (nn, eo)
NUMS = [0, 1, 2, 3, 4, 5, 11, 12, 13, 21, 22, 23, 100, 101, 111]


def num_value(rng):
    k = rng.randrange(6)
    if k == 0:
        return G.mnum(float(rng.choice(NUMS)), G.opts(ty=b'ordinal'))
    if k == 1:
        return G.mnum(rng.choice([1.0, 1.5, 2.0, 0.5]), G.opts(mfd=rng.choice([0, 1, 2])))
    if k == 2:
        return G.v_int(rng.choice([b'i32', b'u8', b'i64', b'usize']), rng.choice(NUMS))
    if k == 3:
        return G.v_numstr(rng.choice([b'1', b'1.0', b'2', b'3.50', b'12', b'22.0']))
    return G.mnum(float(rng.choice(NUMS)))


def plural_args(rng):
    a = [('n', num_value(rng))]
    if rng.random() < 0.8:
        a.append(('m', num_value(rng)))
    if rng.random() < 0.8:
        a.append(('c', [b'custom', rng.choice([b'cust', b'memo', b'memoAB', b'x', b''])]))
    if rng.random() < 0.5:
        a.append(('s', G.v_str(rng.choice([b'a', b'b', b'one', b'zzz']))))
    if rng.random() < 0.1:
        a.append(('arg', rng.choice([b'none', G.v_str(b'A')])))
    rng.shuffle(a)
    return a


def conc_case(cfg, ftls, trees, threads, rng=None, dfs=None, reps=6, nsched=4):
    """threads: list of lists of (entry, args-pairs-or-None)"""
    x = [b'conc', cfg, [[b'r', t, trees[t]] for t in ftls],
         [b'threads'] + [[b'th'] + [[b'rq', e, G.mkargs(a)] for (e, a) in th] for th in threads]]
    scheds = [b'scheds']
    n = len(threads)
    if rng is not None:
        for _ in range(nsched):
            ln = rng.choice([5, 20, 60, 150])
            bias = rng.random()
            scheds.append([b's'] + [rng.randrange(n) if rng.random() > bias * 0.7 else 0 for _ in range(ln)])
    x.append(scheds)
    if dfs:
        x.append([b'dfs', dfs])
    x.append([b'reps', reps, rng.randrange(1 << 30) if rng is not None else 0])
    return sexp.dumps(x)


def shuttle_case(mode, iters, seed, cfg, ftls, trees, threads):
    return sexp.dumps([b'shuttle', mode, iters, seed, cfg, [[b'r', t, trees[t]] for t in ftls],
                       [b'threads'] + [[b'th'] + [[b'rq', e, G.mkargs(a)] for (e, a) in th] for th in threads]])


def mkcfg(iso=True, transform=b'none', formatter=b'none', funcs=None, locales=(b'en',)):
    return [b'cfg', b'true' if iso else b'false', transform, formatter, list(G.ALL_FUNCS if funcs is None else funcs), list(locales), b'concurrent']


def gen_plural(rng, n, reps):
    ftl = PLURAL_FTL.encode()
    trees = G.trees_for([ftl])
    cases = []
    for i in range(n):
        nthreads = rng.choice([2, 4, 8])
        cfg = mkcfg(iso=rng.random() < 0.5, transform=rng.choice([b'none', b'none', b'upper']), formatter=rng.choice([b'none', b'none', b'num']),
                    locales=[rng.choice(LOCALES)] + ([b'en'] if rng.random() < 0.2 else []))
        same = rng.random() < 0.4         # every thread starts with the same cold lookup
        first = (rng.choice(PLURAL_ENTRIES[:2]), plural_args(rng))
        threads = []
        for t in range(nthreads):
            th = [first] if same else []
            for _ in range(rng.randint(0 if same else 1, 2)):
                th.append((rng.choice(PLURAL_ENTRIES[:12] * 3 + PLURAL_ENTRIES[12:]), plural_args(rng) if rng.random() < 0.95 else None))
            threads.append(th)
        cases.append(conc_case(cfg, [ftl], trees, threads, rng, reps=reps))
    return cases


def gen_random_bundles(rng, n, reps):
    cases = []
    specs = []
    texts = []
    for _ in range(n):
        rb = G.RandBundle(rng)
        ftl = rb.ftl().encode()
        entries = [G.msg(m) for m in rb.msgs] + [G.msg(rb.msgs[0], 'a')] + [G.term(t) for t in rb.terms[:1]]
        nthreads = rng.choice([2, 4, 8])
        threads = []
        for t in range(nthreads):
            th = []
            for _ in range(rng.randint(1, 3)):
                a = None
                if rng.random() < 0.85:
                    a = [(k, rng.choice([G.rand_value(rng), [b'custom', rng.choice([b'memo1', b'cu'])]])) for k in rng.sample(['x', 'y', 'n'], rng.randint(0, 3))]
                th.append((rng.choice(entries), a))
            threads.append(th)
        cfg = mkcfg(iso=rng.random() < 0.6, transform=rng.choice([b'none', b'none', b'upper', b'brackets']),
                    formatter=rng.choice([b'none', b'none', b'num']),
                    funcs=rng.choice([None, None, None, [b'NUMBER'], [], [b'CONCAT', b'IDENTITY', b'NUM']]),
                    locales=[rng.choice(LOCALES)])
        specs.append((cfg, ftl, threads))
        texts.append(ftl)
    trees = G.trees_for(texts)
    for cfg, ftl, threads in specs:
        cases.append(conc_case(cfg, [ftl], trees, threads, rng, reps=reps, nsched=2))
    return cases


TINY_FTL = '''a = { $n ->
    [one] A1
   *[other] Ax
 }
o = { NUMBER($n, type: "ordinal") ->
    [two] O2
   *[other] Ox
 }
c = { $c }
'''


def tiny_threads():
    one = [('n', G.mnum(1.0))]
    two = [('n', G.mnum(2.0))]
    cu = [('c', [b'custom', b'q'])]
    me = [('c', [b'custom', b'memo'])]
    A, O, C = G.msg('a'), G.msg('o'), G.msg('c')
    return [
        [[(A, one)], [(A, one)]],                     # simultaneous first lookup of the same rules object
        [[(A, one)], [(O, two)]],                     # cardinal and ordinal race
        [[(A, two)], [(A, one)], [(O, two)]],
        [[(A, one), (O, two)], [(O, two)]],
        [[(C, cu)], [(A, two)]],
        [[(A, one)], [(A, two)], [(A, one)]],
        [[(C, me)], [(C, me)]],                       # simultaneous first request for the custom type's own formatter
        [[(A, one), (A, one)], [(O, two)]],           # a warm lookup racing with a cold one of another key
        [[(C, me), (A, one)], [(A, two), (C, me)]],
    ]


def gen_tiny(rng):
    ftl = TINY_FTL.encode()
    trees = G.trees_for([ftl])
    cases = []
    for loc in (b'en', b'pl'):
        for th in tiny_threads():
            cases.append(conc_case(mkcfg(locales=[loc]), [ftl], trees, th, rng, dfs=30, reps=10))
    return cases


def gen_shuttle(rng, tier):
    tiny = TINY_FTL.encode()
    big = PLURAL_FTL.encode()
    trees = G.trees_for([tiny, big])
    cases = []
    # exhaustive DFS: two threads, one short request each (cold cache)
    tt = tiny_threads()
    for th in tt[:2] + tt[6:7]:
        cases.append(shuttle_case(b'dfs', 0, 0, mkcfg(locales=[b'en']), [tiny], trees, th))
    # bounded DFS, PCT and random on larger programs
    iters = 300 if tier == 'quick' else 6000
    for j, th in enumerate(tt[2:6] + tt[7:]):
        cases.append(shuttle_case(b'dfs', 1500 if tier == 'quick' else 60000, 0, mkcfg(locales=[b'pl']), [tiny], trees, th))
        cases.append(shuttle_case(b'pct', iters, 1000 + j, mkcfg(locales=[b'en']), [tiny], trees, th))
    for i in range(4 if tier == 'quick' else 30):
        nthreads = rng.choice([2, 3, 4])
        threads = [[(rng.choice(PLURAL_ENTRIES[:12]), plural_args(rng)) for _ in range(rng.randint(1, 2))] for _ in range(nthreads)]
        cfg = mkcfg(iso=rng.random() < 0.5, locales=[rng.choice(LOCALES)])
        cases.append(shuttle_case(b'pct' if i % 2 == 0 else b'random', iters, rng.randrange(1 << 30), cfg, [big], trees, threads))
    return cases


def generate(rng, tier):
    ok, log = ensure_shuttle()
    _shuttle_log[0] = log
    quick = tier == 'quick'
    # schedule exploration first: its failures carry the shuttle schedule, the most precise replay
    yield ('shuttle', gen_shuttle(rng, tier))
    yield ('exhaustive-schedules-tiny', gen_tiny(rng))
    yield ('plural-cold-race', gen_plural(rng, 500 if quick else 12000, 6 if quick else 20))
    yield ('random-bundles', gen_random_bundles(rng, 400 if quick else 10000, 5 if quick else 15))


def harness_for(name):
    return 'concurrent_run'


# ---------------------------------------------------------------------------------------------- oracle

def _has_panic(threads):
    return any(r == [b'panic'] or r == [b'thread-panicked'] for t in threads[1:] for r in t[1:])


def oracle(case, out):
    try:
        o = sexp.loads(out)
    except ValueError:
        return 'unparseable implementation output: ' + out[:200]
    t = sexp.tag(o)
    if t == 'TIMEOUT':
        return 'the threads did not finish within the time limit: deadlock or livelock'
    if t in ('SKIPPED-AFTER-TIMEOUT', 'NOT-RUN'):
        return None
    if t in ('PANIC', 'CRASH', 'HARNESS-PARSE-ERROR'):
        return 'implementation panicked / crashed: ' + out[:300]
    if t == 'shuttle-bin-missing':
        print('  C15: schedule explorer unavailable: ' + (o[2].decode('utf-8', 'replace') if len(o) > 2 and o[2] else _shuttle_log[0])[-1200:],
              file=sys.stderr)
        return None
    if t == 'shuttle-crashed':
        return 'schedule explorer crashed: ' + out[:400]
    if t == 'shuttle':
        if o[2] == b'fail':
            sched = o[4].decode() if len(o) > 4 else '?'
            return ('a thread schedule violates C15 on the real fluent-bundle (shuttle-mutex build): %s | shuttle schedule %s | replay: '
                    './check C15 --replay <this file>, or %s replay 0 0 <file holding this case line> %s'
                    % (o[3].decode('utf-8', 'replace')[:700], sched, SHUTTLE_BIN, sched))
        if o[2] != b'ok':
            return 'schedule explorer: ' + out[:300]
        if _has_panic(o[3]):
            return 'a request panics single-threaded: ' + sexp.dumps(o[3])[:300]
        if b'<<nts:'.hex() in out:
            return 'a concurrent bundle printed a custom value through FluentType::as_string (the non-threadsafe method)'
        return None
    if t != 'ok' or len(o) < 3:
        return 'unexpected result shape: ' + out[:200]
    ref = o[1]
    x = {sexp.tag(p): p[1:] for p in o[2][1:]}
    if _has_panic(ref):
        return 'a request panics on a fresh concurrent bundle, single-threaded: ' + sexp.dumps(ref)[:300]
    if b'<<nts:'.hex() in out or '<<nts:' in out:
        return ('a concurrent bundle printed a custom value through FluentType::as_string (the non-threadsafe method) instead of '
                'as_string_threadsafe: ' + _show_nts(o))
    if x.get('constructs', [0])[0] > 1:
        return ('%d threads sharing one new_concurrent bundle (cold cache): a formatter requested through the bundle\'s memoizer from '
                'as_string_threadsafe was constructed %d times for one key in one of the %s threaded runs (exactly one construction, all use it)'
                % (len(ref) - 1, x['constructs'][0], x['runs'][0]))
    seq = x['seq'][0]
    if seq != ref:
        return ('requests issued one after the other on ONE concurrent bundle differ from the same requests on fresh bundles: %s vs %s'
                % (_first_diff(seq, ref)))
    for d in x['distinct']:
        if d != ref:
            a, b = _first_diff(d, ref)
            return ('%d threads sharing one new_concurrent bundle (cold cache; %s threaded runs with seed of the case): a request returned %s, '
                    'single-threaded it returns %s' % (len(ref) - 1, x['runs'][0], a, b))
    return None


def _show_nts(o):
    for t in o[1][1:]:
        for r in t[1:]:
            if isinstance(r, list) and len(r) > 1 and isinstance(r[1], bytes) and b'<<nts:' in r[1]:
                return repr(r[1].decode('utf-8', 'replace')[:120])
    return '?'


def _first_diff(a, b):
    for ti, (ta, tb) in enumerate(zip(a[1:], b[1:])):
        for ri, (ra, rb) in enumerate(zip(ta[1:], tb[1:])):
            if ra != rb:
                return ('[thread %d request %d] %s' % (ti, ri, _show(ra)), _show(rb))
    return (sexp.dumps(a)[:200], sexp.dumps(b)[:200])


def _show(r):
    if isinstance(r, list) and r and r[0] == b'r':
        return '%r %s' % (r[1].decode('utf-8', 'replace')[:120], [sexp.tag(e) for e in r[2]][:4])
    return sexp.dumps(r)[:120]


def project(out):
    """model and implementation are compared on the reference results (the model predicts ONE schedule-independent result)."""
    if out.startswith('(ok (threads'):
        try:
            o = sexp.loads(out)
        except ValueError:
            return out
        return sexp.dumps(o[:2])
    if out.startswith('(shuttle'):
        try:
            o = sexp.loads(out)
        except ValueError:
            return out
        if len(o) >= 4 and o[2] == b'ok':
            return sexp.dumps(o[:4])
    return out


def nontrivial(case, out):
    if 'custom' in case or '(sel ' in case:
        p = project(out)
        if '(r ' in p:
            return hashlib.sha1(p.encode()).digest()[:8]
    return None

"""C19 — ResourceManager: files loaded once, bundles per locale, I/O faults reported.
Model: coq/theories/Resmgr/Resmgr.v; theorems: Props/C19.v."""
import importlib.util
import itertools
import os
import sexp

ID = 'C19'
PROPS_FILE = 'theories/Props/C19.v'
PROPS_MODULE = 'Props.C19'
COQ_TARGETS = ['theories/Extract/ExtractC19.vo']
REQUIRED_THEOREMS = ['C19_paths', 'C19_bundle', 'C19_bundle_ok_all_read', 'C19_empty_locale_list_panics', 'C19_tolerant',
                     'C19_once', 'C19_lazy_multi']
MODEL = 'c19'
HARNESS_BINS = ['resmgr_run']
ANCHORS = ['fluent-resmgr/src/resource_manager.rs', 'fluent-bundle/src/bundle.rs']
TRUSTED = [
    "modelled, not verified: the file system is the section variable fs : time -> path -> Ok bytes | NotFound | IsDir | InvalidUtf8 | Denied "
    "(what fs::read_to_string returns); elsa::FrozenMap as an append-only association list; str::replace as leftmost non-overlapping "
    "replacement; the parser as an arbitrary total function (the case carries the expected parse_runtime body of every file content)",
    "the io_log field of the model's manager is a ghost trace of read_file calls (not in the Rust struct); 'read once' is observed on the "
    "real code by content only: the file is rewritten or removed and requested again",
    "placeholder constants {locale} / {res_id} are regenerated from resource_manager.rs into Gen/Extracted.v on every run",
]
ASSUMPTIONS = [
    'C19_paths: every "{" of the scheme opens one of the two placeholders, and the locale contains no "{" (true of every LanguageIdentifier); '
    'without the first hypothesis the two sequential replace calls can differ from simultaneous substitution (Example C19_paths_counterexample)',
    'locale strings in cases are in canonical form (what LanguageIdentifier::to_string yields)',
    'paths are compared as strings (the cache key); distinct spellings of one file ("./a", "a//b") are distinct paths in model and code alike',
]
PARTIAL = ('real OS I/O semantics are modelled by read_result: the model cannot exhibit OS behaviour (permissions, symlinks, path normalisation, '
           'races with concurrent writers, ENOTDIR/ENAMETOOLONG, non-UTF-8 path bytes); Denied is in the model but cannot be produced by the '
           'harness when it runs as root; object identity of cached resources across bundles is not observed, only their content; '
           'the BundleGenerator impl (BundleIter with the hard-coded ./tests/resources path and unwraps) is test scaffolding outside the '
           "property's anchors and is not modelled")
RULE = ('request histories (get_bundle, get_bundles + next) over a real temporary directory whose files are written, rewritten, removed or '
        'replaced by a directory BETWEEN requests: schemes with the placeholders in any position/count, present / missing / directory / '
        'invalid UTF-8 / syntax-error files, repeated resource ids, lazily consumed multi-locale iterators; exhaustive over one file x 3 '
        'successive states x both request kinds, plus random histories; a case is non-trivial when a request returned ok or err; distinct = '
        'distinct implementation outputs')

_spec = importlib.util.spec_from_file_location('prop_C10_helpers', os.path.join(os.path.dirname(os.path.abspath(__file__)), 'C10.py'))
c10 = importlib.util.module_from_spec(_spec)
_spec.loader.exec_module(c10)

NONE = b'none'
P1, P2 = b'{locale}', b'{res_id}'   # the oracle's own reading of the doc comment of ResourceManager::new


def some(x):
    return [b'some', x]


def subst(scheme, locale, rid):
    """simultaneous substitution, left to right"""
    out = b''
    i = 0
    while i < len(scheme):
        if scheme.startswith(P1, i):
            out += locale
            i += len(P1)
        elif scheme.startswith(P2, i):
            out += rid
            i += len(P2)
        else:
            out += scheme[i:i + 1]
            i += 1
    return out


SCHEMES = [b'{locale}/{res_id}', b'{locale}/{res_id}', b'{res_id}.{locale}', b'x/{locale}/{locale}-{res_id}', b'{locale}{res_id}',
           b'{res_id}', b'{locale}.ftl', b'static.ftl', b'{locale}/{res_id}-{res_id}', b'{x}/{locale}/{res_id}', b'{{locale}}/{res_id}',
           b'{locale/{res_id}', b'res_id}/{locale}/{res_id}']
LOCALES = [b'en', b'en-US', b'pl', b'fr', b'de-AT', b'es', b'id']
RIDS = [b'a.ftl', b'b.ftl', b'sub/c.ftl', b'd', b'main']
MSG_IDS = ['a', 'b', 'c', 'ab']


def content(rng, label, kind=None):
    """-> (bytes, parsed body or None when not valid UTF-8)"""
    kind = kind or rng.choice(['ok', 'ok', 'ok', 'syntax', 'empty', 'utf8'])
    if kind == 'bad':
        return rng.choice([b'a = \xff\n', b'a = V\n\xc3', b'\xfe\xff', b'a = \xed\xa0\x80\n']), None
    if kind == 'empty':
        return b'', [b'res']
    ents = [c10.rand_entry(rng, MSG_IDS, '%se%d' % (label, j)) for j in range(rng.choice([1, 1, 2, 3, 4]))]
    if kind == 'syntax':
        ents.insert(rng.randrange(len(ents) + 1), ('junk', rng.choice(['!!junk\n', 'a =\n', '= v\n', 'b = { \n'])))
    if kind == 'utf8':
        ents.append(('msg', 'c', [('t', label + 'é中')], []))
    text, body = c10.render(ents)
    return text.encode('utf-8'), body


def bundle_step(ls, ids, probes=None):
    return [b'bundle', list(ls), list(ids), [m.encode() for m in MSG_IDS] if probes is None else probes]


def mk_case(scheme, table, steps):
    return sexp.dumps([b'c19', scheme, [[c, b] for c, b in table.items()], steps])


def generate(rng, tier):
    # exhaustive: one file, three successive states, a request after each change (both request kinds)
    states = ['v1', 'v2', 'syntax', 'missing', 'dir', 'bad']
    cases = []
    for seq in itertools.product(states, repeat=3):
        for kind in ('bundle', 'iter'):
            table = {}
            steps = []
            path = b'en/a.ftl'
            if kind == 'iter':
                steps.append([b'iter-new', [b'en', b'en', b'en', b'en'], [b'a.ftl']])
            for j, st in enumerate(seq):
                if st == 'missing':
                    steps.append([b'remove', path])
                elif st == 'dir':
                    steps.append([b'mkdir', path])
                elif st == 'bad':
                    steps.append([b'write', path, b'a = \xff%d\n' % j])
                else:
                    ents = [('msg', 'a', [('t', '%s-%d' % (st, j))], [])]
                    if st == 'syntax':
                        ents = [('junk', '!!junk %d\n' % j)] + ents + [('junk', 'b =\n')]
                    text, body = c10.render(ents)
                    table[text.encode()] = body
                    steps.append([b'write', path, text.encode()])
                steps.append(bundle_step([b'en'], [b'a.ftl']) if kind == 'bundle' else [b'iter-next', 0, [b'a', b'b']])
            if kind == 'iter':
                steps += [[b'iter-next', 0, [b'a']], [b'iter-next', 0, [b'a']]]
            cases.append(mk_case(b'{locale}/{res_id}', table, steps))
    yield ('exhaustive-1file-3states', cases)
    # random histories
    n = 1500 if tier == 'quick' else 25000
    cases = []
    for ci in range(n):
        scheme = rng.choice(SCHEMES)
        locales = rng.sample(LOCALES, rng.randint(1, 3))
        rids = rng.sample(RIDS, rng.randint(1, 3))
        if rng.random() < 0.05:
            rids.append(b'{locale}.ftl')
        paths = sorted({subst(scheme, l, r) for l in locales for r in rids})
        # a path that is a proper directory prefix of another cannot be a file at the same time: drop the longer ones
        paths = [p for p in paths if not any(p != q and p.startswith(q + b'/') for q in paths)]
        table = {}
        steps = []
        ver = [0]

        def change(p, kinds):
            ver[0] += 1
            k = rng.choice(kinds)
            if k == 'missing':
                return [b'remove', p]
            if k == 'dir':
                return [b'mkdir', p]
            c, body = content(rng, 'v%d' % ver[0], 'bad' if k == 'bad' else None)
            if body is not None:
                table[c] = body
            return [b'write', p, c]

        for p in paths:
            if rng.random() < 0.8:
                steps.append(change(p, ['ok', 'ok', 'ok', 'ok', 'dir', 'bad']))
        niter = 0
        for _ in range(rng.randint(2, 7)):
            r = rng.random()
            if r < 0.45:
                ls = [rng.choice(locales) for _ in range(rng.randint(1, 3))]
                if rng.random() < 0.02:
                    ls = []
                ids = [rng.choice(rids) for _ in range(rng.randint(0, 3))]
                steps.append(bundle_step(ls, ids))
            elif r < 0.6:
                steps.append([b'iter-new', [rng.choice(locales) for _ in range(rng.randint(0, 3))],
                              [rng.choice(rids) for _ in range(rng.randint(1, 3))]])
                niter += 1
            elif r < 0.8 and niter:
                steps.append([b'iter-next', rng.randrange(niter), [m.encode() for m in MSG_IDS]])
            else:
                for _ in range(rng.randint(1, 2)):
                    steps.append(change(rng.choice(paths), ['ok', 'ok', 'missing', 'dir', 'bad']))
        for k in range(niter):
            steps.append([b'iter-next', k, [m.encode() for m in MSG_IDS]])
        steps.append(bundle_step([rng.choice(locales)], rids))
        cases.append(mk_case(scheme, table, steps))
    yield ('random-histories', cases)


# ---- the property on the implementation alone -------------------------------------------------------
def expected_request(scheme, fsd, cache, table, locale, ids, probes):
    d = {}
    errors = []
    for rid in ids:
        path = subst(scheme, locale, rid)
        if path in cache:
            defs = cache[path]                      # first-loaded content, whatever the file is now
        else:
            node = fsd.get(path)
            if node is None:
                errors.append([b'io', b'notfound'])
                continue
            if node == 'dir':
                errors.append([b'io', b'isdir'])
                continue
            try:
                node.decode('utf-8')
            except UnicodeDecodeError:
                errors.append([b'io', b'invalidutf8'])
                continue
            defs = c10.defs_of(table.get(node, [b'res']))
            cache[path] = defs                      # successful reads are cached, failed ones are not
        for (k, df) in defs:
            if k in d:
                errors.append([b'fluent', [b'overriding', df[0].encode(), k]])
            else:
                d[k] = df
    if errors:
        return [b'err'] + errors
    out = [b'ok']
    for pid in probes:
        df = d.get(pid)
        msg = term = NONE
        if df is not None and df[0] == 'message':
            msg = some([df[1], df[2]])
        elif df is not None:
            term = some(df[1])
        out.append([b'look', pid, b'true' if msg != NONE else b'false', msg, term])
    return out


def oracle(case, out):
    c = sexp.loads(case)
    try:
        o = sexp.loads(out)
    except ValueError:
        return 'unparseable implementation output: ' + out[:200]
    if sexp.tag(o) in ('PANIC', 'CRASH', 'HARNESS-PARSE-ERROR'):
        return 'implementation failed outside a request: ' + out[:200]
    scheme = c[1]
    table = {e[0]: e[1] for e in c[2]}
    fsd = {}
    cache = {}
    iters = []
    for i, st in enumerate(c[3]):
        t = sexp.tag(st)
        if i >= len(o):
            return 'step %d (%s): no result' % (i, sexp.dumps(st)[:80])
        got = o[i]
        if t == 'write':
            fsd[st[1]] = st[2]
            want = [b'fs']
        elif t == 'mkdir':
            fsd[st[1]] = 'dir'
            want = [b'fs']
        elif t == 'remove':
            fsd.pop(st[1], None)
            want = [b'fs']
        elif t == 'bundle':
            if not st[1]:
                # an empty locale list is outside the property's quantifier (the real code panics on it: reported
                # by theorem C19_empty_locale_list_panics); whatever happens, the run stops comparing here
                return None
            want = expected_request(scheme, fsd, cache, table, st[1][0], st[2], st[3])
        elif t == 'iter-new':
            iters.append([st[1], st[2], 0])                      # lazily: nothing is read now
            want = [b'iter']
        else:
            it = iters[st[1]]
            if it[2] < len(it[0]):
                want = some(expected_request(scheme, fsd, cache, table, it[0][it[2]], it[1], st[2]))
                it[2] += 1
            else:
                want = NONE
        if got != want:
            if sexp.tag(got) == 'PANIC':
                return 'step %d %s: the manager panicked' % (i, sexp.dumps(st)[:120])
            return 'step %d %s: expected %s, the manager gave %s' % (i, sexp.dumps(st)[:120], sexp.dumps(want)[:300], sexp.dumps(got)[:300])
    return None


def classify(case, why):
    """the one known class of oracle failures: a scheme in which a literal "{" and the inserted locale combine into a
    second-round placeholder (sequential str::replace differs from simultaneous substitution; corpus/C19/seq_replace.finding).
    Only takes effect if the lead lists the id in known_findings.json; the generators never produce such schemes."""
    c = sexp.loads(case)
    scheme = c[1]
    for st in c[3]:
        if sexp.tag(st) in ('bundle', 'iter-new'):
            for l in st[1]:
                for r in st[2]:
                    if scheme.replace(P1, l).replace(P2, r) != subst(scheme, l, r):
                        return 'C19-sequential-replace'
    return None


def nontrivial(case, out):
    if '(ok' in out or '(err' in out:
        return out
    return None


MANIFEST = {
    'text': 'Rocq theorems for ANY file-system history fs : time -> path -> Ok bytes|NotFound|IsDir|InvalidUtf8|Denied, any total parser, any '
            'scheme/locales/resource ids: the path is the simultaneous substitution of {locale} and {res_id} (any position/count; hypothesis: '
            'every "{" of the scheme opens a placeholder — a counterexample without it is proved too); get_bundle on a non-empty locale list '
            'never panics and returns Ok(bundle = C10 keyed map of exactly the listed resources, first definition wins) or Err(all read '
            'failures and Overriding errors in resource order); Junk/comments never change the outcome; over any request history each path is '
            'read successfully at most once, the cached resource is the parse of that read and stays whatever the file system does later, '
            'failed reads are not cached; get_bundles is lazy: the k-th next() equals get_bundle [locale k] at the time of that call, in order, '
            'then None. The model is tied to resource_manager.rs by running the extracted model and the real ResourceManager over a real temp '
            'directory whose files are rewritten/removed/replaced by directories between requests.',
    'note': 'PARTIAL: real OS I/O semantics are modelled by read_result (section variable fs); Denied not producible by the harness as root; '
            'object identity of cached resources not observed (content only); BundleGenerator/BundleIter scaffolding not modelled. An empty '
            'locale list panics in get_bundle (`&locales[0]`) — outside the property\'s quantifier, stated as C19_empty_locale_list_panics.',
    'technique': 'Rocq proof (invariant over request histories with a ghost I/O trace, refinement to the C10 spec map) + differential '
                 'correspondence check over a real temp directory',
    'design_ref': 'DESIGN.md §4 C19',
}

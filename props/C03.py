"""C03 — Syntax errors are contained: Junk accounting and per-entry recovery."""
import sexp
import synprops
import ftlgen

ID = 'C03'
PROPS_FILE = 'theories/Props/C03.v'
PROPS_MODULE = 'Props.C03'
COQ_TARGETS = ['theories/Extract/ExtractSyntax.vo']
EXTRA_PROPS = [('theories/Props/C03iso.v', 'Props.C03iso')]
REQUIRED_THEOREMS = ['C03_ok_iff_no_junk', 'C03_accounting', 'C03_order', 'C03_admitted_not_junk', 'C03_runtime_ok_iff_no_junk', 'C03_runtime_accounting', 'C03_runtime_order', 'C03_runtime_admitted_not_junk',
                     'C03_suffix_independence', 'C03_entries_after_unchanged', 'C03_entries_before_unchanged', 'C03_containment',
                     'C03_containment_wellformed', 'C03_entry_error_is_junk']
MODEL = 'syn'
HARNESS_BINS = ['syn_run']
ANCHORS = ['fluent-syntax/src/parser/core.rs', 'fluent-syntax/src/parser/runtime.rs', 'fluent-syntax/src/parser/helper.rs',
           'fluent-syntax/src/parser/errors.rs', 'fluent-syntax/src/parser/expression.rs', 'fluent-bundle/src/resource.rs']
TRUSTED = ['modelled, not verified: as C01; FluentResource::try_new is observed through the harness only (entry/error counts)']
ASSUMPTIONS = ['input is valid UTF-8']
RULE = ('parse_all cases as C01 (accounting on arbitrary strings) plus damage cases: a rendered well-formed resource pre+E+post, E '
        'rebuilt with one documented syntax violation at a chosen placement; non-trivial = output has Junk and a message/term')

# (valid snippet, [damaged variants])  — each is a placeable or attribute/entry fragment
SNIPPETS = [
    ('{ $n ->\n        [one] x\n       *[other] y\n    }', ['{ $n ->\n        [one] x\n        [other] y\n    }',
                                                             '{ $n ->\n       *[one] x\n       *[other] y\n    }',
                                                             '{ $n ->\n        [one]\n       *[other] y\n    }',
                                                             '{ $n ->\n    }', '{ $n -> *[other] y }']),
    ('{ msg }', ['{ msg ->\n       *[a] b\n    }', '{ msg.attr ->\n       *[a] b\n    }']),
    ('{ -term }', ['{ -term ->\n       *[a] b\n    }', '{ -term.attr }']),
    ('{ F(1, a: 1) }', ['{ F(a: 1, 2) }', '{ F(a: 1, a: 2) }', '{ f(1) }', '{ Fun(1) }', '{ F(a: b) }', '{ F(1 }', '{ F(',
                        # positional after named, for every kind of positional expression
                        '{ F(a: 1, msg) }', '{ F(a: 1, msg.attr) }', '{ F(a: 1, -t) }', '{ F(a: 1, $v) }', '{ F(a: 1, G()) }',
                        '{ F(a: 1, { 1 }) }', '{ F(a: 1, "s") }', '{ -t(a: 1, b) }', '{ F(x, a: 1, b: 2, y) }', '{ F(a: 1, a: 1) }',
                        '{ F(a: $v) }', '{ F(a: msg) }', '{ F(a: -t) }', '{ F(a: { 1 }) }', '{ -t(a: msg) }', '{ F(a: G()) }', '{ F(a: msg.attr) }', '{ -t(a: -u) }',
                        # duplicate named argument: not adjacent, names in no particular order, any count
                        '{ F(y: 1, x: 2, y: 3) }', '{ -t(b: 1, a: 2, b: 3) }', '{ F(c: 1, b: 2, a: 3, c: 4) }', '{ F(x: 1, y: 2, x: 3) }',
                        '{ F(size: 1, case: 2, size: 3) }', '{ F(a: 1, b: 2, c: 3, d: 4, e: 5, b: 6) }', '{ F(1, z: 1, m: 2, z: 3) }', '{ F(: 1) }', '{ F(a 1) }', '{ F(1 2) }']),
    ('{ $n ->\n        [one] x\n       *[other] y\n    }', ['{ $n ->\n        [one] x\n       *other] y\n    }', '{ $n ->\n        [one] x\n       *\n    }',
                                                             '{ $n ->\n       *[one x\n    }', '{ $n ->\n       *[] x\n    }', '{ $n ->\n       *[one two] x\n    }',
                                                             '{ $n -> \n       *[-] x\n    }', '{ $n - >\n       *[a] x\n    }', '{ $n ->  *[a] x\n    }']),
    ('{ "ok" }', ['{ "\\x" }', '{ "\\u00" }', '{ "\\U0000" }', '{ "abc\n    }', '{ "abc', '{ "\\u00\xe9" }']),
    ('{ $x }', ['{ $x', '{ $ }', '}', '{ }', '{ $x }}', '{', '{ $x ->', '{ 1 2 }', '{ -', '{ $x.y }']),
]


# damaged snippets that break a DOCUMENTED rule of the property (must never be admitted); the other damaged snippets are
# generic syntax errors, for which only containment/accounting is checked
MUST_REJECT = {
    '{ $n ->\n        [one] x\n        [other] y\n    }', '{ $n ->\n       *[one] x\n       *[other] y\n    }', '{ $n ->\n        [one]\n       *[other] y\n    }',
    '{ msg ->\n       *[a] b\n    }', '{ msg.attr ->\n       *[a] b\n    }', '{ -term ->\n       *[a] b\n    }', '{ -term.attr }',
    '{ F(a: 1, 2) }', '{ F(a: 1, a: 2) }', '{ f(1) }', '{ Fun(1) }', '{ F(a: 1, msg) }', '{ F(a: 1, msg.attr) }', '{ F(a: 1, -t) }', '{ F(a: 1, $v) }',
    '{ F(a: 1, G()) }', '{ F(a: 1, { 1 }) }', '{ F(a: 1, "s") }', '{ -t(a: 1, b) }', '{ F(x, a: 1, b: 2, y) }', '{ F(a: 1, a: 1) }',
    '{ F(y: 1, x: 2, y: 3) }', '{ -t(b: 1, a: 2, b: 3) }', '{ F(c: 1, b: 2, a: 3, c: 4) }', '{ F(x: 1, y: 2, x: 3) }',
    '{ F(size: 1, case: 2, size: 3) }', '{ F(a: 1, b: 2, c: 3, d: 4, e: 5, b: 6) }', '{ F(1, z: 1, m: 2, z: 3) }',
    '{ "\\x" }', '{ "\\u00" }', '{ "\\U0000" }', '{ "abc\n    }', '{ "abc', '{ $x', '}', '{ $x }}', '{',
    '{ $n ->\n        [one] x\n       *\n    }',
}


def make_entry(rng, snippet, kind):
    ident = rng.choice(ftlgen.IDS)
    t1 = rng.choice(['', 'x ', 'Hello '])
    t2 = rng.choice(['', ' y', ' tail'])
    if kind == 0:      # in the value
        return '%s = %s%s%s\n' % (ident, t1, snippet, t2)
    if kind == 1:      # in an attribute
        return '%s = v\n    .attr = %s%s%s\n' % (ident, t1, snippet, t2)
    if kind == 2:      # in a term
        return '-%s = %s%s%s\n' % (ident, t1, snippet, t2)
    if kind == 3:      # nested in a variant
        return '%s = { $n ->\n   *[a] %s%s%s\n  }\n' % (ident, t1, snippet, t2)
    if kind == 4:      # multi-line value, snippet on a continuation line (a line led by } . [ * is not a continuation at all)
        if not t1 and snippet[0] in '}.[*':
            t1 = 'x '
        return '%s =\n    line one\n    %s%s%s\n' % (ident, t1, snippet, t2)
    # second attribute after a good one
    return '%s = v\n    .a = ok\n    .b = %s%s%s\n' % (ident, t1, snippet, t2)


MISSING_VALUE = [('k = v\n', 'k =\n'), ('k = v\n', 'k = \n'), ('-k = v\n', '-k =\n'), ('k = v\n  .a = w\n', 'k = v\n  .a =\n'),
                 ('k = v\n', 'k\n'), ('k = v\n', 'k v\n'), ('-k = v\n', '- k = v\n'), ('k = v\n', '= v\n'), ('k = v\n', '0k = v\n')]


def damage_cases(rng, n):
    out = []
    for _ in range(n):
        pre = b''.join(ftlgen.gen_entry(rng).encode() + rng.choice([b'', b'\n']) for _ in range(rng.randint(0, 2)))
        post = b''.join(ftlgen.gen_entry(rng).encode() + rng.choice([b'', b'\n']) for _ in range(rng.randint(0, 3)))
        attr_ix = -1
        bad_snippet = None
        if rng.random() < 0.15:
            good, bad = rng.choice(MISSING_VALUE)
            if '.a =' in bad:
                attr_ix = 0
        else:
            valid, damaged = rng.choice(SNIPPETS)
            kind = rng.randrange(6)
            st = rng.getstate()
            good = make_entry(rng, valid, kind)
            rng.setstate(st)
            bad_snippet = rng.choice(damaged)
            bad = make_entry(rng, bad_snippet, kind)
            attr_ix = {1: 0, 5: 1}.get(kind, -1)
        crlf = rng.random() < 0.15
        g, b = good.encode('latin-1') if False else good.encode('utf-8', 'surrogateescape'), bad.encode('utf-8', 'surrogateescape')
        try:
            g.decode('utf-8'); b.decode('utf-8')
        except UnicodeDecodeError:
            b = bad.replace('\xe9', 'é').encode('utf-8'); g = good.encode('utf-8')
        if crlf:
            g = g.replace(b'\n', b'\r\n'); b = b.replace(b'\n', b'\r\n')
        must = 1 if (bad_snippet in MUST_REJECT or (good, bad) in MISSING_VALUE[:4]) else 0
        out.append(sexp.dumps([b'damage', pre, g, b, post, attr_ix, must]))
    return out


def generate(rng, tier):
    for bt in synprops.standard_batches(rng, tier):
        yield bt
    yield ('damage', damage_cases(rng, 4000 if tier == 'quick' else 150000))


def is_entry_start_byte(c):
    return (65 <= c <= 90) or (97 <= c <= 122) or c in (45, 35)


def accounting(text, body, errs, which):
    junks = [e for e in body if sexp.tag(e) == 'junk']
    if (len(errs) == 0) != (len(junks) == 0):
        return '%s: errors empty iff no Junk violated (%d errors, %d junk)' % (which, len(errs), len(junks))
    if len(errs) != len(junks):
        return '%s: %d errors but %d Junk entries' % (which, len(errs), len(junks))
    prev_b = 0
    for j, e in zip(junks, errs):
        sl = e[-1]
        if sl == b'none':
            return '%s: error without slice' % which
        a, b = sl[1]
        ps, pe = e[-3], e[-2]
        if not (0 <= a < b <= len(text)):
            return '%s: slice %d..%d empty or out of range' % (which, a, b)
        if text[a:b] != j[1]:
            return '%s: Junk content is not the source text of the error slice %d..%d' % (which, a, b)
        try:
            text[a:b].decode('utf-8')
        except UnicodeDecodeError:
            return '%s: slice %d..%d not on character boundaries' % (which, a, b)
        if not (a == 0 or text[a - 1:a] == b'\n'):
            # an entry starts after skip_blank_block; at a line start unless the previous line was the last, blank one
            return '%s: slice start %d is not a line start' % (which, a)
        if not (b == len(text) or (text[b - 1:b] == b'\n' and is_entry_start_byte(text[b]))):
            return '%s: slice end %d is not where the next entry begins' % (which, b)
        if not (a <= ps <= b):
            return '%s: error position %d outside its Junk range %d..%d' % (which, ps, a, b)
        if a < prev_b:
            return '%s: Junk ranges not in source order' % which
        prev_b = b
    return None


def mt(body):
    return [e for e in body if sexp.tag(e) in ('msg', 'term')]


def oracle(case, out):
    c = sexp.loads(case)
    if sexp.tag(c) == 'parse_all':
        tag, res = synprops.parse_out(out)
        if tag != 'ok':
            return 'parser did not return (%s): %s' % (tag, out[:160])
        text = c[1]
        for (body, errs), which in ((res[0], 'parse'), (res[2], 'parse_runtime')):
            why = accounting(text, body, errs, which)
            if why:
                return why
        o = sexp.loads(out)
        tn = o[5]
        body, errs = res[2]
        if tn[1] != (b'ok' if not errs else b'err') or tn[2] != len(body) or tn[3] != len(errs) or tn[4] != b'true':
            return 'FluentResource::try_new does not keep the recovered tree next to the errors: ' + sexp.dumps(tn)
        return None
    # damage case
    try:
        o = sexp.loads(out)
    except ValueError:
        return 'unparseable output'
    if sexp.tag(o) != 'ok':
        return 'parser did not return: ' + out[:160]
    pre, good, bad, post = c[1], c[2], c[3], c[4]
    for k, which in ((0, 'parse'), (1, 'parse_runtime')):
        rg, rb, rp, rq = o[1 + k], o[3 + k], o[5 + k], o[7 + k]
        if any(sexp.tag(r) != 'ok' for r in (rg, rb, rp, rq)):
            return which + ': parser did not return'
        if rg[2] or rp[2] or rq[2]:
            return None          # the undamaged resource is not well-formed: case does not apply
        why = accounting(pre + bad + post, rb[1][1:], rb[2], which)
        if why:
            return why
        P, Q, B, G = mt(rp[1][1:]), mt(rq[1][1:]), mt(rb[1][1:]), mt(rg[1][1:])
        if len(G) != len(P) + 1 + len(Q):
            return None          # E did not parse to exactly one entry: generator slip, not applicable
        if not rb[2]:
            if len(c) > 6 and c[6] == 1:
                return which + ': an entry that breaks a documented syntax rule was parsed without any error'
            return None          # a generic edit that happens to leave a well-formed entry
        if len(B) < len(P) + len(Q) or B[:len(P)] != P:
            return which + ': a message/term BEFORE the damaged entry changed'
        tail = B[len(B) - len(Q):] if Q else []
        if Q:
            t0 = list(tail[0]); q0 = list(Q[0])
            t0[4] = q0[4] = b'none'          # comment field of the immediate successor may differ
            if [t0] + tail[1:] != [q0] + Q[1:]:
                return which + ': a message/term AFTER the damaged entry changed or was swallowed'
        mid = B[len(P):len(B) - len(Q)]
        E = G[len(P)]
        eid = E[1]
        ekind = sexp.tag(E)
        attr_ix = c[5]
        # A violation inside attribute k ends the entry before that attribute (the grammar's Attribute* stops there): the entry
        # truncated to its first k attributes is what the grammar admits, provided it still has a value or an attribute.
        allowed = None
        if attr_ix >= 0:
            tr = list(E)
            tr[3] = E[3][:attr_ix]
            tr[4] = b'none'
            if (ekind == 'term' or E[2] != b'none' or tr[3]):
                allowed = tr
        for m in mid:
            if m[1] == eid and sexp.tag(m) == ekind:
                mm = list(m)
                mm[4] = b'none'
                if allowed is not None and mm == allowed:
                    continue
                return which + ': the entry that breaks a syntax rule was admitted as %s %r' % (ekind, eid)
    return None


def nontrivial(case, out):
    return out if ('(junk ' in out and ('(msg ' in out or '(term ' in out)) else None


PARTIAL = ('containment is proved as: suffix independence of every parsing function and of both entry loops (exact equality up to a position '
           'shift), entries AFTER a damaged span are what parse(post) yields (modulo the pending-comment rule), entries BEFORE it are '
           'unchanged when the prefix is error-free and the next entry starts with a letter or "-", and each of the 16 documented violation '
           'shapes makes get_entry return Err (hence Junk).  Hypotheses that remain: the loop reaches a head exactly at the start of post '
           'in both runs (checked executably by loop_heads; holds for column-0 entries in all damage-injection cases of the oracle), and '
           'post does not start with a UTF-8 continuation byte.')

MANIFEST = {
    'text': 'Rocq theorems over ALL inputs about the entry loops of the parser model. Accounting: errors = [] iff no Junk; Junk and '
            'errors correspond one to one in order; each Junk is the source slice of its error, starting at a line start, ending where '
            'the next entry begins, non-empty, containing the error position. Containment: what the parser does from a loop head on '
            'depends only on the bytes from there on (suffix independence, all functions); entries after and before a damaged entry are '
            'unchanged (C03_containment, C03_containment_wellformed); every documented violation yields Err/Junk (16 lemmas). Tied to the '
            'code by the parse_all/damage correspondence and the damage-injection oracle on the real parser.',
    'note': 'Trusted: as C01. Remaining hypotheses of the containment theorems are listed in PARTIAL (loop head at the start of the '
            'following entry in both runs; executable check loop_heads).',
    'technique': 'Rocq proof (loop invariants, translation invariance of the parser model) + differential correspondence check + damage-injection oracle',
    'design_ref': 'DESIGN.md §4 C03, §10',
}

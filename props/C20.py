"""C20 — Pseudolocalization changes only ASCII letters and never touches markup.
Model: coq/theories/Pseudo/Pseudo.v; theorems: Props/C20.v."""
import functools
import itertools
import unicodedata
import re
import sexp

ID = 'C20'
PROPS_FILE = 'theories/Props/C20.v'
PROPS_MODULE = 'Props.C20'
COQ_TARGETS = ['theories/Extract/ExtractC20.vo']
REQUIRED_THEOREMS = ['C20_transform', 'C20_dom_shape', 'C20_dom_total', 'C20_one_char']
MODEL = 'c20'
HARNESS_BINS = ['pseudo_run']
ANCHORS = ['fluent-pseudo/src/lib.rs', 'fluent-bundle/src/bundle.rs']
TRUSTED = [
    'the regex crate is external: Regex::replace_all for [a-zA-Z] is modelled as a bytewise scan; the capture spans of RE_EXCLUDED are '
    'an argument of the model constrained by spans_ok (increasing, non-overlapping, non-empty, on char boundaries, inside s) — that is '
    'what captures_iter guarantees; the executable Gallina matcher for &[#\\w]+;|<\\s*.+?\\s*> is proved to satisfy spans_ok and is '
    'validated against the real regex by the correspondence run only (the harness prints the real spans)',
    '\\w and \\s on non-ASCII characters are a parameter of the matcher; the run instantiates it with a table for the eight non-ASCII '
    'word/space characters the generators use',
    'modelled, not verified: str indexing, String::replace_range, chars().count(), usize/u8 subtraction with debug overflow checks, '
    'char::to_string; Cow<str> is its content',
    'set_transform / format_pattern (bundle.rs) is covered by the correspondence run only',
]
ASSUMPTIONS = ['the input is a Rust str (utf8_valid)', 'spans_ok s spans 0 for the spans handed to transform_dom']
RULE = ('every string over 14 symbols (a b u Z, 2- and 3-byte characters, < > & ; # space newline /) up to a length bound, each run with '
        'all 8 flag combinations of transform_dom and all 4 of transform; every ASCII letter in five contexts; random longer strings '
        'with tags, entities, non-ASCII word/space characters; a case is non-trivial when the real regex finds a span or the text '
        'contains a letter; distinct = distinct implementation outputs')

# the property's reference tables (as the statement says: "its table counterpart for the selected style")
SMALL = {False: 'aƀƈḓeƒɠħiĵķŀḿƞoƥɋřşŧuṽẇẋẏẑ', True: 'ɐqɔpǝɟƃɥıɾʞʅɯuodbɹsʇnʌʍxʎz'}
CAPS = {False: 'AƁƇḒEƑƓĦIĴĶĿḾȠOƤɊŘŞŦUṼẆẊẎẐ', True: '∀ԐↃᗡƎℲ⅁HIſӼ⅂WNOԀÒᴚS⊥∩ɅMX⅄Z'}
EXCLUDED = re.compile(r'&[#\w]+;|<\s*.+?\s*>')
ALPHABET = ['a', 'b', 'u', 'Z', 'é', '€', '<', '>', '&', ';', '#', ' ', '\n', '/']
BOOLS = (False, True)


def case(text):
    return sexp.dumps([b'pseudo', text.encode('utf-8')])


def generate(rng, tier):
    bound = 5 if tier == 'quick' else 6
    cases = []
    for n in range(0, bound + 1):
        for seq in itertools.product(ALPHABET, repeat=n):
            cases.append(case(''.join(seq)))
    yield ('exhaustive-14symbols-len%d-allflags' % bound, cases)
    cases = []
    for i in range(26):
        for L in (chr(97 + i), chr(65 + i)):
            cases += [case(L), case(L + L), case('<' + L + '>'), case(L + '<b>' + L), case('&' + L + ';' + L)]
    yield ('exhaustive-letters-in-context', cases)
    # characters that are NOT ASCII letters but are related to them by Unicode case folding, compatibility or look (long s,
    # Kelvin sign, dotless i, dotted I, fullwidth and mathematical letters, Greek/Cyrillic look-alikes, combining marks after a
    # letter, sharp s, ligatures): all of them must pass through untouched, in every context and with every flag
    near = ['\u017f', '\u212a', '\u0131', '\u0130', '\uff41', '\uff21', '\uff5a', '\U0001d41a', '\U0001d400', '\u0391', '\u0430', '\u0435',
            '\u00aa', '\u00ba', '\u00b5', '\u00df', '\ufb01', '\u2126', '\u212b', 'a\u0301', 'E\u0300', '\u1e9e', '\u00e6', '\u0153', '\u2170', '\u24d0']
    cases = []
    for ch in near:
        cases += [case(ch), case(ch + ch), case('a' + ch + 'Z'), case(ch + ' text ' + ch), case('<' + ch + '>x'), case('x<b ' + ch + '="1">' + ch),
                  case('Hello ' + ch + 'orld'), case(ch + 'aeou' + ch.upper() + ch.lower())]
        # inside &...; only characters on which Python's and Rust's \w certainly agree (letters): the oracle's reference pattern is a
        # Python regex, and the two engines differ on combining marks and on Other_Alphabetic symbols such as U+24D0
        if all(unicodedata.category(c).startswith('L') for c in ch):
            cases.append(case('&' + ch + ';' + ch))
    yield ('near-letters', cases)
    pieces = ['<a>', '</a>', '<b href="x">', '< i >', '<\n>', '<>', '< >', '&amp;', '&#x202a;', '&#1;', '&;', '&a b;', '&é;', '&€;',
              'Hello', 'World', ' ', '\n', '\u00e9', '\u00df', '\u0663', '\u4e2d', '\u20ac', '\U0001f600', '\u00a0', '\u3000', '\u2028', '\u0085',
              '<', '>', '&', ';', '#', '_', '0', 'aeou', 'AEOU', 'x', '/', '=', '"', '>>', '<<', '<a', 'a>', '&a', 'a;', '.', '[', ']',
              '\u017f', '\u212a', '\u0131', '\uff41', '<a href="x"\n>', '</b\r\n>', '<\nbr>', '<a\nb>', '&amp\n;']
    n = 20000 if tier == 'quick' else 300000
    cases = []
    for _ in range(n):
        k = rng.randint(1, 14)
        toks = []
        for _ in range(k):
            r = rng.random()
            if r < 0.6:
                toks.append(rng.choice(pieces))
            elif r < 0.9:
                toks.append(rng.choice('abcdefghijklmnopqrstuvwxyzABCDEFGHIJKLMNOPQRSTUVWXYZ'))
            else:
                toks.append(rng.choice(ALPHABET))
        cases.append(case(''.join(toks)))
    yield ('random-markup', cases)


@functools.lru_cache(maxsize=1 << 18)
def ref_transform(text, flipped, elongate):
    out = []
    for ch in text:
        if 'a' <= ch <= 'z':
            x = SMALL[flipped][ord(ch) - 97]
            out.append(x + x if (elongate and ch in 'aeou') else x)
        elif 'A' <= ch <= 'Z':
            out.append(CAPS[flipped][ord(ch) - 65])
        else:
            out.append(ch)
    return ''.join(out)


def ref_dom(text, spans, flipped, elongate, markers):
    """the statement: tags/entities byte-identical and in order, the selected style on everything else,
    one-character strings unchanged, brackets only when asked"""
    if len(text) == 1:
        return text
    out = []
    pos = 0
    for (a, b) in spans:
        out.append(ref_transform(text[pos:a], flipped, elongate))
        out.append(text[a:b])
        pos = b
    out.append(ref_transform(text[pos:], flipped, elongate))
    r = ''.join(out)
    return '[' + r + ']' if markers else r


def oracle(case_line, out):
    c = sexp.loads(case_line)
    try:
        o = sexp.loads(out)
    except ValueError:
        return 'unparseable implementation output: ' + out[:200]
    if sexp.tag(o) in ('PANIC', 'CRASH'):
        return 'pseudolocalization panicked: ' + out[:300]
    if sexp.tag(o) != 'ok' or len(o) != 5 or len(o[2]) != 8 or len(o[3]) != 4:
        return 'unexpected output shape: ' + out[:200]
    text = c[1].decode('utf-8')
    # tags and entities = matches of the reference pattern (character offsets), as byte offsets
    spans = [(m.start(), m.end()) for m in EXCLUDED.finditer(text)]
    bspans = [[len(text[:a].encode('utf-8')), len(text[:b].encode('utf-8'))] for (a, b) in spans]
    if o[1] != bspans:
        return 'the excluded-span regex of lib.rs finds %s, the reference pattern finds %s' % (sexp.dumps(o[1]), sexp.dumps(bspans))
    i = 0
    for f in BOOLS:
        for e in BOOLS:
            want = ref_transform(text, f, e).encode('utf-8')
            got = o[3][2 * f + e]
            if got != want:
                return 'transform(%r, flipped=%s, elongate=%s) = %r, the property says %r' % (text, f, e, got.decode('utf-8', 'replace'), want.decode())
            for m in BOOLS:
                want = ref_dom(text, spans, f, e, m).encode('utf-8')
                got = o[2][i]
                if got != want:
                    return 'transform_dom(%r, flipped=%s, elongate=%s, with_markers=%s) = %r, the property says %r' % (
                        text, f, e, m, got.decode('utf-8', 'replace'), want.decode())
                if o[4] != b'none' and o[4][1 + i] != got:
                    return 'format_pattern with set_transform gives %r, transform_dom gives %r (flags %s %s %s)' % (o[4][1 + i], got, f, e, m)
                i += 1
    return None


def project(out):
    # the bundle column exists on the Rust side only (atoms contain no blanks or parentheses)
    if out.startswith('(ok '):
        if out.endswith(' none)'):
            return out[:-6] + ')'
        k = out.rfind(' (some ')
        if k > 0:
            return out[:k] + ')'
    if out.startswith('(PANIC'):
        return '(PANIC)'
    return out


def nontrivial(case_line, out):
    if out.startswith('(ok ()'):
        text = sexp.loads(case_line)[1]
        if not any(65 <= b <= 90 or 97 <= b <= 122 for b in text):
            return None
    return out


MANIFEST = {
    'text': 'Rocq theorems over ALL well-formed UTF-8 strings, all flag combinations and all span lists with the properties '
            'captures_iter guarantees: transform equals the per-character letter map (table counterpart, a/e/o/u doubled exactly when '
            'elongating, every other character in place), never panics, output valid UTF-8; transform_dom — modelled with its literal '
            'pos/diff/replace_range bookkeeping and explicit Panic on subtraction underflow and non-boundary splices — never panics and '
            'returns brackets-if-asked around seg0\' ++ span1 ++ seg1\' ++ … with every span byte-identical and every segment transformed '
            'with the caller\'s flags; one-character strings are returned unchanged. An executable Gallina matcher for the concrete '
            'pattern is proved to yield such spans. Model, matcher and code are compared on every string over 14 symbols up to a length '
            'bound under all 8 flag combinations, plus random markup; an independent Python implementation (Python re for the spans, '
            'reference tables) is the oracle on the implementation alone; format_pattern with set_transform is compared as well.',
    'note': 'Trusted: Coq kernel; extraction; the model of str/String primitives; the regex crate (its spans enter as a constrained '
            'argument; the Gallina matcher is only tested against it, with \\w/\\s on non-ASCII characters restricted to a table).',
    'technique': 'Rocq proof (character view of UTF-8, splice invariant result = done ++ untouched suffix with |done| = pos + diff) + '
                 'differential correspondence check + independent reference implementation',
    'design_ref': 'DESIGN.md §4 C20',
}

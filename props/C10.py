"""C10 — the bundle registry behaves as a keyed map over any history of additions.
Model: coq/theories/Bundle/Registry.v; theorems: Props/C10.v."""
import itertools
import sexp

ID = 'C10'
PROPS_FILE = 'theories/Props/C10.v'
PROPS_MODULE = 'Props.C10'
COQ_TARGETS = ['theories/Extract/ExtractC10.vo']
REQUIRED_THEOREMS = ['C10_total', 'C10_inv', 'C10_refines', 'C10_lookup', 'C10_first_wins', 'C10_errors_exact',
                     'C10_last_wins', 'C10_function', 'C10_kind_safe', 'C10_view']
MODEL = 'c10'
HARNESS_BINS = ['registry_run']
ANCHORS = ['fluent-bundle/src/bundle.rs', 'fluent-bundle/src/entry.rs', 'fluent-bundle/src/message.rs',
           'fluent-bundle/src/resource.rs']
TRUSTED = [
    "modelled, not verified: FxHashMap<String, Entry> as a finite map (association list with unique keys; only "
    "entry()/insert()/get() are used, iteration order is never observed); Vec push/get as list append/nth_error",
    "a FluentResource is its parsed body (Syntax/Ast.v resource); the parser is outside this model — the case carries the FTL text "
    "for the Rust side and the expected parse_runtime body for the model, so a wrong expectation shows as a correspondence failure",
    "functions are opaque values in the model (type parameter F); the harness registers real closures returning a tag and "
    "observes them through format_pattern of a function reference; terms are observed through format_pattern of `{ -id }` "
    "(get_entry_term/get_entry_function are crate-private)",
]
ASSUMPTIONS = ['ids are valid UTF-8 strings; the key of a term is its id without the leading "-" (what the parser stores in id.name)']
RULE = ('histories of add_resource / add_resource_overriding / add_function over resources built by FluentResource::try_new from FTL text, '
        'each followed by lookups (has_message, get_message value/attributes/get_attribute, term and function references) of every id; '
        'exhaustive over 3 ids x {message, term, function} x {add, overriding} histories up to a length bound, plus random histories over '
        'multi-entry resources (duplicate ids inside a resource, messages without value, repeated attribute names, junk, comments); '
        'a case is non-trivial when it adds at least one resource or function and looks something up; distinct = distinct implementation outputs')

NONE = b'none'


NO_MODEL = ('more-than-65536-entries',)   # the list-based registry model needs minutes on 65 540 entries; the Python dict oracle decides


def some(x):
    return [b'some', x]


# ---- FTL rendering + the body parse_runtime produces for it -------------------------------------
def pat_text(els):
    out = ''
    for e in els:
        if e[0] == 't':
            out += e[1]
        elif e[0] == 'vref':
            out += '{ $%s }' % e[1]
        elif e[0] == 'mref':
            out += '{ %s }' % e[1]
        elif e[0] == 'tref':
            out += '{ -%s }' % e[1]
    return out


def pat_sexp(els):
    out = [b'pat']
    for e in els:
        if e[0] == 't':
            out.append([b't', e[1].encode()])
        elif e[0] == 'vref':
            out.append([b'p', [b'in', [b'vref', e[1].encode()]]])
        elif e[0] == 'mref':
            out.append([b'p', [b'in', [b'mref', e[1].encode(), NONE]]])
        elif e[0] == 'tref':
            out.append([b'p', [b'in', [b'tref', e[1].encode(), NONE, NONE]]])
    return out


def render(entries):
    """entries: ('msg', id, pattern|None, [(name, pattern)]) | ('term', id, pattern, attrs) | ('junk', text) | ('comment', text)
    -> (ftl text, (res ...) sexp of the runtime body)"""
    text = ''
    body = [b'res']
    for e in entries:
        if e[0] in ('msg', 'term'):
            _, mid, val, attrs = e
            text += ('-' if e[0] == 'term' else '') + mid + ' =' + ((' ' + pat_text(val)) if val is not None else '') + '\n'
            for (n, p) in attrs:
                text += '    .%s = %s\n' % (n, pat_text(p))
            al = [[b'attr', n.encode(), pat_sexp(p)] for (n, p) in attrs]
            if e[0] == 'msg':
                body.append([b'msg', mid.encode(), some(pat_sexp(val)) if val is not None else NONE, al, NONE])
            else:
                body.append([b'term', mid.encode(), pat_sexp(val), al, NONE])
        elif e[0] == 'junk':
            text += e[1]
            body.append([b'junk', b''])
        elif e[0] == 'comment':
            text += e[1]
        elif e[0] == 'blank':
            text += '\n'
    return text, body


def resource(entries):
    text, body = render(entries)
    return [b'r', text.encode(), body]


def look(i, names=(b'x', b'y')):
    return [b'look', i if isinstance(i, bytes) else i.encode(), list(names)]


IDS = ['a', 'b', 'c', 'ab', 'a-b', 'A', 'NUMBER', 'b_1', 'zz']
ATTRS = ['x', 'y', 'title', 'x-y', 'X', 'Title']   # names that differ only in letter case are different attributes


def rand_pattern(rng, label):
    k = rng.randrange(6)
    if k <= 2:
        return [('t', label)]
    if k == 3:
        return [('t', label + ' '), (rng.choice(['vref', 'mref', 'tref']), rng.choice(IDS[:4]))]
    if k == 4:
        return [(rng.choice(['vref', 'mref', 'tref']), rng.choice(IDS[:4]))]
    return [('t', label + ' '), ('vref', 'n'), ('t', ' ' + label)]


def rand_entry(rng, ids, label):
    k = rng.random()
    if k < 0.55:
        mid = rng.choice(ids)
        attrs = [(rng.choice(ATTRS[:3] if rng.random() < 0.6 else ATTRS), rand_pattern(rng, '%sA%d' % (label, j)))
                 for j in range(rng.choice([0, 0, 1, 2, 3]))]
        val = rand_pattern(rng, label + 'M') if (rng.random() < 0.75 or not attrs) else None
        return ('msg', mid, val, attrs)
    if k < 0.8:
        attrs = [(rng.choice(ATTRS), [('t', '%sTA%d' % (label, j))]) for j in range(rng.choice([0, 0, 1]))]
        return ('term', rng.choice(ids), [('t', label + 'T')], attrs)
    if k < 0.9:
        return ('junk', rng.choice(['!!junk\n', rng.choice(ids) + ' =\n', '= v\n', rng.choice(ids) + ' = { \n', '-' + rng.choice(ids) + ' =\n']))
    if k < 0.97:
        return ('comment', rng.choice(['# c\n', '## g\n', '### r\n', '# ' + rng.choice(ids) + ' = not an entry\n']))
    return ('blank',)


def generate(rng, tier):
    # bounded-exhaustive: 3 ids x 3 kinds x {add, overriding} over single-entry resources, then all lookups
    bound = 3 if tier == 'quick' else 4
    ids = ['a', 'b', 'c']
    alphabet = []
    for i in ids:
        for kind in ('msg', 'term'):
            for mode in (b'add', b'addo'):
                alphabet.append((mode, kind, i))
        alphabet.append((b'fn', 'fn', i))
    cases = []
    for n in range(0, bound + 1):
        for seq in itertools.product(alphabet, repeat=n):
            rs = []
            ops = []
            for j, (mode, kind, i) in enumerate(seq):
                if kind == 'fn':
                    ops.append([b'fn', i.encode(), j])
                else:
                    if kind == 'msg':
                        e = ('msg', i, [('t', 'M%d' % j)], [('x', [('t', 'A%d' % j)])])
                    else:
                        e = ('term', i, [('t', 'T%d' % j)], [])
                    ops.append([mode, len(rs)])
                    rs.append(resource([e]))
            ops += [look(i) for i in ids]
            cases.append(sexp.dumps([b'c10', b'ref', rs, ops]))
    yield ('exhaustive-3ids-3kinds-len%d' % bound, cases)
    # random: multi-entry resources with overlapping ids, duplicates inside a resource, the same resource added twice
    n = 2500 if tier == 'quick' else 40000
    cases = []
    for _ in range(n):
        ids = rng.sample(IDS, rng.randint(1, 4))
        nres = rng.randint(1, 4)
        rs = []
        for ri in range(nres):
            ents = [rand_entry(rng, ids, 'r%de%d' % (ri, ei)) for ei in range(rng.choice([0, 1, 1, 2, 3, 4, 6]))]
            rs.append(resource(ents))
        ops = []
        for j in range(rng.randint(1, 7)):
            r = rng.random()
            if r < 0.4:
                ops.append([b'add', rng.randrange(nres)])
            elif r < 0.7:
                ops.append([b'addo', rng.randrange(nres)])
            elif r < 0.85:
                ops.append([b'fn', rng.choice(ids + [rng.choice(IDS)]).encode(), 100 + j])
            else:
                ops.append(look(rng.choice(ids), [a.encode() for a in rng.sample(ATTRS, 2)]))
        names = [a.encode() for a in ATTRS]
        ops += [look(i, names) for i in ids] + [look(rng.choice(IDS), names)]
        cases.append(sexp.dumps([b'c10', rng.choice([b'ref', b'ref', b'rc', b'concurrent']), rs, ops]))
    yield ('random-histories', cases)
    # one resource with more than 2^16 entries (and a second, small one): positions in the registry are not 16-bit
    big = resource([('msg', 'm%d' % i, [('t', 'v%d' % i)], [('x', [('t', 'a%d' % i)])] if i % 4096 == 0 else []) for i in range(65540)])
    small = resource([('msg', 'm65536', [('t', 'small')], []), ('msg', 'zz', [('t', 'z')], [])])
    probes = [look('m%d' % i, [b'x']) for i in (0, 1, 4096, 65535, 65536, 65537, 65539)] + [look('zz', [b'x'])]
    cases = [sexp.dumps([b'c10', b'ref', [big, small], [[b'add', 0]] + probes + [[b'addo', 1]] + probes]),
             sexp.dumps([b'c10', b'rc', [small, big], [[b'add', 0], [b'addo', 1]] + probes])]
    yield ('more-than-65536-entries', cases)


# ---- the property on the implementation alone: a Python dict is the keyed map -------------------
def defs_of(res_sexp):
    """keyed definitions of the expected body, in source order"""
    out = []
    for e in res_sexp[1:]:
        t = sexp.tag(e)
        if t == 'msg':
            out.append((e[1], ('message', e[2], e[3])))
        elif t == 'term':
            text = b''.join(el[1] for el in e[2][1:] if sexp.tag(el) == 't')
            out.append((e[1], ('term', text)))
    return out


def oracle(case, out):
    c = sexp.loads(case)
    try:
        o = sexp.loads(out)
    except ValueError:
        return 'unparseable implementation output: ' + out[:200]
    if sexp.tag(o) in ('PANIC', 'CRASH', 'HARNESS-PARSE-ERROR'):
        return 'implementation panicked: ' + out[:200]
    rs = [defs_of(r[2]) for r in c[2]]
    d = {}
    if len(o) != len(c[3]):
        return 'expected %d results, got %d' % (len(c[3]), len(o))
    for op, got in zip(c[3], o):
        t = sexp.tag(op)
        if t == 'add':
            errs = []
            for (k, df) in rs[op[1]]:
                if k in d:
                    errs.append([b'overriding', df[0].encode(), k])   # kind of the duplicate, its id, in order
                else:
                    d[k] = df                                          # first definition wins, rest still added
            want = [b'err'] + errs if errs else [b'ok']
        elif t == 'addo':
            for (k, df) in rs[op[1]]:
                d[k] = df                                              # latest definition wins
            want = [b'unit']
        elif t == 'fn':
            if op[1] in d:
                want = [b'err', [b'overriding', b'function', op[1]]]
            else:
                d[op[1]] = ('function', op[2])
                want = [b'ok']
        else:
            df = d.get(op[1])
            msg = term = fn = NONE
            if df is not None and df[0] == 'message':
                by_name = []
                for n in op[2]:
                    hit = [a for a in df[2] if a[1] == n]
                    by_name.append(some(hit[0]) if hit else NONE)      # first attribute of that name
                msg = some([df[1], df[2], by_name])
            elif df is not None and df[0] == 'term':
                term = some(df[1])
            elif df is not None:
                fn = some(df[1])
            want = [b'look', b'true' if msg != NONE else b'false', msg, term, fn]
        if got != want:
            return '%s: a keyed map gives %s, the bundle gave %s' % (sexp.dumps(op)[:80], sexp.dumps(want)[:300], sexp.dumps(got)[:300])
    return None


def nontrivial(case, out):
    if ('(add' in case or '(fn' in case) and '(look' in case:
        return out
    return None


MANIFEST = {
    'text': 'Rocq theorems over ALL histories of add_resource / add_resource_overriding / add_function (any parsed resources): no panic; '
            'keys unique and every stored (resource, entry) index in range and pointing at an entry of the stored kind and id; the registry '
            'read through its indices equals the keyed map fold_left spec_step ops []; get_message/term/function/has_message return what '
            'that map holds; add_resource keeps every earlier key, adds the first definition of every new id and returns exactly the '
            'Overriding{kind of the duplicate, id} errors in source order; add_resource_overriding makes the last definition win across '
            'kinds; add_function only takes a vacant key; get_message never yields a term or function; value/attributes/get_attribute '
            'expose the node (first attribute of a name). Tied to bundle.rs/entry.rs/message.rs by running the extracted model and the '
            'real FluentBundle (resources from FluentResource::try_new, real closures) on the same histories: exhaustive over 3 ids x 3 '
            'kinds up to a length bound, plus random multi-entry resources.',
    'note': 'Trusted: Coq kernel; extraction (ExtrOcamlBasic); FxHashMap modelled as a finite map; the parser is outside the model (the case '
            'carries the expected parse_runtime body, checked by the correspondence run); functions opaque; terms/functions observed via '
            'format_pattern because get_entry_term/get_entry_function are crate-private.',
    'technique': 'Rocq proof (simulation invariant over op histories, refinement to a spec map) + differential correspondence check',
    'design_ref': 'DESIGN.md §4 C10',
}

"""An independent, executable reading of property C07 in Python: a small Fluent resolver written from the
sentences of the property (and the corners fixed in coq/theories/Bundle/ResolverSpec.v) — NOT a port of the
Rust resolver: no scope object, no writer, environments and the set of patterns being expanded are plain
arguments.  It works on the tree the real runtime parser produced (carried by the case) and predicts

    text (without isolation marks), the list of errors in order, the registered-function invocations in order

or says that the placeable limit is exceeded (`Limit`: the text is then unspecified; the errors reported before
that point are known), or that it cannot decide (`Undecided`: plural category of a locale/number that is not
obvious, number formatting outside what C07 is about).

Trees (coq/theories/Syntax/Ast.v encoding):
  pattern  (pat el ...)        el = (t #text) | (p expr)
  expr     (in inline) | (sel inline ((var key pattern true|false) ...))      key = (id #name) | (num #lit)
  inline   (str #raw) (num #lit) (fn #id args) (mref #id none|(some #attr)) (tref #id attr none|(some args))
           (vref #id) (pl expr)        args = (args (inline ...) ((named #name inline) ...))
Values: ('str', bytes) | ('num', float, display text, options dict) | ('custom', payload) | ('none',) | ('error',)"""
import math
from decimal import Decimal

MAXP = 100
PLURAL = (b'zero', b'one', b'two', b'few', b'many', b'other')
FSI = '⁨'.encode()
PDI = '⁩'.encode()


class Limit(Exception):
    pass


class Undecided(Exception):
    pass


def rust_display(x):
    if math.isnan(x):
        return 'NaN'
    if math.isinf(x):
        return 'inf' if x > 0 else '-inf'
    s = format(Decimal(repr(x)), 'f')
    if '.' in s:
        s = s.rstrip('0').rstrip('.')
    return s


def num(x, mfd=None, ty=b'cardinal', text=None):
    return ('num', x, text if text is not None else rust_display(x), {'type': ty, 'mfd': mfd})


def number_literal(lit):
    """FluentValue::try_number on a number literal: the value, and as many fraction digits as were written."""
    t = lit.decode()
    try:
        x = float(t)
    except ValueError:
        return ('str', lit)
    if len(t.lstrip('-').replace('.', '')) > 15:
        raise Undecided('literal with more than 15 significant digits')
    mfd = len(t) - t.index('.') - 1 if '.' in t else None
    return num(x, mfd)


def as_string(v):
    text, mfd = v[2], v[3]['mfd']
    if mfd is None:
        return text.encode()
    if mfd == 0 or not math.isfinite(v[1]):
        raise Undecided('number formatting corner')
    if mfd > 400:
        raise Undecided('huge minimumFractionDigits')
    if '.' in text:
        have = len(text) - text.index('.') - 1
        return (text + '0' * max(0, mfd - have)).encode()
    return (text + '.' + '0' * mfd).encode()


def unescape(raw):
    """String-literal escapes (property C13): \\\\ \\" \\uXXXX \\UXXXXXX; unknown/invalid -> U+FFFD."""
    s = raw.decode('utf-8', 'surrogateescape')
    out = []
    i = 0
    while i < len(s):
        c = s[i]
        if c != '\\':
            out.append(c)
            i += 1
            continue
        n = s[i + 1] if i + 1 < len(s) else ''
        if n in ('\\', '"'):
            out.append(n)
            i += 2
        elif n in ('u', 'U'):
            k = 4 if n == 'u' else 6
            h = s[i + 2:i + 2 + k]
            ok = len(h) == k and all(ch in '0123456789abcdefABCDEF' for ch in h)
            if ok:
                cp = int(h, 16)
                out.append(chr(cp) if cp <= 0x10FFFF and not 0xD800 <= cp <= 0xDFFF else '�')
                i += 2 + k
            else:
                raise Undecided('malformed unicode escape')
        else:
            raise Undecided('unknown escape')
    return ''.join(out).encode('utf-8', 'surrogateescape')


def plural_category(v, locale):
    """Only where the category is obvious: English, integers without visible fraction digits."""
    lang = locale.split(b'-')[0]
    if lang != b'en':
        raise Undecided('plural rules of ' + locale.decode())
    x, text, o = v[1], v[2], v[3]
    if not math.isfinite(x) or '.' in text or (o['mfd'] or 0) > 0 or abs(x) >= 2 ** 53:
        raise Undecided('plural category of a non-integer')
    n = int(abs(x))
    if o['type'] == b'ordinal':
        if n % 10 == 1 and n % 100 != 11:
            return b'one'
        if n % 10 == 2 and n % 100 != 12:
            return b'two'
        if n % 10 == 3 and n % 100 != 13:
            return b'few'
        return b'other'
    return b'one' if n == 1 else b'other'


# ---------------------------------------------------------------------------------------------
# the function tables of the two harnesses (test configuration, not resolver logic)

def _piece(v):
    return {'str': lambda: v[1], 'num': lambda: as_string(v), 'custom': lambda: b'C', 'none': lambda: b'N', 'error': lambda: b'E'}[v[0]]()


def number_builtin(pos, named):
    if not pos or pos[0][0] != 'num':
        return ('error',)
    o = dict(pos[0][3])
    for k, v in named:
        if k == b'type' and v[0] == 'str':
            o['type'] = b'ordinal' if v[1] == b'ordinal' else b'cardinal'
        elif k == b'minimumFractionDigits' and v[0] == 'num':
            x = v[1]
            o['mfd'] = 0 if (math.isnan(x) or x < 0) else int(min(x, 2.0 ** 63))
    return ('num', pos[0][1], pos[0][2], o)


def bundle_run_function(name, pos, named):
    if name == b'NUMBER':
        return number_builtin(pos, named)
    if name == b'IDENTITY':
        return pos[0] if pos else ('none',)
    if name == b'CONCAT':
        return ('str', b''.join(_piece(v) for v in pos) + b''.join(b';' + k + b'=' + _piece(v) for k, v in named))
    if name == b'FAIL':
        return ('error',)
    if name == b'NONE':
        return ('none',)
    if name == b'COUNT':
        return ('str', b'c')
    if name == b'CUSTOM':
        return ('custom', pos[0][1] if pos and pos[0][0] == 'str' else b'dflt')
    if name == b'NUM':
        return num(float(len(pos)))
    return ('error',)


def fixture_function(name, pos, named):
    if name == b'CONCAT':
        return ('str', b''.join(v[1] if v[0] == 'str' else v[2].encode() if v[0] == 'num' else b'' for v in pos))
    if name == b'SUM':
        tot = 0
        for v in pos:
            if v[0] != 'num' or v[1] < 0 or v[1] != int(v[1]) or v[1] >= 1e15:
                return ('error',)
            tot += int(v[1])
        return num(float(tot))
    if name in (b'IDENTITY', b'NUMBER'):
        return pos[0] if pos else ('error',)
    return ('error',)


# ---------------------------------------------------------------------------------------------

def opt(x):
    return None if x == b'none' else x[1]


class Bundle:
    """ids of messages, terms and functions share one key space; the first registration wins (C10)."""

    def __init__(self):
        self.entries = {}

    def add_resource_tree(self, tree):
        for e in tree[1:]:
            if isinstance(e, list) and e and e[0] in (b'msg', b'term') and e[1] not in self.entries:
                if e[0] == b'msg':
                    self.entries[e[1]] = ('msg', opt(e[2]), e[3])
                else:
                    self.entries[e[1]] = ('term', e[2], e[3])

    def add_function(self, name):
        if name not in self.entries:
            self.entries[name] = ('fn', name)

    def message(self, id_):
        e = self.entries.get(id_)
        return e if e is not None and e[0] == 'msg' else None

    def term(self, id_):
        e = self.entries.get(id_)
        return e if e is not None and e[0] == 'term' else None

    def function(self, id_):
        e = self.entries.get(id_)
        return e if e is not None and e[0] == 'fn' else None


def attribute(attrs, name):
    for a in attrs:                       # the FIRST attribute of that name
        if a[1] == name:
            return a[2]
    return None


def source_form(i):
    k = i[0]
    if k == b'mref':
        return i[1] + (b'.' + opt(i[2]) if opt(i[2]) is not None else b'')
    if k == b'tref':
        return b'-' + i[1] + (b'.' + opt(i[2]) if opt(i[2]) is not None else b'')
    if k == b'fn':
        return i[1] + b'()'
    if k == b'vref':
        return b'$' + i[1]
    raise ValueError(i)


def some(x):
    return b'none' if x is None else [b'some', x]


class Resolver:
    def __init__(self, bundle, args, transform=None, formatter=b'none', locale=b'en', functions=bundle_run_function):
        # a cycle = a reference to an entry (message value / attribute, term value / attribute) that is being expanded
        self.b = bundle
        self.args = args                  # dict or None : the caller's arguments
        self.transform = transform
        self.formatter = formatter
        self.locale = locale
        self.functions = functions
        self.errors = []
        self.calls = []
        self.placeables = 0

    # --- printing
    def text(self, s):
        if self.transform == b'upper':
            return bytes(c - 32 if 97 <= c <= 122 else c for c in s)
        if self.transform == b'brackets':
            return b'[' + s + b']'
        if self.transform == b'example':
            return s.replace(b'a', b'A')
        return s

    def print(self, v):
        k = v[0]
        if self.formatter in (b'num', b'all') and k == 'num':
            return b'#' + as_string(v)
        if self.formatter == b'all' and k == 'str':
            return b'<' + v[1] + b'>'
        if self.formatter == b'all' and k == 'none':
            return b'~'
        if k == 'str':
            return v[1]
        if k == 'num':
            return as_string(v)
        if k == 'custom':
            return b'<<' + v[1] + b'>>'
        return b''

    def error(self, e):
        self.errors.append(e)

    # --- the rules
    def format(self, pattern, name):
        return self.pattern(pattern, ((name, pattern),), None)

    def pattern(self, p, T, env):
        out = []
        for el in p[1:]:
            if el[0] == b't':
                out.append(self.text(el[1]))
            else:
                self.placeables += 1
                if self.placeables > MAXP:
                    raise Limit()
                out.append(self.expr(el[1], T, env))
        return b''.join(out)

    def expr(self, e, T, env):
        if e[0] == b'in':
            return self.inline(e[1], T, env)
        sel = self.value(e[1], T, env)
        variants = e[2]
        for v in variants:
            if self.key_matches(v[1], sel):
                return self.pattern(v[2], T, env)
        for v in variants:
            if v[3] == b'true':
                return self.pattern(v[2], T, env)
        self.error(b'MissingDefault')
        return b''

    def key_matches(self, key, sel):
        if key[0] == b'id':
            if sel[0] == 'str':
                return key[1] == sel[1]
            if sel[0] == 'num' and key[1] in PLURAL:
                return plural_category(sel, self.locale) == key[1]
            return False
        kv = number_literal(key[1])
        if kv[0] == 'num' and sel[0] == 'num':
            return kv[1] == sel[1]                      # by VALUE
        if kv[0] == 'str':
            raise Undecided('number key that is not a number')
        return False

    def variable(self, env, id_):
        scope = env if env is not None else (self.args or {})
        return scope.get(id_)

    def call_args(self, a, T, env):
        """positional values, named (name, value) pairs sorted by name (the callee gets a keyed map)"""
        pos = [self.value(i, T, env) for i in a[1]]
        named = {}
        for n in a[2]:
            named[n[1]] = self.value(n[2], T, env)
        return pos, sorted(named.items())

    def expand(self, ref, target, T, env):
        """target: ('found', pattern, name) | ('unknown',) | ('novalue', id)"""
        if target[0] == 'found':
            q, name = target[1], target[2]
            if any(name == t[0] for t in T):
                self.error(b'Cyclic')
                return b'{' + source_form(ref) + b'}'
            return self.pattern(q, ((name, q),) + T, env)
        if target[0] == 'novalue':
            self.error([b'NoValue', target[1]])
        else:
            kind = b'Message' if ref[0] == b'mref' else b'Term'
            self.error([b'Reference', [kind, ref[1], ref[2] if ref[2] == b'none' else [b'some', ref[2][1]]]])
        return b'{' + source_form(ref) + b'}'

    def target(self, entry, attr, id_):
        if entry is None:
            return ('unknown',)
        if attr is not None:
            q = attribute(entry[2], attr)
            return ('found', q, (entry[0], id_, attr)) if q is not None else ('unknown',)
        if entry[1] is None:
            return ('novalue', id_)
        return ('found', entry[1], (entry[0], id_, None))

    def function_call(self, i, T, env):
        """-> value or None when the function is unknown (reported, after its arguments)"""
        pos, named = self.call_args(i[2], T, env)
        if self.b.function(i[1]) is None:
            self.error([b'Reference', [b'Function', i[1]]])
            return None
        self.calls.append((i[1], pos, named))
        return self.functions(i[1], pos, named)

    def inline(self, i, T, env):
        k = i[0]
        if k == b'str':
            return unescape(i[1])
        if k == b'num':
            return self.print(number_literal(i[1]))
        if k == b'vref':
            v = self.variable(env, i[1])
            if v is not None:
                return self.print(v)
            if env is None:
                self.error([b'Reference', [b'Variable', i[1]]])
            return b'{$' + i[1] + b'}'
        if k == b'mref':
            return self.expand(i, self.target(self.b.message(i[1]), opt(i[2]), i[1]), T, env)
        if k == b'tref':
            a = opt(i[3])
            named = []
            if a is not None:
                _pos, named = self.call_args(a, T, env)
            return self.expand(i, self.target(self.b.term(i[1]), opt(i[2]), i[1]), T, dict(named))
        if k == b'fn':
            v = self.function_call(i, T, env)
            if v is None:
                return b'{' + i[1] + b'()}'
            if v[0] == 'error':
                return i[1] + b'()'
            return self.print(v)
        if k == b'pl':
            return self.expr(i[1], T, env)
        raise ValueError(i)

    def value(self, i, T, env):
        k = i[0]
        if k == b'str':
            return ('str', unescape(i[1]))
        if k == b'num':
            return number_literal(i[1])
        if k == b'vref':
            v = self.variable(env, i[1])
            if v is not None:
                return v
            if env is None:
                self.error([b'Reference', [b'Variable', i[1]]])
            return ('error',)
        if k == b'fn':
            v = self.function_call(i, T, env)
            return ('error',) if v is None else v
        return ('str', self.inline(i, T, env))


def decode_value(x):
    """argument value of a case -> Value"""
    if isinstance(x, list):
        t = x[0]
        if t == b'conv':
            return decode_value(x[2])
        if t == b'str':
            return ('str', x[2])
        if t == b'mnum':
            text = x[1].decode()
            o = x[2]
            mfd = None if o[6] == b'none' else o[6][1]
            return ('num', float(text), text, {'type': o[0], 'mfd': mfd})
        if t == b'custom':
            return ('custom', x[1])
    if x == b'none':
        return ('none',)
    return ('error',)


def project_value(v):
    """a value as it appears in the invocation log, without number options"""
    if isinstance(v, list):
        if v[0] == b'str':
            return ('str', v[1])
        if v[0] == b'num':
            return ('num', v[1].decode())
        if v[0] == b'custom':
            return ('custom', v[1])
    return (v.decode(),) if isinstance(v, bytes) else ('?',)


def own_value(v):
    if v[0] == 'num':
        return ('num', v[2])
    return v


def strip_marks(b):
    return b.replace(FSI, b'').replace(PDI, b'')

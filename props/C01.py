"""C01 — Parsing is total.  Model: coq/theories/Syntax/ParserModel.v; theorems: Props/C01.v."""
import sexp
import synprops

ID = 'C01'
PROPS_FILE = 'theories/Props/C01.v'
PROPS_MODULE = 'Props.C01'
COQ_TARGETS = ['theories/Extract/ExtractSyntax.vo']
REQUIRED_THEOREMS = ['C01_no_panic', 'C01_no_panic_runtime', 'C01_parse_total', 'C01_parse_runtime_total', 'C01_fuel_linear', 'C01_byte_classes_from_source']
MODEL = 'syn'
HARNESS_BINS = ['syn_run']
RELEASE_TOO = True
ISOLATED = ('deep-nesting',)
ANCHORS = ['fluent-syntax/src/parser/mod.rs', 'fluent-syntax/src/parser/core.rs', 'fluent-syntax/src/parser/runtime.rs',
           'fluent-syntax/src/parser/helper.rs', 'fluent-syntax/src/parser/expression.rs', 'fluent-syntax/src/parser/pattern.rs',
           'fluent-syntax/src/parser/comment.rs', 'fluent-syntax/src/parser/slice.rs']
TRUSTED = [
    'modelled, not verified: Rust str slicing / is_char_boundary (Base/Utf8.v slice), trim_end_matches, memchr3, Vec; '
    'usize arithmetic as nat with explicit underflow panics',
    'the two Slice instantiations (&str, String) are one model function; their agreement is checked on the real parser by the '
    'correspondence/oracle only',
]
ASSUMPTIONS = ['input is valid UTF-8 (Rust str)']
PARTIAL = ('stack exhaustion is outside the model: the model proves termination with recursion depth linear in the input, the real '
           'stack is probed by the deep-nesting generator (known finding D2: unbounded recursive descent aborts at large nesting depth)')
RULE = ('parse_all cases (full and runtime parser, &str and String) over: witnesses, repo fixtures, exhaustive token strings over a '
        '24-token alphabet, random token strings, token-mutated fixtures/structured resources, grammar-directed resources, and deep '
        'nesting probes; non-trivial = output contains a message or term; distinct by implementation output')


def generate(rng, tier):
    for b in synprops.standard_batches(rng, tier):
        yield b
    depths = [10, 50, 200] if tier == 'quick' else [10, 50, 200, 400, 1000, 5000, 20000, 100000]
    deep = []
    for d in depths:
        deep.append(synprops.case(b'a = ' + b'{' * d + b' x ' + b'}' * d))
        deep.append(synprops.case(b'a = { ' + b'A(' * d + b'1' + b')' * d + b' }'))
        deep.append(synprops.case(b'a = ' + b'{' * d))
    yield ('deep-nesting', deep)


def nesting_depth(case):
    t = synprops.case_text(case)
    return t.count(b'{') + t.count(b'(')


def oracle(case, out):
    tag, res = synprops.parse_out(out)
    if tag != 'ok':
        return 'parser did not return (%s): %s' % (tag, out[:160])
    same = sexp.loads(out)[6]
    if same[1] != b'true':
        return 'full parser: borrowed and owned input disagree'
    if same[2] != b'true':
        return 'runtime parser: borrowed and owned input disagree'
    return None


def release_agrees(case, dbg, rel):
    return dbg == rel


def classify(case, why):
    # D2: stack overflow abort at very deep nesting (SIGSEGV/SIGABRT -> CRASH -11 / -6)
    if 'CRASH' in why and ('CRASH -11' in why or 'CRASH -6' in why or 'CRASH 134' in why or 'CRASH 139' in why):
        if nesting_depth(case) >= 1000:
            return 'D2'
    return None


def nontrivial(case, out):
    return out if ('(msg ' in out or '(term ' in out) else None


MANIFEST = {
    'text': 'Rocq theorems about the Gallina transliteration of the whole parser (ParserModel.v): for EVERY valid UTF-8 input both '
            'entry loops return Done at fuel 8*len+16 (no slice panic, no underflow, no unreachable, termination with linear '
            'recursion depth). Tied to the code by running the extracted model and the real parser (both parsers, &str and String, '
            'debug and release) on the same inputs and comparing complete trees and error lists.',
    'note': 'Trusted: Coq kernel; extraction; Base/Utf8.v as the semantics of str slicing; one model for both Slice instantiations. '
            'PARTIAL: real stack depth is outside the model (probed by deep-nesting cases; known finding D2).',
    'technique': 'Rocq proof (invariant: ptr <= len and every slice bound on a char boundary; fuel/termination measure) + '
                 'differential correspondence check + crash probing in child processes',
    'design_ref': 'DESIGN.md §4 C01',
}

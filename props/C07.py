"""C07 — Resolved text and reported errors follow Fluent semantics.
Specification: coq/theories/Bundle/ResolverSpec.v (big-step relation `Eval`); refinement proof of the resolver model
(Bundle/ResolverModel.v) against it: Bundle/ResolverRefine.v; theorems: Props/C07.v.
Rust side: harness/src/bin/bundle_run.rs (generated cases) and harness/src/bin/c07_run.rs (the repository's own
resolver fixtures with their function table); model side: Extract/ExtractC07.v (delegates `fmt` cases to ExtractC06).
Oracle: props/c07_spec.py — an independent Python resolver written from the property text — compared with the real
output: text, the sequence of errors, the arguments received by the registered functions."""
import hashlib
import itertools
import os
import sys

sys.path.insert(0, os.path.dirname(os.path.abspath(__file__)))
import engine  # noqa: E402
import sexp  # noqa: E402
import resolver_gen as G  # noqa: E402
import c07_spec as S  # noqa: E402
import c07_fixtures as F  # noqa: E402

ID = 'C07'
PROPS_FILE = 'theories/Props/C07.v'
PROPS_MODULE = 'Props.C07'
COQ_TARGETS = ['theories/Extract/ExtractC07.vo']
REQUIRED_THEOREMS = ['C07_refines_partial', 'C07_refines_format_partial',
                     'C07_spec_functional', 'C07_limit_reported_once',
                     'C07_term_args_scoped', 'C07_unknown_reference_once', 'C07_unknown_reference_once_model',
                     'C07_unknown_function_reported', 'C07_select_first_match',
                     'C07_refines_all_runs', 'C07_refines_format_all_runs', 'C07_budget_conservative', 'C07_budget_total',
                     'C07_limit_run_errors', 'C07_after_limit', 'C07_refines_below_limit']
MODEL = 'c07'
HARNESS_BINS = ['bundle_run', 'c07_run', 'syn_run']
RELEASE_TOO = False
ANCHORS = ['fluent-bundle/src/resolver/pattern.rs', 'fluent-bundle/src/resolver/expression.rs',
           'fluent-bundle/src/resolver/inline_expression.rs', 'fluent-bundle/src/resolver/scope.rs',
           'fluent-bundle/src/resolver/errors.rs', 'fluent-bundle/src/types/mod.rs', 'fluent-bundle/src/builtins.rs',
           'fluent-bundle/src/entry.rs']
TRUSTED = [
    'the specification itself (Bundle/ResolverSpec.v, ~30 rules) is what a reviewer must read; it is tied to the maintainers\' reading of '
    'Fluent by running the repository\'s 16 resolver fixture files (fluent-bundle/tests/fixtures/*.yaml, every non-skipped assert) through '
    'the extracted model and the real bundle, and to the property text by an independent Python resolver (props/c07_spec.py)',
    'the resolver model (Bundle/ResolverModel.v) is a hand transliteration validated by the correspondence run (see C06)',
    'data-level definitions shared by model and specification: the AST, FluentValue/FluentNumber/NUMBER/plural operands (Number.v, C12), '
    'the bundle as an association id -> entry with first registration winning (C10), FluentArgs as a keyed map (C11); the identity of a pattern '
    'object of the bundle is its place (term?, id, attribute) in the model and its name in the specification',
    'external code as parameters: registered functions, transform, formatter, CLDR rules, custom-type printing, unescape_unicode, f64::from_str',
]
ASSUMPTIONS = [
    'unescape_to_string s = unescape_write s for all s (the two forms of unescape_unicode agree: C13_writer_eq)',
    'cache_ok rules c: every plural-rules object in the bundle\'s memoizer computes what a fresh one computes (C08/C14 invariant)',
    'no_marks_in_values (only when use_isolating): no selector / call argument is a message or term reference or a nested placeable — '
    'known finding D23 (C09); nothing is assumed with isolation off',
]
PARTIAL = ('the refinement now covers EVERY run, including runs that reach the placeable limit: a budgeted big-step semantics '
           '(Bundle/ResolverSpecLimit.v: the rules of ResolverSpec.v with the placeable counter and the dirty flag threaded, plus the limit / '
           'stopped / cut rules that mirror pattern.rs and scope.rs) is refined by the model without any premise on the reported errors '
           '(C07_refines_all_runs, C07_refines_format_all_runs); it is deterministic, total, and coincides with the un-budgeted Spec when the run '
           'ends not dirty (C07_budget_conservative, C07_budget_total); in a limit run TooManyPlaceables occurs exactly once and the errors before '
           'it are those of the unlimited evaluation (C07_limit_run_errors); what is evaluated after the limit is characterised rule by rule '
           '(C07_after_limit). Remaining premise: with isolation ON, no_marks_in_values (excludes the D23 class, a finding of C09). The format '
           'theorem is for isolation off, as before.')
RULE = ('the repository\'s resolver fixtures (all non-skipped asserts: expected value, error kinds, Display text of Reference errors) + '
        'compositional generators: term calls nested in term calls followed by variables at every level with arguments present/absent/shadowing '
        'caller arguments; messages referenced from terms; references through term attributes with arguments; every kind of missing reference '
        '(message, attribute, term, term attribute, function, variable, value-less message) at every position (top level, between text, nested '
        'placeable, selector, positional argument, variant value, attribute, inside a term, behind a message reference); selects on every value '
        'kind with every order of keys and default position (English, integers); functions recording positional and named arguments; '
        'configurations (isolation on/off, transform, number formatter, unregistered functions, concurrent flavour); the shared resolver '
        'generators of C06 (limit at every position, reference graphs, missing references, selects, random bundles); distinct = distinct outputs')
MANIFEST = {
    'text': 'Rocq: a big-step specification of Fluent resolution (Bundle/ResolverSpec.v: text verbatim after the transform; message/term/'
            'attribute references expanded, first attribute of a name; a term sees ONLY its call-site named arguments, a message the arguments '
            'of whoever refers to it; functions applied to resolved positional and named arguments; select = first variant whose key equals the '
            'selector by exact string / numeric VALUE / plural category, else the default; unknown message/term/attribute/function/variable = '
            '{source form} + exactly one Reference error, a term parameter that was not passed = same text, no error; cycle / value-less message '
            '= one error where it occurs), and theorems over ALL bundles, argument sets, patterns, transforms, formatters, function tables and '
            'both isolation settings: whenever write_pattern / format_pattern of the resolver model returns, its text, its error list (in order) and '
            'its function-invocation log are exactly those of the (budgeted) specification, for runs below AND at the placeable limit '
            '(C07_refines_all_runs, C07_refines_format_all_runs; C07_refines_partial is the corollary below the limit; induction on fuel over the 8 mutually recursive resolver functions); the '
            'specification is a function (C07_spec_functional); TooManyPlaceables is reported exactly once and iff the run was cut short '
            '(C07_limit_reported_once); regressions D12 (outer term arguments back in force: C07_term_args_scoped), D13 (unknown function '
            'reported in selector/argument position: C07_unknown_function_reported), D14 (numeric key equality by value: '
            'C07_select_first_match) as theorems with machine-checked witnesses. The model is tied to the Rust resolver by running the '
            'extracted model and the real bundle on the same cases; an independent Python resolver checks the real output.',
    'note': 'Runs that reach the placeable limit are inside the specification (budgeted semantics, ResolverSpecLimit.v). Excluded '
            'class with a recorded witness: D23 (isolation marks in selector/argument values, isolating bundles only). Trusted: Coq kernel, extraction, the hand transliteration (validated by the differential run), '
            'the specification as the reading of the property (validated by the repository\'s fixtures and the Python resolver).',
    'technique': 'Rocq proof (refinement of an executable model to a relational big-step specification, induction on fuel) + differential '
                 'correspondence check + implementation-only oracle (independent resolver in Python, maintainers\' fixtures)',
    'design_ref': 'DESIGN.md §4 C07',
}

Case = G.Case
msg = G.msg
term = G.term
v_str = G.v_str
mnum = G.mnum


# ---------------------------------------------------------------------------------------------
# the repository's fixtures

def fixture_cases():
    recs, stats = F.load(engine.REPO)
    texts = []
    for r in recs:
        texts.extend(t.encode() for t in r['resources'])
    trees = G.trees_for(texts)
    lines = []
    for r in recs:
        tr = r['transform']
        if tr not in (None, 'example'):
            stats['unusable'] += 1
            continue
        cfg = [b'cfg', b'true' if r['iso'] else b'false', (tr or 'none').encode(), b'none', [f.encode() for f in r['functions']],
               [loc.encode() for loc in r['locales']], b'single']
        res = [[b'r', t.encode(), trees[t.encode()]] for t in r['resources']]
        src = [b'src', ('%s: %s' % (r['file'], r['path'])).encode()]
        if r['kind'] == 'missing':
            lines.append(sexp.dumps([b'has', cfg, res, r['id'].encode(), [b'expect', b'true' if r['missing'] else b'false'], src]))
            continue
        args = b'none'
        if r['args'] is not None:
            args = [b'args']
            for k, v in r['args']:
                args.append([k.encode(), mnum(float(v)) if isinstance(v, (int, float)) else v_str(v.encode())])
        entry = [b'msg', r['id'].encode(), b'none' if r['attribute'] is None else [b'some', str(r['attribute']).encode()]]
        exp_err = [b'expect-errors'] + [[(t or '?').encode(), (d or '').encode()] for t, d in r['errors']]
        lines.append(sexp.dumps([b'fix', cfg, res, entry, args, [b'expect-value', r['value'].encode()], exp_err, src]))
    return lines, stats


# ---------------------------------------------------------------------------------------------
# compositional generators

def cfgs(i):
    """a rotating choice of bundle configurations"""
    table = [dict(iso=False), dict(iso=True), dict(iso=False, transform=b'upper'), dict(iso=True, formatter=b'num'),
             dict(iso=False, flavour=b'concurrent'), dict(iso=False, transform=b'brackets'), dict(iso=True, flavour=b'concurrent'),
             dict(iso=False, formatter=b'num'), dict(iso=False, formatter=b'all'), dict(iso=True, formatter=b'all'),
             dict(iso=False, formatter=b'all', transform=b'upper')]
    return table[i % len(table)]


def gen_scoping(rng, tier):
    """term calls inside term calls followed by variables: which arguments does each level see"""
    cases = []
    lit = ['"I"', '"M"', '"O"', '1', '2.50', '"\\u0041"']
    # fixed shapes
    ftl = ('-inner = i{ $a }{ $b }\n'
           '-mid = m{ $a }{ -inner(a: "I") }{ $a }{ -inner }{ $a }{ $b }\n'
           '-outer = o{ -mid(a: "M", b: 2) }{ $a }{ -inner }{ $a }\n'
           '    .attr = A{ $a }{ -mid(b: "B") }{ $a }\n'
           'm2 = [{ $a }{ -inner(b: "x") }{ $a }]\n'
           '-viam = { m2 }{ $a }\n'
           'e1 = { -outer(a: "O") }|{ $a }\n'
           'e2 = { -outer }|{ $a }\n'
           'e3 = { -outer.attr(a: "O") }{ $a }\n'
           'e4 = { -viam(a: "T") }{ m2 }\n'
           'e5 = { -outer(a: "O") }{ -outer(b: "P") }{ -outer(a: 1, b: 2) }\n'
           'e6 = { -inner(a: "1") }{ -inner(a: "2") }{ $a }{ -inner }{ $a }\n'
           'e7 = { CONCAT(-inner(a: "p"), $a, -mid(a: "q")) }{ $a }\n'
           'e8 = { -mid(a: "M") ->\n    [x] X\n   *[other] { $a }{ -inner(a: "s") }{ $a }\n }\n')
    argsets = [None, [('a', v_str(b'CA'))], [('a', v_str(b'CA')), ('b', mnum(7.0))], [('b', v_str(b'CB'))], []]
    i = 0
    for e in ('e1', 'e2', 'e3', 'e4', 'e5', 'e6', 'e7', 'e8'):
        for a in argsets:
            for k in range(2 if tier == 'quick' else 8):
                cases.append(Case([ftl], msg(e), a, **cfgs(i)))
                i += 1
    for t_ in ('inner', 'mid', 'outer', 'viam'):
        cases.append(Case([ftl], term(t_), [('a', v_str(b'CA'))], iso=False))
        cases.append(Case([ftl], term(t_), None, iso=True))
    # random chains: -t0 .. -tk, each calls deeper terms with random argument subsets and prints variables around the call
    n = 150 if tier == 'quick' else 4000
    for _ in range(n):
        depth = rng.randint(1, 5)
        lines = []
        for d in range(depth + 1):
            parts = []
            for _k in range(rng.randint(1, 5)):
                r = rng.random()
                if r < 0.35:
                    parts.append('{ $%s }' % rng.choice('abc'))
                elif r < 0.7 and d < depth:
                    tgt = rng.randint(d + 1, depth)
                    names = rng.sample('abc', rng.randint(0, 2))
                    call = ', '.join('%s: %s' % (nm, rng.choice(lit)) for nm in names)
                    attr = rng.choice(['', '', '.at'])
                    parts.append('{ -t%d%s%s }' % (tgt, attr, '(%s)' % call if names or rng.random() < 0.3 else ''))
                elif r < 0.8:
                    parts.append('{ mm }')
                elif r < 0.9:
                    parts.append('{ $a ->\n    [I] sel-I\n    [one] sel-one\n   *[other] d{ $b }\n }')
                else:
                    parts.append(rng.choice(['x', ' ', 'é', '-']))
            body = ''.join(parts)
            if body[0] in ' .[*}':
                body = 'T' + body
            lines.append('-t%d = %s\n    .at = @%d{ $a }{ $c }\n' % (d, body, d))
        lines.append('mm = <{ $a }{ $b }>\n')
        names = rng.sample('abc', rng.randint(0, 3))
        lines.append('e = { -t0%s }{ $a }{ $b }\n' % ('(%s)' % ', '.join('%s: %s' % (nm, rng.choice(lit)) for nm in names) if names else ''))
        a = None
        if rng.random() < 0.7:
            a = [(k, rng.choice([v_str(b'CA'), mnum(1.0), mnum(3.0), v_str(b'I')])) for k in rng.sample('abc', rng.randint(0, 3))]
        cases.append(Case([''.join(lines)], msg('e'), a, **cfgs(rng.randrange(8))))
    return cases


MISSING_REFS = ['missing', 'missing.attr', 'm.nope', 'novalue', 'novalue.nope', '-missing', '-missing.attr', '-t.nope', '-missing(x: 1)',
                'NOPE()', 'NOPE($nope2)', 'NOPE(missing, NOPE2())', '$nope', 'IDENTITY($nope)', 'IDENTITY(missing)', 'IDENTITY(NOPE())',
                'CONCAT($nope, missing, -missing, NOPE(), novalue)', 'm', 'm.attr', '-t', '-t.attr', 'novalue.attr', '$arg', 'FAIL()', 'NONE()']
SELECTOR_OK = ['-missing.attr', '-t.nope', 'NOPE()', 'NOPE($nope2)', '$nope', 'IDENTITY($nope)', 'IDENTITY(missing)', 'IDENTITY(NOPE())', '-t.attr',
               '$arg', 'FAIL()', 'NONE()', 'NOPE(missing, NOPE2())']


def gen_missing_positions(rng, tier):
    """every kind of missing reference at every position"""
    base = ('-t = term{ $arg }\n    .attr = tattr\nm = val\n    .attr = mattr\nnovalue =\n    .attr = q\n')
    shapes = [
        ('top', 'e = { %s }\n', 'e', None),
        ('between-text', 'e = a{ %s }b{ %s }c\n', 'e', None),
        ('nested-placeable', 'e = { { { %s } } }\n', 'e', None),
        ('positional-argument', 'e = x{ IDENTITY(%s) }y\n', 'e', None),
        ('positional-argument-2', 'e = { CONCAT("a", %s, "b", k: 1) }\n', 'e', None),
        ('nested-call', 'e = { IDENTITY(IDENTITY(%s)) }\n', 'e', None),
        ('variant-value', 'e = { $n ->\n    [one] 1{ %s }\n   *[other] o{ %s }o\n }\n', 'e', None),
        ('attribute', 'e = v\n    .attr = A{ %s }\n', 'e', 'attr'),
        ('inside-term', '-w = w{ %s }\ne = { -w(x: 1) }{ %s }\n', 'e', None),
        ('inside-term-attr', '-w = w\n    .a = wa{ %s }\ne = { -w.a }\n', 'e', None),
        ('behind-message', 'f = f{ %s }\ne = <{ f }>\n', 'e', None),
        ('behind-message-attr', 'f = f\n    .a = fa{ %s }\ne = <{ f.a }>\n', 'e', None),
        ('term-argument-site', '-w = w{ $p }\ne = { -w(p: "x") }{ %s }{ -w }\n', 'e', None),
    ]
    cases = []
    i = 0
    for r in MISSING_REFS:
        for (_nm, shape, ent, attr) in shapes:
            if ('(%s)' in shape or '%s,' in shape) and r in ('m.attr', 'missing.attr', 'm.nope', 'novalue.nope', 'novalue.attr'):
                pass      # message attributes are legal call arguments
            ftl = base + shape.replace('%s', r)
            for a in ([('arg', v_str(b'A')), ('n', mnum(1.0))], [('n', mnum(5.0))]) if tier != 'quick' or i % 3 == 0 else ([('arg', v_str(b'A')), ('n', mnum(1.0))],):
                cases.append(Case([ftl], msg(ent, attr), a, **cfgs(i)))
            i += 1
    for r in SELECTOR_OK:
        for body in ('    [one] One\n    [tattr] Tattr\n   *[other] Other{ %s }\n' % r, '   *[x] X\n    [A] AA\n'):
            ftl = base + 'e = s{ %s ->\n%s }e\n-w = { %s ->\n%s }\nf = { -w(arg: "A") }\n' % (r, body, r, body)
            for ent in ('e', 'f'):
                for a in (None, [('arg', v_str(b'A'))]):
                    cases.append(Case([ftl], msg(ent), a, **cfgs(i)))
                    i += 1
    # unregistered functions: every function reference is unknown
    for r in ('NUMBER(1)', 'IDENTITY("x")', 'CONCAT(NUMBER(1), IDENTITY(2))'):
        ftl = 'e = { %s }{ %s ->\n   *[a] A\n }\n' % (r, r)
        cases.append(Case([ftl], msg('e'), None, funcs=[], iso=False))
        cases.append(Case([ftl], msg('e'), None, funcs=[b'IDENTITY'], iso=True))
    return cases


SEL_KEYS = ['[one] One', '[1] Exact1', '[other] Other', '[str] Str', '[2] Exact2', '[two] Two', '[few] Few', '[1.0] Exact10']


def gen_selects(rng, tier):
    """selects on each value kind with keys in every order and the default at every position (English, integers)"""
    cases = []
    sels = [('$n', None), ('NUMBER($n)', None), ('NUMBER($n, type: "ordinal")', None), ('IDENTITY($n)', None), ('1', None), ('2', None),
            ('"str"', None), ('"one"', None), ('NUM()', None), ('NUM(1)', None), ('NUM(1, 2)', None), ('FAIL()', None), ('NONE()', None),
            ('CUSTOM("c")', None), ('CONCAT("s", "tr")', None), ('$missing', None), ('1.0', None), ('5', None), ('-t.k', None)]
    vals = [mnum(float(x)) for x in (0, 1, 2, 3, 5, 11, 12, 21, 22, 23, 101, 111)] + \
        [mnum(1.0, G.opts(ty=b'ordinal')), mnum(2.0, G.opts(ty=b'ordinal')), mnum(3.0, G.opts(ty=b'ordinal'))] + \
        [v_str(x) for x in (b'str', b'one', b'other', b'1', b'', b'two')] + [b'none', b'error', [b'custom', b'c1']] + \
        [G.v_int(b'u8', 1), G.v_int(b'i64', -1), G.v_f64(2.0)]
    perms = []
    for k in (2, 3, 4):
        for combo in itertools.combinations(SEL_KEYS, k):
            for perm in itertools.permutations(combo):
                for d in range(k):
                    perms.append((perm, d))
    rng.shuffle(perms)
    take = perms[:400 if tier == 'quick' else 12000]
    i = 0
    for perm, d in take:
        body = ''.join('   %s%s{ $n }\n' % ('*' if j == d else ' ', key) if j % 2 else '   %s%s\n' % ('*' if j == d else ' ', key) for j, key in enumerate(perm))
        sel, _ = sels[i % len(sels)]
        ftl = '-t = t\n    .k = str\ne = <{ %s ->\n%s }>\n' % (sel, body)
        for v in rng.sample(vals, 2 if tier == 'quick' else 4):
            cases.append(Case([ftl], msg('e'), [('n', v)], locales=[rng.choice([b'en', b'en-US', b'en-GB'])], **cfgs(i)))
        i += 1
    # several selects in one pattern, a select inside a variant, and inside a term with its own argument
    ftl = ('-pick = { $n ->\n    [1] t-exact\n    [one] t-one\n   *[other] t-other{ $n }\n }\n'
           'e = { $n ->\n    [one] a{ $m ->\n        [2] inner2\n       *[other] inner-o\n    }b\n   *[other] c\n }{ -pick(n: 1) }{ -pick(n: 2) }{ -pick }\n')
    for n in (1.0, 2.0, 5.0):
        for m_ in (1.0, 2.0):
            cases.append(Case([ftl], msg('e'), [('n', mnum(n)), ('m', mnum(m_))], iso=n == 1.0))
    return cases


def gen_special_identifier_keys(rng, tier):
    """identifier variant keys that LOOK like float specials (inf, infinity, nan in any case): they are identifiers, matched as strings"""
    cases = []
    keys = ['inf', 'nan', 'infinity', 'Infinity', 'NaN', 'INF', 'e', 'E1', 'x1e3', 'other', 'one']
    svals = [b'inf', b'nan', b'infinity', b'Infinity', b'NaN', b'INF', b'other', b'x', b'1']
    i = 0
    for k in (2, 3):
        for combo in itertools.combinations(keys, k):
            for d in range(k):
                body = ''.join('   %s[%s] K-%s\n' % ('*' if j == d else ' ', key, key) for j, key in enumerate(combo))
                ftl = 'e = <{ $n ->\n%s }>\n-t = { $level ->\n%s }\nf = { -t(level: "%s") }\n' % (body, body.replace('K-', 'T-'), combo[0])
                vals = [v_str(x) for x in rng.sample(svals, 3)] + [G.v_f64(float('inf')), G.v_f64(float('nan')), mnum(1.0)]
                for v in (vals if tier != 'quick' else rng.sample(vals, 2)):
                    cases.append(Case([ftl], msg('e'), [('n', v)], locales=[b'en'], **cfgs(i)))
                cases.append(Case([ftl], msg('f'), [], locales=[b'en'], **cfgs(i)))
                i += 1
    rng.shuffle(cases)
    return cases[:600 if tier == 'quick' else 20000]


def gen_functions(rng, tier):
    """registered functions record what they receive: resolved positional and named arguments, in order"""
    base = 'm = M{ $a }\n    .at = MA\n-t = T{ $x }\n    .at = TA{ $x }\n'
    exprs = ['CONCAT($a, 1, "s", x: 1, y: "s")', 'CONCAT("s", y: "s", x: 2.50)', 'IDENTITY(CONCAT(IDENTITY($a), $b))', 'CONCAT(m, m.at, -t, -t.at, -t(x: 1))',
             'CONCAT(NUMBER($n, minimumFractionDigits: 2), NUMBER($n, type: "ordinal"))', 'NUM($a, $b, $zz)', 'COUNT(k: "v")', 'CUSTOM($a)',
             'IDENTITY(CUSTOM("p"))', 'CONCAT(FAIL(), NONE(), CUSTOM("q"), $zz)', 'NUMBER($a)', 'NUMBER($n, bogus: "b")', 'NUMBER()',
             'CONCAT(z: 1, a: 2, m: 3)', 'IDENTITY({ $a })', 'CONCAT({ "lit" }, { 1 }, { m })', 'NOPE($a, k: 1)', 'IDENTITY(NUMBER(1.50))',
             'CONCAT("\\u0041\\\\", "\\"q")', 'IDENTITY($n)', 'IDENTITY(1.50)', 'CONCAT(1.0, 01, -0)']
    cases = []
    i = 0
    argsets = [[('a', v_str(b'A')), ('b', mnum(2.0)), ('n', mnum(1.0))], [('n', mnum(21.0))], None]
    for ex in exprs:
        for shape in ('e = { %s }\n', 'e = a{ %s }b{ %s }\n', 'e = { %s ->\n    [A] isA\n    [one] isOne\n   *[other] dflt\n }\n',
                      '-w = { %s }\ne = { -w(a: "TA", n: 5) }\n'):
            ftl = base + shape.replace('%s', ex)
            for a in argsets if tier != 'quick' else argsets[:2]:
                cases.append(Case([ftl], msg('e'), a, **cfgs(i)))
                i += 1
    return cases


def gen_attributes(rng, tier):
    """attribute lookup takes the FIRST attribute of a name; value vs attribute; terms with attributes and arguments"""
    ftl = ('m = V\n    .a = first\n    .b = B{ m.a }\n    .a = second\n'
           '-t = TV{ $x }\n    .a = TA1{ $x }\n    .a = TA2\n    .c = { -t.a(x: "in") }{ $x }\n'
           'e1 = { m }{ m.a }{ m.b }{ m.c }\n'
           'e2 = { -t }{ -t.a }{ -t.a(x: 1) }{ -t.c(x: "out") }{ -t.zz }\n'
           'e3 = { -t.a(x: "k") ->\n    [TA1k] hit\n   *[other] miss\n }\n')
    cases = []
    for e in ('e1', 'e2', 'e3'):
        for iso in (False, True):
            cases.append(Case([ftl], msg(e), [('x', v_str(b'CX'))], iso=iso))
    cases.append(Case([ftl], msg('m', 'a'), None, iso=False))
    cases.append(Case([ftl], msg('m', 'b'), None, iso=False))
    cases.append(Case([ftl], term('t', 'c'), [('x', v_str(b'CX'))], iso=False))
    return cases


def witnesses():
    """D12 / D13 / D14 as recorded in known_findings.json, and the corners of the specification"""
    cs = []
    d12 = '-inner = x\n-outer = { -inner } { $arg }\nmsg = { -outer(arg: "A") }\n'
    cs.append(Case([d12], msg('msg'), None, iso=False))
    cs.append(Case([d12], msg('msg'), [('arg', v_str(b'CALLER'))], iso=False))
    cs.append(Case([d12], msg('msg'), [('arg', v_str(b'CALLER'))], iso=True))
    d13 = 'e = { NOPE() ->\n    [a] A\n   *[b] B\n }\nf = { NUMBER(NOPE()) }\n'
    cs.append(Case([d13], msg('e'), None, iso=False))
    cs.append(Case([d13], msg('f'), None, iso=False))
    d14 = 'e = { NUMBER($n, type: "ordinal") ->\n    [1] first\n   *[other] nth\n }\nf = { 1.0 ->\n    [1] A\n   *[other] B\n }\n'
    cs.append(Case([d14], msg('e'), [('n', mnum(1.0))], iso=False))
    cs.append(Case([d14], msg('f'), None, iso=False))
    # corners: function answering Error / None, cycle, value-less message, term positional arguments, key space
    cs.append(Case(['e = a{ FAIL() }b{ NONE() }c{ IDENTITY(FAIL()) }d\n'], msg('e'), None, iso=False))
    cs.append(Case(['a = <{ b }>\nb = [{ a }]\ne = { a }{ b }\n'], msg('e'), None, iso=False))
    cs.append(Case(['nv =\n    .x = X\ne = { nv }{ nv.x }{ nv.y }\n'], msg('e'), None, iso=False))
    cs.append(Case(['-t = t{ $a }\ne = { -t($zz, NOPE(), a: 1) }\n'], msg('e'), None, iso=False))
    cs.append(Case(['t = message\n-t = term\ne = { t }{ -t }\n'], msg('e'), None, iso=False))
    cs.append(Case(['e = { $n ->\n    [one] cat\n    [1] exact\n   *[other] dflt\n }{ $n ->\n    [1] exact\n    [one] cat\n   *[other] dflt\n }\n'], msg('e'),
                   [('n', mnum(1.0))], iso=False))
    return cs


FALSE_CYCLE = ('-a = { $k ->\n    [1] { -b(k: 2) }\n   *[other] end\n }\n'
               '-b = { $k ->\n    [1] { -b(k: 2) }\n   *[other] end\n }\n'
               'e = { -a(k: 1) }\nf = { -b(k: 2) }\ng = { -b(k: 1) }\n')


def gen_false_cycle(rng, tier):
    """different entries with the SAME pattern text, one referring to the other conditionally: no cycle (regression of
    D31: Scope::track compared patterns structurally)."""
    cs = [Case([FALSE_CYCLE], msg(e), None, iso=False) for e in ('e', 'f', 'g')]
    for sel, a in (('$k', None), ('NUMBER($k)', None)):
        body = '{ %s ->\n    [1] x{ -t2(k: 2) }y\n    [2] two\n   *[other] end\n }' % sel
        ftl = '-t1 = %s\n-t2 = %s\n-t3 = %s\ne = <{ -t1(k: 1) }|{ -t3(k: 1) }|{ -t2(k: 1) }>\n' % (body, body, body)
        cs.append(Case([ftl], msg('e'), a, iso=False))
    return cs


def only_english(cases):
    for c in cases:
        c.cfg[5] = [b'en']
    return cases


def generate(rng, tier):
    lines, _stats = fixture_cases()
    yield ('fixtures-repo-yaml', lines)
    yield ('term-argument-scoping', G.render(gen_scoping(rng, tier)))
    yield ('missing-reference-at-every-position', G.render(gen_missing_positions(rng, tier)))
    yield ('selects-every-key-order', G.render(gen_selects(rng, tier)))
    yield ('selects-identifier-keys-like-float-specials', G.render(gen_special_identifier_keys(rng, tier)))
    yield ('functions-record-arguments', G.render(gen_functions(rng, tier) + gen_attributes(rng, tier) + witnesses()))
    yield ('equal-patterns-no-cycle', G.render(gen_false_cycle(rng, tier)))
    # the shared resolver generators (C06): the oracle decides what it can (English plurals, plain numbers) and skips the rest
    yield ('shared-missing-references', G.render(G.gen_missing(rng, tier)))
    yield ('shared-reference-graphs', G.render(G.gen_graphs(rng, 'quick')))
    yield ('shared-limit-at-every-position', G.render(G.gen_limit_positions(rng, 'quick')[::3 if tier == 'quick' else 1]))
    # number literals in every spelling (leading zeros, trailing zeros, signs) as placeables, arguments and selectors, with and without a formatter
    yield ('shared-numbers-english', G.render(only_english(G.gen_numbers(rng, 'quick'))))
    n = 1500 if tier == 'quick' else 40000
    yield ('shared-random-bundles-english', G.render(only_english(G.gen_random(rng, n, allow_ref_resolve=True, formatters=(b'none', b'none', b'num')))))


def harness_for(name):
    return 'c07_run' if name.startswith('fixtures') else 'bundle_run'


project = G.project


# ---------------------------------------------------------------------------------------------
# the oracle

STATS = {'decided': 0, 'undecided': 0, 'limit': 0, 'fixture_asserts_checked': 0}


def display_error(e):
    """Display text of a resolver error as errors.rs prints it (the fixtures quote it for Reference errors)"""
    t = sexp.tag(e)
    if t == 'Reference':
        k = e[1]
        kt = sexp.tag(k)
        if kt == 'Function':
            return 'Unknown function: %s()' % k[1].decode()
        if kt == 'Variable':
            return 'Unknown variable: $%s' % k[1].decode()
        at = S.opt(k[2])
        dash = '-' if kt == 'Term' else ''
        if at is None:
            return 'Unknown %s: %s%s' % ('term' if kt == 'Term' else 'message', dash, k[1].decode())
        return 'Unknown attribute: %s%s.%s' % (dash, k[1].decode(), at.decode())
    if t == 'NoValue':
        return 'No value: %s' % e[1].decode()
    return t


def build_resolver(c, fixture):
    cfg = c[1]
    b = S.Bundle()
    if fixture:
        for f in cfg[4]:
            b.add_function(f)
        for r in c[2]:
            b.add_resource_tree(r[2])
    else:
        for r in c[2]:
            b.add_resource_tree(r[2])
        for f in cfg[4]:
            b.add_function(f)
    a = None
    if c[4] != b'none':
        a = {}
        for kv in c[4][1:]:
            a[kv[0]] = S.decode_value(kv[1])
    return S.Resolver(b, a, transform=cfg[2] if cfg[2] != b'none' else None, formatter=cfg[3],
                      locale=cfg[5][0] if cfg[5] else b'en', functions=S.fixture_function if fixture else S.bundle_run_function), b


def pick(bundle, all_trees, entry):
    kind, id_, at = entry[0], entry[1], S.opt(entry[2])
    if kind == b'msg':
        e = bundle.message(id_)
        if e is None:
            return None
        return S.attribute(e[2], at) if at is not None else e[1]
    for tree in all_trees:                      # harness: the first Term node with that id in any resource
        for e in tree[1:]:
            if isinstance(e, list) and e and e[0] == b'term' and e[1] == id_:
                return S.attribute(e[3], at) if at is not None else e[2]
    return None


def expected(c, fixture):
    """-> ('ok', text, errors, calls) | ('limit', errors so far) | ('undecided', why) | ('missing',)"""
    r, b = build_resolver(c, fixture)
    p = pick(b, [x[2] for x in c[2]], c[3])
    if p is None:
        return ('missing',)
    entry = c[3]
    name = ('msg' if entry[0] == b'msg' else 'term', entry[1], S.opt(entry[2]))
    try:
        text = r.format(p, name)
    except S.Limit:
        return ('limit', r.errors)
    except S.Undecided as e:
        return ('undecided', str(e))
    except RecursionError:
        return ('undecided', 'recursion')
    return ('ok', text, r.errors, r.calls)


def compare_run(what, exp, text, errs, strip):
    if exp[0] == 'limit':
        names = G.err_names(errs)
        n = names.count('TooManyPlaceables')
        if n != 1:
            return '%s: the placeable limit is exceeded, TooManyPlaceables reported %d times (errors %s)' % (what, n, names[:8])
        k = names.index('TooManyPlaceables')
        if errs[:k] != exp[1]:
            return '%s: errors reported before the limit tripped are %s, expected %s' % (what, [sexp.dumps(e) for e in errs[:k]][:6],
                                                                                          [sexp.dumps(e) for e in exp[1]][:6])
        return None
    t = S.strip_marks(text) if strip else text
    if t != exp[1]:
        return '%s: text %r, the resolution rules give %r' % (what, t[:120], exp[1][:120])
    if errs != exp[2]:
        return '%s: errors %s, the resolution rules give %s' % (what, [sexp.dumps(e) for e in errs][:6], [sexp.dumps(e) for e in exp[2]][:6])
    return None


def compare_calls(exp, calls):
    mine = [(c[0], [S.own_value(v) for v in c[1]], [(k, S.own_value(v)) for k, v in c[2]]) for c in exp[3]]
    theirs = [(c[1], [S.project_value(v) for v in c[2]], [(kv[0], S.project_value(kv[1])) for kv in c[3]]) for c in calls]
    if mine != theirs:
        for i, (a, b_) in enumerate(zip(mine + [None] * len(theirs), theirs + [None] * len(mine))):
            if a != b_:
                return 'registered functions: invocation %d is %r, the resolution rules give %r (%d vs %d invocations)' % (
                    i, b_, a, len(theirs), len(mine))
    return None


def oracle(case, out):
    c = sexp.loads(case)
    head = c[0]
    if head in (b'fix', b'has') and 'unknown case' in out:
        # `./check C07 --replay` runs every case on the first harness bin; fixture cases belong to c07_run
        out = engine.run_one(engine.harness_bin('c07_run'), case)
    if head == b'has':
        o = sexp.loads(out)
        exp = None
        for x in c[4:]:
            if isinstance(x, list) and x and x[0] == b'expect':
                exp = x[1]
        if sexp.tag(o) != 'has':
            return 'has-case: unexpected output ' + out[:100]
        # the fixture field is `missing`: true = no such message
        STATS['fixture_asserts_checked'] += 1
        if (o[1] == b'false') != (exp == b'true'):
            return 'fixture %s: missing=%s expected for %r, has_message says %s' % (_src(c), exp.decode(), c[3], o[1].decode())
        return None
    r = G.parse_out(out)
    if r[0] == 'panic':
        return 'formatting panicked / crashed: ' + r[1]
    if r[0] == 'timeout':
        return 'formatting did not return within the time limit'
    if r[0] == 'bad':
        return 'unparseable implementation output: ' + r[1]
    if r[0] == 'skipped':
        return None
    fixture = head == b'fix'
    if r[0] == 'missing':
        if fixture:
            return 'fixture %s: the message / attribute to format does not exist' % _src(c)
        return None
    core = r[1]
    cfg = c[1]
    iso = cfg[1] == b'true'
    if fixture:
        # 1. the maintainers' expectation, verbatim
        want_v, want_e = None, []
        for x in c[5:]:
            if isinstance(x, list) and x and x[0] == b'expect-value':
                want_v = x[1]
            if isinstance(x, list) and x and x[0] == b'expect-errors':
                want_e = x[1:]
        STATS['fixture_asserts_checked'] += 1
        for which in ('fmt', 'wrt'):
            text, errs = core[which]
            if text != want_v:
                return 'fixture %s: %s gives %r, the fixture expects %r' % (_src(c), which, text[:120], want_v[:120])
            got = [(sexp.tag(e), display_error(e)) for e in errs]
            if len(got) != len(want_e):
                return 'fixture %s: %s reports %s, the fixture expects %s' % (_src(c), which, [g[1] for g in got], [w[0].decode() for w in want_e])
            for (gt, gd), w in zip(got, want_e):
                if gt != w[0].decode() or (gt == 'Reference' and w[1] != b'' and gd != w[1].decode()):
                    return 'fixture %s: %s reports %r, the fixture expects %s %r' % (_src(c), which, gd, w[0].decode(), w[1].decode())
    # 2. the independent resolver
    exp = expected(c, fixture)
    if exp[0] == 'undecided' or exp[0] == 'missing':
        STATS['undecided'] += 1
        return None
    STATS['limit' if exp[0] == 'limit' else 'decided'] += 1
    d23 = iso and G.resolve_position_refs(c[2])
    string_formatter = False                                    # D22 (format_pattern ran the formatter on the whole result) is fixed
    runs = []
    if fixture:
        if not d23:
            runs = [('write_pattern', core['wrt'], True)] + ([] if string_formatter else [('format_pattern', core['fmt'], True)])
    else:
        if not d23:
            runs.append(('write_pattern', core['wrt'], True))
            if not string_formatter:
                runs.append(('format_pattern', core['fmt'], True))
        if not string_formatter:
            # the bundle with isolation flipped: when the case isolates, this is the non-isolating run
            if iso or not G.resolve_position_refs(c[2]):
                runs.append(('format_pattern (isolation %s)' % ('off' if iso else 'on'), core['alt'], True))
    for what, (text, errs), strip in runs:
        why = compare_run(what, exp, text, errs, strip)
        if why is not None:
            return why
    if exp[0] == 'ok' and not d23 and not string_formatter:
        why = compare_calls(exp, core['calls'])
        if why is not None:
            return why
    return None


def _src(c):
    for x in c[4:]:
        if isinstance(x, list) and x and x[0] == b'src':
            return x[1].decode('utf-8', 'replace')
    return '?'


def nontrivial(case, out):
    r = G.parse_out(out)
    if r[0] != 'ok':
        if out.startswith('(has'):
            return hashlib.sha1((case[:4000] + out).encode()).digest()[:8]
        return None
    return hashlib.sha1(G.project(out).encode()).digest()[:8]


if __name__ == '__main__':
    if '--write-corpus' in sys.argv:
        engine.build_harness(['syn_run'])
        d = os.path.join(engine.ROOT, 'corpus', 'C07')
        os.makedirs(d, exist_ok=True)
        with open(os.path.join(d, 'witnesses.case'), 'w') as f:
            f.write('; D12 / D13 / D14 witnesses of known_findings.json and the corners of Bundle/ResolverSpec.v; written by props/C07.py --write-corpus\n')
            for line in G.render(witnesses()):
                f.write(line + '\n')
        with open(os.path.join(d, 'false_cycle.case'), 'w') as f:
            f.write('; D31 (fixed by 2e7cfb6) regression: two different terms with the same pattern text; -a(k: 1) refers to -b(k: 2), which is not being\n'
                    '; expanded and prints "end" (Scope::track compared patterns structurally: {-b} + Cyclic).  Props/C07.v C07_example_equal_patterns_no_cycle.\n')
            for line in G.render(gen_false_cycle(None, 'quick')[:3]):
                f.write(line + '\n')
        print('written', os.path.join(d, 'witnesses.case'))
    if '--fixtures' in sys.argv:
        lines, stats = fixture_cases()
        print(stats, len(lines))

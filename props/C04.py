"""C04 — Serializer round trip: serialize then parse gives the same tree; output is a fixed point."""
import itertools
import sexp
import synprops
import ftlgen

ID = 'C04'
PROPS_FILE = 'theories/Props/C04.v'
PROPS_MODULE = 'Props.C04'
COQ_TARGETS = ['theories/Extract/ExtractSyntax.vo']
REQUIRED_THEOREMS = ['C04_serialize_total', 'C04_indent_balanced', 'C04_output_extends', 'C04_junk_verbatim', 'C04_junk_skipped', 'C04_comment_lines', 'C04_roundtrip_simple_partial', 'C04_fixpoint_simple_partial', 'C04_simple_are_parser_outputs', 'C04_roundtrip_multiline_partial', 'C04_fixpoint_multiline_partial', 'C04_multiline_output', 'C04_multiline_contains_parser_outputs', 'C04_simple_in_multiline', 'C04_roundtrip_select_partial', 'C04_fixpoint_select_partial', 'C04_select_output', 'C04_select_contains_parser_outputs', 'C04_multiline_in_select', 'C04_roundtrip_wellformed_sources_partial', 'C04_roundtrip_layout_sources_partial', 'C04_parser_output_shape', 'C04_roundtrip_parser_outputs_partial', 'C04_roundtrip_covered_partial', 'C04_parser_output_utf8', 'C04_roundtrip_str_inputs_partial', 'C04_roundtrip_nested_partial', 'C04_fixpoint_nested_partial', 'C04_nested_output', 'C04_nested_contains_parser_outputs', 'C04_write_char_into_indent_line_start', 'C04_write_char_into_indent_elsewhere', 'C04_write_char_into_indent_general', 'C04_final_indent_zero', 'C04_parser_output_identifiers', 'C04_parser_output_content', 'C04_roundtrip_errorfree_partial', 'C04_multiline_in_nested', 'C04_simple_output', 'C04_roundtrip_statement_refuted_by_D7', 'C04_fixpoint_statement_refuted_by_D7', 'C04_parser_output_lines', 'C04_parser_output_nocr', 'C04_roundtrip_errorfree_nocr_partial', 'C04_parser_output_lines_crlf', 'C04_parser_output_nocr_crlf', 'C04_nocr_is_no_lone_cr', 'C04_roundtrip_errorfree_crlf_partial']
MODEL = 'syn'
HARNESS_BINS = ['syn_run']
ANCHORS = ['fluent-syntax/src/serializer.rs', 'fluent-syntax/src/parser/pattern.rs', 'fluent-syntax/src/parser/comment.rs']
TRUSTED = ['modelled, not verified: String push/pop/ends_with as list operations on a reversed buffer; write! into a String never fails',
           'the parser model (ParserModel.v) and its trusted base (C01)']
ASSUMPTIONS = ['trees are outputs of the parser on valid UTF-8 input']
RULE = ('roundtrip cases (parse, serialize, parse, serialize; both options) over witnesses, fixtures, token strings, mutated and '
        'structured resources and a systematic enumeration of pattern shapes (first character . [ * letter {, single/multi-line, '
        'indentation profiles, placeable-led and blank lines, LF/CRLF, Junk placement); non-trivial = tree has a message/term')


def rt(text, flag):
    return sexp.dumps([b'roundtrip', b'true' if flag else b'false', text])


def shapes():
    firsts = [b'.x', b'[x', b'*x', b'x', b'{ $v }', b'{ $v ->\n   *[a] b\n  }', b'"q"', b'-']
    conts = [b'', b'\n    y', b'\n  y\n      z', b'\n    { $w }', b'\n    { $w } t', b'\n\n    y', b'\n   \n    y', b'\n    .y', b'\n    [y', b'\n    *y',
             b'\n  y\n    { $w }\n      z', b'\n    y \n', b'\n    y\n   ']
    heads = [b'a = ', b'a =', b'a =\n    ', b'-t = ', b'a = v\n    .at = ', b'a = { $s ->\n   *[k] ', b'a =\n  ']
    tails = [b'\n', b'', b'\n}junk\n', b'\n# c\n', b'\n\n## g\nb = 1\n']
    for h, f, c, t in itertools.product(heads, firsts, conts, tails):
        body = h + f + c
        if h.startswith(b'a = { $s'):
            body += b'\n  }'
        yield body + t


def generate(rng, tier):
    out = []
    for name, cases in synprops.standard_batches(rng, tier, quick_sizes=(2000, 2000, 2500, 3), thorough_sizes=(100000, 80000, 100000, 4)):
        cs = []
        for c in cases:
            text = sexp.loads(c)[1]
            flag = rng.random() < 0.5
            cs.append(rt(text, flag))
            if name in ('witnesses', 'fixtures'):
                cs.append(rt(text, not flag))
        yield (name, cs)
    sh = []
    for s in shapes():
        for eol in (b'\n', b'\r\n'):
            t = s.replace(b'\n', eol)
            sh.append(rt(t, True))
            if b'junk' in s:
                sh.append(rt(t, False))
    yield ('exhaustive-pattern-shapes', sh)
    extra = [b'## c\n}junk\n# d\n', b'a = [x\n    y\n', b'a = *x\n    y\n', b'a = .x\n    y\n', b'-t = v\n\n\r', b'key = val\n  \r', b'#', b'##', b'###',
             b'# a\n#', b'a = x\n#', b'a =\n    { m }\n      x\n', b'a = x\r', b'a = x\r\n', b'a = \r\n    y\r\n', b'# c\r\n#\r\n# d\r\n', b'#  \n# x\n',
             b'a = {"}"}\n', b'a = { "{" }\n', b'a = {{ $x }}\n', b'a = { { $x ->\n *[a] b\n } }\n', b'}x\n# c\n}y\n\n\n# d\na = 1\n']
    yield ('roundtrip-witnesses', [rt(t, f) for t in extra for f in (True, False)])


def norm_pattern(p):
    """(pat elem...) with adjacent text elements joined"""
    out = [b'pat']
    for el in p[1:]:
        if sexp.tag(el) == 't' and len(out) > 1 and sexp.tag(out[-1]) == 't':
            out[-1] = [b't', out[-1][1] + el[1]]
        elif sexp.tag(el) == 't':
            out.append([b't', el[1]])
        else:
            out.append([b'p', norm_expr(el[1])])
    return out


def norm_expr(e):
    if sexp.tag(e) == 'sel':
        return [b'sel', norm_inline(e[1]), [[b'var', v[1], norm_pattern(v[2]), v[3]] for v in e[2]]]
    return [b'in', norm_inline(e[1])]


def norm_args(a):
    return [b'args', [norm_inline(x) for x in a[1]], [[b'named', n[1], norm_inline(n[2])] for n in a[2]]]


def norm_inline(i):
    t = sexp.tag(i)
    if t == 'pl':
        return [b'pl', norm_expr(i[1])]
    if t == 'fn':
        return [b'fn', i[1], norm_args(i[2])]
    if t == 'tref' and i[3] != b'none':
        return [b'tref', i[1], i[2], [b'some', norm_args(i[3][1])]]
    return i


def norm_lines(lines):
    return [b'' if l.strip(b' \r\n') == b'' else l for l in lines]


def norm_entry(e):
    t = sexp.tag(e)
    if t in ('msg', 'term'):
        val = e[2]
        if t == 'msg':
            val = val if val == b'none' else [b'some', norm_pattern(val[1])]
        else:
            val = norm_pattern(val)
        attrs = [[b'attr', a[1], norm_pattern(a[2])] for a in e[3]]
        c = e[4] if e[4] == b'none' else [b'some', [b'c'] + norm_lines(e[4][1][1:])]
        return [e[0], e[1], val, attrs, c]
    if t in ('comment', 'gcomment', 'rcomment'):
        return [e[0]] + norm_lines(e[1:])
    return e


def has_empty_comment(tree):
    for e in tree[1:]:
        t = sexp.tag(e)
        if t in ('comment', 'gcomment', 'rcomment') and len(e) == 1:
            return True
        if t in ('msg', 'term') and e[4] != b'none' and len(e[4][1]) == 1:
            return True
    return False


def oracle(case, out):
    try:
        o = sexp.loads(out)
    except ValueError:
        return 'unparseable output'
    if sexp.tag(o) != 'ok':
        return 'did not return: ' + out[:160]
    with_junk = sexp.loads(case)[1] == b'true'
    t1, s1, t2, s2 = o[1], o[2], o[3], o[4]
    e1 = [norm_entry(e) for e in t1[1:] if with_junk or sexp.tag(e) != 'junk']
    e2 = [norm_entry(e) for e in t2[1:]]
    if e1 != e2:
        return 'serialize then parse gives a different tree'
    if s1 != s2:
        return 'serializer output is not a fixed point'
    return None


def every_line_leading_space(tree):
    """D30 class: some pattern has NO line at indentation 0 — its first element is text starting with a space and every later
    non-blank line also starts with a space (a line that starts with a placeable counts as indentation 0).  No source can spell
    such a value (dedentation always leaves one line at 0) except through the lone-CR last line of D30, and the serializer cannot
    write it.  The single-line case (no line break in any text element) is the original witness."""
    def lines_of(els):
        cur = []           # the current line as a list of ('t', bytes) / ('p',)
        for e in els:
            if sexp.tag(e) == 't':
                parts = e[1].split(b'\n')
                for k, part in enumerate(parts):
                    if k > 0:
                        yield cur
                        cur = []
                    if part:
                        cur.append(('t', part))
            else:
                cur.append(('p',))
        yield cur

    def walk(x):
        if isinstance(x, list):
            if x and x[0] == b'pat':
                ok = True
                seen = False
                for ln in lines_of(x[1:]):
                    if not ln or all(i[0] == 't' and i[1].strip(b' \r') == b'' for i in ln):
                        continue                      # blank line
                    seen = True
                    if ln[0][0] != 't' or ln[0][1][:1] != b' ':
                        ok = False
                        break
                if ok and seen:
                    return True
            return any(walk(y) for y in x)
        return False
    return walk(tree)


def has_lone_cr(text):
    return any(text[i:i + 1] == b'\r' and text[i + 1:i + 2] != b'\n' for i in range(len(text)))


def classify(case, why, out=''):
    try:
        if has_lone_cr(sexp.loads(case)[2]) and every_line_leading_space(sexp.loads(out)[1]):
            return 'D30'
    except Exception:
        pass
    # D21: lone CR as the only non-space content of the last pattern line -> the parser leaves an EMPTY text element
    # D7: '#', '##' or '###' as the last line without EOL parses to a comment with ZERO lines, which serialises to nothing
    text = sexp.loads(case)[2]
    last = text.split(b'\n')[-1]
    if last in (b'#', b'##', b'###'):
        return 'D7'
    return None


COVERED = {'parser_outputs_under_theorem_C04_roundtrip_covered_partial': 0, 'parser_outputs_outside_it': 0, 'outside_it_although_no_junk': 0}
OUTSIDE_SAMPLES = []


def project(out):
    """the model's roundtrip answer ends with (covered b): whether the parsed tree satisfies the executable premise of the round-trip
    theorem (Syntax/Coverage.v c04_covered). Counted for the evidence, removed before comparing with the implementation."""
    for b in ('true', 'false'):
        suf = ' (covered %s))' % b
        if out.endswith(suf):
            COVERED['parser_outputs_under_theorem_C04_roundtrip_covered_partial' if b == 'true' else 'parser_outputs_outside_it'] += 1
            if b == 'false' and '(junk ' not in out:
                COVERED['outside_it_although_no_junk'] += 1
                if len(OUTSIDE_SAMPLES) < 12 and len(out) < 400:
                    OUTSIDE_SAMPLES.append(out)
            return out[:-len(suf)] + ')'
    return out


def extra_coverage():
    return {'proof_coverage_of_generated_inputs': dict(COVERED), 'samples_outside_theorem_without_junk': OUTSIDE_SAMPLES[:12]}


def nontrivial(case, out):
    return out if ('(msg ' in out or '(term ' in out) else None


PARTIAL = ('serializer totality, balanced indentation, buffer growth, Junk and comment emission are proved for ALL trees. Round trip AND fixed '
           'point (both options) are PROVED for the parser output of EVERY error-free source that is valid UTF-8 and in which every CR is followed by LF (LF and CR LF line ends mixed at will), with one '
           'side condition on the tree, "no comment with zero lines", which is exactly the known finding D7 '
           '(C04_roundtrip_errorfree_crlf_partial; it rests on theorems about ALL parser outputs: C04_parser_output_shape, _identifiers '
           '(lexical validity), _utf8, _content, _lines (the dedentation rules), _nocr), and more generally for every parser output whose '
           'joined tree satisfies the executable premise c04_covered (C04_roundtrip_covered_partial; the '
           'evidence counts how many generated inputs do). Outside the proof, decided by the round-trip oracle on the implementation: '
           'trees with Junk, D7, lone CRs in text (D30). The unrestricted statements are refuted on the current tree by D7.')

MANIFEST = {
    'text': 'Rocq theorems about the Gallina transliteration of the serializer (SerializerModel.v): never panics and restores the indent '
            'level for ALL trees; Junk verbatim / skipped; comment line format; the exact canonical text; round trip and fixed point '
            'PROVED for the parser output of every error-free UTF-8 source with LF or CR LF line ends without a zero-line comment (= D7) and for every parser output '
            'whose joined tree is well-formed (shape, lexical validity, dedentation rules of ALL parser outputs proved), composed with the '
            'parser model; every other parser output (sources with Junk, D7, D30, lone CRs) is checked by running parse/serialize/parse/serialize on the extracted model and on the real crate and '
            'comparing both trees and both texts.',
    'note': 'PARTIAL proof of the round trip (fragment). Trusted: as C01 plus String operations as list operations. Known findings D7, D30.',
    'technique': 'Rocq proof (writer invariants for all trees; print/parse round trip for a fragment) + differential correspondence check + round-trip oracle',
    'design_ref': 'DESIGN.md §4 C04, §10',
}

//! Shared helpers of the Rust side of the correspondence check: the s-expression case format
//! (see coq/theories/Base/Sexp.v) and a line-oriented runner that catches panics.
use std::io::{BufRead, Write};
pub mod values;
pub mod ast;

#[derive(Clone, Debug, PartialEq, Eq)]
pub enum Sexp {
    A(Vec<u8>),
    I(i64),
    L(Vec<Sexp>),
}

fn is_sym_start(c: u8) -> bool {
    c.is_ascii_alphabetic() || c == b'_'
}
fn is_sym_char(c: u8) -> bool {
    is_sym_start(c) || c.is_ascii_digit() || c == b'.' || c == b'-'
}
fn hexval(c: u8) -> u8 {
    match c {
        b'0'..=b'9' => c - b'0',
        b'a'..=b'f' => c - b'a' + 10,
        b'A'..=b'F' => c - b'A' + 10,
        _ => panic!("hex"),
    }
}

pub fn sym(s: &str) -> Sexp {
    Sexp::A(s.as_bytes().to_vec())
}
pub fn atom(s: &str) -> Sexp {
    Sexp::A(s.as_bytes().to_vec())
}
pub fn list(v: Vec<Sexp>) -> Sexp {
    Sexp::L(v)
}
pub fn int(i: i64) -> Sexp {
    Sexp::I(i)
}
pub fn sbool(b: bool) -> Sexp {
    sym(if b { "true" } else { "false" })
}
pub fn sopt(o: Option<Sexp>) -> Sexp {
    match o {
        None => sym("none"),
        Some(x) => list(vec![sym("some"), x]),
    }
}
pub fn ok(x: Sexp) -> Sexp {
    list(vec![sym("ok"), x])
}

impl Sexp {
    pub fn parse(s: &str) -> Result<Sexp, String> {
        let b = s.as_bytes();
        let mut pos = 0usize;
        let r = Self::item(b, &mut pos)?;
        while pos < b.len() && (b[pos] == b' ' || b[pos] == b'\t' || b[pos] == b'\r') {
            pos += 1;
        }
        if pos != b.len() {
            return Err("trailing".into());
        }
        Ok(r)
    }
    fn item(b: &[u8], pos: &mut usize) -> Result<Sexp, String> {
        while *pos < b.len() && (b[*pos] == b' ' || b[*pos] == b'\t' || b[*pos] == b'\r') {
            *pos += 1;
        }
        if *pos >= b.len() {
            return Err("eof".into());
        }
        let c = b[*pos];
        if c == b'(' {
            *pos += 1;
            let mut v = vec![];
            loop {
                while *pos < b.len() && (b[*pos] == b' ' || b[*pos] == b'\t' || b[*pos] == b'\r') {
                    *pos += 1;
                }
                if *pos >= b.len() {
                    return Err("unclosed".into());
                }
                if b[*pos] == b')' {
                    *pos += 1;
                    return Ok(Sexp::L(v));
                }
                v.push(Self::item(b, pos)?);
            }
        } else if c == b'#' {
            *pos += 1;
            let mut v = vec![];
            while *pos + 1 < b.len() && b[*pos].is_ascii_hexdigit() {
                v.push(16 * hexval(b[*pos]) + hexval(b[*pos + 1]));
                *pos += 2;
            }
            Ok(Sexp::A(v))
        } else if c.is_ascii_digit() || (c == b'-' && *pos + 1 < b.len() && b[*pos + 1].is_ascii_digit()) {
            let st = *pos;
            *pos += 1;
            while *pos < b.len() && b[*pos].is_ascii_digit() {
                *pos += 1;
            }
            std::str::from_utf8(&b[st..*pos])
                .unwrap()
                .parse::<i64>()
                .map(Sexp::I)
                .map_err(|e| e.to_string())
        } else if is_sym_start(c) {
            let st = *pos;
            while *pos < b.len() && is_sym_char(b[*pos]) {
                *pos += 1;
            }
            Ok(Sexp::A(b[st..*pos].to_vec()))
        } else {
            Err(format!("char {} at {}", c as char, *pos))
        }
    }
    pub fn write(&self, out: &mut String) {
        match self {
            Sexp::I(i) => out.push_str(&i.to_string()),
            Sexp::A(bs) => {
                if !bs.is_empty() && is_sym_start(bs[0]) && bs.iter().all(|c| is_sym_char(*c)) {
                    out.push_str(std::str::from_utf8(bs).unwrap());
                } else {
                    out.push('#');
                    for c in bs {
                        out.push_str(&format!("{:02x}", c));
                    }
                }
            }
            Sexp::L(v) => {
                out.push('(');
                for (i, x) in v.iter().enumerate() {
                    if i > 0 {
                        out.push(' ');
                    }
                    x.write(out);
                }
                out.push(')');
            }
        }
    }
    pub fn to_text(&self) -> String {
        let mut s = String::new();
        self.write(&mut s);
        s
    }
    pub fn is_sym(&self, s: &str) -> bool {
        matches!(self, Sexp::A(b) if b.as_slice() == s.as_bytes())
    }
    pub fn as_list(&self) -> &[Sexp] {
        match self {
            Sexp::L(v) => v,
            _ => panic!("HARNESS: expected list, got {}", self.to_text()),
        }
    }
    pub fn as_bytes(&self) -> &[u8] {
        match self {
            Sexp::A(v) => v,
            _ => panic!("HARNESS: expected atom, got {}", self.to_text()),
        }
    }
    pub fn as_str(&self) -> &str {
        std::str::from_utf8(self.as_bytes()).expect("HARNESS: atom is not UTF-8")
    }
    pub fn as_int(&self) -> i64 {
        match self {
            Sexp::I(i) => *i,
            _ => panic!("HARNESS: expected int, got {}", self.to_text()),
        }
    }
    pub fn tag(&self) -> &str {
        match self {
            Sexp::L(v) if !v.is_empty() => v[0].as_str(),
            Sexp::A(_) => self.as_str(),
            _ => panic!("HARNESS: no tag in {}", self.to_text()),
        }
    }
}

pub fn panic_message(e: &(dyn std::any::Any + Send)) -> String {
    if let Some(s) = e.downcast_ref::<&str>() {
        s.to_string()
    } else if let Some(s) = e.downcast_ref::<String>() {
        s.clone()
    } else {
        "?".to_string()
    }
}

/// Reads one case per line on stdin, prints one result per line.  A panic inside `f` is
/// caught and printed as `(PANIC #<message>)`; harness-internal failures start with "HARNESS:".
pub fn run_lines<F: Fn(&Sexp) -> Sexp + std::panic::RefUnwindSafe>(f: F) {
    std::panic::set_hook(Box::new(|_| {}));
    let stdin = std::io::stdin();
    let stdout = std::io::stdout();
    let mut out = std::io::BufWriter::new(stdout.lock());
    for line in stdin.lock().lines() {
        let line = line.expect("stdin");
        if line.is_empty() || line.starts_with(';') {
            writeln!(out).unwrap();
            continue;
        }
        let res = match Sexp::parse(&line) {
            Err(e) => list(vec![sym("HARNESS-PARSE-ERROR"), Sexp::A(e.into_bytes())]),
            Ok(case) => match std::panic::catch_unwind(|| f(&case)) {
                Ok(r) => r,
                Err(e) => list(vec![sym("PANIC"), Sexp::A(panic_message(&*e).into_bytes())]),
            },
        };
        writeln!(out, "{}", res.to_text()).unwrap();
        // flush per case: after a crash, abort or hang the first unanswered line is the culprit
        out.flush().unwrap();
    }
    out.flush().unwrap();
}

//! Concurrent-bundle driver (C15; mirror of coq/theories/Extract/ExtractC15.v).
//!
//! One source, two builds:
//!  * the ordinary harness bin `concurrent_run` (real OS threads on the real crates of the repository), and
//!  * with `--cfg c15_shuttle`, the schedule explorer `c15_shuttle` that props/C15.py builds in a scratch workspace in which
//!    intl-memoizer's concurrent.rs imports `shuttle::sync::Mutex` instead of `std::sync::Mutex` and fluent-bundle is compiled
//!    from the repository's sources against THAT intl-memoizer (nothing else changed).  There the threads are shuttle
//!    threads and every schedule shuttle explores (DFS / PCT / random) must give every request its single-threaded result.
//!
//! case   (conc <cfg> (<res> ...) (threads (th (rq <entry> <args>) ...) ...) (scheds ...) [(dfs n)] [(reps n seed)])
//!        (shuttle <mode> <iters> <seed> <cfg> (<res> ...) (threads ...))            relayed to the explorer
//!   cfg, res, entry, args as in bundle_run.rs; the bundle is always built with new_concurrent; scheds/dfs are for the model
//! result (ok (threads (t <res> ...) ...)                    REFERENCE: every request formatted on its own fresh bundle
//!            (x (seq (threads ...))                         all requests one after the other on ONE fresh bundle
//!               (runs n) (distinct (threads ...) ...)       the distinct outcomes of n threaded runs on fresh bundles
//!               (constructs k)))                            most constructions of the test formatter for one key in a threaded run
//!        (shuttle <mode> ok (threads ...) (iterations n) (distinct k))
//!        (shuttle <mode> fail #message #shuttle-schedule)
//!   res  (r #text (err ...)) | missing | (panic)
//! The implementation-only oracle (props/C15.py): seq = reference, every threaded outcome = reference, no panic, no timeout.
use fluent_bundle::resolver::errors::{ReferenceKind, ResolverError};
use fluent_bundle::types::{FluentNumber, FluentType};
use fluent_bundle::{FluentArgs, FluentError, FluentResource, FluentValue};
use fluent_syntax::ast;
use intl_memoizer::Memoizable;
use std::borrow::Cow;
use std::sync::Arc;
use verif_harness::values;
use verif_harness::*;

type CBundle = fluent_bundle::concurrent::FluentBundle<Arc<FluentResource>>;

/// A formatter the test FluentType fetches from the memoizer it is handed (payloads starting with "memo"): a second kind of
/// object in the shared TypeMap, requested from as_string_threadsafe, i.e. NOT under the lock of a plural lookup.
struct Brackets;
/// constructions of Brackets per key since the last reset (one bundle is alive at a time in this process)
static CONSTRUCTS: [std::sync::atomic::AtomicUsize; 2] = [std::sync::atomic::AtomicUsize::new(0), std::sync::atomic::AtomicUsize::new(0)];
fn constructs_reset() {
    for c in &CONSTRUCTS {
        c.store(0, std::sync::atomic::Ordering::SeqCst);
    }
}
fn constructs_max() -> usize {
    CONSTRUCTS.iter().map(|c| c.load(std::sync::atomic::Ordering::SeqCst)).max().unwrap_or(0)
}
impl Memoizable for Brackets {
    type Args = (u8,);
    type Error = ();
    fn construct(_lang: unic_langid::LanguageIdentifier, args: Self::Args) -> Result<Self, Self::Error> {
        CONSTRUCTS[(args.0 % 2) as usize].fetch_add(1, std::sync::atomic::Ordering::SeqCst);
        // constructing a formatter takes a while
        #[cfg(not(c15_shuttle))]
        {
            let mut x = 0u64;
            for i in 0..20000u64 {
                x = std::hint::black_box(x.wrapping_mul(6364136223846793005).wrapping_add(i));
            }
            std::hint::black_box(x);
        }
        Ok(Brackets)
    }
}
impl Brackets {
    fn wrap(&self, s: &str) -> String {
        format!("<<{}>>", s)
    }
}

#[derive(Debug, PartialEq, Clone)]
struct TestCustom {
    payload: String,
}

impl FluentType for TestCustom {
    fn duplicate(&self) -> Box<dyn FluentType + Send> {
        Box::new(self.clone())
    }
    /// what a concurrent bundle must never print
    fn as_string(&self, _: &intl_memoizer::IntlLangMemoizer) -> Cow<'static, str> {
        format!("<<nts:{}>>", self.payload).into()
    }
    fn as_string_threadsafe(&self, intls: &intl_memoizer::concurrent::IntlLangMemoizer) -> Cow<'static, str> {
        if self.payload.starts_with("memo") {
            let k = (self.payload.len() % 2) as u8;
            intls.with_try_get::<Brackets, _, _>((k,), |b| b.wrap(&self.payload)).expect("Brackets").into()
        } else {
            format!("<<{}>>", self.payload).into()
        }
    }
}

fn bytes(s: &str) -> Sexp {
    Sexp::A(s.as_bytes().to_vec())
}

fn dec_val(x: &Sexp) -> FluentValue<'static> {
    if let Sexp::L(v) = x {
        match v[0].as_str() {
            "conv" => dec_val(&v[1]),
            "mnum" => {
                let t = v[1].as_str();
                let f: f64 = t.parse().expect("HARNESS: mnum text");
                FluentValue::Number(FluentNumber::new(f, values::dec_options(&v[2])))
            }
            "custom" => FluentValue::Custom(Box::new(TestCustom { payload: v[1].as_str().to_string() })),
            _ => values::dec_value(x),
        }
    } else {
        values::dec_value(x)
    }
}

fn piece(v: &FluentValue) -> String {
    match v {
        FluentValue::String(s) => s.to_string(),
        FluentValue::Number(n) => n.as_string().to_string(),
        FluentValue::Custom(_) => "C".to_string(),
        FluentValue::None => "N".to_string(),
        FluentValue::Error => "E".to_string(),
    }
}

/// the test functions of bundle_run.rs (without its call log)
fn test_function<'a>(name: &str, pos: &[FluentValue<'a>], named: &FluentArgs) -> FluentValue<'a> {
    match name {
        "NUMBER" => fluent_bundle::builtins::NUMBER(pos, named),
        "IDENTITY" => pos.first().cloned().unwrap_or(FluentValue::None),
        "CONCAT" => {
            let mut s = String::new();
            for v in pos {
                s.push_str(&piece(v));
            }
            for (k, v) in named.iter() {
                s.push(';');
                s.push_str(k);
                s.push('=');
                s.push_str(&piece(v));
            }
            FluentValue::String(s.into())
        }
        "FAIL" => FluentValue::Error,
        "NONE" => FluentValue::None,
        "COUNT" => FluentValue::String("c".into()),
        "CUSTOM" => FluentValue::Custom(Box::new(TestCustom {
            payload: match pos.first() {
                Some(FluentValue::String(s)) => s.to_string(),
                _ => "dflt".to_string(),
            },
        })),
        "NUM" => FluentValue::Number(FluentNumber::from(pos.len())),
        _ => FluentValue::Error,
    }
}

fn transform_upper(s: &str) -> Cow<str> {
    Cow::Owned(s.to_ascii_uppercase())
}
fn transform_brackets(s: &str) -> Cow<str> {
    Cow::Owned(format!("[{}]", s))
}
fn formatter_num<M>(v: &FluentValue, _: &M) -> Option<String> {
    match v {
        FluentValue::Number(n) => Some(format!("#{}", n.as_string())),
        _ => None,
    }
}
fn formatter_all<M>(v: &FluentValue, _: &M) -> Option<String> {
    match v {
        FluentValue::Number(n) => Some(format!("#{}", n.as_string())),
        FluentValue::String(s) => Some(format!("<{}>", s)),
        FluentValue::None => Some("~".to_string()),
        _ => None,
    }
}

fn enc_error(e: &FluentError) -> Sexp {
    let oa = |a: &Option<String>| sopt(a.as_ref().map(|s| bytes(s)));
    match e {
        FluentError::ResolverError(r) => match r {
            ResolverError::Reference(k) => list(vec![
                sym("Reference"),
                match k {
                    ReferenceKind::Function { id } => list(vec![sym("Function"), bytes(id)]),
                    ReferenceKind::Message { id, attribute } => list(vec![sym("Message"), bytes(id), oa(attribute)]),
                    ReferenceKind::Term { id, attribute } => list(vec![sym("Term"), bytes(id), oa(attribute)]),
                    ReferenceKind::Variable { id } => list(vec![sym("Variable"), bytes(id)]),
                },
            ]),
            ResolverError::NoValue(id) => list(vec![sym("NoValue"), bytes(id)]),
            ResolverError::MissingDefault => sym("MissingDefault"),
            ResolverError::Cyclic => sym("Cyclic"),
            ResolverError::TooManyPlaceables => sym("TooManyPlaceables"),
        },
        FluentError::Overriding { .. } => sym("Overriding"),
        FluentError::ParserError(_) => sym("ParserError"),
    }
}

struct Cfg {
    iso: bool,
    transform: String,
    formatter: String,
    funcs: Vec<String>,
    locales: Vec<unic_langid::LanguageIdentifier>,
}

type Req = (Sexp, Sexp);

struct Case {
    cfg: Cfg,
    resources: Vec<Arc<FluentResource>>,
    threads: Vec<Vec<Req>>,
}

fn dec_cfg(x: &Sexp) -> Cfg {
    let cf = x.as_list();
    Cfg {
        iso: cf[1].is_sym("true"),
        transform: cf[2].as_str().to_string(),
        formatter: cf[3].as_str().to_string(),
        funcs: cf[4].as_list().iter().map(|x| x.as_str().to_string()).collect(),
        locales: cf[5].as_list().iter().map(|l| l.as_str().parse().expect("HARNESS: locale")).collect(),
    }
}

fn dec_case(cfg: &Sexp, ress: &Sexp, threads: &Sexp) -> Case {
    let resources = ress
        .as_list()
        .iter()
        .map(|r| {
            let text = r.as_list()[1].as_str().to_string();
            Arc::new(match FluentResource::try_new(text) {
                Ok(r) => r,
                Err((r, _)) => r,
            })
        })
        .collect();
    let threads = threads.as_list()[1..]
        .iter()
        .map(|t| t.as_list()[1..].iter().map(|rq| (rq.as_list()[1].clone(), rq.as_list()[2].clone())).collect())
        .collect();
    Case { cfg: dec_cfg(cfg), resources, threads }
}

/// FluentBundle::new_concurrent + the configuration of the case: a cold memoizer every time
fn build(case: &Case) -> CBundle {
    let cfg = &case.cfg;
    let mut b: CBundle = fluent_bundle::concurrent::FluentBundle::new_concurrent(cfg.locales.clone());
    b.set_use_isolating(cfg.iso);
    match cfg.transform.as_str() {
        "upper" => b.set_transform(Some(transform_upper)),
        "brackets" => b.set_transform(Some(transform_brackets)),
        _ => b.set_transform(None),
    }
    match cfg.formatter.as_str() {
        "num" => b.set_formatter(Some(formatter_num::<intl_memoizer::concurrent::IntlLangMemoizer>)),
        "all" => b.set_formatter(Some(formatter_all::<intl_memoizer::concurrent::IntlLangMemoizer>)),
        _ => b.set_formatter(None),
    }
    for r in &case.resources {
        let _ = b.add_resource(r.clone());
    }
    for f in &cfg.funcs {
        let name = f.to_string();
        let _ = b.add_function(f, move |pos, named| test_function(&name, pos, named));
    }
    b
}

fn find_term<'r>(resources: &'r [Arc<FluentResource>], id: &str) -> Option<&'r ast::Term<&'r str>> {
    for r in resources {
        for e in r.entries() {
            if let ast::Entry::Term(t) = e {
                if t.id.name == id {
                    return Some(t);
                }
            }
        }
    }
    None
}

fn pick<'b>(bundle: &'b CBundle, resources: &'b [Arc<FluentResource>], entry: &Sexp) -> Option<&'b ast::Pattern<&'b str>> {
    let e = entry.as_list();
    let id = e[1].as_str();
    let attr = if e[2].is_sym("none") { None } else { Some(e[2].as_list()[1].as_str()) };
    if e[0].is_sym("msg") {
        let m = bundle.get_message(id)?;
        match attr {
            Some(a) => m.get_attribute(a).map(|x| x.value()),
            None => m.value(),
        }
    } else {
        let t = find_term(resources, id)?;
        match attr {
            Some(a) => t.attributes.iter().find(|x| x.id.name == a).map(|x| &x.value),
            None => Some(&t.value),
        }
    }
}

fn mk_args(args_sexp: &Sexp) -> Option<FluentArgs<'static>> {
    if args_sexp.is_sym("none") {
        return None;
    }
    let mut a = FluentArgs::new();
    for kv in &args_sexp.as_list()[1..] {
        a.set(kv.as_list()[0].as_str().to_string(), dec_val(&kv.as_list()[1]));
    }
    Some(a)
}

/// one format_pattern call through a shared reference
fn format_one(bundle: &CBundle, resources: &[Arc<FluentResource>], rq: &Req) -> Sexp {
    let Some(pattern) = pick(bundle, resources, &rq.0) else {
        return sym("missing");
    };
    let args = mk_args(&rq.1);
    let mut errs = vec![];
    let text = bundle.format_pattern(pattern, args.as_ref(), &mut errs).to_string();
    list(vec![sym("r"), bytes(&text), list(errs.iter().map(enc_error).collect())])
}

#[cfg(not(c15_shuttle))]
fn run_request(bundle: &CBundle, resources: &[Arc<FluentResource>], rq: &Req) -> Sexp {
    match std::panic::catch_unwind(std::panic::AssertUnwindSafe(|| format_one(bundle, resources, rq))) {
        Ok(x) => x,
        Err(_) => list(vec![sym("panic")]),
    }
}

fn enc_threads(rs: Vec<Vec<Sexp>>) -> Sexp {
    let mut v = vec![sym("threads")];
    for t in rs {
        let mut x = vec![sym("t")];
        x.extend(t);
        v.push(list(x));
    }
    list(v)
}

// ------------------------------------------------------------------------------------------------ real threads
#[cfg(not(c15_shuttle))]
mod real {
    use super::*;
    use std::io::{BufRead, Write};

    fn spin(n: usize) {
        let mut x = 0u64;
        for i in 0..n {
            x = std::hint::black_box(x.wrapping_mul(6364136223846793005).wrapping_add(i as u64));
        }
        std::hint::black_box(x);
    }

    /// N OS threads share `&bundle` (std::thread::scope); how they are released varies with `rep` so that different runs
    /// see different schedules: all at once behind a barrier (the cold-cache race), staggered in thread order, staggered in
    /// reverse order, not synchronised at all, and with yields sprinkled between requests.
    fn run_threaded(case: &Case, rep: usize, seed: u64) -> Vec<Vec<Sexp>> {
        let bundle = build(case);
        let n = case.threads.len();
        let barrier = std::sync::Barrier::new(n);
        let mode = rep % 5;
        std::thread::scope(|s| {
            let hs: Vec<_> = case
                .threads
                .iter()
                .enumerate()
                .map(|(i, reqs)| {
                    let bundle = &bundle;
                    let barrier = &barrier;
                    let resources = &case.resources;
                    s.spawn(move || {
                        let mut rng = seed.wrapping_add(0x9E3779B97F4A7C15u64.wrapping_mul(i as u64 + 1 + rep as u64 * 131));
                        match mode {
                            0 | 4 => {
                                barrier.wait();
                            }
                            1 => {
                                barrier.wait();
                                spin(i * (200 + (rep * 37) % 3000));
                            }
                            2 => {
                                barrier.wait();
                                spin((n - 1 - i) * (200 + (rep * 53) % 3000));
                            }
                            _ => {}
                        }
                        let mut out = vec![];
                        for rq in reqs {
                            out.push(run_request(bundle, resources, rq));
                            if mode == 4 {
                                rng ^= rng << 13;
                                rng ^= rng >> 7;
                                rng ^= rng << 17;
                                if rng & 1 == 1 {
                                    std::thread::yield_now();
                                } else {
                                    spin((rng % 500) as usize);
                                }
                            }
                        }
                        out
                    })
                })
                .collect();
            hs.into_iter().map(|h| h.join().unwrap_or_else(|_| vec![list(vec![sym("thread-panicked")])])).collect()
        })
    }

    fn run_conc(c: &[Sexp]) -> Sexp {
        let case = dec_case(&c[1], &c[2], &c[3]);
        let mut reps = 6usize;
        let mut seed = 0u64;
        for extra in &c[4..] {
            if extra.tag() == "reps" {
                reps = extra.as_list()[1].as_int() as usize;
                seed = extra.as_list()[2].as_int() as u64;
            }
        }
        // reference: every request on its own fresh bundle, single-threaded
        let reference: Vec<Vec<Sexp>> = case
            .threads
            .iter()
            .map(|reqs| {
                reqs.iter()
                    .map(|rq| {
                        let b = build(&case);
                        run_request(&b, &case.resources, rq)
                    })
                    .collect()
            })
            .collect();
        // all requests one after the other on one fresh bundle
        let b = build(&case);
        let seq: Vec<Vec<Sexp>> =
            case.threads.iter().map(|reqs| reqs.iter().map(|rq| run_request(&b, &case.resources, rq)).collect()).collect();
        let mut distinct: Vec<Sexp> = vec![];
        let mut max_constructs = 0usize;
        for rep in 0..reps {
            constructs_reset();
            let o = enc_threads(run_threaded(&case, rep, seed));
            max_constructs = max_constructs.max(constructs_max());
            if !distinct.contains(&o) {
                distinct.push(o);
            }
        }
        let mut d = vec![sym("distinct")];
        d.extend(distinct);
        list(vec![
            sym("ok"),
            enc_threads(reference),
            list(vec![
                sym("x"),
                list(vec![sym("seq"), enc_threads(seq)]),
                list(vec![sym("runs"), int(reps as i64)]),
                list(d),
                list(vec![sym("constructs"), int(max_constructs as i64)]),
            ]),
        ])
    }

    fn shuttle_bin() -> std::path::PathBuf {
        let exe = std::env::current_exe().expect("HARNESS: current_exe");
        let cache = exe
            .ancestors()
            .find(|p| p.file_name().map(|n| n == ".cache").unwrap_or(false))
            .expect("HARNESS: no .cache ancestor")
            .to_path_buf();
        let repo = std::env::var("VERIF_REPO").unwrap_or_else(|_| "/repo".into());
        let repo = std::fs::canonicalize(&repo).map(|p| p.to_string_lossy().to_string()).unwrap_or(repo);
        let tag: String = repo.chars().map(|c| if c.is_ascii_alphanumeric() { c } else { '_' }).collect();
        cache.join("shuttle").join(format!("{}_c15", tag)).join("target").join("debug").join("c15_shuttle")
    }

    /// relay a (shuttle ...) case to the schedule explorer built by props/C15.py
    fn run_shuttle(case: &Sexp) -> Sexp {
        let c = case.as_list();
        let bin = shuttle_bin();
        if !bin.exists() {
            let log = bin.ancestors().nth(3).map(|d| d.join("build.log")).and_then(|p| std::fs::read(p).ok()).unwrap_or_default();
            return list(vec![sym("shuttle-bin-missing"), Sexp::A(bin.to_string_lossy().as_bytes().to_vec()), Sexp::A(log)]);
        }
        let dir = std::env::temp_dir();
        let file = dir.join(format!("c15-shuttle-{}-{:?}.case", std::process::id(), std::thread::current().id()).replace(['(', ')'], ""));
        std::fs::write(&file, case.to_text()).expect("HARNESS: write case file");
        let mut cmd = std::process::Command::new(&bin);
        cmd.arg(c[1].as_str()).arg(c[2].as_int().to_string()).arg(c[3].as_int().to_string()).arg(&file);
        if c.len() > 7 {
            cmd.arg(c[7].as_str());
        }
        let o = cmd.env("RUST_BACKTRACE", "0").output().expect("HARNESS: cannot run c15_shuttle");
        let _ = std::fs::remove_file(&file);
        let stdout = String::from_utf8_lossy(&o.stdout);
        let line = stdout.lines().last().unwrap_or("");
        match Sexp::parse(line) {
            Ok(Sexp::L(mut v)) => {
                if v.len() >= 3 && v[2].is_sym("fail") {
                    let err = String::from_utf8_lossy(&o.stderr);
                    let sched = err.split("failing schedule:\n\"\n").nth(1).and_then(|s| s.split('\n').next()).unwrap_or("");
                    v.push(Sexp::A(sched.as_bytes().to_vec()));
                }
                Sexp::L(v)
            }
            _ => list(vec![
                sym("shuttle-crashed"),
                int(o.status.code().unwrap_or(-1) as i64),
                Sexp::A(String::from_utf8_lossy(&o.stderr).chars().rev().take(400).collect::<String>().chars().rev().collect::<String>().into_bytes()),
            ]),
        }
    }

    fn run(case: &Sexp) -> Sexp {
        let c = case.as_list();
        match case.tag() {
            "conc" => run_conc(c),
            "shuttle" => run_shuttle(case),
            t => panic!("HARNESS: unknown case {}", t),
        }
    }

    /// Like verif_harness::run_lines, plus a watchdog: every case runs on its own thread; if it has not answered within
    /// CASE_TIMEOUT (a deadlock, or a livelock) the line `(TIMEOUT)` is printed for it, every remaining case is answered
    /// `(SKIPPED-AFTER-TIMEOUT)` (the stuck threads cannot be stopped) and the process exits.
    pub fn main() {
        const CASE_TIMEOUT: std::time::Duration = std::time::Duration::from_secs(20);
        std::panic::set_hook(Box::new(|_| {}));
        let stdin = std::io::stdin();
        let stdout = std::io::stdout();
        let mut out = std::io::BufWriter::new(stdout.lock());
        let mut dead = false;
        for line in stdin.lock().lines() {
            let line = line.expect("stdin");
            if line.is_empty() || line.starts_with(';') {
                writeln!(out).unwrap();
                continue;
            }
            if dead {
                writeln!(out, "(SKIPPED-AFTER-TIMEOUT)").unwrap();
                continue;
            }
            let (tx, rx) = std::sync::mpsc::channel();
            std::thread::Builder::new()
                .stack_size(64 << 20)
                .spawn(move || {
                    let res = match Sexp::parse(&line) {
                        Err(e) => list(vec![sym("HARNESS-PARSE-ERROR"), Sexp::A(e.into_bytes())]),
                        Ok(case) => match std::panic::catch_unwind(|| run(&case)) {
                            Ok(r) => r,
                            Err(e) => list(vec![sym("PANIC"), Sexp::A(panic_message(&*e).into_bytes())]),
                        },
                    };
                    let _ = tx.send(res.to_text());
                })
                .expect("HARNESS: spawn");
            match rx.recv_timeout(CASE_TIMEOUT) {
                Ok(text) => writeln!(out, "{}", text).unwrap(),
                Err(_) => {
                    writeln!(out, "(TIMEOUT)").unwrap();
                    dead = true;
                }
            }
            out.flush().unwrap();
        }
        out.flush().unwrap();
        if dead {
            std::process::exit(0);
        }
    }
}

// ------------------------------------------------------------------------------------------------ shuttle threads
#[cfg(c15_shuttle)]
mod explorer {
    use super::*;
    use std::collections::BTreeSet;
    use std::sync::Mutex as StdMutex;

    static OUTCOMES: StdMutex<BTreeSet<String>> = StdMutex::new(BTreeSet::new());

    fn hex(b: &[u8]) -> String {
        let mut s = String::from("#");
        for c in b {
            s.push_str(&format!("{:02x}", c));
        }
        s
    }

    /// single-threaded results, each request on its own fresh bundle (inside a shuttle execution: the patched memoizer's
    /// mutex only works there)
    fn reference(case: &Case) -> Vec<Vec<Sexp>> {
        case.threads
            .iter()
            .map(|reqs| {
                reqs.iter()
                    .map(|rq| {
                        let b = build(case);
                        format_one(&b, &case.resources, rq)
                    })
                    .collect()
            })
            .collect()
    }

    /// One execution: fresh bundle (cold memoizer) shared by reference between shuttle threads.  A result that differs from
    /// the single-threaded one panics, so that shuttle reports the schedule; a panic or deadlock in the code under test is
    /// reported by shuttle itself.
    fn body(case: &Case, want: &[Vec<Sexp>]) {
        constructs_reset();
        let bundle = build(case);
        let got: Vec<Vec<Sexp>> = shuttle::thread::scope(|s| {
            let hs: Vec<_> = case
                .threads
                .iter()
                .map(|reqs| {
                    let bundle = &bundle;
                    let resources = &case.resources;
                    s.spawn(move || reqs.iter().map(|rq| format_one(bundle, resources, rq)).collect::<Vec<Sexp>>())
                })
                .collect();
            hs.into_iter().map(|h| h.join().expect("join")).collect()
        });
        let text = enc_threads(got.clone()).to_text();
        for (tid, (g, w)) in got.iter().zip(want.iter()).enumerate() {
            for (j, (a, b)) in g.iter().zip(w.iter()).enumerate() {
                if a != b {
                    panic!(
                        "C15 violated: thread {} request {} returned {} under this schedule, single-threaded it returns {}",
                        tid,
                        j,
                        a.to_text(),
                        b.to_text()
                    );
                }
            }
        }
        if constructs_max() > 1 {
            panic!(
                "C15 violated: a formatter requested from as_string_threadsafe was constructed {} times for one key on one bundle under this schedule",
                constructs_max()
            );
        }
        OUTCOMES.lock().unwrap().insert(text);
    }

    pub fn main() {
        let a: Vec<String> = std::env::args().collect();
        if a.len() < 5 {
            eprintln!("usage: c15_shuttle <dfs|pct|random|replay> <iterations> <seed> <case file> [schedule]");
            std::process::exit(2);
        }
        let mode = a[1].clone();
        let iters: usize = a[2].parse().expect("iterations");
        let seed: u64 = a[3].parse().expect("seed");
        let text = std::fs::read_to_string(&a[4]).expect("case file");
        let sexp = Sexp::parse(text.trim()).expect("case");
        let c = sexp.as_list();
        let case = Arc::new(dec_case(&c[4], &c[5], &c[6]));
        let sched = a.get(5).cloned().unwrap_or_default();
        // the reference, computed in a one-thread execution
        let want: Arc<StdMutex<Vec<Vec<Sexp>>>> = Arc::new(StdMutex::new(vec![]));
        {
            let case = case.clone();
            let want = want.clone();
            shuttle::Runner::new(shuttle::scheduler::DfsScheduler::new(Some(1), false), shuttle::Config::default())
                .run(move || *want.lock().unwrap() = reference(&case));
        }
        let want: Arc<Vec<Vec<Sexp>>> = Arc::new(want.lock().unwrap().clone());
        let want_text = enc_threads((*want).clone()).to_text();
        let m = mode.clone();
        let f = {
            let case = case.clone();
            let want = want.clone();
            move || body(&case, &want)
        };
        let r = std::panic::catch_unwind(move || -> usize {
            let cfg = shuttle::Config::default();
            match m.as_str() {
                "dfs" => shuttle::Runner::new(shuttle::scheduler::DfsScheduler::new(if iters == 0 { None } else { Some(iters) }, false), cfg).run(f),
                "pct" => shuttle::Runner::new(shuttle::scheduler::PctScheduler::new_from_seed(seed, 3, iters), cfg).run(f),
                "random" => shuttle::Runner::new(shuttle::scheduler::RandomScheduler::new_from_seed(seed, iters), cfg).run(f),
                "replay" => {
                    shuttle::replay(f, &sched);
                    1
                }
                _ => panic!("mode"),
            }
        });
        match r {
            Ok(n) => {
                let o = OUTCOMES.lock().unwrap();
                println!("(shuttle {} ok {} (iterations {}) (distinct {}))", mode, want_text, n, o.len());
            }
            Err(e) => {
                println!("(shuttle {} fail {})", mode, hex(panic_message(&*e).as_bytes()));
            }
        }
    }
}

fn main() {
    #[cfg(not(c15_shuttle))]
    real::main();
    #[cfg(c15_shuttle)]
    explorer::main();
}

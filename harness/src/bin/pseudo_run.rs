//! C20: fluent_pseudo::transform / transform_dom on arbitrary strings, all flag combinations per case.
//!   case   (pseudo #text)
//!   result (ok ((start end) ...) (#dom x 8) (#transform x 4) fmt)
//!     dom outputs in the order (flipped, elongate, with_markers) = 000 001 010 011 100 101 110 111,
//!     transform outputs in the order (flipped, elongate) = 00 01 10 11,
//!     spans = the capture spans of the real `regex` crate for the FIRST Regex::new pattern found in
//!             <repo>/fluent-pseudo/src/lib.rs (read at start-up; <repo> = $VERIF_REPO or /repo),
//!     fmt   = none | (some #out x 8): when the text can stand as the value of a message, the results of
//!             FluentBundle::format_pattern with set_transform(transform_dom with these flags).
use fluent_bundle::{FluentBundle, FluentResource};
use regex::Regex;
use std::borrow::Cow;
use verif_harness::*;

fn excluded_pattern() -> String {
    let repo = std::env::var("VERIF_REPO").unwrap_or_else(|_| "/repo".to_string());
    let src = std::fs::read_to_string(format!("{}/fluent-pseudo/src/lib.rs", repo))
        .expect("HARNESS: cannot read fluent-pseudo/src/lib.rs");
    let key = "Regex::new(r\"";
    let i = src.find(key).expect("HARNESS: no Regex::new(r\"..\") in lib.rs") + key.len();
    let j = src[i..].find("\")").expect("HARNESS: unterminated pattern") + i;
    src[i..j].to_string()
}

macro_rules! tf {
    ($name:ident, $f:expr, $e:expr, $m:expr) => {
        fn $name(s: &str) -> Cow<str> {
            fluent_pseudo::transform_dom(s, $f, $e, $m)
        }
    };
}
tf!(t000, false, false, false);
tf!(t001, false, false, true);
tf!(t010, false, true, false);
tf!(t011, false, true, true);
tf!(t100, true, false, false);
tf!(t101, true, false, true);
tf!(t110, true, true, false);
tf!(t111, true, true, true);

fn through_bundle(text: &str, f: bool, e: bool, m: bool) -> Option<String> {
    // only texts that are one plain TextElement: no placeables, one line, no leading/trailing blank,
    // no leading special character
    if text.is_empty()
        || text.contains(|c| c == '{' || c == '}' || c == '\n' || c == '\r')
        || text.starts_with(|c| c == ' ' || c == '[' || c == '*' || c == '.')
        || text.ends_with(' ')
    {
        return None;
    }
    let res = FluentResource::try_new(format!("m = {}\n", text)).ok()?;
    let mut bundle: FluentBundle<FluentResource> = FluentBundle::new(vec!["en-US".parse().unwrap()]);
    bundle.set_use_isolating(false);
    bundle.add_resource(res).ok()?;
    let tr: fn(&str) -> Cow<str> = match (f, e, m) {
        (false, false, false) => t000,
        (false, false, true) => t001,
        (false, true, false) => t010,
        (false, true, true) => t011,
        (true, false, false) => t100,
        (true, false, true) => t101,
        (true, true, false) => t110,
        (true, true, true) => t111,
    };
    bundle.set_transform(Some(tr));
    let msg = bundle.get_message("m")?;
    let pat = msg.value()?;
    let mut errs = vec![];
    let s = bundle.format_pattern(pat, None, &mut errs).into_owned();
    if !errs.is_empty() {
        return None;
    }
    Some(s)
}

fn main() {
    let re = Regex::new(&excluded_pattern()).expect("HARNESS: pattern does not compile");
    run_lines(move |case: &Sexp| {
        let c = case.as_list();
        match c[0].as_str() {
            "pseudo" => {
                let text = c[1].as_str();
                let bools = [false, true];
                let mut doms = vec![];
                let mut trs = vec![];
                let mut fmts = vec![];
                for f in bools {
                    for e in bools {
                        trs.push(Sexp::A(fluent_pseudo::transform(text, f, e).into_owned().into_bytes()));
                        for m in bools {
                            doms.push(Sexp::A(fluent_pseudo::transform_dom(text, f, e, m).into_owned().into_bytes()));
                            fmts.push(through_bundle(text, f, e, m));
                        }
                    }
                }
                let spans: Vec<Sexp> = re
                    .captures_iter(text)
                    .map(|cap| {
                        let g = cap.get(0).unwrap();
                        list(vec![int(g.start() as i64), int(g.end() as i64)])
                    })
                    .collect();
                let fmt = if fmts.iter().all(|x| x.is_some()) {
                    let mut v = vec![sym("some")];
                    v.extend(fmts.into_iter().map(|x| Sexp::A(x.unwrap().into_bytes())));
                    list(v)
                } else {
                    sym("none")
                };
                list(vec![sym("ok"), list(spans), list(doms), list(trs), fmt])
            }
            _ => panic!("HARNESS: unknown case {}", case.to_text()),
        }
    });
}

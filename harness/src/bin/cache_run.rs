//! C17: the fallback bundle cache (fluent-fallback/src/cache.rs) driven through its only public
//! entry points, `Bundles` / `Localization` (bundles.rs), with a scripted bundle source and a manual
//! executor.  (`mod cache` is private to fluent-fallback, so the handles are exercised through the
//! request futures: one future poll = `stream.next().await` repeated until Pending / answered / end.)
//!
//! case: (c17 async|sync VIA (CONSUMER ...) (r|p ...) (STEP ...))      VIA = bundles | loc
//!   CONSUMER = (v d) | (vs d ...) | (ms d ...)   format_value / format_values / format_messages with keys
//!              (a key written (e d) / (g d) is message e<d> / g<d>: present from bundle d on, but its value
//!              references a missing variable / an unknown message, so it formats WITH a resolver error)
//!              m<d>; bundle i (locale #i, text "b<i>") has the messages m0..m<i>, so key m<d> is first
//!              answered by bundle d
//!   script:  r = the source's next poll is Ready(Some(bundle)); p = Pending, the source keeps ONLY the
//!            latest waker; past the end Ready(None) for ever
//!   STEP = c (poll request c's future once, with its own waker) | f (the pending source becomes ready:
//!            it wakes the one waker it holds)
//! output (async): ((step ...) (drain-step ...) (final ...))
//!   step  = (poll pending|(ready (res ...)) (newly-woken ...) source-polls source-readies items-yielded) | skip
//!         | (fire (newly-woken ...) source-polls source-readies items-yielded)
//!   after the schedule a fair drain runs (first request that is incomplete and not waiting-unwoken,
//!   else fire) until nothing is enabled; final = per request (done|waiting (bundle indices seen))
//! output (sync): ((req (res ...) next-calls items-yielded (seen ...)) ...)
use fluent_bundle::{FluentBundle, FluentResource};
use fluent_fallback::generator::{BundleGenerator, FluentBundleResult};
use fluent_fallback::types::{L10nKey, L10nMessage, ResourceId};
use fluent_fallback::{Bundles, Localization, LocalizationError};
use futures::Stream;
use rustc_hash::FxHashSet;
use std::borrow::Cow;
use std::cell::RefCell;
use std::future::Future;
use std::pin::Pin;
use std::rc::Rc;
use std::sync::{Arc, Mutex};
use std::task::{Context, Poll, Wake, Waker};
use unic_langid::LanguageIdentifier;
use verif_harness::*;

struct Shared {
    script: Vec<bool>, // true = ready item, false = pending
    pos: usize,
    next_item: usize,
    waker: Option<Waker>,
    polls: usize,
    readies: usize,
    yielded: usize,
}
type Sh = Rc<RefCell<Shared>>;

fn locale_of(i: usize) -> LanguageIdentifier {
    let s: String = [(i / 676) % 26, (i / 26) % 26, i % 26]
        .iter()
        .map(|d| (b'a' + *d as u8) as char)
        .collect();
    s.parse().expect("HARNESS: locale")
}
fn index_of(l: &LanguageIdentifier) -> i64 {
    let s = l.language.as_str().as_bytes();
    if s.len() != 3 {
        return -1;
    }
    ((s[0] - b'a') as i64) * 676 + ((s[1] - b'a') as i64) * 26 + (s[2] - b'a') as i64
}

fn make_bundle(i: usize) -> FluentBundleResult<FluentResource> {
    let mut src = String::new();
    for j in 0..=i {
        src.push_str(&format!("m{} = b{}\n", j, i));
        // present, but the value formats WITH a resolver error: missing variable / unknown message reference
        src.push_str(&format!("e{} = b{}{{ $nope }}\n", j, i));
        src.push_str(&format!("g{} = b{}{{ nope }}\n", j, i));
    }
    let res = FluentResource::try_new(src).expect("HARNESS: ftl");
    let mut bundle = FluentBundle::new(vec![locale_of(i)]);
    bundle.set_use_isolating(false);
    bundle.add_resource(res).expect("HARNESS: add_resource");
    Ok(bundle)
}

struct ScriptStream(Sh);
impl Stream for ScriptStream {
    type Item = FluentBundleResult<FluentResource>;
    fn poll_next(self: Pin<&mut Self>, cx: &mut Context<'_>) -> Poll<Option<Self::Item>> {
        let mut s = self.0.borrow_mut();
        s.polls += 1;
        if s.pos >= s.script.len() {
            s.readies += 1;
            return Poll::Ready(None);
        }
        if s.script[s.pos] {
            s.pos += 1;
            s.readies += 1;
            s.yielded += 1;
            let i = s.next_item;
            s.next_item += 1;
            Poll::Ready(Some(make_bundle(i)))
        } else {
            s.waker = Some(cx.waker().clone()); // only the latest waker is kept
            Poll::Pending
        }
    }
}

struct ScriptIter(Sh);
impl Iterator for ScriptIter {
    type Item = FluentBundleResult<FluentResource>;
    fn next(&mut self) -> Option<Self::Item> {
        let mut s = self.0.borrow_mut();
        s.polls += 1;
        while s.pos < s.script.len() && !s.script[s.pos] {
            s.pos += 1; // a synchronous source has no pending steps
        }
        if s.pos >= s.script.len() {
            return None;
        }
        s.pos += 1;
        s.yielded += 1;
        let i = s.next_item;
        s.next_item += 1;
        Some(make_bundle(i))
    }
}

struct Gen(Sh);
impl BundleGenerator for Gen {
    type Resource = FluentResource;
    type LocalesIter = std::vec::IntoIter<LanguageIdentifier>;
    type Iter = ScriptIter;
    type Stream = ScriptStream;
    fn bundles_iter(&self, _l: Self::LocalesIter, _r: FxHashSet<ResourceId>) -> Self::Iter {
        ScriptIter(self.0.clone())
    }
    fn bundles_stream(&self, _l: Self::LocalesIter, _r: FxHashSet<ResourceId>) -> Self::Stream {
        ScriptStream(self.0.clone())
    }
}

struct Flag {
    id: usize,
    flags: Arc<Mutex<Vec<bool>>>,
}
impl Wake for Flag {
    fn wake(self: Arc<Self>) {
        self.flags.lock().unwrap()[self.id] = true;
    }
}

fn text_index(s: &str) -> Sexp {
    // "b<i>" for a clean value, "b<i>{$nope}" / "b<i>{nope}" for one formatted with a resolver error
    let digits = |t: &str| -> String { t.chars().take_while(|c| c.is_ascii_digit()).collect() };
    match s.strip_prefix('b').map(digits).filter(|d| {
        let rest = &s[1 + d.len()..];
        !d.is_empty() && (rest.is_empty() || rest == "{$nope}" || rest == "{nope}")
    }).and_then(|d| d.parse::<i64>().ok()) {
        Some(i) => list(vec![sym("some"), int(i)]),
        None => list(vec![sym("UNEXPECTED-TEXT"), Sexp::A(s.as_bytes().to_vec())]),
    }
}
fn enc_value(v: Option<Cow<str>>) -> Sexp {
    match v {
        None => sym("none"),
        Some(s) => text_index(&s),
    }
}
fn enc_message(v: Option<L10nMessage>) -> Sexp {
    match v {
        None => sym("none"),
        Some(m) => match m.value {
            Some(s) if m.attributes.is_empty() => text_index(&s),
            _ => sym("UNEXPECTED-MESSAGE"),
        },
    }
}

#[derive(Clone, Copy, PartialEq)]
enum Api {
    V,
    Vs,
    Ms,
}

struct Req {
    api: Api,
    depths: Vec<usize>,
    ids: Vec<String>,
}

fn dec_reqs(x: &Sexp) -> Vec<Req> {
    x.as_list()
        .iter()
        .map(|r| {
            let l = r.as_list();
            let api = match l[0].as_str() {
                "v" => Api::V,
                "vs" => Api::Vs,
                "ms" => Api::Ms,
                _ => panic!("HARNESS: api"),
            };
            // key = d (message m<d>, clean) | (e d) (e<d>: missing variable) | (g d) (g<d>: unknown message reference)
            let key = |x: &Sexp| -> (String, usize) {
                match x {
                    Sexp::I(d) => ("m".to_string(), *d as usize),
                    _ => (x.as_list()[0].as_str().to_string(), x.as_list()[1].as_int() as usize),
                }
            };
            let depths: Vec<usize> = l[1..].iter().map(|x| key(x).1).collect();
            if api == Api::V && depths.len() != 1 {
                panic!("HARNESS: v takes one key");
            }
            let ids: Vec<String> = l[1..].iter().map(|x| format!("{}{}", key(x).0, key(x).1)).collect();
            Req { api, depths, ids }
        })
        .collect()
}

/// bundles visited by the request, reconstructed from what it reported: one MissingMessage per
/// visited bundle that lacks the deepest key, then the bundle that answered it
fn seen_of(req: &Req, errors: &[LocalizationError], result: Option<&Sexp>) -> Sexp {
    let mut out = vec![];
    if let Some(dmax) = req.depths.iter().max() {
        let kpos = req.depths.iter().position(|d| d == dmax).unwrap();
        let id = &req.ids[kpos];
        // keys with the same id report once each per visited bundle: keep one report per visit
        let m = req.ids.iter().filter(|i| *i == id).count();
        let mut k = 0;
        for e in errors {
            if let LocalizationError::MissingMessage { id: eid, locale: Some(l) } = e {
                if eid == id {
                    if k % m == 0 {
                        out.push(int(index_of(l)));
                    }
                    k += 1;
                }
            }
        }
        if let Some(Sexp::L(rs)) = result {
            if let Some(Sexp::L(r)) = rs.get(kpos) {
                if r.len() == 2 && r[0].is_sym("some") {
                    out.push(r[1].clone());
                }
            }
        }
    }
    list(out)
}

/// harness self-check: every answered e<d> / g<d> key must have been reported with a resolver error
/// (otherwise the resources do not exercise what they are meant to)
fn resolver_errors_ok(req: &Req, errors: &[LocalizationError], result: Option<&Sexp>) -> bool {
    let rs = match result {
        Some(Sexp::L(rs)) => rs,
        _ => return true,
    };
    req.ids.iter().enumerate().all(|(k, id)| {
        let answered = matches!(rs.get(k), Some(Sexp::L(r)) if r.len() == 2 && r[0].is_sym("some"));
        let wants = id.starts_with('e') || id.starts_with('g');
        let reported = errors.iter().any(|e| matches!(e, LocalizationError::Resolver { id: eid, .. } if eid == id));
        !wants || !answered || reported
    }) && errors.iter().all(|e| match e {
        LocalizationError::Resolver { id, .. } => id.starts_with('e') || id.starts_with('g'),
        _ => true,
    })
}

type BoxFut<'a> = Pin<Box<dyn Future<Output = Sexp> + 'a>>;

fn make_future<'a>(b: &'a Bundles<Gen>, req: &'a Req, keys: &'a [L10nKey<'a>], errors: &'a mut Vec<LocalizationError>) -> BoxFut<'a> {
    match req.api {
        Api::V => Box::pin(async move { list(vec![enc_value(b.format_value(&req.ids[0], None, errors).await)]) }),
        Api::Vs => Box::pin(async move { list(b.format_values(keys, errors).await.into_iter().map(enc_value).collect()) }),
        Api::Ms => Box::pin(async move { list(b.format_messages(keys, errors).await.into_iter().map(enc_message).collect()) }),
    }
}

fn run_async(b: &Bundles<Gen>, sh: &Sh, reqs: &[Req], sched: &[Sexp]) -> Sexp {
    let n = reqs.len();
    let keys: Vec<Vec<L10nKey>> = reqs
        .iter()
        .map(|r| r.ids.iter().map(|id| L10nKey { id: Cow::Borrowed(id.as_str()), args: None }).collect())
        .collect();
    let mut errors: Vec<Vec<LocalizationError>> = (0..n).map(|_| vec![]).collect();
    let flags = Arc::new(Mutex::new(vec![false; n]));
    let wakers: Vec<Waker> = (0..n).map(|id| Waker::from(Arc::new(Flag { id, flags: flags.clone() }))).collect();
    let mut results: Vec<Option<Sexp>> = vec![None; n];
    let mut blocked = vec![false; n];
    let mut outs = vec![];
    let mut douts = vec![];
    {
        let mut futs: Vec<BoxFut> = errors
            .iter_mut()
            .enumerate()
            .map(|(c, e)| make_future(b, &reqs[c], &keys[c], e))
            .collect();
        let counters = |sh: &Sh| {
            let s = sh.borrow();
            vec![int(s.polls as i64), int(s.readies as i64), int(s.yielded as i64)]
        };
        let newly = |before: &[bool], flags: &Arc<Mutex<Vec<bool>>>| {
            let after = flags.lock().unwrap().clone();
            list((0..after.len()).filter(|i| after[*i] && !before[*i]).map(|i| int(i as i64)).collect())
        };
        let mut do_poll = |c: usize, results: &mut Vec<Option<Sexp>>, blocked: &mut Vec<bool>| -> Sexp {
            if c >= n || results[c].is_some() {
                return sym("skip");
            }
            flags.lock().unwrap()[c] = false;
            let before = flags.lock().unwrap().clone();
            let mut cx = Context::from_waker(&wakers[c]);
            let p = futs[c].as_mut().poll(&mut cx);
            let w = newly(&before, &flags);
            let mut v = vec![sym("poll")];
            match p {
                Poll::Pending => {
                    blocked[c] = true;
                    v.push(sym("pending"));
                }
                Poll::Ready(r) => {
                    blocked[c] = false;
                    v.push(list(vec![sym("ready"), r.clone()]));
                    results[c] = Some(r);
                }
            }
            v.push(w);
            v.extend(counters(sh));
            list(v)
        };
        let do_fire = || -> Sexp {
            let before = flags.lock().unwrap().clone();
            let w = {
                let mut s = sh.borrow_mut();
                if s.waker.is_some() && s.pos < s.script.len() && !s.script[s.pos] {
                    s.pos += 1;
                    s.waker.take()
                } else {
                    None
                }
            };
            if let Some(w) = w {
                w.wake();
            }
            let mut v = vec![sym("fire"), newly(&before, &flags)];
            v.extend(counters(sh));
            list(v)
        };
        for st in sched {
            match st {
                Sexp::I(c) => outs.push(do_poll(*c as usize, &mut results, &mut blocked)),
                _ => outs.push(do_fire()),
            }
        }
        // fair drain
        let mut budget = 1000;
        loop {
            if budget == 0 {
                douts.push(sym("DRAIN-OVERFLOW"));
                break;
            }
            budget -= 1;
            let fl = flags.lock().unwrap().clone();
            let next = (0..n).find(|c| results[*c].is_none() && (!blocked[*c] || fl[*c]));
            if let Some(c) = next {
                let o = do_poll(c, &mut results, &mut blocked);
                douts.push(list(vec![int(c as i64), o]));
            } else if sh.borrow().waker.is_some() {
                douts.push(list(vec![sym("f"), do_fire()]));
            } else {
                break;
            }
        }
    }
    let fin: Vec<Sexp> = (0..n)
        .map(|c| {
            list(vec![
                sym(if results[c].is_some() { "done" } else { "waiting" }),
                seen_of(&reqs[c], &errors[c], results[c].as_ref()),
            ])
        })
        .collect();
    if (0..n).any(|c| !resolver_errors_ok(&reqs[c], &errors[c], results[c].as_ref())) {
        return list(vec![sym("HARNESS-SETUP"), atom("resolver-error keys were not reported as such")]);
    }
    list(vec![list(outs), list(douts), list(fin)])
}

fn run_sync(b: &Bundles<Gen>, sh: &Sh, reqs: &[Req]) -> Sexp {
    let mut outs = vec![];
    for req in reqs {
        let keys: Vec<L10nKey> = req.ids.iter().map(|id| L10nKey { id: Cow::Borrowed(id.as_str()), args: None }).collect();
        let mut errors = vec![];
        let r = match req.api {
            Api::V => list(vec![enc_value(b.format_value_sync(&req.ids[0], None, &mut errors).expect("HARNESS: sync mode"))]),
            Api::Vs => list(b.format_values_sync(&keys, &mut errors).expect("HARNESS: sync mode").into_iter().map(enc_value).collect()),
            Api::Ms => list(b.format_messages_sync(&keys, &mut errors).expect("HARNESS: sync mode").into_iter().map(enc_message).collect()),
        };
        let seen = seen_of(req, &errors, Some(&r));
        if !resolver_errors_ok(req, &errors, Some(&r)) {
            return list(vec![sym("HARNESS-SETUP"), atom("resolver-error keys were not reported as such")]);
        }
        let s = sh.borrow();
        outs.push(list(vec![sym("req"), r, int(s.polls as i64), int(s.yielded as i64), seen]));
    }
    list(outs)
}

// ------------------------------------------------------------------------------------------------
// handle level: one step = one poll_next of a named AsyncCacheStream / one next() of a named CacheIter
// (exactly `step` / `cache_step` of coq/theories/Fallback/Cache.v).  Needs fluent_fallback::cache, which
// is public only under --cfg fluent_rs_verif.
//
// case: (c17 hasync K () (r|p ...) (STEP ...))   STEP = c | f        items are 0,1,2.. in script order
//   output: ((step ...) (drain-step ...) (final ...))
//     step  = (poll pending|(ready none)|(ready (some i)) (newly-woken ...) polls readies yielded cache-len)
//           | (fire (newly-woken ...) polls readies yielded cache-len)
//     drain = fair scheduler of the model: first handle that is not finished and is not waiting-unwoken,
//             else fire a pending source, else stop; final = per handle (fin|open (items seen))
// case: (c17 hsync K () (r ...) (i ...))          output: (((next none|(some i) next-calls cache-len) ...) ((seen ...) ...))
#[cfg(fluent_rs_verif)]
mod handle {
    use super::*;
    use fluent_fallback::cache::{AsyncCache, Cache};
    use futures::StreamExt;

    pub struct NumStream(pub Sh);
    impl Stream for NumStream {
        type Item = usize;
        fn poll_next(self: Pin<&mut Self>, cx: &mut Context<'_>) -> Poll<Option<usize>> {
            let mut s = self.0.borrow_mut();
            s.polls += 1;
            if s.pos >= s.script.len() {
                s.readies += 1;
                return Poll::Ready(None);
            }
            if s.script[s.pos] {
                s.pos += 1;
                s.readies += 1;
                s.yielded += 1;
                let i = s.next_item;
                s.next_item += 1;
                Poll::Ready(Some(i))
            } else {
                s.waker = Some(cx.waker().clone()); // only the latest waker is kept
                Poll::Pending
            }
        }
    }

    pub struct NumIter(pub Sh);
    impl Iterator for NumIter {
        type Item = usize;
        fn next(&mut self) -> Option<usize> {
            let mut s = self.0.borrow_mut();
            s.polls += 1;
            if s.pos >= s.script.len() {
                return None;
            }
            s.pos += 1;
            s.yielded += 1;
            let i = s.next_item;
            s.next_item += 1;
            Some(i)
        }
    }

    pub fn run_hasync(k: usize, sh: &Sh, sched: &[Sexp]) -> Sexp {
        let cache: AsyncCache<NumStream, ()> = AsyncCache::new(NumStream(sh.clone()));
        let mut handles: Vec<_> = (0..k).map(|_| cache.stream()).collect();
        let flags = Arc::new(Mutex::new(vec![false; k]));
        let wakers: Vec<Waker> = (0..k).map(|id| Waker::from(Arc::new(Flag { id, flags: flags.clone() }))).collect();
        let mut blocked = vec![false; k];
        let mut fin = vec![false; k];
        let mut seen: Vec<Vec<Sexp>> = vec![vec![]; k];
        let counters = |cache: &AsyncCache<NumStream, ()>| {
            let s = sh.borrow();
            vec![int(s.polls as i64), int(s.readies as i64), int(s.yielded as i64), int(cache.len() as i64)]
        };
        let newly = |before: &[bool]| {
            let after = flags.lock().unwrap().clone();
            list((0..after.len()).filter(|i| after[*i] && !before[*i]).map(|i| int(i as i64)).collect())
        };
        let mut do_poll = |c: usize, blocked: &mut Vec<bool>, fin: &mut Vec<bool>, seen: &mut Vec<Vec<Sexp>>| -> Sexp {
            if c >= k {
                let mut v = vec![sym("poll"), sym("pending"), list(vec![])];
                v.extend(counters(&cache));
                return list(v);
            }
            flags.lock().unwrap()[c] = false;
            let before = flags.lock().unwrap().clone();
            let mut cx = Context::from_waker(&wakers[c]);
            let p = handles[c].poll_next_unpin(&mut cx);
            let mut v = vec![sym("poll")];
            match p {
                Poll::Pending => {
                    blocked[c] = true;
                    v.push(sym("pending"));
                }
                Poll::Ready(None) => {
                    blocked[c] = false;
                    fin[c] = true;
                    v.push(list(vec![sym("ready"), sym("none")]));
                }
                Poll::Ready(Some(x)) => {
                    blocked[c] = false;
                    seen[c].push(int(*x as i64));
                    v.push(list(vec![sym("ready"), list(vec![sym("some"), int(*x as i64)])]));
                }
            }
            v.push(newly(&before));
            v.extend(counters(&cache));
            list(v)
        };
        let do_fire = || -> Sexp {
            let before = flags.lock().unwrap().clone();
            let w = {
                let mut s = sh.borrow_mut();
                if s.waker.is_some() && s.pos < s.script.len() && !s.script[s.pos] {
                    s.pos += 1;
                    s.waker.take()
                } else {
                    None
                }
            };
            if let Some(w) = w {
                w.wake();
            }
            let mut v = vec![sym("fire"), newly(&before)];
            v.extend(counters(&cache));
            list(v)
        };
        let mut outs = vec![];
        for st in sched {
            match st {
                Sexp::I(c) => outs.push(do_poll(*c as usize, &mut blocked, &mut fin, &mut seen)),
                _ => outs.push(do_fire()),
            }
        }
        let mut douts = vec![];
        let mut budget = 2000;
        loop {
            if budget == 0 {
                douts.push(sym("DRAIN-OVERFLOW"));
                break;
            }
            budget -= 1;
            let fl = flags.lock().unwrap().clone();
            let next = (0..k).find(|c| !fin[*c] && (!blocked[*c] || fl[*c]));
            if let Some(c) = next {
                let o = do_poll(c, &mut blocked, &mut fin, &mut seen);
                douts.push(list(vec![int(c as i64), o]));
            } else if sh.borrow().waker.is_some() {
                douts.push(list(vec![sym("f"), do_fire()]));
            } else {
                break;
            }
        }
        let fin_out: Vec<Sexp> = (0..k)
            .map(|c| list(vec![sym(if fin[c] { "fin" } else { "open" }), list(seen[c].clone())]))
            .collect();
        list(vec![list(outs), list(douts), list(fin_out)])
    }

    pub fn run_hsync(k: usize, sh: &Sh, sched: &[Sexp]) -> Sexp {
        let cache: Cache<NumIter, ()> = Cache::new(NumIter(sh.clone()));
        let mut iters: Vec<_> = (0..k).map(|_| (&cache).into_iter()).collect();
        let mut seen: Vec<Vec<Sexp>> = vec![vec![]; k];
        let mut outs = vec![];
        for st in sched {
            let i = st.as_int() as usize;
            let r = if i < k { iters[i].next().copied() } else { None };
            if let Some(x) = r {
                seen[i].push(int(x as i64));
            }
            outs.push(list(vec![
                sym("next"),
                sopt(r.map(|x| int(x as i64))),
                int(sh.borrow().polls as i64),
                int(cache.len() as i64),
            ]));
        }
        list(vec![list(outs), list(seen.into_iter().map(list).collect())])
    }
}

fn run_handle(case: &[Sexp]) -> Sexp {
    #[cfg(fluent_rs_verif)]
    {
        let k = case[2].as_int() as usize;
        let sync = case[1].is_sym("hsync");
        let script: Vec<bool> = case[4].as_list().iter().map(|s| s.is_sym("r")).collect();
        let script = if sync { script.into_iter().filter(|r| *r).collect() } else { script };
        let sh: Sh = Rc::new(RefCell::new(Shared { script, pos: 0, next_item: 0, waker: None, polls: 0, readies: 0, yielded: 0 }));
        if sync {
            handle::run_hsync(k, &sh, case[5].as_list())
        } else {
            handle::run_hasync(k, &sh, case[5].as_list())
        }
    }
    #[cfg(not(fluent_rs_verif))]
    {
        let _ = case;
        list(vec![sym("HARNESS-NO-CACHE-MODULE"), atom("fluent_fallback::cache is private: build with --cfg fluent_rs_verif")])
    }
}

fn run(case: &Sexp) -> Sexp {
    let c = case.as_list();
    if c[1].is_sym("hasync") || c[1].is_sym("hsync") {
        return run_handle(c);
    }
    let sync = match c[1].as_str() {
        "sync" => true,
        "async" => false,
        _ => panic!("HARNESS: mode"),
    };
    let via_loc = c[2].is_sym("loc");
    let reqs = dec_reqs(&c[3]);
    let script: Vec<bool> = c[4].as_list().iter().map(|s| s.is_sym("r")).collect();
    let script = if sync { script.into_iter().filter(|r| *r).collect() } else { script };
    let sh: Sh = Rc::new(RefCell::new(Shared { script, pos: 0, next_item: 0, waker: None, polls: 0, readies: 0, yielded: 0 }));
    let provider: Vec<LanguageIdentifier> = vec![locale_of(0)];
    if via_loc {
        let loc = Localization::with_env(Vec::<ResourceId>::new(), sync, provider, Gen(sh.clone()));
        let b = loc.bundles().clone();
        if sync {
            run_sync(&b, &sh, &reqs)
        } else {
            run_async(&b, &sh, &reqs, c[5].as_list())
        }
    } else {
        let gen = Gen(sh.clone());
        let b = Bundles::new(sync, FxHashSet::default(), &gen, &provider);
        if sync {
            run_sync(&b, &sh, &reqs)
        } else {
            run_async(&b, &sh, &reqs, c[5].as_list())
        }
    }
}

fn main() {
    run_lines(run);
}

//! C12 driver: numbers keep their written precision and select the locale's plural category
//! (mirror of coq/theories/Extract/ExtractC12.v).
//!
//! case   (num <src> <print:true|false>)
//!          src = (lit #s)                      FluentNumber::from_str(s)
//!              | <value>                       values.rs forms, (mnum #display <options>), (conv <impl form> <model form>)
//!        -> (ok notnum) | (ok (num #display <options>) (str #as_string | skipped) (ops #n-display #i #v #w #f #t))
//!           as_string = FluentNumber::as_string, ops = PluralOperands::from(&FluentNumber); all integers as decimal text
//!        (number <value> (args (#key <value>) ...))           builtins::NUMBER(&[value], &args)
//!        -> (ok <value>)     value = (num #display <options>) | (str #bytes) | none | error | (custom)
//!        (sel (<locale> ...) <selector> (<key> ...) <default index> (<(id #name)|(num #lit)> ...)?)
//!          selector = (arg <value>) | (lit #s) | (fn <value> ((#name (s #text)|(n #lit)) ...))
//!          key      = (id #name) | (num #lit)
//!          a REAL bundle with these locales and the builtins formats
//!              e = { SELECTOR ->\n [key0] V0\n *[key1] V1 ... }|{ SELECTOR }
//!          where SELECTOR is `$n`, the literal, or `NUMBER($n, name: value, ...)`
//!        -> (ok #text (err ...) #text-of-a-second-format_pattern-on-the-same-bundle)
use fluent_bundle::types::FluentNumber;
use fluent_bundle::{FluentArgs, FluentBundle, FluentError, FluentResource, FluentValue};
use fluent_bundle::resolver::errors::{ReferenceKind, ResolverError};
use intl_pluralrules::operands::PluralOperands;
use std::str::FromStr;
use verif_harness::values;
use verif_harness::*;

fn bytes(s: &str) -> Sexp {
    Sexp::A(s.as_bytes().to_vec())
}

fn dec_val(x: &Sexp) -> FluentValue<'static> {
    if let Sexp::L(v) = x {
        match v[0].as_str() {
            "conv" => {
                let val = dec_val(&v[1]);
                let m = v[2].as_list();
                match &val {
                    FluentValue::Number(n) if m[0].is_sym("mnum") => {
                        if n.value.to_string() != m[1].as_str() || n.options != values::dec_options(&m[2]) {
                            panic!("HARNESS: model form {} does not describe {:?}", v[2].to_text(), n);
                        }
                    }
                    FluentValue::String(s) if m[0].is_sym("str") => {
                        if s.as_bytes() != m[2].as_bytes() {
                            panic!("HARNESS: model form {} does not describe {:?}", v[2].to_text(), s);
                        }
                    }
                    _ => panic!("HARNESS: model form {} vs {:?}", v[2].to_text(), val),
                }
                val
            }
            "mnum" => {
                let t = v[1].as_str();
                let f: f64 = t.parse().expect("HARNESS: mnum text");
                if f.to_string() != t {
                    panic!("HARNESS: mnum text {} is not the Display form of {:?}", t, f);
                }
                FluentValue::Number(FluentNumber::new(f, values::dec_options(&v[2])))
            }
            _ => values::dec_value(x),
        }
    } else {
        values::dec_value(x)
    }
}

fn enc_val(v: &FluentValue) -> Sexp {
    match v {
        FluentValue::String(s) => list(vec![sym("str"), bytes(s)]),
        FluentValue::Number(n) => list(vec![sym("num"), bytes(&n.value.to_string()), enc_options(&n.options)]),
        FluentValue::Custom(_) => list(vec![sym("custom")]),
        FluentValue::None => sym("none"),
        FluentValue::Error => sym("error"),
    }
}

fn dec_text(n: impl ToString) -> Sexp {
    bytes(&n.to_string())
}

/// options as values.rs prints them, except that the five digit options are decimal TEXT (a usize does not fit
/// the integer atoms of the case format)
fn enc_options(o: &fluent_bundle::types::FluentNumberOptions) -> Sexp {
    let mut v = values::enc_options(o).as_list().to_vec();
    let digits = [
        o.minimum_integer_digits,
        o.minimum_fraction_digits,
        o.maximum_fraction_digits,
        o.minimum_significant_digits,
        o.maximum_significant_digits,
    ];
    for (k, d) in digits.iter().enumerate() {
        v[5 + k] = sopt(d.map(dec_text));
    }
    list(v)
}

fn run_num(c: &[Sexp]) -> Sexp {
    let src = &c[1];
    let print = c[2].is_sym("true");
    let n: FluentNumber = if src.tag() == "lit" {
        match FluentNumber::from_str(src.as_list()[1].as_str()) {
            Ok(n) => n,
            Err(_) => return ok(sym("notnum")),
        }
    } else {
        match dec_val(src) {
            FluentValue::Number(n) => n,
            _ => return ok(sym("notnum")),
        }
    };
    let shown = if print { list(vec![sym("str"), bytes(&n.as_string())]) } else { list(vec![sym("str"), sym("skipped")]) };
    let ops = PluralOperands::from(&n);
    list(vec![
        sym("ok"),
        list(vec![sym("num"), bytes(&n.value.to_string()), enc_options(&n.options)]),
        shown,
        list(vec![
            sym("ops"),
            bytes(&ops.n.to_string()),
            dec_text(ops.i),
            dec_text(ops.v),
            dec_text(ops.w),
            dec_text(ops.f),
            dec_text(ops.t),
        ]),
    ])
}

fn mk_args(x: &Sexp) -> FluentArgs<'static> {
    let mut a = FluentArgs::new();
    for kv in &x.as_list()[1..] {
        let kv = kv.as_list();
        a.set(kv[0].as_str().to_string(), dec_val(&kv[1]));
    }
    a
}

fn run_number(c: &[Sexp]) -> Sexp {
    let v = dec_val(&c[1]);
    let named = mk_args(&c[2]);
    let r = fluent_bundle::builtins::NUMBER(&[v], &named);
    ok(enc_val(&r))
}

fn enc_error(e: &FluentError) -> Sexp {
    let oa = |a: &Option<String>| sopt(a.as_ref().map(|s| bytes(s)));
    match e {
        FluentError::ResolverError(r) => match r {
            ResolverError::Reference(k) => list(vec![
                sym("Reference"),
                match k {
                    ReferenceKind::Function { id } => list(vec![sym("Function"), bytes(id)]),
                    ReferenceKind::Message { id, attribute } => list(vec![sym("Message"), bytes(id), oa(attribute)]),
                    ReferenceKind::Term { id, attribute } => list(vec![sym("Term"), bytes(id), oa(attribute)]),
                    ReferenceKind::Variable { id } => list(vec![sym("Variable"), bytes(id)]),
                },
            ]),
            ResolverError::NoValue(id) => list(vec![sym("NoValue"), bytes(id)]),
            ResolverError::MissingDefault => sym("MissingDefault"),
            ResolverError::Cyclic => sym("Cyclic"),
            ResolverError::TooManyPlaceables => sym("TooManyPlaceables"),
        },
        FluentError::Overriding { .. } => sym("Overriding"),
        FluentError::ParserError(_) => sym("ParserError"),
    }
}

fn run_sel(c: &[Sexp]) -> Sexp {
    let locales: Vec<unic_langid::LanguageIdentifier> =
        c[1].as_list().iter().map(|l| l.as_str().parse().expect("HARNESS: locale")).collect();
    let sel = c[2].as_list();
    let mut args: Option<FluentArgs<'static>> = None;
    let selector_text = match sel[0].as_str() {
        "arg" => {
            let mut a = FluentArgs::new();
            a.set("n", dec_val(&sel[1]));
            args = Some(a);
            "$n".to_string()
        }
        "lit" => sel[1].as_str().to_string(),
        "fn" => {
            let mut a = FluentArgs::new();
            a.set("n", dec_val(&sel[1]));
            args = Some(a);
            let mut t = "NUMBER($n".to_string();
            for o in sel[2].as_list() {
                let o = o.as_list();
                let v = o[1].as_list();
                t.push_str(", ");
                t.push_str(o[0].as_str());
                t.push_str(": ");
                if v[0].is_sym("s") {
                    t.push('"');
                    t.push_str(v[1].as_str());
                    t.push('"');
                } else {
                    t.push_str(v[1].as_str());
                }
            }
            t.push(')');
            t
        }
        _ => panic!("HARNESS: selector form"),
    };
    let default = c[4].as_int() as usize;
    let mut ftl = format!("e = {{ {} ->\n", selector_text);
    for (i, k) in c[3].as_list().iter().enumerate() {
        let k = k.as_list();
        ftl.push_str(&format!("   {}[{}] V{}\n", if i == default { "*" } else { " " }, k[1].as_str(), i));
    }
    ftl.push_str(&format!(" }}|{{ {} }}\n", selector_text));
    let res = match FluentResource::try_new(ftl.clone()) {
        Ok(r) => r,
        Err((_, errs)) => panic!("HARNESS: generated FTL does not parse: {:?} {:?}", ftl, errs),
    };
    let mut bundle: FluentBundle<FluentResource> = FluentBundle::new(locales);
    bundle.set_use_isolating(false);
    bundle.add_builtins().expect("HARNESS: add_builtins");
    bundle.add_resource(res).expect("HARNESS: add_resource");
    let msg = bundle.get_message("e").expect("HARNESS: message e");
    let pattern = msg.value().expect("HARNESS: value of e");
    let mut errs = vec![];
    let text = bundle.format_pattern(pattern, args.as_ref(), &mut errs).to_string();
    let mut errs2 = vec![];
    let text2 = bundle.format_pattern(pattern, args.as_ref(), &mut errs2).to_string();
    list(vec![sym("ok"), bytes(&text), list(errs.iter().map(enc_error).collect()), bytes(&text2)])
}

fn run(case: &Sexp) -> Sexp {
    let c = case.as_list();
    match c[0].as_str() {
        "num" => run_num(c),
        "number" => run_number(c),
        "sel" => run_sel(c),
        _ => panic!("HARNESS: unknown case {}", c[0].to_text()),
    }
}

fn main() {
    run_lines(run);
}

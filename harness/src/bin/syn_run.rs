//! Syntax crate driver.  Cases:
//!   (parse #text) (parse_owned #text) (parse_runtime #text) (parse_runtime_owned #text)
//!        -> (ok <resource> (<error> ...))      error = (Kind payload.. pos_start pos_end slice|none)
//!   (parse_all #text) -> (ok <parse &str> <parse String> <parse_runtime &str> <parse_runtime String>)
//!   (damage #pre #entry #damaged #post) -> (ok R(pre+entry+post) R'(..) R(pre+damaged+post) R'(..) R(pre) R'(pre) R(post) R'(post))  R = parse, R' = parse_runtime
//!   (serialize true|false <resource>)   -> (ok #text)
//!   (roundtrip true|false #text)        -> (ok <tree1> #ser1 <tree2> #ser2)   parse, serialize, parse, serialize
//!   (unescape #text)                    -> (ok borrowed|owned #string #writer-output)
use fluent_syntax::parser::{self, ErrorKind, ParserError};
use fluent_syntax::serializer;
use verif_harness::ast::*;
use verif_harness::*;

fn bytes(s: &str) -> Sexp {
    Sexp::A(s.as_bytes().to_vec())
}

pub fn enc_error(e: &ParserError) -> Sexp {
    let mut v: Vec<Sexp> = match &e.kind {
        ErrorKind::ExpectedToken(c) => vec![sym("ExpectedToken"), int(*c as i64)],
        ErrorKind::ExpectedCharRange { range } => vec![sym("ExpectedCharRange"), bytes(range)],
        ErrorKind::ExpectedMessageField { entry_id } => vec![sym("ExpectedMessageField"), bytes(entry_id)],
        ErrorKind::ExpectedTermField { entry_id } => vec![sym("ExpectedTermField"), bytes(entry_id)],
        ErrorKind::ForbiddenCallee => vec![sym("ForbiddenCallee")],
        ErrorKind::MissingDefaultVariant => vec![sym("MissingDefaultVariant")],
        ErrorKind::MissingValue => vec![sym("MissingValue")],
        ErrorKind::MultipleDefaultVariants => vec![sym("MultipleDefaultVariants")],
        ErrorKind::MessageReferenceAsSelector => vec![sym("MessageReferenceAsSelector")],
        ErrorKind::TermReferenceAsSelector => vec![sym("TermReferenceAsSelector")],
        ErrorKind::MessageAttributeAsSelector => vec![sym("MessageAttributeAsSelector")],
        ErrorKind::TermAttributeAsPlaceable => vec![sym("TermAttributeAsPlaceable")],
        ErrorKind::UnterminatedStringLiteral => vec![sym("UnterminatedStringLiteral")],
        ErrorKind::PositionalArgumentFollowsNamed => vec![sym("PositionalArgumentFollowsNamed")],
        ErrorKind::DuplicatedNamedArgument(s) => vec![sym("DuplicatedNamedArgument"), bytes(s)],
        ErrorKind::UnknownEscapeSequence(s) => vec![sym("UnknownEscapeSequence"), bytes(s)],
        ErrorKind::InvalidUnicodeEscapeSequence(s) => vec![sym("InvalidUnicodeEscapeSequence"), bytes(s)],
        ErrorKind::UnbalancedClosingBrace => vec![sym("UnbalancedClosingBrace")],
        ErrorKind::ExpectedInlineExpression => vec![sym("ExpectedInlineExpression")],
        ErrorKind::ExpectedSimpleExpressionAsSelector => vec![sym("ExpectedSimpleExpressionAsSelector")],
        ErrorKind::ExpectedLiteral => vec![sym("ExpectedLiteral")],
    };
    v.push(int(e.pos.start as i64));
    v.push(int(e.pos.end as i64));
    v.push(sopt(e.slice.as_ref().map(|r| list(vec![int(r.start as i64), int(r.end as i64)]))));
    list(v)
}

fn result<S: AsRef<str>>(
    r: Result<fluent_syntax::ast::Resource<S>, (fluent_syntax::ast::Resource<S>, Vec<ParserError>)>,
) -> Sexp {
    match r {
        Ok(res) => list(vec![sym("ok"), enc_resource(&res), list(vec![])]),
        Err((res, errs)) => list(vec![
            sym("ok"),
            enc_resource(&res),
            list(errs.iter().map(enc_error).collect()),
        ]),
    }
}

/// FluentResource::try_new keeps the recovered tree next to the errors
fn try_new(t: &str) -> Sexp {
    use fluent_bundle::FluentResource;
    let (tag, res, errs) = match FluentResource::try_new(t.to_string()) {
        Ok(r) => ("ok", r, vec![]),
        Err((r, e)) => ("err", r, e),
    };
    let nerr = errs.len();
    let n = res.entries().count();
    // the resource is the runtime parser's result on exactly the text it owns: same entries, same errors (positions and
    // slices are offsets into source()), so that Junk and error ranges can be read against source()
    let (body2, errs2) = match parser::parse_runtime(t) {
        Ok(r) => (r, vec![]),
        Err((r, e)) => (r, e),
    };
    let same = (0..n).all(|i| res.get_entry(i).is_some())
        && res.get_entry(n).is_none()
        && res.source() == t
        && res.entries().eq(body2.body.iter())
        && errs == errs2;
    list(vec![sym("try_new"), sym(tag), int(n as i64), int(nerr as i64), sbool(same)])
}

fn run(case: &Sexp) -> Sexp {
    let c = case.as_list();
    match c[0].as_str() {
        "parse_all" => {
            let t = c[1].as_str();
            let r1 = result(parser::parse(t));
            let r2 = result(parser::parse(t.to_string()));
            let r3 = result(parser::parse_runtime(t));
            let r4 = result(parser::parse_runtime(t.to_string()));
            // borrowed vs owned agreement, computed here so that very deep trees need not be compared by the driver
            let same = list(vec![sym("same"), sbool(r1 == r2), sbool(r3 == r4)]);
            list(vec![sym("ok"), r1, r2, r3, r4, try_new(t), same])
        }
        "damage" => {
            // (damage #pre #entry #damaged #post)
            let pre = c[1].as_str();
            let e = c[2].as_str();
            let d = c[3].as_str();
            let post = c[4].as_str();
            let good = format!("{}{}{}", pre, e, post);
            let bad = format!("{}{}{}", pre, d, post);
            let mut v = vec![sym("ok")];
            for t in [good.as_str(), bad.as_str(), pre, post] {
                v.push(result(parser::parse(t)));
                v.push(result(parser::parse_runtime(t)));
            }
            list(v)
        }
        "parse" => result(parser::parse(c[1].as_str())),
        "parse_owned" => result(parser::parse(c[1].as_str().to_string())),
        "parse_runtime" => result(parser::parse_runtime(c[1].as_str())),
        "parse_runtime_owned" => result(parser::parse_runtime(c[1].as_str().to_string())),
        "serialize" => {
            let res = dec_resource(&c[2]);
            let opts = serializer::Options { with_junk: c[1].is_sym("true") };
            ok(bytes(&serializer::serialize_with_options(&res, opts)))
        }
        "roundtrip" => {
            let opts = || serializer::Options { with_junk: c[1].is_sym("true") };
            let t1 = match parser::parse(c[2].as_str()) {
                Ok(r) => r,
                Err((r, _)) => r,
            };
            let s1 = serializer::serialize_with_options(&t1, opts());
            let t2 = match parser::parse(s1.as_str()) {
                Ok(r) => r,
                Err((r, _)) => r,
            };
            let s2 = serializer::serialize_with_options(&t2, opts());
            list(vec![sym("ok"), enc_resource(&t1), bytes(&s1), enc_resource(&t2), bytes(&s2)])
        }
        "unescape" => {
            let input = c[1].as_str();
            let cow = fluent_syntax::unicode::unescape_unicode_to_string(input);
            let mut w = String::new();
            fluent_syntax::unicode::unescape_unicode(&mut w, input).unwrap();
            list(vec![
                sym("ok"),
                sym(match cow {
                    std::borrow::Cow::Borrowed(_) => "borrowed",
                    std::borrow::Cow::Owned(_) => "owned",
                }),
                bytes(&cow),
                bytes(&w),
            ])
        }
        _ => panic!("HARNESS: unknown case {}", case.to_text()),
    }
}

fn main() {
    run_lines(run);
}

//! Resolver driver for the repository's own resolver fixtures (C07; mirror of
//! coq/theories/Extract/ExtractC07.v).  The fixtures (fluent-bundle/tests/fixtures/*.yaml) are written
//! against the function table and the transform of fluent-bundle/tests/resolver_fixtures.rs, which differ
//! from those of bundle_run.rs; this bin registers THOSE (and records what they receive).
//!
//! case   (fix <cfg> (<res> ...) <entry> <args> ...)        format one pattern
//!        (has <cfg> (<res> ...) #id)                       is there a message with this id
//!   cfg    (cfg <iso:true|false> <transform:none|example> <formatter:none> (<function name> ...) (<locale> ...) single)
//!   res    (r #ftl-text <tree>)         the text goes through FluentResource::try_new; the tree is for the model
//!   entry  (msg #id none|(some #attr))
//!   args   none | (args (#key <value>) ...)      value = (str b|o #bytes) | (mnum #display-text <options>)
//! result (ok missing) | (ok ((fmt #text (err ...)) (wrt #text (err ...)) (calls (c #id (value ...) ((#k value) ...)) ...)))
//!        (has true|false)
//! functions (resolver_fixtures.rs create_bundle): CONCAT (strings and numbers' Display, rest ignored),
//!   SUM (here: defined on non-negative integers, otherwise Error — the fixture closure panics on non-numbers;
//!   the fixtures only add 1 and 2), IDENTITY (first argument or Error), NUMBER (first argument; here Error when
//!   there is none — the fixture closure panics).  transform example: a -> A.
use fluent_bundle::types::FluentNumber;
use fluent_bundle::{FluentArgs, FluentBundle, FluentError, FluentResource, FluentValue};
use fluent_bundle::resolver::errors::{ReferenceKind, ResolverError};
use std::borrow::Cow;
use std::sync::{Arc, Mutex};
use verif_harness::values;
use verif_harness::*;

static LOG: Mutex<Vec<Sexp>> = Mutex::new(Vec::new());

fn log_take() -> Vec<Sexp> {
    std::mem::take(&mut *LOG.lock().unwrap_or_else(|e| e.into_inner()))
}

fn bytes(s: &str) -> Sexp {
    Sexp::A(s.as_bytes().to_vec())
}

fn enc_val(v: &FluentValue) -> Sexp {
    match v {
        FluentValue::String(s) => list(vec![sym("str"), bytes(s)]),
        FluentValue::Number(n) => list(vec![sym("num"), bytes(&n.value.to_string()), values::enc_options(&n.options)]),
        FluentValue::Custom(_) => list(vec![sym("custom"), bytes("?")]),
        FluentValue::None => sym("none"),
        FluentValue::Error => sym("error"),
    }
}

fn dec_val(x: &Sexp) -> FluentValue<'static> {
    if let Sexp::L(v) = x {
        if v[0].is_sym("mnum") {
            let t = v[1].as_str();
            let f: f64 = t.parse().expect("HARNESS: mnum text");
            if f.to_string() != t {
                panic!("HARNESS: mnum text {} is not the Display form of {:?}", t, f);
            }
            return FluentValue::Number(FluentNumber::new(f, values::dec_options(&v[2])));
        }
    }
    values::dec_value(x)
}

fn fixture_function<'a>(name: &str, pos: &[FluentValue<'a>], named: &FluentArgs) -> FluentValue<'a> {
    LOG.lock().unwrap_or_else(|e| e.into_inner()).push(list(vec![
        sym("c"),
        bytes(name),
        list(pos.iter().map(enc_val).collect()),
        list(named.iter().map(|(k, v)| list(vec![bytes(k), enc_val(v)])).collect()),
    ]));
    match name {
        "CONCAT" => pos
            .iter()
            .fold(String::new(), |acc, x| match x {
                FluentValue::String(s) => acc + s,
                FluentValue::Number(n) => acc + &n.value.to_string(),
                _ => acc,
            })
            .into(),
        "SUM" => {
            let mut acc: u64 = 0;
            for x in pos {
                match x {
                    FluentValue::Number(n) if n.value >= 0.0 && n.value.fract() == 0.0 && n.value < 1e15 => {
                        acc += n.value as u64;
                    }
                    _ => return FluentValue::Error,
                }
            }
            (acc as f64).into()
        }
        "IDENTITY" => pos.first().cloned().unwrap_or(FluentValue::Error),
        "NUMBER" => pos.first().cloned().unwrap_or(FluentValue::Error),
        _ => FluentValue::Error,
    }
}

fn transform_example(s: &str) -> Cow<str> {
    s.replace('a', "A").into()
}

fn enc_error(e: &FluentError) -> Sexp {
    let oa = |a: &Option<String>| sopt(a.as_ref().map(|s| bytes(s)));
    match e {
        FluentError::ResolverError(r) => match r {
            ResolverError::Reference(k) => list(vec![
                sym("Reference"),
                match k {
                    ReferenceKind::Function { id } => list(vec![sym("Function"), bytes(id)]),
                    ReferenceKind::Message { id, attribute } => list(vec![sym("Message"), bytes(id), oa(attribute)]),
                    ReferenceKind::Term { id, attribute } => list(vec![sym("Term"), bytes(id), oa(attribute)]),
                    ReferenceKind::Variable { id } => list(vec![sym("Variable"), bytes(id)]),
                },
            ]),
            ResolverError::NoValue(id) => list(vec![sym("NoValue"), bytes(id)]),
            ResolverError::MissingDefault => sym("MissingDefault"),
            ResolverError::Cyclic => sym("Cyclic"),
            ResolverError::TooManyPlaceables => sym("TooManyPlaceables"),
        },
        FluentError::Overriding { .. } => sym("Overriding"),
        FluentError::ParserError(_) => sym("ParserError"),
    }
}

fn res_pair(tag: &str, text: &str, errs: &[FluentError]) -> Sexp {
    list(vec![sym(tag), bytes(text), list(errs.iter().map(enc_error).collect())])
}

fn build(case: &[Sexp]) -> FluentBundle<Arc<FluentResource>> {
    let cf = case[1].as_list();
    let locales: Vec<unic_langid::LanguageIdentifier> =
        cf[5].as_list().iter().map(|l| l.as_str().parse().expect("HARNESS: locale")).collect();
    let mut b = FluentBundle::<Arc<FluentResource>>::new(locales);
    b.set_use_isolating(cf[1].is_sym("true"));
    match cf[2].as_str() {
        "example" => b.set_transform(Some(transform_example)),
        "none" => b.set_transform(None),
        other => panic!("HARNESS: unknown transform {}", other),
    }
    // resolver_fixtures.rs create_bundle: functions first, then resources (errors ignored: first registration wins)
    for f in cf[4].as_list() {
        let name = f.as_str().to_string();
        let _ = b.add_function(f.as_str(), move |pos, named| fixture_function(&name, pos, named));
    }
    for r in case[2].as_list() {
        let text = r.as_list()[1].as_str().to_string();
        let res = Arc::new(match FluentResource::try_new(text) {
            Ok(r) => r,
            Err((r, _)) => r,
        });
        let _ = b.add_resource(res);
    }
    b
}

fn run(case: &Sexp) -> Sexp {
    let c = case.as_list();
    if c[0].is_sym("has") {
        let b = build(c);
        return list(vec![sym("has"), sbool(b.has_message(c[3].as_str()))]);
    }
    if !c[0].is_sym("fix") {
        panic!("HARNESS: unknown case {}", c[0].to_text());
    }
    let bundle = build(c);
    let e = c[3].as_list();
    let id = e[1].as_str();
    let attr = if e[2].is_sym("none") { None } else { Some(e[2].as_list()[1].as_str()) };
    let pattern = match bundle.get_message(id) {
        None => None,
        Some(m) => match attr {
            Some(a) => m.get_attribute(a).map(|x| x.value()),
            None => m.value(),
        },
    };
    let Some(pattern) = pattern else {
        return list(vec![sym("ok"), sym("missing")]);
    };
    let args: Option<FluentArgs> = if c[4].is_sym("none") {
        None
    } else {
        // the fixture test collects a HashMap into FluentArgs
        Some(
            c[4].as_list()[1..]
                .iter()
                .map(|kv| (kv.as_list()[0].as_str().to_string(), dec_val(&kv.as_list()[1])))
                .collect(),
        )
    };
    log_take();
    let mut errs = vec![];
    let fmt = bundle.format_pattern(pattern, args.as_ref(), &mut errs).to_string();
    let calls = log_take();
    let mut werrs = vec![];
    let mut w = String::new();
    bundle.write_pattern(&mut w, pattern, args.as_ref(), &mut werrs).expect("HARNESS: write to String failed");
    log_take();
    let mut cl = vec![sym("calls")];
    cl.extend(calls);
    list(vec![sym("ok"), list(vec![res_pair("fmt", &fmt, &errs), res_pair("wrt", &w, &werrs), list(cl)])])
}

fn main() {
    std::panic::set_hook(Box::new(|_| {}));
    run_lines(run);
}

//! C11: FluentArgs under op sequences.  case: (c11 <mode> (op ...))
//!   op = (set b|o #key value) | (get b|o #key) | (iter)
//!   mode = set | from_iter | macro | capacity  — how the leading run of sets is performed
use fluent::fluent_args;
use fluent_bundle::{FluentArgs, FluentValue};
use std::borrow::Cow;
use verif_harness::values::*;
use verif_harness::*;

thread_local! {
    /// Borrowed keys are interned so that prefix-related keys are slices of ONE buffer starting at the same
    /// address (e.g. "nam" = &"name2"[..3]) — the situation `&path[..n]` produces in user code.
    static ARENA: std::cell::RefCell<Vec<&'static str>> = std::cell::RefCell::new(Vec::new());
}

fn intern(k: &str) -> &'static str {
    ARENA.with(|a| {
        let mut a = a.borrow_mut();
        for s in a.iter() {
            if s.starts_with(k) {
                return &s[..k.len()];
            }
        }
        let l = leak(k);
        a.push(l);
        l
    })
}

fn key(flag: &Sexp, k: &Sexp) -> Cow<'static, str> {
    if flag.is_sym("b") {
        Cow::Borrowed(intern(k.as_str()))
    } else {
        Cow::Owned(k.as_str().to_string())
    }
}

fn run(case: &Sexp) -> Sexp {
    let c = case.as_list();
    let mode = c[1].as_str();
    let ops = c[2].as_list();
    // intern the longest borrowed keys first, so that shorter ones become prefixes slices of them
    ARENA.with(|a| a.borrow_mut().clear());
    let mut bkeys: Vec<&str> = ops
        .iter()
        .filter(|o| o.tag() != "iter" && o.as_list()[1].is_sym("b"))
        .map(|o| o.as_list()[2].as_str())
        .collect();
    bkeys.sort_by_key(|k| std::cmp::Reverse(k.len()));
    for k in bkeys {
        intern(k);
    }
    let lead = ops.iter().take_while(|o| o.tag() == "set").count();
    let pairs: Vec<(Cow<'static, str>, FluentValue<'static>)> = ops[..lead]
        .iter()
        .map(|o| {
            let o = o.as_list();
            (key(&o[1], &o[2]), dec_value(&o[3]))
        })
        .collect();
    let mut args: FluentArgs<'static>;
    let mut start = lead;
    match mode {
        "from_iter" => {
            args = pairs.into_iter().collect();
        }
        "macro" if lead <= 4 => {
            let mut it = pairs.into_iter();
            args = match lead {
                0 => fluent_args![],
                1 => {
                    let a = it.next().unwrap();
                    fluent_args![a.0 => a.1]
                }
                2 => {
                    let a = it.next().unwrap();
                    let b = it.next().unwrap();
                    fluent_args![a.0 => a.1, b.0 => b.1]
                }
                3 => {
                    let a = it.next().unwrap();
                    let b = it.next().unwrap();
                    let c = it.next().unwrap();
                    fluent_args![a.0 => a.1, b.0 => b.1, c.0 => c.1,]
                }
                _ => {
                    let a = it.next().unwrap();
                    let b = it.next().unwrap();
                    let c = it.next().unwrap();
                    let d = it.next().unwrap();
                    fluent_args![a.0 => a.1, b.0 => b.1, c.0 => c.1, d.0 => d.1]
                }
            };
        }
        "capacity" => {
            args = FluentArgs::with_capacity(2);
            start = 0;
        }
        _ => {
            args = FluentArgs::new();
            start = 0;
        }
    }
    let mut out = vec![];
    for o in &ops[start..] {
        let ol = o.as_list();
        match o.tag() {
            "set" => args.set(key(&ol[1], &ol[2]), dec_value(&ol[3])),
            "get" => out.push(ok(sopt(args.get(key(&ol[1], &ol[2])).map(enc_value)))),
            "iter" => out.push(list(
                args.iter()
                    .map(|(k, v)| list(vec![Sexp::A(k.as_bytes().to_vec()), enc_value(v)]))
                    .collect(),
            )),
            _ => panic!("HARNESS: op"),
        }
    }
    list(out)
}

fn main() {
    run_lines(run);
}

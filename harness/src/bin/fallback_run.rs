//! fluent-fallback driven on scripted generators.  Two modes, selected by the case tag:
//!
//! `walk` (C16)   case := (c16 <mode> (<bundle> ...) (<req> ...))        — see coq/theories/Extract/ExtractC16.v
//!   A scripted BundleGenerator yields, lazily and counting its yields, one FluentBundle per <bundle>
//!   (built from FTL text generated from the case; `Err((bundle, errors))` for a broken one), as an
//!   Iterator (mode sync) or a Stream (mode async, driven by futures::executor::block_on).  Every
//!   request goes through the public API of `Localization::bundles()` on ONE instance.
//!
//! `localization` (C18)  case := (c18 <sync|async> (<locale> ...) (<resid> ...) (<op> ...))
//!   — see coq/theories/Extract/ExtractC18.v and the second half of this file.
use fluent_bundle::resolver::errors::ReferenceKind;
use fluent_bundle::resolver::ResolverError;
use fluent_bundle::{FluentArgs, FluentBundle, FluentError, FluentResource, FluentValue};
use fluent_fallback::env::LocalesProvider;
use fluent_fallback::generator::{BundleGenerator, BundleIterator, BundleStream, FluentBundleResult};
use fluent_fallback::types::{L10nKey, L10nMessage, ResourceId, ResourceType};
use fluent_fallback::{Bundles, Localization, LocalizationError};
use rustc_hash::FxHashSet;
use std::borrow::Cow;
use std::cell::{Cell, RefCell};
use std::rc::Rc;
use unic_langid::LanguageIdentifier;
use verif_harness::*;

fn bytes(s: &str) -> Sexp {
    Sexp::A(s.as_bytes().to_vec())
}

// ------------------------------------------------------------------------------------------------
// scripted generator

thread_local! {
    /// how often the scripted STREAM was polled (every poll, Pending or Ready)
    static STREAM_POLLS: Cell<usize> = Cell::new(0);
}

#[derive(Clone)]
struct BundleSpec {
    carried: Option<Vec<String>>,
    locales: Vec<LanguageIdentifier>,
    ftl: String,
}

fn pat_to_ftl(p: &Sexp, out: &mut String) {
    for e in p.as_list() {
        let e = e.as_list();
        if e[0].is_sym("v") {
            out.push_str("{ $");
            out.push_str(e[1].as_str());
            out.push_str(" }");
        } else {
            out.push_str(e[1].as_str());
        }
    }
}

fn bundle_spec(b: &Sexp) -> BundleSpec {
    let b = b.as_list();
    let carried = match &b[0] {
        Sexp::L(toks) => Some(toks.iter().map(|t| t.as_str().to_string()).collect()),
        _ => None,
    };
    let locales = b[1]
        .as_list()
        .iter()
        .map(|l| l.as_str().parse().expect("HARNESS: locale"))
        .collect();
    let mut ftl = String::new();
    for m in b[2].as_list() {
        let m = m.as_list();
        ftl.push_str(m[0].as_str());
        ftl.push_str(" =");
        if let Sexp::L(_) = &m[1] {
            ftl.push(' ');
            pat_to_ftl(&m[1], &mut ftl);
        }
        ftl.push('\n');
        for a in m[2].as_list() {
            let a = a.as_list();
            ftl.push_str("    .");
            ftl.push_str(a[0].as_str());
            ftl.push_str(" = ");
            pat_to_ftl(&a[1], &mut ftl);
            ftl.push('\n');
        }
    }
    BundleSpec { carried, locales, ftl }
}

fn build_bundle(spec: &BundleSpec) -> FluentBundleResult<FluentResource> {
    let mut bundle = FluentBundle::new(spec.locales.clone());
    bundle.set_use_isolating(false);
    let res = match FluentResource::try_new(spec.ftl.clone()) {
        Ok(r) => r,
        Err((_, errs)) => panic!("HARNESS: generated FTL does not parse: {:?} in {:?}", errs, spec.ftl),
    };
    // a second definition of an id is rejected by add_resource and the first one stays
    let _ = bundle.add_resource(res);
    match &spec.carried {
        None => Ok(bundle),
        Some(toks) => Err((
            bundle,
            toks.iter()
                .map(|t| FluentError::ResolverError(ResolverError::NoValue(t.clone())))
                .collect(),
        )),
    }
}

/// What the generator was asked for: (stream?, locales, resource ids sorted by value)
type GenCall = (bool, Vec<String>, Vec<(String, bool)>);

#[derive(Clone)]
struct ScriptGen {
    /// None: one empty bundle per requested locale (localization mode)
    script: Option<Rc<Vec<BundleSpec>>>,
    pulls: Rc<Cell<usize>>,
    calls: Rc<RefCell<Vec<GenCall>>>,
    prefetches: Rc<RefCell<Vec<(usize, bool)>>>,
}

impl ScriptGen {
    fn new(script: Option<Vec<BundleSpec>>) -> Self {
        ScriptGen {
            script: script.map(Rc::new),
            pulls: Rc::new(Cell::new(0)),
            calls: Rc::new(RefCell::new(vec![])),
            prefetches: Rc::new(RefCell::new(vec![])),
        }
    }
    fn start(&self, stream: bool, locales: std::vec::IntoIter<LanguageIdentifier>, res_ids: FxHashSet<ResourceId>) -> ScriptIter {
        let locales: Vec<LanguageIdentifier> = locales.collect();
        let mut ids: Vec<(String, bool)> = res_ids.iter().map(|r| (r.value.clone(), r.is_required())).collect();
        ids.sort();
        let call_no = self.calls.borrow().len();
        self.calls
            .borrow_mut()
            .push((stream, locales.iter().map(|l| l.to_string()).collect(), ids));
        let script = match &self.script {
            Some(s) => s.clone(),
            None => Rc::new(
                locales
                    .iter()
                    .map(|l| BundleSpec {
                        carried: None,
                        locales: vec![l.clone()],
                        ftl: format!("info = c{}\n", "i".repeat(call_no)),
                    })
                    .collect(),
            ),
        };
        ScriptIter { script, pos: 0, pulls: self.pulls.clone(), call_no, prefetches: self.prefetches.clone(), suspended: false }
    }
}

struct ScriptIter {
    script: Rc<Vec<BundleSpec>>,
    pos: usize,
    pulls: Rc<Cell<usize>>,
    call_no: usize,
    prefetches: Rc<RefCell<Vec<(usize, bool)>>>,
    /// the stream form suspends once before every item (Pending, waker notified at once): a source that is not immediately ready
    suspended: bool,
}

impl ScriptIter {
    fn pull(&mut self) -> Option<FluentBundleResult<FluentResource>> {
        let spec = self.script.get(self.pos)?;
        self.pos += 1;
        self.pulls.set(self.pulls.get() + 1);
        Some(build_bundle(spec))
    }
}

impl Iterator for ScriptIter {
    type Item = FluentBundleResult<FluentResource>;
    fn next(&mut self) -> Option<Self::Item> {
        self.pull()
    }
}

impl futures::Stream for ScriptIter {
    type Item = FluentBundleResult<FluentResource>;
    fn poll_next(mut self: std::pin::Pin<&mut Self>, cx: &mut std::task::Context<'_>) -> std::task::Poll<Option<Self::Item>> {
        STREAM_POLLS.with(|p| p.set(p.get() + 1));
        if !self.suspended {
            self.suspended = true;
            cx.waker().wake_by_ref();
            return std::task::Poll::Pending;
        }
        self.suspended = false;
        self.pull().into()
    }
}

impl BundleIterator for ScriptIter {
    fn prefetch_sync(&mut self) {
        self.prefetches.borrow_mut().push((self.call_no, false));
    }
}

#[async_trait::async_trait(?Send)]
impl BundleStream for ScriptIter {
    async fn prefetch_async(&mut self) {
        self.prefetches.borrow_mut().push((self.call_no, true));
    }
}

impl BundleGenerator for ScriptGen {
    type Resource = FluentResource;
    type LocalesIter = std::vec::IntoIter<LanguageIdentifier>;
    type Iter = ScriptIter;
    type Stream = ScriptIter;

    fn bundles_iter(&self, locales: Self::LocalesIter, res_ids: FxHashSet<ResourceId>) -> Self::Iter {
        self.start(false, locales, res_ids)
    }
    fn bundles_stream(&self, locales: Self::LocalesIter, res_ids: FxHashSet<ResourceId>) -> Self::Stream {
        self.start(true, locales, res_ids)
    }
}

/// Shared-cell provider, as in fluent-fallback/tests/localization_test.rs
#[derive(Clone)]
struct Locales {
    inner: Rc<RefCell<Vec<LanguageIdentifier>>>,
}

impl LocalesProvider for Locales {
    type Iter = <Vec<LanguageIdentifier> as IntoIterator>::IntoIter;
    fn locales(&self) -> Self::Iter {
        self.inner.borrow().clone().into_iter()
    }
}

// ------------------------------------------------------------------------------------------------
// canonical output

fn enc_rerr(e: &FluentError) -> Sexp {
    match e {
        FluentError::ResolverError(ResolverError::Reference(ReferenceKind::Variable { id })) => {
            list(vec![sym("ref-var"), bytes(id)])
        }
        FluentError::ResolverError(_) => list(vec![sym("other-resolver-error")]),
        FluentError::ParserError(_) => list(vec![sym("parser-error")]),
        FluentError::Overriding { id, .. } => list(vec![sym("overriding"), bytes(id)]),
    }
}

fn enc_err(e: &LocalizationError) -> Sexp {
    let loc = |l: &Option<LanguageIdentifier>| sopt(l.as_ref().map(|l| bytes(&l.to_string())));
    match e {
        LocalizationError::Bundle { error: FluentError::ResolverError(ResolverError::NoValue(t)) } => {
            list(vec![sym("Bundle"), bytes(t)])
        }
        LocalizationError::Bundle { error } => list(vec![sym("Bundle-other"), enc_rerr(error)]),
        LocalizationError::Resolver { id, locale, errors } => list(vec![
            sym("Resolver"),
            bytes(id),
            bytes(&locale.to_string()),
            list(errors.iter().map(enc_rerr).collect()),
        ]),
        LocalizationError::MissingMessage { id, locale } => list(vec![sym("MissingMessage"), bytes(id), loc(locale)]),
        LocalizationError::MissingValue { id, locale } => list(vec![sym("MissingValue"), bytes(id), loc(locale)]),
        LocalizationError::SyncRequestInAsyncMode => sym("SyncRequestInAsyncMode"),
    }
}

fn enc_value(v: &Option<Cow<str>>) -> Sexp {
    sopt(v.as_ref().map(|s| bytes(s)))
}

fn enc_message(m: &Option<L10nMessage>) -> Sexp {
    sopt(m.as_ref().map(|m| {
        list(vec![
            sym("msg"),
            enc_value(&m.value),
            list(m.attributes.iter().map(|a| list(vec![bytes(&a.name), bytes(&a.value)])).collect()),
        ])
    }))
}

fn dec_args(a: &Sexp) -> Option<FluentArgs<'static>> {
    match a {
        Sexp::L(l) => {
            let mut args = FluentArgs::new();
            for p in l {
                let p = p.as_list();
                args.set(p[0].as_str().to_string(), FluentValue::String(Cow::Owned(p[1].as_str().to_string())));
            }
            Some(args)
        }
        _ => None,
    }
}

fn dec_keys(ks: &Sexp) -> Vec<L10nKey<'static>> {
    ks.as_list()
        .iter()
        .map(|k| {
            let k = k.as_list();
            L10nKey { id: Cow::Owned(k[0].as_str().to_string()), args: dec_args(&k[1]) }
        })
        .collect()
}

fn finish<T>(r: Result<T, LocalizationError>, f: impl Fn(&T) -> Sexp, errors: &[LocalizationError], pulls: usize) -> Sexp {
    let errs = list(errors.iter().map(enc_err).collect());
    match r {
        Ok(x) => list(vec![sym("ok"), f(&x), errs, int(pulls as i64)]),
        Err(e) => list(vec![sym("err"), enc_err(&e), errs, int(pulls as i64)]),
    }
}

/// One request through the public API of a bundle set.
/// The caller's error list is SHARED by all requests of a case and never cleared (callers may pass a list that already holds
/// entries): what a request reports is the tail it appended.
fn request(bundles: &Bundles<ScriptGen>, req: &Sexp, pulls: &Rc<Cell<usize>>, shared: &mut Vec<LocalizationError>) -> Sexp {
    let r = req.as_list();
    let sync_api = r[1].is_sym("sync");
    let before = shared.len();
    let mut errors = std::mem::take(shared);
    let polls_before = STREAM_POLLS.with(|p| p.get());
    let out = request_inner(bundles, r, sync_api, &mut errors, before, pulls);
    // a sync request never touches the stream form of the source: in sync mode there is none, in async mode the request is refused
    if sync_api && STREAM_POLLS.with(|p| p.get()) != polls_before {
        panic!("a *_sync request polled the bundle STREAM of the source (it must be refused without touching the source)");
    }
    *shared = errors;
    out
}

fn request_inner(
    bundles: &Bundles<ScriptGen>,
    r: &[Sexp],
    sync_api: bool,
    mut errors: &mut Vec<LocalizationError>,
    before: usize,
    pulls: &Rc<Cell<usize>>,
) -> Sexp {
    match r[0].as_str() {
        "value" => {
            let id = r[2].as_str().to_string();
            let args = dec_args(&r[3]);
            let res = if sync_api {
                bundles.format_value_sync(&id, args.as_ref(), &mut errors)
            } else {
                Ok(futures::executor::block_on(bundles.format_value(&id, args.as_ref(), &mut errors)))
            };
            finish(res, enc_value, &errors[before..], pulls.get())
        }
        "values" => {
            let keys = dec_keys(&r[2]);
            let res = if sync_api {
                bundles.format_values_sync(&keys, &mut errors)
            } else {
                Ok(futures::executor::block_on(bundles.format_values(&keys, &mut errors)))
            };
            finish(res, |v| list(v.iter().map(enc_value).collect()), &errors[before..], pulls.get())
        }
        "messages" => {
            let keys = dec_keys(&r[2]);
            let res = if sync_api {
                bundles.format_messages_sync(&keys, &mut errors)
            } else {
                Ok(futures::executor::block_on(bundles.format_messages(&keys, &mut errors)))
            };
            finish(res, |v| list(v.iter().map(enc_message).collect()), &errors[before..], pulls.get())
        }
        _ => panic!("HARNESS: request"),
    }
}

fn run_walk(c: &[Sexp]) -> Sexp {
    let sync = !c[1].is_sym("async");
    let script: Vec<BundleSpec> = c[2].as_list().iter().map(bundle_spec).collect();
    let gen = ScriptGen::new(Some(script));
    let pulls = gen.pulls.clone();
    let provider = Locales { inner: Rc::new(RefCell::new(vec![])) };
    let loc = Localization::with_env(Vec::<ResourceId>::new(), sync, provider, gen);
    let bundles = loc.bundles();
    let mut shared = vec![];
    list(c[3].as_list().iter().map(|req| request(bundles, req, &pulls, &mut shared)).collect())
}

// ------------------------------------------------------------------------------------------------
// localization mode (C18)

/// A caller-defined matcher for Localization::remove_resource_id: equal to every resource id whose value starts with the prefix.
struct PrefixMatcher(String);
impl PartialEq<ResourceId> for PrefixMatcher {
    fn eq(&self, other: &ResourceId) -> bool {
        other.value.starts_with(&self.0)
    }
}

fn dec_res(x: &Sexp) -> ResourceId {
    let l = x.as_list();
    ResourceId::new(
        l[0].as_str(),
        if l[1].is_sym("o") { ResourceType::Optional } else { ResourceType::Required },
    )
}

fn dec_locales(x: &Sexp) -> Vec<LanguageIdentifier> {
    x.as_list().iter().map(|l| l.as_str().parse().expect("HARNESS: locale")).collect()
}

/// Ask a bundle set for `info` through the sync and the async API.
fn use_set(idx: usize, b: &Bundles<ScriptGen>) -> Sexp {
    let mut errors = vec![];
    let s = match b.format_value_sync("info", None, &mut errors) {
        Ok(v) => ok(enc_value(&v)),
        Err(e) => list(vec![sym("err"), enc_err(&e)]),
    };
    let mut errors2 = vec![];
    let a = futures::executor::block_on(b.format_value("info", None, &mut errors2));
    list(vec![sym("set"), int(idx as i64), s, enc_value(&a)])
}

fn run_localization(c: &[Sexp]) -> Sexp {
    let sync = !c[1].is_sym("async");
    let provider = Locales { inner: Rc::new(RefCell::new(dec_locales(&c[2]))) };
    let gen = ScriptGen::new(None);
    let log = gen.clone();
    let ids: Vec<ResourceId> = c[3].as_list().iter().map(dec_res).collect();
    let mut loc = Localization::with_env(ids, sync, provider.clone(), gen);
    // every distinct Rc<Bundles> ever returned stays alive here, so pointer identity is stable
    let mut held: Vec<Rc<Bundles<ScriptGen>>> = vec![];
    let mut out = vec![];
    for op in c[4].as_list() {
        let o = op.as_list();
        match o[0].as_str() {
            "add" => {
                loc.add_resource_id(dec_res(&o[1]));
                out.push(sym("u"));
            }
            "adds" => {
                loc.add_resource_ids(o[1].as_list().iter().map(dec_res).collect());
                out.push(sym("u"));
            }
            "rm" => {
                let n = loc.remove_resource_id(dec_res(&o[1]));
                out.push(list(vec![sym("len"), int(n as i64)]));
            }
            "rmprefix" => {
                // remove_resource_id is generic over T: PartialEq<ResourceId>: a matcher that equals EVERY id with a given prefix
                let n = loc.remove_resource_id(PrefixMatcher(o[1].as_str().to_string()));
                out.push(list(vec![sym("len"), int(n as i64)]));
            }
            "rms" => {
                let n = loc.remove_resource_ids(o[1].as_list().iter().map(dec_res).collect());
                out.push(list(vec![sym("len"), int(n as i64)]));
            }
            "set_async" => {
                loc.set_async();
                out.push(sym("u"));
            }
            "on_change" => {
                loc.on_change();
                out.push(sym("u"));
            }
            "locales" => {
                *provider.inner.borrow_mut() = dec_locales(&o[1]);
                out.push(sym("u"));
            }
            "prefetch" => {
                if loc.is_sync() {
                    loc.prefetch_sync();
                } else {
                    futures::executor::block_on(loc.prefetch_async());
                }
                out.push(sym("u"));
            }
            "prefetch_sync" => {
                loc.prefetch_sync();
                out.push(sym("u"));
            }
            "prefetch_async" => {
                futures::executor::block_on(loc.prefetch_async());
                out.push(sym("u"));
            }
            "bundles" => {
                let b = loc.bundles().clone();
                let idx = match held.iter().position(|h| Rc::ptr_eq(h, &b)) {
                    Some(i) => i,
                    None => {
                        held.push(b.clone());
                        held.len() - 1
                    }
                };
                out.push(use_set(idx, &b));
            }
            "use" => {
                let i = o[1].as_int() as usize;
                out.push(match held.get(i) {
                    Some(b) => use_set(i, b),
                    None => sym("none"),
                });
            }
            _ => panic!("HARNESS: op"),
        }
    }
    let mut calls = vec![sym("calls")];
    for (stream, locales, ids) in log.calls.borrow().iter() {
        calls.push(list(vec![
            sym(if *stream { "stream" } else { "iter" }),
            list(locales.iter().map(|l| bytes(l)).collect()),
            list(ids.iter().map(|(v, req)| list(vec![bytes(v), sym(if *req { "r" } else { "o" })])).collect()),
        ]));
    }
    out.push(list(calls));
    let mut pf = vec![sym("prefetches")];
    for (call, is_async) in log.prefetches.borrow().iter() {
        pf.push(list(vec![int(*call as i64), sym(if *is_async { "async" } else { "sync" })]));
    }
    out.push(list(pf));
    list(out)
}

fn run(case: &Sexp) -> Sexp {
    let c = case.as_list();
    match c[0].as_str() {
        "c16" => run_walk(c),
        "c18" => run_localization(c),
        _ => panic!("HARNESS: unknown case tag"),
    }
}

fn main() {
    run_lines(run);
}

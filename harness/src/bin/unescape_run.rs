//! C13: fluent_syntax::unicode on arbitrary strings.
//!   case   (unescape #prefix #text)
//!   result (ok borrowed|owned #string #writer lit)
//!     #string = unescape_unicode_to_string(text), #writer = prefix followed by what unescape_unicode wrote,
//!     lit = none | (some #w #r): when `"text"` is accepted by the parser as a string literal, the result of
//!     formatting it through a bundle as a placeable (write path) and as a term argument (resolve path).
use fluent_bundle::{FluentBundle, FluentResource};
use std::borrow::Cow;
use verif_harness::*;

fn format_literal(text: &str) -> Option<(String, String)> {
    let src = format!("-t = {{ $a }}\nm = {{ \"{}\" }}\nr = {{ -t(a: \"{}\") }}\n", text, text);
    let res = FluentResource::try_new(src).ok()?;
    let mut bundle: FluentBundle<FluentResource> = FluentBundle::new(vec!["en-US".parse().unwrap()]);
    bundle.set_use_isolating(false);
    bundle.add_resource(res).ok()?;
    let mut out = vec![];
    for id in ["m", "r"] {
        let msg = bundle.get_message(id)?;
        let pat = msg.value()?;
        let mut errs = vec![];
        let s = bundle.format_pattern(pat, None, &mut errs).into_owned();
        if !errs.is_empty() {
            return None;
        }
        out.push(s);
    }
    let r = out.pop().unwrap();
    let w = out.pop().unwrap();
    Some((w, r))
}

fn run(case: &Sexp) -> Sexp {
    let c = case.as_list();
    match c[0].as_str() {
        "unescape" => {
            let prefix = c[1].as_str();
            let input = c[2].as_str();
            let cow = fluent_syntax::unicode::unescape_unicode_to_string(input);
            let mut w = String::from(prefix);
            fluent_syntax::unicode::unescape_unicode(&mut w, input).unwrap();
            let lit = format_literal(input)
                .map(|(a, b)| list(vec![Sexp::A(a.into_bytes()), Sexp::A(b.into_bytes())]));
            list(vec![
                sym("ok"),
                sym(match cow {
                    Cow::Borrowed(_) => "borrowed",
                    Cow::Owned(_) => "owned",
                }),
                Sexp::A(cow.as_bytes().to_vec()),
                Sexp::A(w.into_bytes()),
                match lit {
                    None => sym("none"),
                    Some(Sexp::L(v)) => list(vec![sym("some"), v[0].clone(), v[1].clone()]),
                    Some(_) => unreachable!(),
                },
            ])
        }
        _ => panic!("HARNESS: unknown case {}", case.to_text()),
    }
}

fn main() {
    run_lines(run);
}

//! Resolver driver (C06, C08, C09; mirror of coq/theories/Extract/ExtractC06.v).
//!
//! case   (fmt <cfg> (<res> ...) <entry> <args>)
//!   cfg    (cfg <iso:true|false> <transform:none|upper|brackets> <formatter:none|num|all>
//!               (<function name> ...) (<locale> ...) <flavour:single|concurrent>)
//!   res    (r #ftl-text <tree>)          the tree is for the model; here the text goes through
//!                                        FluentResource::try_new (the real runtime parser)
//!   entry  (msg #id none|(some #attr)) | (term #id none|(some #attr))
//!   args   none | (args (#key <value>) ...)
//!   value  values.rs forms | (mnum #display-text <options>) | (conv <impl form> <model form>) | (custom #payload)
//! result (ok missing) |
//!        (ok ((fmt #text (err ...)) (wrt #text (err ...)) (calls (c #id (value ...) ((#k value) ...)) ...)
//!             (alt #text (err ...)))
//!            (x (again #text (err ...)) (fresh #text (err ...)) (perm #text (err ...)) (collect #text (err ...))
//!               (wcalls n) (permall true|false) (slow true|false)))
//!   fmt = format_pattern, wrt = write_pattern on the same bundle afterwards, calls = functions invoked
//!   during fmt, alt = format_pattern on a bundle with isolation flipped.  The `x` part is for the
//!   implementation-only oracles (C08): again = format_pattern repeated on the first bundle after every
//!   other message of the bundle has been formatted; fresh = on a newly built bundle; warm = on a bundle where every
//!   other message was formatted first; perm = arguments
//!   inserted in reverse order; collect = arguments through FromIterator; permall = every insertion order of an
//!   argument set of at most 4 distinct keys gives the fmt result.
use fluent_bundle::memoizer::MemoizerKind;
use fluent_bundle::types::{FluentNumber, FluentType};
use fluent_bundle::{FluentArgs, FluentError, FluentResource, FluentValue};
use fluent_bundle::resolver::errors::{ReferenceKind, ResolverError};
use fluent_syntax::ast;
use std::borrow::Cow;
use std::sync::{Arc, Mutex};
use verif_harness::values;
use verif_harness::*;

type Bundle<M> = fluent_bundle::bundle::FluentBundle<Arc<FluentResource>, M>;

#[derive(Debug, PartialEq, Clone)]
struct TestCustom {
    payload: String,
}

impl FluentType for TestCustom {
    fn duplicate(&self) -> Box<dyn FluentType + Send> {
        Box::new(self.clone())
    }
    fn as_string(&self, _: &intl_memoizer::IntlLangMemoizer) -> Cow<'static, str> {
        format!("<<{}>>", self.payload).into()
    }
    fn as_string_threadsafe(&self, _: &intl_memoizer::concurrent::IntlLangMemoizer) -> Cow<'static, str> {
        format!("<<{}>>", self.payload).into()
    }
}

static LOG: Mutex<Vec<Sexp>> = Mutex::new(Vec::new());

fn log_take() -> Vec<Sexp> {
    std::mem::take(&mut *LOG.lock().unwrap_or_else(|e| e.into_inner()))
}

fn bytes(s: &str) -> Sexp {
    Sexp::A(s.as_bytes().to_vec())
}

fn enc_val(v: &FluentValue) -> Sexp {
    match v {
        FluentValue::String(s) => list(vec![sym("str"), bytes(s)]),
        FluentValue::Number(n) => list(vec![sym("num"), bytes(&n.value.to_string()), values::enc_options(&n.options)]),
        FluentValue::Custom(c) => match c.as_any().downcast_ref::<TestCustom>() {
            Some(t) => list(vec![sym("custom"), bytes(&t.payload)]),
            None => list(vec![sym("custom"), bytes("?")]),
        },
        FluentValue::None => sym("none"),
        FluentValue::Error => sym("error"),
    }
}

fn dec_val(x: &Sexp) -> FluentValue<'static> {
    if let Sexp::L(v) = x {
        match v[0].as_str() {
            "conv" => {
                let val = dec_val(&v[1]);
                let m = v[2].as_list();
                match &val {
                    FluentValue::Number(n) if m[0].is_sym("mnum") => {
                        if n.value.to_string() != m[1].as_str() || n.options != values::dec_options(&m[2]) {
                            panic!(
                                "HARNESS: model form {} does not describe {:?}",
                                v[2].to_text(),
                                n
                            );
                        }
                    }
                    FluentValue::String(s) if m[0].is_sym("str") => {
                        if s.as_bytes() != m[2].as_bytes() {
                            panic!("HARNESS: model form {} does not describe {:?}", v[2].to_text(), s);
                        }
                    }
                    _ => panic!("HARNESS: model form {} vs {:?}", v[2].to_text(), val),
                }
                val
            }
            "mnum" => {
                let t = v[1].as_str();
                let f: f64 = t.parse().expect("HARNESS: mnum text");
                if f.to_string() != t {
                    panic!("HARNESS: mnum text {} is not the Display form of {:?}", t, f);
                }
                FluentValue::Number(FluentNumber::new(f, values::dec_options(&v[2])))
            }
            "custom" => FluentValue::Custom(Box::new(TestCustom { payload: v[1].as_str().to_string() })),
            _ => values::dec_value(x),
        }
    } else {
        values::dec_value(x)
    }
}

fn piece(v: &FluentValue) -> String {
    match v {
        FluentValue::String(s) => s.to_string(),
        FluentValue::Number(n) => n.as_string().to_string(),
        FluentValue::Custom(_) => "C".to_string(),
        FluentValue::None => "N".to_string(),
        FluentValue::Error => "E".to_string(),
    }
}

fn test_function<'a>(name: &str, pos: &[FluentValue<'a>], named: &FluentArgs) -> FluentValue<'a> {
    LOG.lock().unwrap_or_else(|e| e.into_inner()).push(list(vec![
        sym("c"),
        bytes(name),
        list(pos.iter().map(enc_val).collect()),
        list(named.iter().map(|(k, v)| list(vec![bytes(k), enc_val(v)])).collect()),
    ]));
    match name {
        "NUMBER" => fluent_bundle::builtins::NUMBER(pos, named),
        "IDENTITY" => pos.first().cloned().unwrap_or(FluentValue::None),
        "CONCAT" => {
            let mut s = String::new();
            for v in pos {
                s.push_str(&piece(v));
            }
            for (k, v) in named.iter() {
                s.push(';');
                s.push_str(k);
                s.push('=');
                s.push_str(&piece(v));
            }
            FluentValue::String(s.into())
        }
        "FAIL" => FluentValue::Error,
        "NONE" => FluentValue::None,
        "COUNT" => FluentValue::String("c".into()),
        "CUSTOM" => FluentValue::Custom(Box::new(TestCustom {
            payload: match pos.first() {
                Some(FluentValue::String(s)) => s.to_string(),
                _ => "dflt".to_string(),
            },
        })),
        "NUM" => FluentValue::Number(FluentNumber::from(pos.len())),
        _ => FluentValue::Error,
    }
}

fn transform_upper(s: &str) -> Cow<str> {
    Cow::Owned(s.to_ascii_uppercase())
}
fn transform_brackets(s: &str) -> Cow<str> {
    Cow::Owned(format!("[{}]", s))
}
fn formatter_num<M>(v: &FluentValue, _: &M) -> Option<String> {
    match v {
        FluentValue::Number(n) => Some(format!("#{}", n.as_string())),
        _ => None,
    }
}
fn formatter_all<M>(v: &FluentValue, _: &M) -> Option<String> {
    match v {
        FluentValue::Number(n) => Some(format!("#{}", n.as_string())),
        FluentValue::String(s) => Some(format!("<{}>", s)),
        FluentValue::None => Some("~".to_string()),
        _ => None,
    }
}

fn enc_error(e: &FluentError) -> Sexp {
    let oa = |a: &Option<String>| sopt(a.as_ref().map(|s| bytes(s)));
    match e {
        FluentError::ResolverError(r) => match r {
            ResolverError::Reference(k) => list(vec![
                sym("Reference"),
                match k {
                    ReferenceKind::Function { id } => list(vec![sym("Function"), bytes(id)]),
                    ReferenceKind::Message { id, attribute } => list(vec![sym("Message"), bytes(id), oa(attribute)]),
                    ReferenceKind::Term { id, attribute } => list(vec![sym("Term"), bytes(id), oa(attribute)]),
                    ReferenceKind::Variable { id } => list(vec![sym("Variable"), bytes(id)]),
                },
            ]),
            ResolverError::NoValue(id) => list(vec![sym("NoValue"), bytes(id)]),
            ResolverError::MissingDefault => sym("MissingDefault"),
            ResolverError::Cyclic => sym("Cyclic"),
            ResolverError::TooManyPlaceables => sym("TooManyPlaceables"),
        },
        FluentError::Overriding { .. } => sym("Overriding"),
        FluentError::ParserError(_) => sym("ParserError"),
    }
}

fn res_pair(tag: &str, text: &str, errs: &[FluentError]) -> Sexp {
    list(vec![sym(tag), bytes(text), list(errs.iter().map(enc_error).collect())])
}

struct Cfg<'c> {
    iso: bool,
    transform: &'c str,
    formatter: &'c str,
    funcs: Vec<&'c str>,
    locales: Vec<&'c str>,
}

fn build<M: MemoizerKind>(mut b: Bundle<M>, cfg: &Cfg, iso: bool, resources: &[Arc<FluentResource>]) -> Bundle<M> {
    b.set_use_isolating(iso);
    match cfg.transform {
        "upper" => b.set_transform(Some(transform_upper)),
        "brackets" => b.set_transform(Some(transform_brackets)),
        _ => b.set_transform(None),
    }
    match cfg.formatter {
        "num" => b.set_formatter(Some(formatter_num::<M>)),
        "all" => b.set_formatter(Some(formatter_all::<M>)),
        _ => b.set_formatter(None),
    }
    for r in resources {
        let _ = b.add_resource(r.clone());
    }
    for f in &cfg.funcs {
        let name = f.to_string();
        let _ = b.add_function(f, move |pos, named| test_function(&name, pos, named));
    }
    b
}

fn find_term<'r>(resources: &'r [Arc<FluentResource>], id: &str) -> Option<&'r ast::Term<&'r str>> {
    for r in resources {
        for e in r.entries() {
            if let ast::Entry::Term(t) = e {
                if t.id.name == id {
                    return Some(t);
                }
            }
        }
    }
    None
}

fn pick<'b, M>(
    bundle: &'b Bundle<M>,
    resources: &'b [Arc<FluentResource>],
    entry: &Sexp,
) -> Option<&'b ast::Pattern<&'b str>> {
    let e = entry.as_list();
    let id = e[1].as_str();
    let attr = if e[2].is_sym("none") { None } else { Some(e[2].as_list()[1].as_str()) };
    if e[0].is_sym("msg") {
        let m = bundle.get_message(id)?;
        match attr {
            Some(a) => m.get_attribute(a).map(|x| x.value()),
            None => m.value(),
        }
    } else {
        let t = find_term(resources, id)?;
        match attr {
            Some(a) => t.attributes.iter().find(|x| x.id.name == a).map(|x| &x.value),
            None => Some(&t.value),
        }
    }
}

fn mk_args(pairs: &[(String, Sexp)], order: &str) -> FluentArgs<'static> {
    match order {
        "rev" => {
            // same final content as the forward insertion: for a repeated key the LAST write of the
            // forward order must win, so walk backwards and keep the first occurrence only
            let mut a = FluentArgs::new();
            let mut seen: Vec<&str> = vec![];
            for (k, v) in pairs.iter().rev() {
                if !seen.contains(&k.as_str()) {
                    seen.push(k);
                    a.set(k.clone(), dec_val(v));
                }
            }
            a
        }
        "collect" => pairs.iter().map(|(k, v)| (k.clone(), dec_val(v))).collect(),
        _ => {
            let mut a = FluentArgs::new();
            for (k, v) in pairs {
                a.set(k.clone(), dec_val(v));
            }
            a
        }
    }
}

fn run_with<M: MemoizerKind>(
    mk: &dyn Fn() -> Bundle<M>,
    cfg: &Cfg,
    resources: &[Arc<FluentResource>],
    entry: &Sexp,
    args_sexp: &Sexp,
) -> Sexp {
    let pairs: Option<Vec<(String, Sexp)>> = if args_sexp.is_sym("none") {
        None
    } else {
        Some(
            args_sexp.as_list()[1..]
                .iter()
                .map(|kv| (kv.as_list()[0].as_str().to_string(), kv.as_list()[1].clone()))
                .collect(),
        )
    };
    let args = pairs.as_ref().map(|p| mk_args(p, "set"));
    let t0 = std::time::Instant::now();
    let bundle = build(mk(), cfg, cfg.iso, resources);
    let Some(pattern) = pick(&bundle, resources, entry) else {
        return list(vec![sym("ok"), sym("missing")]);
    };
    log_take();
    let mut errs = vec![];
    let fmt = bundle.format_pattern(pattern, args.as_ref(), &mut errs).to_string();
    let calls = log_take();
    let fmt_s = res_pair("fmt", &fmt, &errs);

    let mut werrs = vec![];
    let mut w = String::new();
    bundle.write_pattern(&mut w, pattern, args.as_ref(), &mut werrs).expect("HARNESS: write to String failed");
    let wcalls = log_take().len();
    let wrt_s = res_pair("wrt", &w, &werrs);

    let alt_bundle = build(mk(), cfg, !cfg.iso, resources);
    let alt_pattern = pick(&alt_bundle, resources, entry).expect("HARNESS: alt pattern");
    let mut aerrs = vec![];
    let alt = alt_bundle.format_pattern(alt_pattern, args.as_ref(), &mut aerrs).to_string();
    let alt_s = res_pair("alt", &alt, &aerrs);
    let elapsed = t0.elapsed();

    // ---- extras for the implementation-only oracles ----
    // warm up: format every message value of the bundle (errors discarded), then repeat
    for r in resources {
        for e in r.entries() {
            if let ast::Entry::Message(m) = e {
                if let Some(msg) = bundle.get_message(m.id.name) {
                    if let Some(v) = msg.value() {
                        let mut scratch = vec![];
                        let _ = bundle.format_pattern(v, args.as_ref(), &mut scratch);
                    }
                }
            }
        }
    }
    let mut e2 = vec![];
    let again = bundle.format_pattern(pattern, args.as_ref(), &mut e2).to_string();
    let again_s = res_pair("again", &again, &e2);

    let fresh_bundle = build(mk(), cfg, cfg.iso, resources);
    let fresh_pattern = pick(&fresh_bundle, resources, entry).expect("HARNESS: fresh pattern");
    let mut e3 = vec![];
    let fresh = fresh_bundle.format_pattern(fresh_pattern, args.as_ref(), &mut e3).to_string();
    let fresh_s = res_pair("fresh", &fresh, &e3);

    // a bundle on which every message (last to first) was formatted BEFORE the entry is formatted for the first time
    let warm_bundle = build(mk(), cfg, cfg.iso, resources);
    let warm_pattern = pick(&warm_bundle, resources, entry).expect("HARNESS: warm pattern");
    for r in resources.iter().rev() {
        let es: Vec<_> = r.entries().collect();
        for e in es.iter().rev() {
            if let ast::Entry::Message(m) = e {
                if let Some(msg) = warm_bundle.get_message(m.id.name) {
                    if let Some(v) = msg.value() {
                        if !std::ptr::eq(v, warm_pattern) {
                            let mut scratch = vec![];
                            let _ = warm_bundle.format_pattern(v, args.as_ref(), &mut scratch);
                        }
                    }
                }
            }
        }
    }
    let mut e6 = vec![];
    let warm = warm_bundle.format_pattern(warm_pattern, args.as_ref(), &mut e6).to_string();
    let warm_s = res_pair("warm", &warm, &e6);

    let rev_args = pairs.as_ref().map(|p| mk_args(p, "rev"));
    let mut e4 = vec![];
    let perm = bundle.format_pattern(pattern, rev_args.as_ref(), &mut e4).to_string();
    let perm_s = res_pair("perm", &perm, &e4);

    // every insertion order of an argument set of at most 4 distinct keys
    let mut permall = true;
    if let Some(p) = pairs.as_ref() {
        let mut keys: Vec<&str> = p.iter().map(|(k, _)| k.as_str()).collect();
        keys.sort();
        keys.dedup();
        if p.len() <= 4 && keys.len() == p.len() {
            let mut idx: Vec<usize> = (0..p.len()).collect();
            // Heap's algorithm, iterative
            let n = idx.len();
            let mut c = vec![0usize; n];
            let mut i = 0;
            let mut check = |order: &Vec<usize>| {
                let mut a = FluentArgs::new();
                for &j in order {
                    a.set(p[j].0.clone(), dec_val(&p[j].1));
                }
                let mut e = vec![];
                let t = bundle.format_pattern(pattern, Some(&a), &mut e).to_string();
                if t != fmt || e != errs {
                    permall = false;
                }
            };
            check(&idx);
            while i < n {
                if c[i] < i {
                    if i % 2 == 0 {
                        idx.swap(0, i);
                    } else {
                        idx.swap(c[i], i);
                    }
                    check(&idx);
                    c[i] += 1;
                    i = 0;
                } else {
                    c[i] = 0;
                    i += 1;
                }
            }
        }
    }

    let col_args = pairs.as_ref().map(|p| mk_args(p, "collect"));
    let mut e5 = vec![];
    // one error vector shared by consecutive calls: what a call appends must not depend on what is already there
    let mut shared_errs = vec![];
    let sh1 = bundle.format_pattern(pattern, args.as_ref(), &mut shared_errs).to_string();
    let n1 = shared_errs.len();
    let sh2 = bundle.format_pattern(pattern, args.as_ref(), &mut shared_errs).to_string();
    let n2 = shared_errs.len();
    let mut sh3 = String::new();
    bundle
        .write_pattern(&mut sh3, pattern, args.as_ref(), &mut shared_errs)
        .expect("HARNESS: write");
    let n3 = shared_errs.len();
    // ... nor on HOW MUCH is already there: a vector that already holds several hundred errors (a long session that never drains it)
    let mut long_errs: Vec<FluentError> = Vec::new();
    for _ in 0..300 {
        long_errs.push(FluentError::ResolverError(ResolverError::MissingDefault));
    }
    let sh4 = bundle.format_pattern(pattern, args.as_ref(), &mut long_errs).to_string();
    let long_ok = sh4 == sh1 && long_errs.len() == 300 + n1 && long_errs[300..] == shared_errs[..n1];
    let shared_ok = long_ok
        && sh1 == sh2
        && sh2 == sh3
        && n2 - n1 == n1
        && n3 - n2 == n1
        && shared_errs[..n1] == shared_errs[n1..n2]
        && shared_errs[..n1] == shared_errs[n2..n3]
        && shared_errs[..n1] == e2[..];
    log_take();

    let col = bundle.format_pattern(pattern, col_args.as_ref(), &mut e5).to_string();
    let col_s = res_pair("collect", &col, &e5);
    log_take();

    let mut c = vec![sym("calls")];
    c.extend(calls);
    list(vec![
        sym("ok"),
        list(vec![fmt_s, wrt_s, list(c), alt_s]),
        list(vec![
            sym("x"),
            again_s,
            fresh_s,
            warm_s,
            perm_s,
            col_s,
            list(vec![sym("wcalls"), int(wcalls as i64)]),
            list(vec![sym("permall"), sbool(permall)]),
            list(vec![sym("sharederrs"), sbool(shared_ok)]),
            list(vec![sym("slow"), sbool(elapsed.as_millis() > 3000)]),
        ]),
    ])
}

fn run(case: &Sexp) -> Sexp {
    let c = case.as_list();
    if !c[0].is_sym("fmt") {
        panic!("HARNESS: unknown case {}", c[0].to_text());
    }
    let cf = c[1].as_list();
    let cfg = Cfg {
        iso: cf[1].is_sym("true"),
        transform: cf[2].as_str(),
        formatter: cf[3].as_str(),
        funcs: cf[4].as_list().iter().map(|x| x.as_str()).collect(),
        locales: cf[5].as_list().iter().map(|x| x.as_str()).collect(),
    };
    let resources: Vec<Arc<FluentResource>> = c[2]
        .as_list()
        .iter()
        .map(|r| {
            let text = r.as_list()[1].as_str().to_string();
            Arc::new(match FluentResource::try_new(text) {
                Ok(r) => r,
                Err((r, _)) => r,
            })
        })
        .collect();
    let locales: Vec<unic_langid::LanguageIdentifier> =
        cfg.locales.iter().map(|l| l.parse().expect("HARNESS: locale")).collect();
    if cf[6].is_sym("concurrent") {
        let mk = || fluent_bundle::concurrent::FluentBundle::<Arc<FluentResource>>::new_concurrent(locales.clone());
        run_with(&mk, &cfg, &resources, &c[3], &c[4])
    } else {
        let mk = || fluent_bundle::FluentBundle::<Arc<FluentResource>>::new(locales.clone());
        run_with(&mk, &cfg, &resources, &c[3], &c[4])
    }
}

/// Like verif_harness::run_lines, plus a watchdog: every case runs on its own thread; if it has not
/// answered within CASE_TIMEOUT the line `(TIMEOUT)` is printed for it, every remaining case is
/// answered `(SKIPPED-AFTER-TIMEOUT)` (the stuck thread cannot be stopped) and the process exits.
fn main() {
    use std::io::{BufRead, Write};
    const CASE_TIMEOUT: std::time::Duration = std::time::Duration::from_secs(8);
    std::panic::set_hook(Box::new(|_| {}));
    let stdin = std::io::stdin();
    let stdout = std::io::stdout();
    let mut out = std::io::BufWriter::new(stdout.lock());
    let mut dead = false;
    for line in stdin.lock().lines() {
        let line = line.expect("stdin");
        if line.is_empty() || line.starts_with(';') {
            writeln!(out).unwrap();
            continue;
        }
        if dead {
            writeln!(out, "(SKIPPED-AFTER-TIMEOUT)").unwrap();
            continue;
        }
        let (tx, rx) = std::sync::mpsc::channel();
        std::thread::Builder::new()
            .stack_size(64 << 20)
            .spawn(move || {
                let res = match Sexp::parse(&line) {
                    Err(e) => list(vec![sym("HARNESS-PARSE-ERROR"), Sexp::A(e.into_bytes())]),
                    Ok(case) => match std::panic::catch_unwind(|| run(&case)) {
                        Ok(r) => r,
                        Err(e) => list(vec![sym("PANIC"), Sexp::A(panic_message(&*e).into_bytes())]),
                    },
                };
                let _ = tx.send(res.to_text());
            })
            .expect("HARNESS: spawn");
        match rx.recv_timeout(CASE_TIMEOUT) {
            Ok(text) => writeln!(out, "{}", text).unwrap(),
            Err(_) => {
                writeln!(out, "(TIMEOUT)").unwrap();
                dead = true;
            }
        }
    }
    out.flush().unwrap();
    if dead {
        std::process::exit(0);
    }
}

//! C14: the formatter memoizers of intl-memoizer (and the MemoizerKind forwards of fluent-bundle).
//!
//! cases
//!   (seq (op ...))      op = (get #lang) | (drop h) | (with h t #args cb) | (withk h t #args cb)
//!        one IntlMemoizer; handles are numbered by `get` order; `withk` goes through
//!        fluent_bundle::memoizer::MemoizerKind::with_try_get_threadsafe instead of with_try_get.
//!        result: (seq (<out> ...) (tr (c mid #lang t #args n ok|fail) ...))
//!          out = (memo mid) | drop | dead | (ok cb (inst #lang t #args n)) | (err #lang t #args n)
//!        mid: memoizers are numbered in order of first appearance; a get result that is Rc::ptr_eq to a live
//!        handle has that handle's number, otherwise (every strong reference is one of our handles) it is new.
//!   (threads n #lang (req ...))     req = (t #args cb)
//!        n OS threads released together on ONE concurrent::IntlLangMemoizer, slow constructor; every thread
//!        issues the same requests.  result: (threads (constructs K) (same true|false) ((<masked res> ...) ...))
//!   (shuttle mode iters seed #lang ((req ...) ...))
//!        runs the schedule explorer built by props/C14.py (scratch copy of intl-memoizer with shuttle's Mutex)
//!        and relays its result line; on failure adds the shuttle schedule string from its stderr.
//!
//! The test formatter: an instance records (lang, type, args, n) where n is the number of construct calls made
//! before it; args [1, ..] always fail, [2, x, ..] fail while n < x, everything else succeeds.
use fluent_bundle::memoizer::MemoizerKind;
use intl_memoizer::{concurrent, IntlLangMemoizer, IntlMemoizer, Memoizable};
use std::rc::Rc;
use std::sync::atomic::{AtomicBool, AtomicUsize, Ordering};
use std::sync::{Arc, Barrier, Mutex};
use unic_langid::LanguageIdentifier;
use verif_harness::*;

static COUNTER: AtomicUsize = AtomicUsize::new(0);
static CUR_MID: AtomicUsize = AtomicUsize::new(0);
static SLOW: AtomicBool = AtomicBool::new(false);
static TRACE: Mutex<Vec<(usize, Inst, bool)>> = Mutex::new(Vec::new());

#[derive(Clone, Debug, PartialEq, Eq)]
struct Inst {
    lang: String,
    ty: usize,
    args: Vec<u8>,
    n: usize,
}

impl Inst {
    fn fields(&self) -> Vec<Sexp> {
        vec![
            Sexp::A(self.lang.as_bytes().to_vec()),
            int(self.ty as i64),
            Sexp::A(self.args.clone()),
            int(self.n as i64),
        ]
    }
}

fn construct(lang: LanguageIdentifier, ty: usize, args: &[u8]) -> Result<Inst, Inst> {
    let n = COUNTER.fetch_add(1, Ordering::SeqCst);
    if SLOW.load(Ordering::SeqCst) {
        std::thread::sleep(std::time::Duration::from_millis(3));
    }
    let i = Inst { lang: lang.to_string(), ty, args: args.to_vec(), n };
    let fail = match args.first() {
        Some(1) => true,
        Some(2) => n < args.get(1).copied().unwrap_or(0) as usize,
        _ => false,
    };
    TRACE.lock().unwrap().push((CUR_MID.load(Ordering::SeqCst), i.clone(), !fail));
    if fail {
        Err(i)
    } else {
        Ok(i)
    }
}

struct FmtA(Inst);
struct FmtB(Inst);
impl Memoizable for FmtA {
    type Args = Vec<u8>;
    type Error = Inst;
    fn construct(lang: LanguageIdentifier, args: Self::Args) -> Result<Self, Self::Error> {
        construct(lang, 0, &args).map(FmtA)
    }
}
/// Arguments whose Hash is deliberately weak (the length modulo 3) while Eq compares the whole value: legal under the
/// Hash/Eq contract, and the only way to see a memoizer that keys its cache by the hash instead of by the arguments.
#[derive(Clone, PartialEq, Eq)]
struct WeakArgs(Vec<u8>);
impl std::hash::Hash for WeakArgs {
    fn hash<H: std::hash::Hasher>(&self, h: &mut H) {
        (self.0.len() % 3).hash(h)
    }
}
impl Memoizable for FmtB {
    type Args = WeakArgs;
    type Error = Inst;
    fn construct(lang: LanguageIdentifier, args: Self::Args) -> Result<Self, Self::Error> {
        construct(lang, 1, &args.0).map(FmtB)
    }
}

fn enc_res(r: Result<(usize, Inst), Inst>) -> Sexp {
    match r {
        Ok((cb, i)) => {
            let mut f = vec![sym("inst")];
            f.extend(i.fields());
            list(vec![sym("ok"), int(cb as i64), list(f)])
        }
        Err(e) => {
            let mut f = vec![sym("err")];
            f.extend(e.fields());
            list(f)
        }
    }
}

fn enc_masked(r: &Result<(usize, Inst), Inst>) -> Sexp {
    match r {
        Ok((cb, i)) => list(vec![
            sym("ok"),
            int(*cb as i64),
            list(vec![sym("inst"), Sexp::A(i.lang.as_bytes().to_vec()), int(i.ty as i64), Sexp::A(i.args.clone())]),
        ]),
        Err(e) => list(vec![sym("err"), Sexp::A(e.lang.as_bytes().to_vec()), int(e.ty as i64), Sexp::A(e.args.clone())]),
    }
}

fn reset() {
    COUNTER.store(0, Ordering::SeqCst);
    CUR_MID.store(0, Ordering::SeqCst);
    SLOW.store(false, Ordering::SeqCst);
    TRACE.lock().unwrap_or_else(|e| e.into_inner()).clear();
}

fn seq_with(m: &IntlLangMemoizer, kind: bool, ty: usize, args: &[u8], cb: usize) -> Result<(usize, Inst), Inst> {
    match (ty, kind) {
        (0, false) => m.with_try_get::<FmtA, _, _>(args.to_vec(), |i| (cb, i.0.clone())),
        (0, true) => m.with_try_get_threadsafe::<FmtA, _, _>(args.to_vec(), |i| (cb, i.0.clone())),
        (_, false) => m.with_try_get::<FmtB, _, _>(WeakArgs(args.to_vec()), |i| (cb, i.0.clone())),
        (_, true) => m.with_try_get_threadsafe::<FmtB, _, _>(WeakArgs(args.to_vec()), |i| (cb, i.0.clone())),
    }
}

fn conc_with(m: &concurrent::IntlLangMemoizer, kind: bool, ty: usize, args: &[u8], cb: usize) -> Result<(usize, Inst), Inst> {
    match (ty, kind) {
        (0, false) => m.with_try_get::<FmtA, _, _>(args.to_vec(), |i| (cb, i.0.clone())),
        (0, true) => m.with_try_get_threadsafe::<FmtA, _, _>(args.to_vec(), |i| (cb, i.0.clone())),
        (_, false) => m.with_try_get::<FmtB, _, _>(WeakArgs(args.to_vec()), |i| (cb, i.0.clone())),
        (_, true) => m.with_try_get_threadsafe::<FmtB, _, _>(WeakArgs(args.to_vec()), |i| (cb, i.0.clone())),
    }
}

fn run_seq(ops: &[Sexp]) -> Sexp {
    reset();
    let mut memoizer = IntlMemoizer::default();
    let mut handles: Vec<Option<(Rc<IntlLangMemoizer>, usize)>> = vec![];
    let mut next_mid = 0usize;
    let mut out = vec![];
    for o in ops {
        let ol = o.as_list();
        match o.tag() {
            "get" => {
                let lang: LanguageIdentifier = ol[1].as_str().parse().expect("HARNESS: lang");
                let rc = memoizer.get_for_lang(lang);
                let mid = handles
                    .iter()
                    .flatten()
                    .find(|(h, _)| Rc::ptr_eq(h, &rc))
                    .map(|(_, m)| *m)
                    .unwrap_or_else(|| {
                        next_mid += 1;
                        next_mid - 1
                    });
                handles.push(Some((rc, mid)));
                out.push(list(vec![sym("memo"), int(mid as i64)]));
            }
            "drop" => {
                let h = ol[1].as_int() as usize;
                if h < handles.len() && handles[h].is_some() {
                    handles[h] = None;
                    out.push(sym("drop"));
                } else {
                    out.push(sym("dead"));
                }
            }
            t @ ("with" | "withk") => {
                let h = ol[1].as_int() as usize;
                match handles.get(h).and_then(|x| x.as_ref()) {
                    Some((rc, mid)) => {
                        CUR_MID.store(*mid, Ordering::SeqCst);
                        let r = seq_with(rc, t == "withk", ol[2].as_int() as usize, ol[3].as_bytes(), ol[4].as_int() as usize);
                        out.push(enc_res(r));
                    }
                    None => out.push(sym("dead")),
                }
            }
            _ => panic!("HARNESS: op"),
        }
    }
    let mut tr = vec![sym("tr")];
    for (mid, i, ok) in TRACE.lock().unwrap().iter() {
        let mut f = vec![sym("c"), int(*mid as i64)];
        f.extend(i.fields());
        f.push(sym(if *ok { "ok" } else { "fail" }));
        tr.push(list(f));
    }
    list(vec![sym("seq"), list(out), list(tr)])
}

fn run_threads(n: usize, lang: &str, reqs: &[Sexp]) -> Sexp {
    reset();
    SLOW.store(true, Ordering::SeqCst);
    let reqs: Vec<(usize, Vec<u8>, usize)> = reqs
        .iter()
        .map(|r| {
            let r = r.as_list();
            (r[0].as_int() as usize, r[1].as_bytes().to_vec(), r[2].as_int() as usize)
        })
        .collect();
    let memo = Arc::new(concurrent::IntlLangMemoizer::new(lang.parse().expect("HARNESS: lang")));
    let barrier = Arc::new(Barrier::new(n));
    let mut hs = vec![];
    for tid in 0..n {
        let memo = Arc::clone(&memo);
        let barrier = Arc::clone(&barrier);
        let reqs = reqs.clone();
        hs.push(std::thread::spawn(move || {
            barrier.wait();
            reqs.iter().map(|(t, a, cb)| ((*t, a.clone()), conc_with(&memo, tid % 2 == 1, *t, a, *cb))).collect::<Vec<_>>()
        }));
    }
    let results: Vec<Vec<((usize, Vec<u8>), Result<(usize, Inst), Inst>)>> =
        hs.into_iter().map(|h| h.join().expect("thread panicked")).collect();
    SLOW.store(false, Ordering::SeqCst);
    let mut seen: Vec<((usize, Vec<u8>), usize)> = vec![];
    let mut same = true;
    for t in &results {
        for (k, r) in t {
            if let Ok((_, i)) = r {
                match seen.iter().find(|(k2, _)| k2 == k) {
                    Some((_, n0)) => same &= *n0 == i.n,
                    None => seen.push((k.clone(), i.n)),
                }
            }
        }
    }
    list(vec![
        sym("threads"),
        list(vec![sym("constructs"), int(COUNTER.load(Ordering::SeqCst) as i64)]),
        list(vec![sym("same"), sbool(same)]),
        list(results.iter().map(|t| list(t.iter().map(|(_, r)| enc_masked(r)).collect())).collect()),
    ])
}

fn shuttle_bin() -> std::path::PathBuf {
    let exe = std::env::current_exe().expect("HARNESS: current_exe");
    let cache = exe
        .ancestors()
        .find(|p| p.file_name().map(|n| n == ".cache").unwrap_or(false))
        .expect("HARNESS: no .cache ancestor")
        .to_path_buf();
    let repo = std::env::var("VERIF_REPO").unwrap_or_else(|_| "/repo".into());
    let repo = std::fs::canonicalize(&repo).map(|p| p.to_string_lossy().to_string()).unwrap_or(repo);
    let tag: String = repo.chars().map(|c| if c.is_ascii_alphanumeric() { c } else { '_' }).collect();
    cache.join("shuttle").join(tag).join("target").join("debug").join("c14_shuttle")
}

fn run_shuttle(c: &[Sexp]) -> Sexp {
    let mode = c[1].as_str();
    let scenario: Vec<String> = c[5]
        .as_list()
        .iter()
        .map(|t| {
            t.as_list()
                .iter()
                .map(|r| {
                    let r = r.as_list();
                    let hex: String = r[1].as_bytes().iter().map(|b| format!("{:02x}", b)).collect();
                    format!("{}:{}:{}", r[0].as_int(), hex, r[2].as_int())
                })
                .collect::<Vec<_>>()
                .join(",")
        })
        .collect();
    let bin = shuttle_bin();
    if !bin.exists() {
        let log = bin.ancestors().nth(3).map(|d| d.join("build.log")).and_then(|p| std::fs::read(p).ok()).unwrap_or_default();
        return list(vec![sym("shuttle-bin-missing"), Sexp::A(bin.to_string_lossy().as_bytes().to_vec()), Sexp::A(log)]);
    }
    let mut cmd = std::process::Command::new(&bin);
    cmd.arg(mode).arg(c[2].as_int().to_string()).arg(c[3].as_int().to_string()).arg(c[4].as_str()).arg(scenario.join("/"));
    if c.len() > 6 {
        cmd.arg(c[6].as_str());
    }
    let o = cmd.env("RUST_BACKTRACE", "0").output().expect("HARNESS: cannot run c14_shuttle");
    let stdout = String::from_utf8_lossy(&o.stdout);
    let line = stdout.lines().last().unwrap_or("");
    match Sexp::parse(line) {
        Ok(Sexp::L(mut v)) => {
            if v.len() >= 3 && v[2].is_sym("fail") {
                let err = String::from_utf8_lossy(&o.stderr);
                let sched = err.split("failing schedule:\n\"\n").nth(1).and_then(|s| s.split('\n').next()).unwrap_or("");
                v.push(Sexp::A(sched.as_bytes().to_vec()));
            }
            Sexp::L(v)
        }
        _ => list(vec![
            sym("shuttle-crashed"),
            int(o.status.code().unwrap_or(-1) as i64),
            Sexp::A(String::from_utf8_lossy(&o.stderr).chars().rev().take(300).collect::<String>().chars().rev().collect::<String>().into_bytes()),
        ]),
    }
}

fn run(case: &Sexp) -> Sexp {
    let c = case.as_list();
    match case.tag() {
        "seq" => run_seq(c[1].as_list()),
        "threads" => run_threads(c[1].as_int() as usize, c[2].as_str(), c[3].as_list()),
        "shuttle" => run_shuttle(c),
        _ => panic!("HARNESS: case"),
    }
}

fn main() {
    run_lines(run);
}

//! C19: ResourceManager over a real temporary directory, with the files changed BETWEEN requests.
//!
//! case   (c19 #scheme (<parse table, ignored here>) (step ...))
//!        step = (write #path #bytes) | (mkdir #path) | (remove #path)
//!             | (bundle (#locale ...) (#res_id ...) (#probe-id ...))
//!             | (iter-new (#locale ...) (#res_id ...)) | (iter-next k (#probe-id ...))
//! result: see coq/theories/Extract/ExtractC19.v
//! The directory is /verif/.cache/tmp/c19-<pid>-<n>, created per case and removed when the case ends
//! (also when it panics).  "Read once" is observed by content: the case rewrites / deletes a file
//! and asks again.
use fluent_bundle::{FluentBundle, FluentError, FluentResource};
use fluent_resmgr::resource_manager::ResourceManagerError;
use fluent_resmgr::ResourceManager;
use fluent_syntax::ast;
use std::panic::{catch_unwind, AssertUnwindSafe};
use std::path::{Path, PathBuf};
use std::sync::atomic::{AtomicUsize, Ordering};
use unic_langid::LanguageIdentifier;
use verif_harness::ast::enc_pattern;
use verif_harness::*;

static COUNTER: AtomicUsize = AtomicUsize::new(0);

struct TempDir(PathBuf);
impl TempDir {
    fn new() -> TempDir {
        let base = std::env::var("VERIF_TMP").unwrap_or_else(|_| "/verif/.cache/tmp".to_string());
        let p = Path::new(&base).join(format!(
            "c19-{}-{}",
            std::process::id(),
            COUNTER.fetch_add(1, Ordering::SeqCst)
        ));
        let _ = std::fs::remove_dir_all(&p);
        std::fs::create_dir_all(&p).expect("HARNESS: create temp dir");
        TempDir(p)
    }
}
impl Drop for TempDir {
    fn drop(&mut self) {
        let _ = std::fs::remove_dir_all(&self.0);
    }
}

fn clear(p: &Path) {
    if let Ok(md) = std::fs::symlink_metadata(p) {
        if md.is_dir() {
            let _ = std::fs::remove_dir_all(p);
        } else {
            let _ = std::fs::remove_file(p);
        }
    }
}

fn enc_io(e: &std::io::Error) -> Sexp {
    use std::io::ErrorKind::*;
    let k = match e.kind() {
        NotFound => "notfound".to_string(),
        InvalidData => "invalidutf8".to_string(),
        PermissionDenied => "denied".to_string(),
        _ if e.raw_os_error() == Some(21) => "isdir".to_string(), // EISDIR
        other => format!("other-{:?}", other),
    };
    list(vec![sym("io"), sym(&k)])
}

fn enc_err(e: &ResourceManagerError) -> Sexp {
    match e {
        ResourceManagerError::Io(e) => enc_io(e),
        ResourceManagerError::Fluent(FluentError::Overriding { kind, id }) => list(vec![
            sym("fluent"),
            list(vec![
                sym("overriding"),
                sym(&format!("{:?}", kind).to_lowercase()),
                Sexp::A(id.as_bytes().to_vec()),
            ]),
        ]),
        ResourceManagerError::Fluent(_) => list(vec![sym("fluent"), sym("other")]),
    }
}

fn look(bundle: &FluentBundle<&FluentResource>, id: &str) -> Sexp {
    let has = bundle.has_message(id);
    let msg = bundle.get_message(id).map(|m| {
        list(vec![
            sopt(m.value().map(enc_pattern)),
            list(
                m.attributes()
                    .map(|a| list(vec![sym("attr"), Sexp::A(a.id().as_bytes().to_vec()), enc_pattern(a.value())]))
                    .collect(),
            ),
        ])
    });
    let p = ast::Pattern {
        elements: vec![ast::PatternElement::Placeable {
            expression: ast::Expression::Inline(ast::InlineExpression::TermReference {
                id: ast::Identifier { name: id },
                attribute: None,
                arguments: None,
            }),
        }],
    };
    let mut errors = vec![];
    let s = bundle.format_pattern(&p, None, &mut errors).into_owned();
    let term = if errors.is_empty() { Some(Sexp::A(s.into_bytes())) } else { None };
    list(vec![sym("look"), Sexp::A(id.as_bytes().to_vec()), sbool(has), sopt(msg), sopt(term)])
}

fn enc_res(r: Result<FluentBundle<&FluentResource>, Vec<ResourceManagerError>>, probes: &[Sexp]) -> Sexp {
    match r {
        Ok(mut bundle) => {
            bundle.set_use_isolating(false);
            let mut v = vec![sym("ok")];
            v.extend(probes.iter().map(|p| look(&bundle, p.as_str())));
            list(v)
        }
        Err(errs) => {
            let mut v = vec![sym("err")];
            v.extend(errs.iter().map(enc_err));
            list(v)
        }
    }
}

fn langs(x: &Sexp) -> Vec<LanguageIdentifier> {
    x.as_list().iter().map(|l| l.as_str().parse().expect("HARNESS: locale")).collect()
}
fn strings(x: &Sexp) -> Vec<String> {
    x.as_list().iter().map(|l| l.as_str().to_string()).collect()
}

fn run(case: &Sexp) -> Sexp {
    let c = case.as_list();
    let tmp = TempDir::new();
    let root = tmp.0.clone();
    let scheme = format!("{}/{}", root.display(), c[1].as_str());
    let mgr = ResourceManager::new(scheme);
    let mut iters: Vec<Box<dyn Iterator<Item = Result<FluentBundle<&FluentResource>, Vec<ResourceManagerError>>> + '_>> = vec![];
    let mut out = vec![];
    for st in c[3].as_list() {
        let sl = st.as_list();
        match st.tag() {
            "write" => {
                let p = root.join(sl[1].as_str());
                clear(&p);
                if let Some(parent) = p.parent() {
                    std::fs::create_dir_all(parent).expect("HARNESS: mkdir parent");
                }
                std::fs::write(&p, sl[2].as_bytes()).expect("HARNESS: write");
                out.push(list(vec![sym("fs")]));
            }
            "mkdir" => {
                let p = root.join(sl[1].as_str());
                clear(&p);
                std::fs::create_dir_all(&p).expect("HARNESS: mkdir");
                out.push(list(vec![sym("fs")]));
            }
            "remove" => {
                clear(&root.join(sl[1].as_str()));
                out.push(list(vec![sym("fs")]));
            }
            "bundle" => {
                let (ls, ids) = (langs(&sl[1]), strings(&sl[2]));
                match catch_unwind(AssertUnwindSafe(|| mgr.get_bundle(ls, ids))) {
                    Ok(r) => out.push(enc_res(r, sl[3].as_list())),
                    Err(_) => {
                        out.push(list(vec![sym("PANIC")]));
                        break;
                    }
                }
            }
            "iter-new" => {
                iters.push(Box::new(mgr.get_bundles(langs(&sl[1]), strings(&sl[2]))));
                out.push(list(vec![sym("iter")]));
            }
            "iter-next" => {
                let k = sl[1].as_int() as usize;
                let it = &mut iters[k];
                match catch_unwind(AssertUnwindSafe(|| it.next())) {
                    Ok(r) => out.push(sopt(r.map(|r| enc_res(r, sl[2].as_list())))),
                    Err(_) => {
                        out.push(list(vec![sym("PANIC")]));
                        break;
                    }
                }
            }
            _ => panic!("HARNESS: step"),
        }
    }
    drop(iters);
    list(out)
}

fn main() {
    std::fs::create_dir_all(std::env::var("VERIF_TMP").unwrap_or_else(|_| "/verif/.cache/tmp".to_string())).ok();
    run_lines(run);
}

//! C10: the FluentBundle registry under histories of add_resource / add_resource_overriding /
//! add_function, observed through has_message, get_message(..).value()/attributes()/
//! get_attribute(), format_pattern of a term / function reference, and the returned errors.
//!
//! case   (c10 <mode> ((r #ftl-text <parsed form, ignored here>) ...) (op ...))
//!        op = (add i) | (addo i) | (fn #id tag) | (look #id (#attr-name ...))
//!        mode = ref | rc | concurrent      (how the bundle holds its resources / memoizer)
//! result: see coq/theories/Extract/ExtractC10.v
use fluent_bundle::bundle::FluentBundle as GenericBundle;
use fluent_bundle::memoizer::MemoizerKind;
use fluent_bundle::{FluentArgs, FluentError, FluentResource, FluentValue};
use fluent_syntax::ast;
use std::borrow::Borrow;
use std::rc::Rc;
use std::sync::Arc;
use unic_langid::LanguageIdentifier;
use verif_harness::ast::{enc_attribute, enc_pattern};
use verif_harness::*;

fn enc_error(e: &FluentError) -> Sexp {
    match e {
        FluentError::Overriding { kind, id } => {
            // EntryKind is not re-exported from the crate root; its derived Debug is the variant name
            let k = format!("{:?}", kind).to_lowercase();
            let k = match k.as_str() {
                "message" | "term" | "function" => k,
                other => format!("unknown-kind-{}", other),
            };
            list(vec![sym("overriding"), sym(&k), Sexp::A(id.as_bytes().to_vec())])
        }
        FluentError::ParserError(_) => list(vec![sym("parser-error")]),
        FluentError::ResolverError(_) => list(vec![sym("resolver-error")]),
    }
}

fn probe<'a>(expr: ast::InlineExpression<&'a str>) -> ast::Pattern<&'a str> {
    ast::Pattern {
        elements: vec![ast::PatternElement::Placeable {
            expression: ast::Expression::Inline(expr),
        }],
    }
}

fn look<R: Borrow<FluentResource>, M: MemoizerKind>(bundle: &GenericBundle<R, M>, id: &str, names: &[Sexp]) -> Sexp {
    let has = bundle.has_message(id);
    let msg = bundle.get_message(id).map(|m| {
        list(vec![
            sopt(m.value().map(enc_pattern)),
            list(
                m.attributes()
                    .map(|a| list(vec![sym("attr"), Sexp::A(a.id().as_bytes().to_vec()), enc_pattern(a.value())]))
                    .collect(),
            ),
            list(
                names
                    .iter()
                    .map(|n| {
                        sopt(m.get_attribute(n.as_str()).map(|a| {
                            list(vec![sym("attr"), Sexp::A(a.id().as_bytes().to_vec()), enc_pattern(a.value())])
                        }))
                    })
                    .collect(),
            ),
        ])
    });
    // a term / a function is visible only through a reference: format `{ -id }` and `{ id() }`
    let term = {
        let p = probe(ast::InlineExpression::TermReference {
            id: ast::Identifier { name: id },
            attribute: None,
            arguments: None,
        });
        let mut errors = vec![];
        let s = bundle.format_pattern(&p, None, &mut errors).into_owned();
        if errors.is_empty() {
            Some(Sexp::A(s.into_bytes()))
        } else {
            None
        }
    };
    let func = {
        let p = probe(ast::InlineExpression::FunctionReference {
            id: ast::Identifier { name: id },
            arguments: ast::CallArguments {
                positional: vec![],
                named: vec![],
            },
        });
        let mut errors = vec![];
        let s = bundle.format_pattern(&p, None, &mut errors).into_owned();
        if errors.is_empty() {
            let tag: i64 = s.strip_prefix("F").and_then(|t| t.parse().ok()).expect("HARNESS: function output");
            Some(int(tag))
        } else {
            None
        }
    };
    list(vec![sym("look"), sbool(has), sopt(msg), sopt(term), sopt(func)])
}

fn drive<R: Borrow<FluentResource>, M: MemoizerKind>(
    bundle: &mut GenericBundle<R, M>,
    mk: &dyn Fn(usize) -> R,
    ops: &[Sexp],
) -> Sexp {
    bundle.set_use_isolating(false);
    let mut out = vec![];
    for o in ops {
        let ol = o.as_list();
        match o.tag() {
            "add" => match bundle.add_resource(mk(ol[1].as_int() as usize)) {
                Ok(()) => out.push(list(vec![sym("ok")])),
                Err(errs) => {
                    let mut v = vec![sym("err")];
                    v.extend(errs.iter().map(enc_error));
                    out.push(list(v));
                }
            },
            "addo" => {
                bundle.add_resource_overriding(mk(ol[1].as_int() as usize));
                out.push(list(vec![sym("unit")]));
            }
            "fn" => {
                let tag = ol[2].as_int();
                let r = bundle.add_function(ol[1].as_str(), move |_: &[FluentValue], _: &FluentArgs| {
                    FluentValue::String(format!("F{}", tag).into())
                });
                match r {
                    Ok(()) => out.push(list(vec![sym("ok")])),
                    Err(e) => out.push(list(vec![sym("err"), enc_error(&e)])),
                }
            }
            "look" => out.push(look(bundle, ol[1].as_str(), ol[2].as_list())),
            _ => panic!("HARNESS: op"),
        }
    }
    list(out)
}

fn run(case: &Sexp) -> Sexp {
    let c = case.as_list();
    let mode = c[1].as_str();
    let texts: Vec<String> = c[2].as_list().iter().map(|r| r.as_list()[1].as_str().to_string()).collect();
    let parse = |t: &String| match FluentResource::try_new(t.clone()) {
        Ok(r) => r,
        Err((r, _errors)) => r, // syntax errors leave Junk entries; the registry skips them
    };
    let ops = c[3].as_list();
    let langs: Vec<LanguageIdentifier> = vec!["en-US".parse().unwrap()];
    match mode {
        "rc" => {
            let rs: Vec<Rc<FluentResource>> = texts.iter().map(|t| Rc::new(parse(t))).collect();
            let mut bundle: fluent_bundle::FluentBundle<Rc<FluentResource>> = fluent_bundle::FluentBundle::new(langs);
            drive(&mut bundle, &|i| rs[i].clone(), ops)
        }
        "concurrent" => {
            let rs: Vec<Arc<FluentResource>> = texts.iter().map(|t| Arc::new(parse(t))).collect();
            let mut bundle: fluent_bundle::concurrent::FluentBundle<Arc<FluentResource>> =
                fluent_bundle::concurrent::FluentBundle::new_concurrent(langs);
            drive(&mut bundle, &|i| rs[i].clone(), ops)
        }
        _ => {
            let rs: Vec<FluentResource> = texts.iter().map(parse).collect();
            let mut bundle: fluent_bundle::FluentBundle<&FluentResource> = fluent_bundle::FluentBundle::new(langs);
            drive(&mut bundle, &|i| &rs[i], ops)
        }
    }
}

fn main() {
    run_lines(run);
}

//! FluentValue <-> s-expression, canonical form:
//!   (str b|o #bytes)   (num #f64-bits-be (T S C D G minint minfrac maxfrac minsig maxsig))   none   error
//! input-only forms: (int <rust type> <decimal atom or int>)  (flt f32|f64 #bits-be)  (numstr #bytes)
//!                   (conv <input form> <canonical form>)   -- harness uses the input form
use crate::*;
use fluent_bundle::types::{
    FluentNumber, FluentNumberCurrencyDisplayStyle, FluentNumberOptions, FluentNumberStyle,
    FluentNumberType,
};
use fluent_bundle::FluentValue;
use std::borrow::Cow;

pub fn leak(s: &str) -> &'static str {
    Box::leak(s.to_string().into_boxed_str())
}

fn opt_usize(o: Option<usize>) -> Sexp {
    sopt(o.map(|n| int(n as i64)))
}

pub fn enc_options(o: &FluentNumberOptions) -> Sexp {
    list(vec![
        sym(match o.r#type {
            FluentNumberType::Cardinal => "cardinal",
            FluentNumberType::Ordinal => "ordinal",
        }),
        sym(match o.style {
            FluentNumberStyle::Decimal => "decimal",
            FluentNumberStyle::Currency => "currency",
            FluentNumberStyle::Percent => "percent",
        }),
        sopt(o.currency.as_ref().map(|c| Sexp::A(c.as_bytes().to_vec()))),
        sym(match o.currency_display {
            FluentNumberCurrencyDisplayStyle::Symbol => "symbol",
            FluentNumberCurrencyDisplayStyle::Code => "code",
            FluentNumberCurrencyDisplayStyle::Name => "name",
        }),
        sbool(o.use_grouping),
        opt_usize(o.minimum_integer_digits),
        opt_usize(o.minimum_fraction_digits),
        opt_usize(o.maximum_fraction_digits),
        opt_usize(o.minimum_significant_digits),
        opt_usize(o.maximum_significant_digits),
    ])
}

fn dec_opt_usize(x: &Sexp) -> Option<usize> {
    if x.is_sym("none") {
        None
    } else {
        Some(x.as_list()[1].as_int() as usize)
    }
}

pub fn dec_options(x: &Sexp) -> FluentNumberOptions {
    let v = x.as_list();
    FluentNumberOptions {
        r#type: v[0].as_str().into(),
        style: v[1].as_str().into(),
        currency: if v[2].is_sym("none") {
            None
        } else {
            Some(v[2].as_list()[1].as_str().to_string())
        },
        currency_display: v[3].as_str().into(),
        use_grouping: v[4].is_sym("true"),
        minimum_integer_digits: dec_opt_usize(&v[5]),
        minimum_fraction_digits: dec_opt_usize(&v[6]),
        maximum_fraction_digits: dec_opt_usize(&v[7]),
        minimum_significant_digits: dec_opt_usize(&v[8]),
        maximum_significant_digits: dec_opt_usize(&v[9]),
    }
}

pub fn enc_number(n: &FluentNumber) -> Sexp {
    list(vec![
        sym("num"),
        Sexp::A(n.value.to_bits().to_be_bytes().to_vec()),
        enc_options(&n.options),
    ])
}

pub fn enc_value(v: &FluentValue) -> Sexp {
    match v {
        FluentValue::String(Cow::Borrowed(s)) => list(vec![sym("str"), sym("b"), Sexp::A(s.as_bytes().to_vec())]),
        FluentValue::String(Cow::Owned(s)) => list(vec![sym("str"), sym("o"), Sexp::A(s.as_bytes().to_vec())]),
        FluentValue::Number(n) => enc_number(n),
        FluentValue::Custom(c) => list(vec![sym("custom"), Sexp::A(format!("{:?}", c).into_bytes())]),
        FluentValue::None => sym("none"),
        FluentValue::Error => sym("error"),
    }
}

fn f64_of_bits(x: &Sexp) -> f64 {
    let b = x.as_bytes();
    let mut a = [0u8; 8];
    a.copy_from_slice(b);
    f64::from_bits(u64::from_be_bytes(a))
}

fn int_text(x: &Sexp) -> String {
    match x {
        Sexp::I(i) => i.to_string(),
        Sexp::A(_) => x.as_str().to_string(),
        _ => panic!("HARNESS: int_text"),
    }
}

pub fn dec_value(x: &Sexp) -> FluentValue<'static> {
    if x.is_sym("none") {
        return FluentValue::None;
    }
    if x.is_sym("error") {
        return FluentValue::Error;
    }
    let v = x.as_list();
    match v[0].as_str() {
        "conv" => dec_value(&v[1]),
        "str" => {
            if v[1].is_sym("b") {
                FluentValue::String(Cow::Borrowed(leak(v[2].as_str())))
            } else {
                FluentValue::String(Cow::Owned(v[2].as_str().to_string()))
            }
        }
        "num" => FluentValue::Number(FluentNumber::new(f64_of_bits(&v[1]), dec_options(&v[2]))),
        "numstr" => FluentValue::try_number(leak(v[1].as_str())),
        "flt" => match v[1].as_str() {
            "f64" => f64_of_bits(&v[2]).into(),
            "f32" => {
                let b = v[2].as_bytes();
                let mut a = [0u8; 4];
                a.copy_from_slice(b);
                f32::from_bits(u32::from_be_bytes(a)).into()
            }
            _ => panic!("HARNESS: flt type"),
        },
        "int" => {
            let t = int_text(&v[2]);
            macro_rules! conv {
                ($ty:ty) => {
                    t.parse::<$ty>().expect("HARNESS: int literal").into()
                };
            }
            match v[1].as_str() {
                "i8" => conv!(i8),
                "i16" => conv!(i16),
                "i32" => conv!(i32),
                "i64" => conv!(i64),
                "i128" => conv!(i128),
                "isize" => conv!(isize),
                "u8" => conv!(u8),
                "u16" => conv!(u16),
                "u32" => conv!(u32),
                "u64" => conv!(u64),
                "u128" => conv!(u128),
                "usize" => conv!(usize),
                _ => panic!("HARNESS: int type"),
            }
        }
        _ => panic!("HARNESS: value form {}", x.to_text()),
    }
}

//! fluent_syntax::ast -> s-expression (form documented in coq/theories/Syntax/Ast.v) and back
//! (decoding yields an owned-String tree).
use crate::*;
use fluent_syntax::ast;

fn a<S: AsRef<str>>(s: &S) -> Sexp {
    Sexp::A(s.as_ref().as_bytes().to_vec())
}

pub fn enc_key<S: AsRef<str>>(k: &ast::VariantKey<S>) -> Sexp {
    match k {
        ast::VariantKey::Identifier { name } => list(vec![sym("id"), a(name)]),
        ast::VariantKey::NumberLiteral { value } => list(vec![sym("num"), a(value)]),
    }
}

pub fn enc_inline<S: AsRef<str>>(i: &ast::InlineExpression<S>) -> Sexp {
    use ast::InlineExpression::*;
    match i {
        StringLiteral { value } => list(vec![sym("str"), a(value)]),
        NumberLiteral { value } => list(vec![sym("num"), a(value)]),
        FunctionReference { id, arguments } => list(vec![sym("fn"), a(&id.name), enc_args(arguments)]),
        MessageReference { id, attribute } => list(vec![
            sym("mref"),
            a(&id.name),
            sopt(attribute.as_ref().map(|x| a(&x.name))),
        ]),
        TermReference { id, attribute, arguments } => list(vec![
            sym("tref"),
            a(&id.name),
            sopt(attribute.as_ref().map(|x| a(&x.name))),
            sopt(arguments.as_ref().map(enc_args)),
        ]),
        VariableReference { id } => list(vec![sym("vref"), a(&id.name)]),
        Placeable { expression } => list(vec![sym("pl"), enc_expr(expression)]),
    }
}

pub fn enc_expr<S: AsRef<str>>(e: &ast::Expression<S>) -> Sexp {
    match e {
        ast::Expression::Select { selector, variants } => list(vec![
            sym("sel"),
            enc_inline(selector),
            list(variants.iter().map(enc_variant).collect()),
        ]),
        ast::Expression::Inline(i) => list(vec![sym("in"), enc_inline(i)]),
    }
}

pub fn enc_variant<S: AsRef<str>>(v: &ast::Variant<S>) -> Sexp {
    list(vec![sym("var"), enc_key(&v.key), enc_pattern(&v.value), sbool(v.default)])
}

pub fn enc_pattern<S: AsRef<str>>(p: &ast::Pattern<S>) -> Sexp {
    let mut v = vec![sym("pat")];
    for e in &p.elements {
        v.push(match e {
            ast::PatternElement::TextElement { value } => list(vec![sym("t"), a(value)]),
            ast::PatternElement::Placeable { expression } => list(vec![sym("p"), enc_expr(expression)]),
        });
    }
    list(v)
}

pub fn enc_args<S: AsRef<str>>(c: &ast::CallArguments<S>) -> Sexp {
    list(vec![
        sym("args"),
        list(c.positional.iter().map(enc_inline).collect()),
        list(
            c.named
                .iter()
                .map(|n| list(vec![sym("named"), a(&n.name.name), enc_inline(&n.value)]))
                .collect(),
        ),
    ])
}

pub fn enc_attribute<S: AsRef<str>>(x: &ast::Attribute<S>) -> Sexp {
    list(vec![sym("attr"), a(&x.id.name), enc_pattern(&x.value)])
}

fn enc_lines<S: AsRef<str>>(head: &str, c: &ast::Comment<S>) -> Sexp {
    let mut v = vec![sym(head)];
    v.extend(c.content.iter().map(a));
    list(v)
}

pub fn enc_opt_comment<S: AsRef<str>>(c: &Option<ast::Comment<S>>) -> Sexp {
    sopt(c.as_ref().map(|c| enc_lines("c", c)))
}

pub fn enc_entry<S: AsRef<str>>(e: &ast::Entry<S>) -> Sexp {
    match e {
        ast::Entry::Message(m) => list(vec![
            sym("msg"),
            a(&m.id.name),
            sopt(m.value.as_ref().map(enc_pattern)),
            list(m.attributes.iter().map(enc_attribute).collect()),
            enc_opt_comment(&m.comment),
        ]),
        ast::Entry::Term(t) => list(vec![
            sym("term"),
            a(&t.id.name),
            enc_pattern(&t.value),
            list(t.attributes.iter().map(enc_attribute).collect()),
            enc_opt_comment(&t.comment),
        ]),
        ast::Entry::Comment(c) => enc_lines("comment", c),
        ast::Entry::GroupComment(c) => enc_lines("gcomment", c),
        ast::Entry::ResourceComment(c) => enc_lines("rcomment", c),
        ast::Entry::Junk { content } => list(vec![sym("junk"), a(content)]),
    }
}

pub fn enc_resource<S: AsRef<str>>(r: &ast::Resource<S>) -> Sexp {
    let mut v = vec![sym("res")];
    v.extend(r.body.iter().map(enc_entry));
    list(v)
}

// ---- decoding to an owned tree ----
fn s(x: &Sexp) -> String {
    x.as_str().to_string()
}
fn id(x: &Sexp) -> ast::Identifier<String> {
    ast::Identifier { name: s(x) }
}
fn opt<T>(x: &Sexp, f: impl Fn(&Sexp) -> T) -> Option<T> {
    if x.is_sym("none") {
        None
    } else {
        Some(f(&x.as_list()[1]))
    }
}

pub fn dec_inline(x: &Sexp) -> ast::InlineExpression<String> {
    use ast::InlineExpression::*;
    let v = x.as_list();
    match v[0].as_str() {
        "str" => StringLiteral { value: s(&v[1]) },
        "num" => NumberLiteral { value: s(&v[1]) },
        "fn" => FunctionReference { id: id(&v[1]), arguments: dec_args(&v[2]) },
        "mref" => MessageReference { id: id(&v[1]), attribute: opt(&v[2], id) },
        "tref" => TermReference {
            id: id(&v[1]),
            attribute: opt(&v[2], id),
            arguments: opt(&v[3], dec_args),
        },
        "vref" => VariableReference { id: id(&v[1]) },
        "pl" => Placeable { expression: Box::new(dec_expr(&v[1])) },
        _ => panic!("HARNESS: inline {}", x.to_text()),
    }
}

pub fn dec_expr(x: &Sexp) -> ast::Expression<String> {
    let v = x.as_list();
    match v[0].as_str() {
        "sel" => ast::Expression::Select {
            selector: dec_inline(&v[1]),
            variants: v[2].as_list().iter().map(dec_variant).collect(),
        },
        "in" => ast::Expression::Inline(dec_inline(&v[1])),
        _ => panic!("HARNESS: expr {}", x.to_text()),
    }
}

pub fn dec_variant(x: &Sexp) -> ast::Variant<String> {
    let v = x.as_list();
    let k = v[1].as_list();
    ast::Variant {
        key: if k[0].is_sym("id") {
            ast::VariantKey::Identifier { name: s(&k[1]) }
        } else {
            ast::VariantKey::NumberLiteral { value: s(&k[1]) }
        },
        value: dec_pattern(&v[2]),
        default: v[3].is_sym("true"),
    }
}

pub fn dec_pattern(x: &Sexp) -> ast::Pattern<String> {
    let v = x.as_list();
    ast::Pattern {
        elements: v[1..]
            .iter()
            .map(|e| {
                let e = e.as_list();
                if e[0].is_sym("t") {
                    ast::PatternElement::TextElement { value: s(&e[1]) }
                } else {
                    ast::PatternElement::Placeable { expression: dec_expr(&e[1]) }
                }
            })
            .collect(),
    }
}

pub fn dec_args(x: &Sexp) -> ast::CallArguments<String> {
    let v = x.as_list();
    ast::CallArguments {
        positional: v[1].as_list().iter().map(dec_inline).collect(),
        named: v[2]
            .as_list()
            .iter()
            .map(|n| {
                let n = n.as_list();
                ast::NamedArgument { name: id(&n[1]), value: dec_inline(&n[2]) }
            })
            .collect(),
    }
}

fn dec_comment(v: &[Sexp]) -> ast::Comment<String> {
    ast::Comment { content: v.iter().map(s).collect() }
}

pub fn dec_entry(x: &Sexp) -> ast::Entry<String> {
    let v = x.as_list();
    let attrs = |x: &Sexp| -> Vec<ast::Attribute<String>> {
        x.as_list()
            .iter()
            .map(|a| {
                let a = a.as_list();
                ast::Attribute { id: id(&a[1]), value: dec_pattern(&a[2]) }
            })
            .collect()
    };
    match v[0].as_str() {
        "msg" => ast::Entry::Message(ast::Message {
            id: id(&v[1]),
            value: opt(&v[2], dec_pattern),
            attributes: attrs(&v[3]),
            comment: opt(&v[4], |c| dec_comment(&c.as_list()[1..])),
        }),
        "term" => ast::Entry::Term(ast::Term {
            id: id(&v[1]),
            value: dec_pattern(&v[2]),
            attributes: attrs(&v[3]),
            comment: opt(&v[4], |c| dec_comment(&c.as_list()[1..])),
        }),
        "comment" => ast::Entry::Comment(dec_comment(&v[1..])),
        "gcomment" => ast::Entry::GroupComment(dec_comment(&v[1..])),
        "rcomment" => ast::Entry::ResourceComment(dec_comment(&v[1..])),
        "junk" => ast::Entry::Junk { content: s(&v[1]) },
        _ => panic!("HARNESS: entry {}", x.to_text()),
    }
}

pub fn dec_resource(x: &Sexp) -> ast::Resource<String> {
    ast::Resource { body: x.as_list()[1..].iter().map(dec_entry).collect() }
}

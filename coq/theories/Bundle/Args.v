(* Bundle/Args.v — model of fluent-bundle/src/args.rs (FluentArgs).  Definitions only.

   FluentArgs is `Vec<(Cow<str>, FluentValue)>` kept sorted by key.  Keys are byte strings
   ordered as Rust orders `str` (bytewise lexicographic).  Values are opaque (type V): the
   code never inspects them.

   `binary_search` models `slice::binary_search_by_key` by its documented contract on a
   strictly sorted slice: `Found i` iff element i has the key, otherwise `Insert i` with i the
   unique position keeping the slice sorted.  (On a strictly sorted slice that answer is
   unique, so every conforming implementation — including std's — returns it; sortedness of
   every reachable FluentArgs is theorem `C11_sorted`.)                                      *)
From FluentV Require Export Base.Bytes Base.Outcome.

Section Args.
Variable V : Type.

Definition args := list (bytes * V).

Inductive search_result := Found (i : nat) | Insert (i : nat).

Definition shift (r : search_result) : search_result :=
  match r with Found i => Found (S i) | Insert i => Insert (S i) end.

(* slice::binary_search_by_key(&key, |(k, _)| k) *)
Fixpoint binary_search (a : args) (k : bytes) : search_result :=
  match a with
  | [] => Insert 0
  | (k', _) :: r =>
      match bytes_compare k' k with
      | Lt => shift (binary_search r k)
      | Eq => Found 0
      | Gt => Insert 0
      end
  end.

(* self.0[idx] = x      (panics when idx is out of range) *)
Fixpoint assign_at (i : nat) (a : args) (x : bytes * V) : outcome args :=
  match i, a with
  | O, _ :: r => Done (x :: r)
  | S i', y :: r => omap (cons y) (assign_at i' r x)
  | _, [] => Panic "index out of bounds"
  end.

(* Vec::insert(idx, x)  (panics when idx > len) *)
Fixpoint insert_at (i : nat) (a : args) (x : bytes * V) : outcome args :=
  match i, a with
  | O, _ => Done (x :: a)
  | S i', y :: r => omap (cons y) (insert_at i' r x)
  | S _, [] => Panic "insertion index out of bounds"
  end.

(* args.rs FluentArgs::new *)
Definition new : args := [].

(* args.rs FluentArgs::set *)
Definition set (a : args) (k : bytes) (v : V) : outcome args :=
  match binary_search a k with
  | Found i => assign_at i a (k, v)
  | Insert i => insert_at i a (k, v)
  end.

(* args.rs FluentArgs::get *)
Definition get (a : args) (k : bytes) : outcome (option V) :=
  match binary_search a k with
  | Found i =>
      match nth_error a i with
      | Some (_, v) => Done (Some v)
      | None => Panic "index out of bounds"
      end
  | Insert _ => Done None
  end.

(* args.rs FluentArgs::iter *)
Definition iter (a : args) : list (bytes * V) := a.

(* args.rs FromIterator::from_iter, and fluent/src/lib.rs fluent_args! — both are a loop of set
   over the pairs in order, starting from an empty map. *)
Fixpoint set_all (a : args) (kvs : list (bytes * V)) : outcome args :=
  match kvs with
  | [] => Done a
  | (k, v) :: r => let* a' := set a k v in set_all a' r
  end.
Definition from_iter (kvs : list (bytes * V)) : outcome args := set_all new kvs.

(* Specification side: the association a keyed map would hold after the writes `kvs`. *)
Fixpoint last_write (kvs : list (bytes * V)) (k : bytes) : option V :=
  match kvs with
  | [] => None
  | (k', v) :: r =>
      match last_write r k with
      | Some v' => Some v'
      | None => if bytes_eqb k' k then Some v else None
      end
  end.

End Args.



(* Bundle/ResolverLimitDirty.v — what the budgeted specification (Bundle/ResolverSpecLimit.v) does AFTER the
   placeable limit has been exceeded (property C07, clause "nothing else is reported").

   While the state is dirty every pattern writes nothing, counts nothing and reports nothing (BL_stopped); everything
   else keeps the rule of Bundle/ResolverSpec.v.  So a derivation that STARTS dirty
     * leaves the state as it is, and
     * is, rule by rule, a derivation of the UN-budgeted rules of ResolverSpec.v for the same node in which every
       pattern has been emptied: the variants of its select expressions (`blank_inline`) and the values and
       attributes of the bundle's messages and terms (`blank_entries`; which names exist, which messages have a
       value, which attributes an entry has is unchanged).
   Hence every error reported after TooManyPlaceables is an error that an un-budgeted rule reports at that node:
   an unknown message / term / attribute / function / variable, a value-less message, a cycle, a missing default —
   for selectors and call arguments that are still evaluated — and TooManyPlaceables is not among them. *)
From FluentV Require Import Base.Bytes Base.Outcome Syntax.Ast Bundle.Args Bundle.ArgsProofs Bundle.Number
  Bundle.ResolverAst Bundle.ResolverModel Bundle.ResolverSpec Bundle.ResolverRefine Bundle.ResolverSpecLimit
  Bundle.ResolverRefineLimit.

Local Open Scope N_scope.

(* ---------- emptying every pattern ---------- *)
Definition nothing : pattern := Pattern [].

Definition blank_variant (v : variant) : variant :=
  match v with Variant k _ d => Variant k nothing d end.

Fixpoint blank_inline (i : inline) : inline :=
  match i with
  | FunctionReference id a => FunctionReference id (blank_args a)
  | TermReference id attr a =>
      TermReference id attr (match a with Some a' => Some (blank_args a') | None => None end)
  | Placeable e => Placeable (blank_expr e)
  | StringLiteral _ | NumberLiteral _ | MessageReference _ _ | VariableReference _ => i
  end
with blank_expr (e : expression) : expression :=
  match e with
  | Inline i => Inline (blank_inline i)
  | Select sel vs => Select (blank_inline sel) (map blank_variant vs)
  end
with blank_args (a : call_args) : call_args :=
  match a with
  | CallArguments pos named => CallArguments (map blank_inline pos) (map blank_named named)
  end
with blank_named (n : named_arg) : named_arg :=
  match n with NamedArgument name v => NamedArgument name (blank_inline v) end.

Definition blank_oargs (a : option call_args) : option call_args :=
  match a with Some a' => Some (blank_args a') | None => None end.

Definition blank_attr (a : attribute) : attribute := Attribute (attr_id a) nothing.
Definition blank_entry (e : bentry) : bentry :=
  match e with
  | EMessage v attrs => EMessage (match v with Some _ => Some nothing | None => None end) (map blank_attr attrs)
  | ETerm _ attrs => ETerm nothing (map blank_attr attrs)
  | EFunction f => EFunction f
  end.
Definition blank_entries (m : list (bytes * bentry)) : list (bytes * bentry) :=
  map (fun kv => (fst kv, blank_entry (snd kv))) m.
Definition blank_target (t : target) : target :=
  match t with Found n _ => Found n nothing | Unknown => Unknown | Valueless id => Valueless id end.

(* ---------- lookups in the emptied bundle ---------- *)
Lemma entry_find_blank m id : entry_find (blank_entries m) id = option_map blank_entry (entry_find m id).
Proof.
  induction m as [|[k e] r IH]; cbn [blank_entries map entry_find fst snd option_map]; [reflexivity|].
  destruct (bytes_eqb k id); [reflexivity | exact IH].
Qed.

Lemma find_attribute_blank attrs a :
  find_attribute (map blank_attr attrs) a = match find_attribute attrs a with Some _ => Some nothing | None => None end.
Proof.
  induction attrs as [|x r IH]; cbn [map find_attribute blank_attr attr_id attr_value]; [reflexivity|].
  destruct (bytes_eqb (attr_id x) a); [reflexivity | exact IH].
Qed.

Lemma message_target_blank m id attr :
  message_target (blank_entries m) id attr = blank_target (message_target m id attr).
Proof.
  unfold message_target. rewrite entry_find_blank.
  destruct (entry_find m id) as [[v attrs|v attrs|f]|]; cbn [option_map blank_entry blank_target]; try reflexivity.
  unfold attr_or_value. destruct attr as [a|].
  - rewrite find_attribute_blank. destruct (find_attribute attrs a); reflexivity.
  - destruct v; reflexivity.
Qed.

Lemma term_target_blank m id attr :
  term_target (blank_entries m) id attr = blank_target (term_target m id attr).
Proof.
  unfold term_target. rewrite entry_find_blank.
  destruct (entry_find m id) as [[v attrs|v attrs|f]|]; cbn [option_map blank_entry blank_target]; try reflexivity.
  unfold attr_or_value. destruct attr as [a|].
  - rewrite find_attribute_blank. destruct (find_attribute attrs a); reflexivity.
  - reflexivity.
Qed.

Lemma function_named_blank m id : function_named (blank_entries m) id = function_named m id.
Proof.
  unfold function_named. rewrite entry_find_blank.
  destruct (entry_find m id) as [[v attrs|v attrs|f]|]; reflexivity.
Qed.

Lemma find_blank (P : variant -> bool) vs :
  (forall v, P (blank_variant v) = P v) ->
  find P (map blank_variant vs) = option_map blank_variant (find P vs).
Proof.
  intros HP. induction vs as [|v r IH]; cbn [map find option_map]; [reflexivity|].
  rewrite HP. destruct (P v); [reflexivity | exact IH].
Qed.

Lemma chosen_blank rules f64_from_str vs sel :
  chosen rules f64_from_str (map blank_variant vs) sel =
  match chosen rules f64_from_str vs sel with Some _ => Some nothing | None => None end.
Proof.
  unfold chosen. rewrite !find_blank by (intros [k p d]; reflexivity).
  destruct (find _ vs) as [[k p d]|]; cbn [option_map blank_variant variant_value]; [reflexivity|].
  destruct (find variant_default vs) as [[k p d]|]; reflexivity.
Qed.

Lemma source_form_blank i : source_form (blank_inline i) = source_form i.
Proof. destruct i as [v|v|id a|id at_|id at_ a|id|e]; try reflexivity; destruct at_; reflexivity. Qed.
Lemma in_braces_blank i : in_braces (blank_inline i) = in_braces i.
Proof. unfold in_braces. rewrite source_form_blank. reflexivity. Qed.
Lemma reference_error_blank i : reference_error (blank_inline i) = reference_error i.
Proof. destruct i; reflexivity. Qed.
Lemma textual_blank i : textual (blank_inline i) = textual i.
Proof. destruct i; reflexivity. Qed.
Lemma named_name_blank l : map named_name (map blank_named l) = map named_name l.
Proof. rewrite map_map. apply map_ext. intros [name v]. reflexivity. Qed.
Lemma named_value_blank l : map named_value (map blank_named l) = map blank_inline (map named_value l).
Proof. rewrite !map_map. apply map_ext. intros [name v]. reflexivity. Qed.

Section Dirty.
Variable call_function : bytes -> list fvalue -> fargs -> fvalue.
Variable transform : option (bytes -> bytes).
Variable formatter : option (fvalue -> option bytes).
Variable rules : ntype -> operands -> pcat.
Variable custom_as_string : bytes -> bytes.
Variable unescape : bytes -> bytes.
Variable f64_from_str : bytes -> option fval.
Variable entries : list (bytes * bentry).
Variable args : option fargs.

(* the UN-budgeted rules over the emptied bundle *)
Notation EP := (eval_pattern call_function transform formatter rules custom_as_string unescape f64_from_str (blank_entries entries) args).
Notation EL := (eval_elements call_function transform formatter rules custom_as_string unescape f64_from_str (blank_entries entries) args).
Notation EX := (eval_expr call_function transform formatter rules custom_as_string unescape f64_from_str (blank_entries entries) args).
Notation EI := (eval_inline call_function transform formatter rules custom_as_string unescape f64_from_str (blank_entries entries) args).
Notation EV := (eval_value call_function transform formatter rules custom_as_string unescape f64_from_str (blank_entries entries) args).
Notation EA := (eval_args call_function transform formatter rules custom_as_string unescape f64_from_str (blank_entries entries) args).
Notation ES := (eval_values call_function transform formatter rules custom_as_string unescape f64_from_str (blank_entries entries) args).
Notation XP := (expand call_function transform formatter rules custom_as_string unescape f64_from_str (blank_entries entries) args).

Notation BP := (specb_pattern call_function transform formatter rules custom_as_string unescape f64_from_str entries args).
Notation BL := (specb_elements call_function transform formatter rules custom_as_string unescape f64_from_str entries args).
Notation BT := (specb_tracked call_function transform formatter rules custom_as_string unescape f64_from_str entries args).
Notation BX := (specb_expr call_function transform formatter rules custom_as_string unescape f64_from_str entries args).
Notation BI := (specb_inline call_function transform formatter rules custom_as_string unescape f64_from_str entries args).
Notation BV := (specb_value call_function transform formatter rules custom_as_string unescape f64_from_str entries args).
Notation BA := (specb_args call_function transform formatter rules custom_as_string unescape f64_from_str entries args).
Notation BS := (specb_values call_function transform formatter rules custom_as_string unescape f64_from_str entries args).
Notation BR := (specb_expand call_function transform formatter rules custom_as_string unescape f64_from_str entries args).

Lemma nothing_evaluates T env : EP T env nothing (just []).
Proof. constructor. constructor. Qed.

(* use the induction hypotheses front to back: each gives back the start state *)
Ltac dirty_ih :=
  repeat match goal with
         | IH : snd ?st = true -> _ /\ _, H : snd ?st = true |- _ =>
             let E := fresh "E" in destruct (IH H) as [E ?]; clear IH; try (subst)
         end.

Theorem specb_dirty_all :
  (forall T env p st r st', BP T env p st r st' -> snd st = true -> st' = st /\ r = just []) /\
  (forall T env els st r st', BL T env els st r st' -> snd st = true -> st' = st /\ r = just []) /\
  (forall T env e st r st', BT T env e st r st' -> snd st = true ->
     st' = st /\ exists r1, EX T env (blank_expr e) r1 /\ r = r1 +++ cut_mark e) /\
  (forall T env e st r st', BX T env e st r st' -> snd st = true -> st' = st /\ EX T env (blank_expr e) r) /\
  (forall T env i st r st', BI T env i st r st' -> snd st = true -> st' = st /\ EI T env (blank_inline i) r) /\
  (forall T env i t st r st', BR T env i t st r st' -> snd st = true ->
     st' = st /\ XP T env (blank_inline i) (blank_target t) r) /\
  (forall T env i st r st', BV T env i st r st' -> snd st = true -> st' = st /\ EV T env (blank_inline i) r) /\
  (forall T env a st r st', BA T env a st r st' -> snd st = true -> st' = st /\ EA T env (blank_oargs a) r) /\
  (forall T env l st r st', BS T env l st r st' -> snd st = true -> st' = st /\ ES T env (map blank_inline l) r).
Proof.
  apply (specb_mutind call_function transform formatter rules custom_as_string unescape f64_from_str entries args
           (fun T env p st r st' => snd st = true -> st' = st /\ r = just [])
           (fun T env els st r st' => snd st = true -> st' = st /\ r = just [])
           (fun T env e st r st' => snd st = true -> st' = st /\ exists r1, EX T env (blank_expr e) r1 /\ r = r1 +++ cut_mark e)
           (fun T env e st r st' => snd st = true -> st' = st /\ EX T env (blank_expr e) r)
           (fun T env i st r st' => snd st = true -> st' = st /\ EI T env (blank_inline i) r)
           (fun T env i t st r st' => snd st = true -> st' = st /\ XP T env (blank_inline i) (blank_target t) r)
           (fun T env i st r st' => snd st = true -> st' = st /\ EV T env (blank_inline i) r)
           (fun T env a st r st' => snd st = true -> st' = st /\ EA T env (blank_oargs a) r)
           (fun T env l st r st' => snd st = true -> st' = st /\ ES T env (map blank_inline l) r));
    intros; try (cbn [snd] in *; discriminate); dirty_ih; try (cbn [snd] in *; discriminate);
    (split; [reflexivity|]); try reflexivity; unfold blank_oargs in *; cbn [blank_inline blank_expr blank_target map] in *.
  - (* BT_cut *) eexists. split; [eassumption | reflexivity].
  - (* BX_inline *) constructor. assumption.
  - (* BX_select *)
    eapply X_select; [eassumption | | apply nothing_evaluates].
    match goal with Hc : chosen _ _ _ _ = _ |- _ => rewrite chosen_blank, Hc end. reflexivity.
  - (* BX_select_no_default *)
    eapply X_select_no_default; [eassumption|].
    match goal with Hc : chosen _ _ _ _ = _ |- _ => rewrite chosen_blank, Hc end. reflexivity.
  - constructor.
  - constructor.
  - constructor. assumption.
  - constructor. assumption.
  - (* BI_message *) apply I_message. rewrite message_target_blank. assumption.
  - (* BI_term *) eapply I_term; [eassumption | rewrite term_target_blank; eassumption].
  - (* BI_function *)
    eapply (I_function _ _ _ _ _ _ _ _ _ T env id (blank_args cargs) pos named es cs f _);
      [eassumption | rewrite function_named_blank; assumption | reflexivity].
  - (* BI_function_unknown *)
    eapply (I_function_unknown _ _ _ _ _ _ _ _ _ T env id (blank_args cargs) pos named es cs);
      [eassumption | rewrite function_named_blank; assumption].
  - (* BI_placeable *) constructor. assumption.
  - (* BR_found *) apply R_found; [assumption | apply nothing_evaluates].
  - (* BR_cyclic *) rewrite <- (in_braces_blank r). apply R_cyclic. assumption.
  - (* BR_unknown *) rewrite <- (in_braces_blank r), <- (reference_error_blank r). apply R_unknown.
  - (* BR_valueless *) rewrite <- (in_braces_blank r). apply R_valueless.
  - constructor.
  - constructor.
  - constructor. assumption.
  - constructor. assumption.
  - (* BV_function *) eapply V_function; [eassumption | rewrite function_named_blank; assumption].
  - (* BV_function_unknown *)
    eapply (V_function_unknown _ _ _ _ _ _ _ _ _ T env id (blank_args cargs) pos named es cs);
      [eassumption | rewrite function_named_blank; assumption].
  - (* BV_textual *) apply V_textual; [rewrite textual_blank; assumption | assumption].
  - (* BA_none *) constructor.
  - (* BA_some *)
    cbn [blank_args]. rewrite <- (named_name_blank named).
    eapply A_some; [eassumption | rewrite named_value_blank; eassumption].
  - (* BS_nil *) constructor.
  - (* BS_cons *) econstructor; eassumption.
Qed.

End Dirty.

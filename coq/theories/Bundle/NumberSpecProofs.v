(* Bundle/NumberSpecProofs.v — the model of number.rs (Bundle/Number.v) meets the specification of
   Bundle/NumberSpec.v: literals, printing, plural operands, NUMBER options, numeric equality. *)
From FluentV Require Import Base.Bytes Base.BytesFacts Base.Outcome Bundle.Args Bundle.ArgsProofs Bundle.Number
  Bundle.NumberProofs Bundle.NumberSpec.
From Coq Require Import Lia ZifyBool ZifyNat ZifyN.
Local Open Scope N_scope.
Arguments N.add : simpl never.
Arguments N.sub : simpl never.
Arguments N.mul : simpl never.
Arguments N.pow : simpl never.
Arguments N.eqb : simpl never.
Arguments N.ltb : simpl never.
Arguments N.leb : simpl never.
Arguments N.min : simpl never.

(* ---------- digits ---------- *)
Lemma dig_is_digit b : dig b = is_digit b.
Proof. reflexivity. Qed.

Lemma forallb_dig_is_digit s : forallb dig s = forallb is_digit s.
Proof. reflexivity. Qed.

Lemma dig_bounds b : dig b = true -> 48 <= b <= 57.
Proof. unfold dig. intros H. apply andb_prop in H as [H1 H2]. apply N.leb_le in H1, H2. lia. Qed.

Lemma dig_not_minus b : dig b = true -> b <> 45 /\ b <> 43 /\ b <> 46.
Proof. intros H. apply dig_bounds in H. lia. Qed.

(* a match on the literal byte k behaves like a test b =? k *)
Lemma match_byte_45 {X} (b : N) (x y : X) : match b with 45 => x | _ => y end = if N.eqb b 45 then x else y.
Proof.
  destruct b as [|p]; [reflexivity|].
  do 6 (destruct p as [p|p|]; try reflexivity).
Qed.
Lemma match_byte_43 {X} (b : N) (x y : X) : match b with 43 => x | _ => y end = if N.eqb b 43 then x else y.
Proof.
  destruct b as [|p]; [reflexivity|].
  do 6 (destruct p as [p|p|]; try reflexivity).
Qed.
Lemma match_byte_46 {X} (b : N) (x y : X) : match b with 46 => x | _ => y end = if N.eqb b 46 then x else y.
Proof.
  destruct b as [|p]; [reflexivity|].
  do 6 (destruct p as [p|p|]; try reflexivity).
Qed.
Lemma match_byte_48 {X} (b : N) (x y : X) : match b with 48 => x | _ => y end = if N.eqb b 48 then x else y.
Proof.
  destruct b as [|p]; [reflexivity|].
  do 6 (destruct p as [p|p|]; try reflexivity).
Qed.

(* ---------- the two zero-strippers agree ---------- *)
Lemma strip_is_drop s : strip_leading_zeros s = drop_zeros s.
Proof.
  induction s as [|b r IH]; [reflexivity|].
  cbn [strip_leading_zeros drop_zeros]. rewrite match_byte_48.
  destruct (N.eqb b 48); [exact IH | reflexivity].
Qed.

Lemma drop_zeros_app_nz a b : drop_zeros a <> [] -> drop_zeros (a ++ b) = drop_zeros a ++ b.
Proof.
  induction a as [|x r IH]; cbn [drop_zeros app]; [congruence|].
  destruct (N.eqb x 48); [exact IH | reflexivity].
Qed.

Lemma drop_zeros_app_z a b : drop_zeros a = [] -> drop_zeros (a ++ b) = drop_zeros b.
Proof.
  induction a as [|x r IH]; cbn [drop_zeros app]; [reflexivity|].
  destruct (N.eqb x 48); [exact IH | discriminate].
Qed.

Lemma drop_zeros_length s : (length (drop_zeros s) <= length s)%nat.
Proof.
  induction s as [|x r IH]; cbn [drop_zeros length]; [lia|].
  destruct (N.eqb x 48); cbn [length]; lia.
Qed.

Lemma drop_zeros_dig s : forallb dig s = true -> forallb dig (drop_zeros s) = true.
Proof.
  induction s as [|x r IH]; cbn [drop_zeros forallb]; [reflexivity|].
  intros H. apply andb_prop in H as [Hx Hr].
  destruct (N.eqb x 48); [apply IH, Hr | cbn [forallb]; now rewrite Hx, Hr].
Qed.

Lemma drop_zeros_head s b r : drop_zeros s = b :: r -> b <> 48.
Proof.
  induction s as [|x s' IH]; cbn [drop_zeros]; [discriminate|].
  destruct (N.eqb x 48) eqn:E; [exact IH|]. intros [= <- <-]. now apply N.eqb_neq.
Qed.

(* ---------- trailing zeros ---------- *)
Definition dtz_step (b : N) (acc : bytes) : bytes :=
  match acc with [] => if N.eqb b 48 then [] else [b] | _ => b :: acc end.

Lemma dtz_cons b r : drop_trailing_zeros (b :: r) = dtz_step b (drop_trailing_zeros r).
Proof. reflexivity. Qed.

Lemma dtz_cons_nz b r : drop_trailing_zeros r <> [] -> drop_trailing_zeros (b :: r) = b :: drop_trailing_zeros r.
Proof. rewrite dtz_cons. unfold dtz_step. destruct (drop_trailing_zeros r); congruence. Qed.

Lemma dtz_cons_z b r :
  drop_trailing_zeros r = [] -> drop_trailing_zeros (b :: r) = if N.eqb b 48 then [] else [b].
Proof. rewrite dtz_cons. unfold dtz_step. now intros ->. Qed.

Lemma dtz_app_nz a b : drop_trailing_zeros b <> [] -> drop_trailing_zeros (a ++ b) = a ++ drop_trailing_zeros b.
Proof.
  intros H. induction a as [|x r IH]; [reflexivity|].
  cbn [app]. rewrite dtz_cons_nz; [now rewrite IH|]. rewrite IH. destruct r; cbn [app]; [exact H | discriminate].
Qed.

Lemma dtz_app_z a b : drop_trailing_zeros b = [] -> drop_trailing_zeros (a ++ b) = drop_trailing_zeros a.
Proof.
  intros H. induction a as [|x r IH]; [exact H|].
  cbn [app]. now rewrite !dtz_cons, IH.
Qed.

Lemma dtz_zeros n : drop_trailing_zeros (repeat 48 n) = [].
Proof. induction n as [|n IH]; [reflexivity|]. cbn [repeat]. now rewrite dtz_cons_z. Qed.

(* f = (f without trailing zeros) ++ the zeros *)
Lemma dtz_pad s : s = drop_trailing_zeros s ++ repeat 48 (length s - length (drop_trailing_zeros s)).
Proof.
  induction s as [|b r IH]; [reflexivity|].
  destruct (drop_trailing_zeros r) as [|c t] eqn:E.
  - rewrite dtz_cons_z by exact E. cbn [app length] in IH.
    destruct (N.eqb b 48) eqn:Eb.
    + apply N.eqb_eq in Eb. subst b. cbn [app length].
      replace (S (length r) - 0)%nat with (S (length r - 0)) by lia. cbn [repeat]. now rewrite <- IH.
    + cbn [app length]. replace (S (length r) - 1)%nat with (length r - 0)%nat by lia. now rewrite <- IH.
  - rewrite dtz_cons_nz by (rewrite E; discriminate). rewrite E.
    cbn [app length]. cbn [app length] in IH.
    replace (S (length r) - S (S (length t)))%nat with (length r - S (length t))%nat by lia.
    now rewrite <- IH.
Qed.

Lemma dtz_length s : (length (drop_trailing_zeros s) <= length s)%nat.
Proof.
  pose proof (f_equal (@length N) (dtz_pad s)) as H. rewrite app_length, repeat_length in H. lia.
Qed.

Lemma dtz_dig s : forallb dig s = true -> forallb dig (drop_trailing_zeros s) = true.
Proof.
  intros H. rewrite (dtz_pad s), forallb_app in H. now apply andb_prop in H as [H1 _].
Qed.

(* the last byte of a string without trailing zeros is not '0' *)
Lemma dtz_last s : drop_trailing_zeros s <> [] -> last (drop_trailing_zeros s) 0 <> 48.
Proof.
  induction s as [|b r IH]; [cbn; congruence|].
  destruct (drop_trailing_zeros r) as [|c t] eqn:E.
  - rewrite dtz_cons_z by exact E. destruct (N.eqb b 48) eqn:Eb; [congruence|].
    intros _. cbn [last]. now apply N.eqb_neq.
  - rewrite dtz_cons_nz by (rewrite E; discriminate). rewrite E. intros _.
    change (last (b :: c :: t) 0) with (last (c :: t) 0). apply IH. discriminate.
Qed.

Lemma dtz_idem s : drop_trailing_zeros (drop_trailing_zeros s) = drop_trailing_zeros s.
Proof.
  induction s as [|b r IH]; [reflexivity|].
  destruct (drop_trailing_zeros r) as [|c t] eqn:E.
  - rewrite dtz_cons_z by exact E. destruct (N.eqb b 48) eqn:Eb; [reflexivity|].
    rewrite dtz_cons_z by reflexivity. now rewrite Eb.
  - rewrite dtz_cons_nz by (rewrite E; discriminate). rewrite E.
    rewrite dtz_cons_nz by (rewrite IH; discriminate). now rewrite IH.
Qed.

(* Number.v trims with rev / strip / rev *)
Lemma strip_rev_snoc s b :
  strip_leading_zeros (rev s ++ [b]) =
  match strip_leading_zeros (rev s) with [] => if N.eqb b 48 then [] else [b] | d => d ++ [b] end.
Proof.
  rewrite !strip_is_drop.
  destruct (drop_zeros (rev s)) as [|c t] eqn:E.
  - rewrite drop_zeros_app_z by exact E. cbn [drop_zeros]. destruct (N.eqb b 48); reflexivity.
  - rewrite drop_zeros_app_nz by (rewrite E; discriminate). now rewrite E.
Qed.

Lemma trim_is_dtz s : trim_end_zeros s = drop_trailing_zeros s.
Proof.
  unfold trim_end_zeros. induction s as [|b r IH]; [reflexivity|].
  cbn [rev]. rewrite strip_rev_snoc, dtz_cons. unfold dtz_step. rewrite <- IH.
  destruct (strip_leading_zeros (rev r)) as [|c t].
  - cbn [rev]. destruct (N.eqb b 48); reflexivity.
  - rewrite rev_app_distr. cbn [rev app]. destruct (rev t); reflexivity.
Qed.

Lemma dtz_drop_comm s : drop_trailing_zeros (drop_zeros s) = drop_zeros (drop_trailing_zeros s).
Proof.
  induction s as [|b r IH]; [reflexivity|].
  cbn [drop_zeros]. destruct (N.eqb b 48) eqn:Eb.
  - rewrite IH, dtz_cons. unfold dtz_step. destruct (drop_trailing_zeros r) as [|c t].
    + rewrite Eb. reflexivity.
    + cbn [drop_zeros]. now rewrite Eb.
  - rewrite dtz_cons. unfold dtz_step. destruct (drop_trailing_zeros r) as [|c t]; rewrite ?Eb; cbn [drop_zeros]; now rewrite Eb.
Qed.

Lemma dtz_nil_zeros s : drop_trailing_zeros s = [] -> s = repeat 48 (length s).
Proof.
  intros H. pose proof (dtz_pad s) as P. rewrite H in P. cbn [app length] in P.
  now replace (length s - 0)%nat with (length s) in P by lia.
Qed.

(* ---------- positional value ---------- *)
Lemma dval_app a b : dval (a ++ b) = dval a * 10 ^ N.of_nat (length b) + dval b.
Proof.
  induction a as [|x r IH]; cbn [app dval]; [lia|].
  rewrite IH, app_length, Nat2N.inj_add, N.pow_add_r. lia.
Qed.

Lemma fold_digits_dval s : forall acc,
  fold_left (fun a c => a * 10 + (c - 48)) s acc = acc * 10 ^ N.of_nat (length s) + dval s.
Proof.
  induction s as [|c r IH]; intros acc; cbn [fold_left length dval].
  - change (N.of_nat 0) with 0. rewrite N.pow_0_r. lia.
  - rewrite IH, Nat2N.inj_succ, N.pow_succ_r'. lia.
Qed.

Lemma digits_val_dval s : digits_val s = dval s.
Proof. unfold digits_val. rewrite fold_digits_dval. lia. Qed.

Lemma dval_lt s : forallb dig s = true -> dval s < 10 ^ N.of_nat (length s).
Proof. intros H. rewrite <- digits_val_dval. now apply digits_val_lt. Qed.

Lemma dval_drop_zeros s : dval (drop_zeros s) = dval s.
Proof.
  induction s as [|b r IH]; [reflexivity|]. cbn [drop_zeros].
  destruct (N.eqb b 48) eqn:E; [|reflexivity].
  apply N.eqb_eq in E. subst b. rewrite IH. cbn [dval]. lia.
Qed.

Lemma dval_zeros n : dval (repeat 48 n) = 0.
Proof. induction n as [|n IH]; [reflexivity|]. cbn [repeat dval]. rewrite IH. lia. Qed.

Lemma dval_dtz s :
  dval s = dval (drop_trailing_zeros s) * 10 ^ N.of_nat (length s - length (drop_trailing_zeros s)).
Proof.
  rewrite (dtz_pad s) at 1. rewrite dval_app, repeat_length, dval_zeros. lia.
Qed.

Lemma pow10_pos k : 0 < 10 ^ k.
Proof. apply N.neq_0_lt_0, N.pow_nonzero. discriminate. Qed.

(* a digit string without trailing zeros has a value that is not a multiple of 10 *)
Lemma dval_snoc s b : dval (s ++ [b]) = dval s * 10 + (b - 48).
Proof. rewrite dval_app. cbn [length dval]. change (N.of_nat 1) with 1. change (N.of_nat 0) with 0. rewrite N.pow_1_r, N.pow_0_r. lia. Qed.

Lemma dval_dtz_nonzero s :
  forallb dig s = true -> drop_trailing_zeros s <> [] -> dval (drop_trailing_zeros s) <> 0.
Proof.
  intros Hd Hne. pose proof (dtz_last s Hne) as Hl. pose proof (dtz_dig s Hd) as Hd'.
  destruct (exists_last Hne) as (pre & b & E). rewrite E in *.
  rewrite last_last in Hl. rewrite forallb_app in Hd'. apply andb_prop in Hd' as [_ Hb]. cbn [forallb] in Hb.
  rewrite Bool.andb_true_r in Hb. apply dig_bounds in Hb. rewrite dval_snoc. lia.
Qed.

(* ---------- the literal grammar ---------- *)
Lemma take_digits_spec s : forall d rest,
  take_digits s = (d, rest) ->
  forallb dig d = true /\ s = d ++ rest /\ match rest with [] => True | c :: _ => dig c = false end.
Proof.
  induction s as [|c r IH]; intros d rest; cbn [take_digits].
  - intros [= <- <-]. repeat split.
  - destruct (dig c) eqn:Ec.
    + destruct (take_digits r) as [d' rest'] eqn:E. intros [= <- <-].
      destruct (IH _ _ eq_refl) as (Hd & Hs & Hr). repeat split; [cbn [forallb]; now rewrite Ec, Hd | cbn; now rewrite <- Hs | exact Hr].
    + intros [= <- <-]. repeat split. exact Ec.
Qed.

Lemma take_digits_app d rest :
  forallb dig d = true -> match rest with [] => True | c :: _ => dig c = false end ->
  take_digits (d ++ rest) = (d, rest).
Proof.
  intros Hd Hr. induction d as [|c r IH]; cbn [app].
  - destruct rest as [|c r]; [reflexivity|]. cbn [take_digits]. now rewrite Hr.
  - cbn [forallb] in Hd. apply andb_prop in Hd as [Hc Hd]. cbn [take_digits]. rewrite Hc, (IH Hd). reflexivity.
Qed.

Lemma span_is_take s : span_digits s = take_digits s.
Proof. induction s as [|c r IH]; [reflexivity|]. cbn [span_digits take_digits]. rewrite IH. reflexivity. Qed.

Lemma digit_string_inv s : digit_string s = true -> s <> [] /\ forallb dig s = true.
Proof. destruct s; [discriminate|]. intros H. split; [discriminate | exact H]. Qed.

Lemma digit_string_intro s : s <> [] -> forallb dig s = true -> digit_string s = true.
Proof. destruct s; [congruence|]. intros _ H. exact H. Qed.

Definition sign_bytes (neg : bool) : bytes := if neg then [45] else [].

Lemma lit_text_eq l :
  lit_text l = sign_bytes (l_neg l) ++ l_int l ++ match l_frac l with None => [] | Some f => 46 :: f end.
Proof. reflexivity. Qed.

(* the part of a literal after the sign *)
Definition lit_body (l : literal) : bytes := l_int l ++ match l_frac l with None => [] | Some f => 46 :: f end.

Lemma body_head_not_sign l : lit_wf l = true -> exists c r, lit_body l = c :: r /\ dig c = true.
Proof.
  unfold lit_wf. intros H. apply andb_prop in H as [Hi _]. apply digit_string_inv in Hi as [Hne Hd].
  unfold lit_body. destruct (l_int l) as [|c r]; [congruence|]. exists c, (r ++ match l_frac l with None => [] | Some f => 46 :: f end).
  split; [reflexivity|]. cbn [forallb] in Hd. now apply andb_prop in Hd as [Hc _].
Qed.

Lemma parse_body (neg : bool) (body : bytes) l :
  lit_wf l = true -> l_neg l = neg -> body = lit_body l ->
  (let '(i, rest) := take_digits body in
   match i, rest with
   | [], _ => None
   | _, [] => Some (Lit neg i None)
   | _, 46 :: rest' =>
       let '(f, rest'') := take_digits rest' in
       match f, rest'' with
       | _ :: _, [] => Some (Lit neg i (Some f))
       | _, _ => None
       end
   | _, _ => None
   end) = Some l.
Proof.
  intros Hwf Hneg ->. destruct l as [n i fo]. cbn [l_neg] in Hneg. subst n.
  unfold lit_wf in Hwf. cbn [l_int l_frac] in Hwf. apply andb_prop in Hwf as [Hi Hf].
  apply digit_string_inv in Hi as [Hine Hid]. unfold lit_body. cbn [l_int l_frac].
  destruct fo as [f|].
  - apply digit_string_inv in Hf as [Hfne Hfd].
    rewrite (take_digits_app i (46 :: f) Hid) by reflexivity.
    destruct i as [|ci ri]; [congruence|].
    replace f with (f ++ []) at 1 by apply app_nil_r. rewrite (take_digits_app f [] Hfd Logic.I).
    destruct f; [congruence | reflexivity].
  - rewrite app_nil_r. replace i with (i ++ []) at 1 by apply app_nil_r. rewrite (take_digits_app i [] Hid Logic.I).
    destruct i; [congruence | reflexivity].
Qed.

Theorem parse_literal_complete l : lit_wf l = true -> parse_literal (lit_text l) = Some l.
Proof.
  intros Hwf. unfold parse_literal. rewrite lit_text_eq. fold (lit_body l).
  destruct (body_head_not_sign l Hwf) as (c & r & Eb & Hc).
  destruct (l_neg l) eqn:En; cbn [sign_bytes app].
  - apply (parse_body true (lit_body l) l Hwf En eq_refl).
  - rewrite Eb. rewrite match_byte_45. destruct (dig_not_minus c Hc) as (H45 & _).
    apply N.eqb_neq in H45. rewrite H45. rewrite <- Eb. apply (parse_body false (lit_body l) l Hwf En eq_refl).
Qed.

Lemma parse_body_sound (neg : bool) (body : bytes) l :
  (let '(i, rest) := take_digits body in
   match i, rest with
   | [], _ => None
   | _, [] => Some (Lit neg i None)
   | _, 46 :: rest' =>
       let '(f, rest'') := take_digits rest' in
       match f, rest'' with
       | _ :: _, [] => Some (Lit neg i (Some f))
       | _, _ => None
       end
   | _, _ => None
   end) = Some l ->
  lit_wf l = true /\ l_neg l = neg /\ body = lit_body l.
Proof.
  destruct (take_digits body) as [i rest] eqn:Ei.
  destruct (take_digits_spec _ _ _ Ei) as (Hid & Hb & _).
  destruct i as [|ci ri]; [discriminate|].
  destruct rest as [|c rest'].
  - intros [= <-]. unfold lit_wf, lit_body. cbn [l_int l_frac l_neg]. rewrite app_nil_r in *.
    repeat split; [|exact Hb]. now rewrite Bool.andb_true_r.
  - rewrite match_byte_46. destruct (N.eqb c 46) eqn:Ec; [|discriminate]. apply N.eqb_eq in Ec. subst c.
    destruct (take_digits rest') as [f rest''] eqn:Ef.
    destruct (take_digits_spec _ _ _ Ef) as (Hfd & Hr & _).
    destruct f as [|cf rf]; [discriminate|]. destruct rest''; [|discriminate].
    intros [= <-]. unfold lit_wf, lit_body. cbn [l_int l_frac l_neg]. rewrite app_nil_r in Hr. subst rest'.
    repeat split; [|exact Hb]. cbn [digit_string]. now rewrite Hid, Hfd.
Qed.

Theorem parse_literal_sound s l : parse_literal s = Some l -> lit_wf l = true /\ s = lit_text l.
Proof.
  unfold parse_literal. destruct s as [|c r].
  - cbn. discriminate.
  - rewrite match_byte_45. destruct (N.eqb c 45) eqn:Ec.
    + apply N.eqb_eq in Ec. subst c. intros H. apply parse_body_sound in H as (Hwf & Hn & Hb).
      split; [exact Hwf|]. rewrite lit_text_eq, Hn. cbn [sign_bytes app]. now rewrite Hb.
    + intros H. apply parse_body_sound in H as (Hwf & Hn & Hb).
      split; [exact Hwf|]. rewrite lit_text_eq, Hn. cbn [sign_bytes app]. exact Hb.
Qed.

(* ---------- the model's parser on a literal ---------- *)
Lemma wf_parts l :
  lit_wf l = true ->
  l_int l <> [] /\ forallb dig (l_int l) = true /\ forallb dig (frac_digits l) = true /\
  (forall f, l_frac l = Some f -> f <> []).
Proof.
  unfold lit_wf, frac_digits. intros H. apply andb_prop in H as [Hi Hf].
  apply digit_string_inv in Hi as [Hne Hd]. repeat split; try assumption.
  - destruct (l_frac l) as [f|]; [now apply digit_string_inv in Hf | reflexivity].
  - intros f E. rewrite E in Hf. now apply digit_string_inv in Hf.
Qed.

Lemma split_sign_lit l :
  lit_wf l = true -> split_sign (lit_text l) = (l_neg l, lit_body l).
Proof.
  intros Hwf. rewrite lit_text_eq. fold (lit_body l).
  destruct (body_head_not_sign l Hwf) as (c & r & Eb & Hc).
  destruct (l_neg l); cbn [sign_bytes app]; [reflexivity|].
  rewrite Eb. unfold split_sign.
  destruct c as [|p]; [reflexivity|].
  do 6 (destruct p as [p|p|]; try reflexivity); vm_compute in Hc; discriminate.
Qed.

Lemma f64_exact_literal l :
  lit_wf l = true ->
  f64_from_str_exact (lit_text l) = Some (mk_dec (l_neg l) (l_int l) (frac_digits l)).
Proof.
  intros Hwf. destruct (wf_parts l Hwf) as (Hine & Hid & Hfd & Hfne).
  unfold f64_from_str_exact. rewrite (split_sign_lit l Hwf). unfold lit_body, frac_digits in *.
  rewrite span_is_take.
  destruct (l_frac l) as [f|].
  - rewrite (take_digits_app (l_int l) (46 :: f) Hid) by reflexivity.
    rewrite span_is_take. replace f with (f ++ []) at 1 by apply app_nil_r. rewrite (take_digits_app f [] Hfd Logic.I).
    destruct (l_int l); [congruence|]. destruct f; [now specialize (Hfne [] eq_refl) | reflexivity].
  - rewrite app_nil_r. replace (l_int l) with (l_int l ++ []) at 1 by apply app_nil_r.
    rewrite (take_digits_app (l_int l) [] Hid Logic.I). destruct (l_int l); [congruence | reflexivity].
Qed.

Lemma find_byte_app_dig i c r : forallb dig i = true -> dig c = false -> find_byte c (i ++ c :: r) = Some (length i).
Proof. apply find_byte_digits_app. Qed.

Lemma find_byte_none_dig i c : forallb dig i = true -> dig c = false -> find_byte c i = None.
Proof. apply find_byte_digits_none. Qed.

Lemma find_byte_sign neg s : find_byte 46 (sign_bytes neg ++ s) = option_map (fun p => (length (sign_bytes neg) + p)%nat) (find_byte 46 s).
Proof.
  destruct neg; cbn [sign_bytes app length]; [|now destruct (find_byte 46 s)].
  cbn [find_byte]. change (N.eqb 45 46) with false. cbv iota. destruct (find_byte 46 s); reflexivity.
Qed.

Lemma find_dot_literal l :
  lit_wf l = true ->
  find_byte 46 (lit_text l) =
  match l_frac l with None => None | Some _ => Some (length (sign_bytes (l_neg l)) + length (l_int l))%nat end.
Proof.
  intros Hwf. destruct (wf_parts l Hwf) as (Hine & Hid & Hfd & Hfne).
  rewrite lit_text_eq, find_byte_sign. destruct (l_frac l) as [f|].
  - rewrite find_byte_app_dig by (assumption || reflexivity). reflexivity.
  - rewrite app_nil_r, find_byte_none_dig by (assumption || reflexivity). reflexivity.
Qed.

Definition literal_options (l : literal) : noptions :=
  NOptions Cardinal StyleDecimal None CurSymbol true None
           (option_map (fun f => N.of_nat (length f)) (l_frac l)) None None None.

Definition literal_number (l : literal) : fnumber :=
  FNum (mk_dec (l_neg l) (l_int l) (frac_digits l)) (literal_options l).

(* FluentNumber::from_str on a literal: the exact value, minimum_fraction_digits = number of WRITTEN fraction digits *)
Theorem from_str_literal l :
  lit_wf l = true -> fnumber_from_str f64_from_str_exact (lit_text l) = Some (literal_number l).
Proof.
  intros Hwf. unfold fnumber_from_str. rewrite (f64_exact_literal l Hwf), (find_dot_literal l Hwf).
  unfold literal_number, literal_options. rewrite lit_text_eq.
  destruct (l_frac l) as [f|]; cbn [option_map]; [|reflexivity]. do 4 f_equal.
  rewrite !app_length. cbn [length]. lia.
Qed.

(* ---------- printing ---------- *)
Definition mk_int (i : bytes) : bytes := match strip_leading_zeros i with [] => [48] | d => d end.

Lemma mk_int_canon i : mk_int i = canon_int i.
Proof. unfold mk_int, canon_int. now rewrite strip_is_drop. Qed.

Lemma mk_dec_eq neg i f : mk_dec neg i f = FDec neg (canon_int i) (drop_trailing_zeros f).
Proof. unfold mk_dec, canon_int. cbv zeta. rewrite strip_is_drop, trim_is_dtz. now destruct (drop_zeros i). Qed.

Lemma canon_int_dig i : forallb dig i = true -> forallb dig (canon_int i) = true.
Proof.
  intros H. unfold canon_int. pose proof (drop_zeros_dig i H) as H'. destruct (drop_zeros i); [reflexivity | exact H'].
Qed.

Lemma canon_int_ne i : canon_int i <> [].
Proof. unfold canon_int. destruct (drop_zeros i); discriminate. Qed.

Lemma dval_canon_int i : dval (canon_int i) = dval i.
Proof.
  unfold canon_int. pose proof (dval_drop_zeros i) as H. destruct (drop_zeros i); [cbn in *; lia | exact H].
Qed.

Lemma zeros_repeat n : zeros (N.of_nat n) = repeat 48 n.
Proof. unfold zeros. now rewrite Nat2N.id. Qed.

Theorem as_string_literal l :
  lit_wf l = true -> fnumber_as_string (literal_number l) = canonical_print l.
Proof.
  intros Hwf. destruct (wf_parts l Hwf) as (Hine & Hid & Hfd & Hfne).
  unfold fnumber_as_string, literal_number, literal_options. cbn [n_value n_options o_minimum_fraction_digits].
  rewrite mk_dec_eq. cbn [fval_to_string]. change (if l_neg l then [45] else []) with (sign_bytes (l_neg l)).
  unfold canonical_print, canonical. rewrite lit_text_eq. cbn [l_neg l_int l_frac].
  unfold frac_digits in *. destruct (l_frac l) as [f|]; cbn [option_map].
  - pose proof (canon_int_dig _ Hid) as Hcd.
    destruct (drop_trailing_zeros f) as [|c t] eqn:E.
    + rewrite app_nil_r, find_byte_sign, find_byte_none_dig by (assumption || reflexivity). cbn [option_map].
      rewrite zeros_repeat, <- (dtz_nil_zeros f E). now rewrite <- app_assoc.
    + rewrite find_byte_sign, find_byte_app_dig by (assumption || reflexivity). cbn [option_map].
      rewrite !app_length. cbn [length].
      match goal with |- context [zeros ?x] => replace x with (N.of_nat (length f - length (c :: t))) by (cbn [length]; lia) end.
      rewrite zeros_repeat, <- E. rewrite <- !app_assoc. do 2 f_equal. cbn [app]. f_equal. symmetry. apply dtz_pad.
  - cbn [drop_trailing_zeros fold_right]. now rewrite app_nil_r.
Qed.

(* the number held is the number written *)
Theorem value_literal l :
  lit_wf l = true -> fval_is (n_value (literal_number l)) (l_neg l) (lit_abs l).
Proof.
  intros Hwf. destruct (wf_parts l Hwf) as (Hine & Hid & Hfd & Hfne).
  unfold literal_number. cbn [n_value]. rewrite mk_dec_eq. cbn [fval_is].
  repeat split; [now apply canon_int_dig | now apply dtz_dig |].
  unfold dec_same, lit_abs. cbn [fst snd].
  rewrite !dval_app, dval_canon_int.
  pose proof (dval_dtz (frac_digits l)) as Hfr. pose proof (dtz_length (frac_digits l)) as Hl.
  set (a := dval (l_int l)) in *. set (t := dval (drop_trailing_zeros (frac_digits l))) in *.
  set (fv := dval (frac_digits l)) in *.
  set (w := length (drop_trailing_zeros (frac_digits l))) in *. set (v := length (frac_digits l)) in *.
  rewrite Hfr. replace (N.of_nat v) with (N.of_nat w + N.of_nat (v - w)) by lia.
  rewrite !N.pow_add_r. lia.
Qed.

(* canonical printing keeps the value, the sign and every written fraction digit *)
Theorem canonical_same_value l : dec_same (lit_abs (canonical l)) (lit_abs l).
Proof.
  unfold dec_same, lit_abs, canonical, frac_digits. cbn [l_int l_frac fst snd].
  now rewrite !dval_app, dval_canon_int.
Qed.

Theorem canonical_wf l : lit_wf l = true -> lit_wf (canonical l) = true.
Proof.
  intros Hwf. destruct (wf_parts l Hwf) as (Hine & Hid & Hfd & Hfne).
  unfold lit_wf in *. cbn [canonical l_int l_frac]. apply andb_prop in Hwf as [_ Hf]. rewrite Hf, Bool.andb_true_r.
  apply digit_string_intro; [apply canon_int_ne | now apply canon_int_dig].
Qed.

(* ---------- the guard ---------- *)
Lemma guard_fits l :
  lit_wf l = true -> exact_guard l = true -> drop_trailing_zeros (frac_digits l) <> [] ->
  dval (l_int l) < 10 ^ 15 /\ dval (drop_trailing_zeros (frac_digits l)) < 10 ^ 15.
Proof.
  intros Hwf Hg Hne. destruct (wf_parts l Hwf) as (Hine & Hid & Hfd & _).
  unfold exact_guard, significant_digits, GUARD_DIGITS in Hg. apply Nat.leb_le in Hg.
  rewrite dtz_drop_comm, dtz_app_nz in Hg by exact Hne.
  set (tf := drop_trailing_zeros (frac_digits l)) in *.
  assert (Htd : forallb dig tf = true) by now apply dtz_dig.
  destruct (drop_zeros (l_int l)) as [|c r] eqn:E.
  - rewrite drop_zeros_app_z in Hg by exact E.
    rewrite <- (dval_drop_zeros (l_int l)), E. split; [cbn; lia|].
    rewrite <- (dval_drop_zeros tf).
    pose proof (dval_lt (drop_zeros tf) (drop_zeros_dig tf Htd)) as Hlt.
    assert (10 ^ N.of_nat (length (drop_zeros tf)) <= 10 ^ 15) by (apply N.pow_le_mono_r; lia). lia.
  - rewrite drop_zeros_app_nz in Hg by (rewrite E; discriminate). rewrite app_length in Hg.
    split.
    + rewrite <- (dval_drop_zeros (l_int l)).
      pose proof (dval_lt _ (drop_zeros_dig _ Hid)) as Hlt.
      assert (10 ^ N.of_nat (length (drop_zeros (l_int l))) <= 10 ^ 15) by (apply N.pow_le_mono_r; lia). lia.
    + pose proof (dval_lt tf Htd) as Hlt.
      assert (10 ^ N.of_nat (length tf) <= 10 ^ 15) by (apply N.pow_le_mono_r; lia). lia.
Qed.

(* ---------- plural operands ---------- *)
Lemma abs_str_eq neg c r :
  dig c = true ->
  match sign_bytes neg ++ c :: r with 45 :: r' => r' | _ => sign_bytes neg ++ c :: r end = c :: r.
Proof.
  intros Hc. destruct neg; cbn [sign_bytes app]; [reflexivity|].
  destruct c as [|p]; [reflexivity|].
  do 6 (destruct p as [p|p|]; try reflexivity); vm_compute in Hc; discriminate.
Qed.

Lemma u64_from_str_dval s :
  s <> [] -> forallb dig s = true -> dval s <= u64_max -> u64_from_str s = Some (dval s).
Proof. intros. rewrite <- digits_val_dval. apply u64_from_str_digits; try assumption. now rewrite digits_val_dval. Qed.

Lemma u64_max_lt_pow20 : u64_max < 10 ^ 20.
Proof. vm_compute. reflexivity. Qed.

Lemma pow15_le_u64 : 10 ^ 15 <= u64_max.
Proof. vm_compute. discriminate. Qed.

Definition literal_operands (l : literal) : operands :=
  let fr := frac_digits l in
  let tf := drop_trailing_zeros fr in
  Operands (FDec false (canon_int (l_int l)) tf) (N.min (dval (l_int l)) u64_max)
           (N.of_nat (length fr)) (N.of_nat (length tf)) (N.min (dval fr) u64_max) (dval tf).

(* operands.rs try_from(f64) on the value of a literal *)
Lemma try_from_literal_value neg i fr :
  forallb dig i = true -> forallb dig fr = true ->
  let tf := drop_trailing_zeros fr in
  (tf = [] \/ (dval i <= u64_max /\ dval tf <= u64_max)) ->
  operands_try_from_f64 (FDec neg (canon_int i) tf) =
  Some (match tf with
        | [] => Operands (FDec false (canon_int i) tf) (N.min (dval i) u64_max) 0 0 0 0
        | _ => Operands (FDec false (canon_int i) tf) (dval i) (N.of_nat (length tf)) (N.of_nat (length tf)) (dval tf) (dval tf)
        end).
Proof.
  intros Hid Hfd tf Hfit.
  pose proof (canon_int_dig i Hid) as Hcd. pose proof (canon_int_ne i) as Hcne.
  assert (Htd : forallb dig tf = true) by now apply dtz_dig.
  unfold operands_try_from_f64. cbn [fval_to_string fval_abs].
  change (if neg then [45] else []) with (sign_bytes neg).
  destruct (canon_int i) as [|c r] eqn:Eci; [congruence|].
  assert (Hc : dig c = true) by (cbn [forallb] in Hcd; now apply andb_prop in Hcd as [Hc _]).
  cbn [app]. rewrite abs_str_eq by exact Hc.
  rewrite !app_comm_cons. rewrite <- Eci in *. clear c r Eci Hc.
  destruct tf as [|c t] eqn:Etf.
  - rewrite app_nil_r, find_byte_none_dig by (assumption || reflexivity).
    cbn [fval_as_u64]. now rewrite digits_val_dval, dval_canon_int.
  - destruct Hfit as [Hnil | [Hvi Hvt]]; [discriminate|].
    rewrite find_byte_app_dig by (assumption || reflexivity).
    rewrite firstn_app_len, skipn_app_len1.
    rewrite (u64_from_str_dval (canon_int i)) by (try assumption; now rewrite dval_canon_int).
    assert (Hidem : trim_end_zeros (c :: t) = c :: t) by (rewrite trim_is_dtz, <- Etf; apply dtz_idem).
    rewrite Hidem.
    rewrite (u64_from_str_dval (c :: t)) by (try assumption; discriminate).
    now rewrite dval_canon_int.
Qed.

Lemma dtz_full_length fr : length (drop_trailing_zeros fr) = length fr -> drop_trailing_zeros fr = fr.
Proof.
  intros H. pose proof (dtz_pad fr) as P. rewrite H, Nat.sub_diag in P. cbn [repeat] in P. now rewrite app_nil_r in P.
Qed.

(* number.rs From<&FluentNumber> for PluralOperands on a literal *)
Theorem operands_literal l :
  lit_wf l = true ->
  (drop_trailing_zeros (frac_digits l) = [] \/
   (dval (l_int l) <= u64_max /\ dval (drop_trailing_zeros (frac_digits l)) <= u64_max)) ->
  fnumber_operands (literal_number l) = Done (literal_operands l).
Proof.
  intros Hwf Hfit. destruct (wf_parts l Hwf) as (Hine & Hid & Hfd & Hfne).
  unfold fnumber_operands, literal_number. cbn [n_value n_options]. rewrite mk_dec_eq.
  rewrite (try_from_literal_value _ _ _ Hid Hfd Hfit).
  unfold literal_operands, literal_options. cbn [o_minimum_fraction_digits].
  pose proof (dval_dtz (frac_digits l)) as Hdv. pose proof (dtz_length (frac_digits l)) as Hlen.
  unfold frac_digits in *.
  destruct (l_frac l) as [f|]; cbn [option_map].
  - specialize (Hfne f eq_refl).
    destruct (drop_trailing_zeros f) as [|c t] eqn:Etf.
    + cbn [op_v op_f op_n op_i op_w op_t length].
      assert (Hlt : N.ltb 0 (N.of_nat (length f)) = true) by (apply N.ltb_lt; destruct f; [congruence | cbn [length]; lia]).
      rewrite Hlt. change (N.eqb 0 0) with true. cbv iota.
      cbn [dval] in Hdv. rewrite Hdv. reflexivity.
    + cbn [op_v op_f op_n op_i op_w op_t].
      destruct Hfit as [Hnil | [Hvi Hvt]]; [discriminate|].
      assert (Hnz : dval (c :: t) <> 0) by (rewrite <- Etf; apply dval_dtz_nonzero; [exact Hfd | rewrite Etf; discriminate]).
      destruct (N.ltb (N.of_nat (length (c :: t))) (N.of_nat (length f))) eqn:Elt.
      * apply N.ltb_lt in Elt.
        apply N.eqb_neq in Hnz. rewrite Hnz.
        replace (N.min (dval (l_int l)) u64_max) with (dval (l_int l)) by lia.
        set (shift := N.of_nat (length f) - N.of_nat (length (c :: t))) in *.
        assert (Hsh : N.of_nat (length f - length (c :: t)) = shift) by lia. rewrite Hsh in Hdv.
        apply N.eqb_neq in Hnz.
        do 2 f_equal.
        destruct (N.leb shift 19) eqn:E19.
        -- apply N.leb_le in E19.
           assert (E32 : N.leb shift u32_max = true) by (apply N.leb_le; unfold u32_max; lia). rewrite E32.
           unfold checked_pow10_u64. apply N.leb_le in E19. rewrite E19.
           unfold checked_mul_u64. cbv zeta. rewrite <- Hdv.
           destruct (N.leb (dval f) u64_max) eqn:Ef; [apply N.leb_le in Ef | apply N.leb_gt in Ef]; lia.
        -- apply N.leb_gt in E19.
           assert (Hbig : u64_max < dval f).
           { rewrite Hdv. pose proof u64_max_lt_pow20.
             assert (10 ^ 20 <= 10 ^ shift) by (apply N.pow_le_mono_r; lia).
             assert (1 * 10 ^ shift <= dval (c :: t) * 10 ^ shift) by (apply N.mul_le_mono_r; lia). lia. }
           replace (N.min (dval f) u64_max) with u64_max by lia.
           destruct (N.leb shift u32_max); [|reflexivity].
           unfold checked_pow10_u64. apply N.leb_gt in E19. now rewrite E19.
      * apply N.ltb_ge in Elt.
        assert (El : length (drop_trailing_zeros f) = length f) by (rewrite Etf; lia).
        apply dtz_full_length in El. rewrite Etf in El. rewrite <- El.
        replace (N.min (dval (l_int l)) u64_max) with (dval (l_int l)) by lia.
        replace (N.min (dval (c :: t)) u64_max) with (dval (c :: t)) by lia. reflexivity.
  - cbn [drop_trailing_zeros fold_right length dval]. reflexivity.
Qed.

(* ---------- the CLDR operands of a literal: agreement, saturation, arithmetic reading ---------- *)
Lemma fval_is_canon neg l :
  lit_wf l = true ->
  fval_is (FDec neg (canon_int (l_int l)) (drop_trailing_zeros (frac_digits l))) neg (lit_abs l).
Proof.
  intros Hwf. pose proof (value_literal (Lit neg (l_int l) (l_frac l))) as H.
  unfold literal_number in H. cbn [n_value l_neg l_int] in H. rewrite mk_dec_eq in H.
  apply H. exact Hwf.
Qed.

Theorem literal_operands_agree l :
  lit_wf l = true -> ops_agree (literal_operands l) (saturated_operands l).
Proof.
  intros Hwf. unfold ops_agree, literal_operands, saturated_operands, cldr_operands.
  cbn [op_n op_i op_v op_w op_f op_t c_n c_i c_v c_w c_f c_t].
  split; [apply (fval_is_canon false l Hwf) | repeat split].
Qed.

Lemma saturated_fits l : digits_fit_u64 l = true -> saturated_operands l = cldr_operands l.
Proof.
  unfold digits_fit_u64. intros H. apply andb_prop in H as [Hi Hf]. apply N.leb_le in Hi, Hf.
  unfold saturated_operands, cldr_operands. cbn [c_n c_i c_v c_w c_f c_t].
  f_equal; lia.
Qed.

Theorem cldr_operands_arith l : lit_wf l = true -> cldr_arith (cldr_operands l).
Proof.
  intros Hwf. destruct (wf_parts l Hwf) as (Hine & Hid & Hfd & _).
  unfold cldr_arith, cldr_operands, lit_abs. cbn [c_n c_i c_v c_w c_f c_t].
  pose proof (dtz_length (frac_digits l)) as Hlen. pose proof (dval_dtz (frac_digits l)) as Hdv.
  pose proof (dtz_dig _ Hfd) as Htd.
  repeat split.
  - now rewrite dval_app.
  - now apply dval_lt.
  - lia.
  - rewrite Hdv at 1. f_equal. f_equal. lia.
  - now apply dval_lt.
  - destruct (drop_trailing_zeros (frac_digits l)) as [|c t] eqn:E; [left; reflexivity|]. right.
    assert (Hne : drop_trailing_zeros (frac_digits l) <> []) by (rewrite E; discriminate).
    pose proof (dtz_last _ Hne) as Hl. rewrite E in *.
    destruct (@exists_last _ (c :: t)) as (pre & b & Ep); [discriminate|]. rewrite Ep in *.
    rewrite last_last in Hl. rewrite forallb_app in Htd. apply andb_prop in Htd as [_ Hb]. cbn [forallb] in Hb.
    rewrite Bool.andb_true_r in Hb. apply dig_bounds in Hb. rewrite dval_snoc.
    rewrite N.add_comm, N.mod_add by discriminate. rewrite N.mod_small by lia. lia.
Qed.

(* within the guard the conversion cannot fail *)
Lemma guard_no_panic l :
  lit_wf l = true -> exact_guard l = true ->
  drop_trailing_zeros (frac_digits l) = [] \/
  (dval (l_int l) <= u64_max /\ dval (drop_trailing_zeros (frac_digits l)) <= u64_max).
Proof.
  intros Hwf Hg. destruct (drop_trailing_zeros (frac_digits l)) as [|c t] eqn:E; [now left|]. right.
  assert (Hne : drop_trailing_zeros (frac_digits l) <> []) by (rewrite E; discriminate).
  destruct (guard_fits l Hwf Hg Hne) as [H1 H2]. rewrite E in H2. pose proof pow15_le_u64. lia.
Qed.

(* ---------- numeric equality: the model's == is equality of the numbers denoted ---------- *)
Lemma euclid_unique a1 r1 a2 r2 m : r1 < m -> r2 < m -> a1 * m + r1 = a2 * m + r2 -> a1 = a2 /\ r1 = r2.
Proof.
  intros H1 H2 E. apply (N.div_mod_unique m a1 a2 r1 r2 H1 H2). lia.
Qed.

Lemma dval_inj_same_length s1 : forall s2,
  forallb dig s1 = true -> forallb dig s2 = true -> length s1 = length s2 -> dval s1 = dval s2 -> s1 = s2.
Proof.
  induction s1 as [|b1 r1 IH]; intros [|b2 r2] H1 H2 Hl Hv; try discriminate; [reflexivity|].
  cbn [forallb] in H1, H2. apply andb_prop in H1 as [Hb1 Hr1]. apply andb_prop in H2 as [Hb2 Hr2].
  cbn [length] in Hl. injection Hl as Hl. cbn [dval] in Hv. rewrite Hl in Hv.
  pose proof (dval_lt r1 Hr1) as L1. pose proof (dval_lt r2 Hr2) as L2. rewrite Hl in L1.
  destruct (euclid_unique _ _ _ _ _ L1 L2 Hv) as [Ea Er].
  apply dig_bounds in Hb1, Hb2. f_equal; [lia | now apply IH].
Qed.

Lemma dval_lower s c r : s = c :: r -> dig c = true -> c <> 48 -> 10 ^ N.of_nat (length r) <= dval s.
Proof.
  intros -> Hc Hne. apply dig_bounds in Hc. cbn [dval].
  assert (1 * 10 ^ N.of_nat (length r) <= (c - 48) * 10 ^ N.of_nat (length r)) by (apply N.mul_le_mono_r; lia). lia.
Qed.

Lemma dval_inj_stripped i1 i2 :
  forallb dig i1 = true -> forallb dig i2 = true -> dval i1 = dval i2 -> drop_zeros i1 = drop_zeros i2.
Proof.
  intros H1 H2 Hv. rewrite <- (dval_drop_zeros i1), <- (dval_drop_zeros i2) in Hv.
  pose proof (drop_zeros_dig _ H1) as D1. pose proof (drop_zeros_dig _ H2) as D2.
  pose proof (dval_lt _ D1) as U1. pose proof (dval_lt _ D2) as U2.
  destruct (drop_zeros i1) as [|c1 r1] eqn:E1; destruct (drop_zeros i2) as [|c2 r2] eqn:E2.
  - reflexivity.
  - exfalso. pose proof (dval_lower _ c2 r2 eq_refl) as L. cbn [forallb] in D2. apply andb_prop in D2 as [Dc _].
    specialize (L Dc (drop_zeros_head _ _ _ E2)). pose proof (pow10_pos (N.of_nat (length r2))). change (dval []) with 0 in Hv. lia.
  - exfalso. pose proof (dval_lower _ c1 r1 eq_refl) as L. cbn [forallb] in D1. apply andb_prop in D1 as [Dc _].
    specialize (L Dc (drop_zeros_head _ _ _ E1)). pose proof (pow10_pos (N.of_nat (length r1))). change (dval []) with 0 in Hv. lia.
  - apply dval_inj_same_length; try assumption.
    pose proof (dval_lower _ c1 r1 eq_refl) as L1. pose proof (dval_lower _ c2 r2 eq_refl) as L2.
    pose proof D1 as D1'. pose proof D2 as D2'. cbn [forallb] in D1', D2'.
    apply andb_prop in D1' as [Dc1 _]. apply andb_prop in D2' as [Dc2 _].
    specialize (L1 Dc1 (drop_zeros_head _ _ _ E1)). specialize (L2 Dc2 (drop_zeros_head _ _ _ E2)).
    cbn [length] in *.
    destruct (Nat.lt_trichotomy (length r1) (length r2)) as [Hlt | [Heq | Hgt]]; [exfalso | now f_equal | exfalso].
    + assert (10 ^ N.of_nat (S (length r1)) <= 10 ^ N.of_nat (length r2)) by (apply N.pow_le_mono_r; lia). lia.
    + assert (10 ^ N.of_nat (S (length r2)) <= 10 ^ N.of_nat (length r1)) by (apply N.pow_le_mono_r; lia). lia.
Qed.

Lemma dval_pad s k : dval (s ++ repeat 48 k) = dval s * 10 ^ N.of_nat k.
Proof. rewrite dval_app, repeat_length, dval_zeros. lia. Qed.

Lemma forallb_dig_zeros k : forallb dig (repeat 48 k) = true.
Proof. induction k; [reflexivity|]. cbn [repeat forallb]. now rewrite IHk. Qed.

Lemma dtz_pad_zeros s k : drop_trailing_zeros (s ++ repeat 48 k) = drop_trailing_zeros s.
Proof. apply dtz_app_z, dtz_zeros. Qed.

Lemma frac_same_dtz f1 f2 :
  forallb dig f1 = true -> forallb dig f2 = true ->
  dval f1 * 10 ^ N.of_nat (length f2) = dval f2 * 10 ^ N.of_nat (length f1) ->
  drop_trailing_zeros f1 = drop_trailing_zeros f2.
Proof.
  intros H1 H2 E.
  rewrite <- (dtz_pad_zeros f1 (length f2)), <- (dtz_pad_zeros f2 (length f1)). f_equal.
  apply dval_inj_same_length.
  - rewrite forallb_app, H1. apply forallb_dig_zeros.
  - rewrite forallb_app, H2. apply forallb_dig_zeros.
  - rewrite !app_length, !repeat_length. lia.
  - now rewrite !dval_pad.
Qed.

Lemma all_zero_dval s : forallb dig s = true -> all_zero s = N.eqb (dval s) 0.
Proof.
  induction s as [|b r IH]; [reflexivity|]. intros H. cbn [forallb] in H. apply andb_prop in H as [Hb Hr].
  unfold all_zero in *. cbn [forallb dval]. rewrite (IH Hr). apply dig_bounds in Hb.
  pose proof (pow10_pos (N.of_nat (length r))) as Hp.
  destruct (N.eqb 48 b) eqn:Eb.
  - apply N.eqb_eq in Eb. subst b. cbn [andb]. replace ((48 - 48) * 10 ^ N.of_nat (length r) + dval r) with (dval r) by lia. reflexivity.
  - apply N.eqb_neq in Eb. cbn [andb]. symmetry. apply N.eqb_neq.
    assert (1 * 10 ^ N.of_nat (length r) <= (b - 48) * 10 ^ N.of_nat (length r)) by (apply N.mul_le_mono_r; lia). lia.
Qed.

Lemma dec_parts_same i1 f1 i2 f2 :
  forallb dig i1 = true -> forallb dig f1 = true -> forallb dig i2 = true -> forallb dig f2 = true ->
  (bytes_eqb (strip_leading_zeros i1) (strip_leading_zeros i2) && bytes_eqb (trim_end_zeros f1) (trim_end_zeros f2)) =
  dec_sameb (dval (i1 ++ f1), N.of_nat (length f1)) (dval (i2 ++ f2), N.of_nat (length f2)).
Proof.
  intros Hi1 Hf1 Hi2 Hf2. rewrite !strip_is_drop, !trim_is_dtz. unfold dec_sameb. cbn [fst snd].
  rewrite !dval_app.
  pose proof (dval_lt f1 Hf1) as L1. pose proof (dval_lt f2 Hf2) as L2.
  set (v1 := N.of_nat (length f1)) in *. set (v2 := N.of_nat (length f2)) in *.
  destruct (N.eqb ((dval i1 * 10 ^ v1 + dval f1) * 10 ^ v2) ((dval i2 * 10 ^ v2 + dval f2) * 10 ^ v1)) eqn:E.
  - apply N.eqb_eq in E.
    assert (E' : dval i1 * (10 ^ v1 * 10 ^ v2) + dval f1 * 10 ^ v2 = dval i2 * (10 ^ v1 * 10 ^ v2) + dval f2 * 10 ^ v1) by lia.
    pose proof (pow10_pos v1) as P1. pose proof (pow10_pos v2) as P2.
    assert (B1 : dval f1 * 10 ^ v2 < 10 ^ v1 * 10 ^ v2) by (apply N.mul_lt_mono_pos_r; assumption).
    assert (B2 : dval f2 * 10 ^ v1 < 10 ^ v1 * 10 ^ v2) by (rewrite (N.mul_comm (10 ^ v1)); apply N.mul_lt_mono_pos_r; assumption).
    destruct (euclid_unique _ _ _ _ _ B1 B2 E') as [Ea Ef].
    rewrite (dval_inj_stripped i1 i2 Hi1 Hi2 Ea), (frac_same_dtz f1 f2 Hf1 Hf2 Ef).
    assert (R : forall x, bytes_eqb x x = true) by (intros x; now apply bytes_eqb_eq). now rewrite !R.
  - apply N.eqb_neq in E.
    destruct (bytes_eqb (drop_zeros i1) (drop_zeros i2)) eqn:Ei; [|reflexivity].
    destruct (bytes_eqb (drop_trailing_zeros f1) (drop_trailing_zeros f2)) eqn:Ef; [|reflexivity].
    exfalso. apply E. apply bytes_eqb_eq in Ei, Ef.
    assert (Ea : dval i1 = dval i2) by (rewrite <- (dval_drop_zeros i1), <- (dval_drop_zeros i2); now rewrite Ei).
    pose proof (dval_dtz f1) as D1. pose proof (dval_dtz f2) as D2. rewrite Ef in D1.
    pose proof (dtz_length f1) as Le1. pose proof (dtz_length f2) as Le2. rewrite Ef in Le1.
    set (t := dval (drop_trailing_zeros f2)) in *. set (w := length (drop_trailing_zeros f2)) in *.
    rewrite D1, D2, Ea.
    replace v1 with (N.of_nat w + N.of_nat (length f1 - w)) by lia.
    replace v2 with (N.of_nat w + N.of_nat (length f2 - w)) by lia.
    rewrite !N.pow_add_r. ring.
Qed.

Lemma sum_zero a p f : 0 < p -> N.eqb a 0 && N.eqb f 0 = N.eqb (a * p + f) 0.
Proof.
  intros Hp. destruct (N.eqb_spec a 0) as [Ea|Ea], (N.eqb_spec f 0) as [Ef|Ef], (N.eqb_spec (a * p + f) 0) as [Es|Es];
    cbn [andb]; try reflexivity; exfalso.
  - subst. apply Es. lia.
  - apply N.eq_add_0 in Es as [_ Es]. contradiction.
  - apply N.eq_add_0 in Es as [Es _]. apply N.eq_mul_0 in Es as [Es|Es]; [contradiction | lia].
  - apply N.eq_add_0 in Es as [_ Es]. contradiction.
Qed.

Theorem fval_eqb_same_number a b :
  fval_digits a = true -> fval_digits b = true -> fval_eqb a b = same_number a b.
Proof.
  destruct a as [|x|n1 i1 f1], b as [|y|n2 i2 f2]; try reflexivity.
  cbn [fval_digits]. intros Ha Hb. apply andb_prop in Ha as [Hi1 Hf1]. apply andb_prop in Hb as [Hi2 Hf2].
  cbn [fval_eqb same_number fst snd].
  rewrite (all_zero_dval i1 Hi1), (all_zero_dval f1 Hf1), (all_zero_dval i2 Hi2), (all_zero_dval f2 Hf2).
  rewrite <- !Bool.andb_assoc. rewrite (dec_parts_same i1 f1 i2 f2 Hi1 Hf1 Hi2 Hf2).
  rewrite !dval_app.
  pose proof (pow10_pos (N.of_nat (length f1))). pose proof (pow10_pos (N.of_nat (length f2))).
  assert (Z1 := sum_zero (dval i1) (10 ^ N.of_nat (length f1)) (dval f1) H).
  assert (Z2 := sum_zero (dval i2) (10 ^ N.of_nat (length f2)) (dval f2) H0).
  rewrite <- Z1, <- Z2, <- !Bool.andb_assoc. reflexivity.
Qed.

(* ---------- NUMBER(x, opts) ---------- *)
Lemma named_lookup_cons k v r key :
  named_lookup ((k, v) :: r) key = if bytes_eqb k key then Some v else named_lookup r key.
Proof. reflexivity. Qed.

Lemma named_lookup_notin r key : ~ In key (map fst r) -> named_lookup r key = None.
Proof.
  induction r as [|[k v] r IH]; [reflexivity|]. cbn [map fst In named_lookup]. intros H.
  destruct (bytes_eqb k key) eqn:E; [apply bytes_eqb_eq in E; tauto | apply IH; tauto].
Qed.

Lemma named_lookup_in l k v : NoDup (map fst l) -> (named_lookup l k = Some v <-> In (k, v) l).
Proof.
  induction l as [|[k' v'] r IH]; cbn [map fst named_lookup In]; intros Hnd.
  - split; [discriminate | tauto].
  - inversion Hnd as [|? ? Hnin Hnd']; subst. destruct (bytes_eqb k' k) eqn:E.
    + apply bytes_eqb_eq in E. subst k'. split.
      * intros [= ->]. now left.
      * intros [[= ->] | Hin]; [reflexivity|]. exfalso. apply Hnin. now apply (in_map fst) in Hin.
    + rewrite (IH Hnd'). split; [tauto|]. intros [[= -> ->] | Hin]; [|exact Hin].
      assert (bytes_eqb k k = true) by now apply bytes_eqb_eq. congruence.
Qed.

(* two different option names cannot both equal the key *)
Ltac two_keys :=
  match goal with
  | A : bytes_eqb ?k ?s1 = true, B : bytes_eqb ?k ?s2 = true |- _ =>
      apply bytes_eqb_eq in A; apply bytes_eqb_eq in B; rewrite A in B; discriminate B
  end.

Ltac key_cases k :=
  repeat match goal with
         | |- context [bytes_eqb k ?s] => let E := fresh "E" in destruct (bytes_eqb k s) eqn:E
         end;
  try reflexivity; try two_keys.

(* merge_one touches exactly the field its key names, and only with a value of the right kind *)
Lemma merge_one_fields o k v :
  let o' := merge_one o k v in
  o_type o' = (if bytes_eqb k (bytes_of_string "type") then match v with VString s => ntype_of_str s | _ => o_type o end else o_type o) /\
  o_style o' = (if bytes_eqb k (bytes_of_string "style") then match v with VString s => nstyle_of_str s | _ => o_style o end else o_style o) /\
  o_currency o' = (if bytes_eqb k (bytes_of_string "currency") then match v with VString s => Some s | _ => o_currency o end else o_currency o) /\
  o_currency_display o' = (if bytes_eqb k (bytes_of_string "currencyDisplay") then match v with VString s => ncurrency_display_of_str s | _ => o_currency_display o end else o_currency_display o) /\
  o_use_grouping o' = (if bytes_eqb k (bytes_of_string "useGrouping") then match v with VString s => negb (bytes_eqb s (bytes_of_string "false")) | _ => o_use_grouping o end else o_use_grouping o) /\
  o_minimum_integer_digits o' = (if bytes_eqb k (bytes_of_string "minimumIntegerDigits") then match v with VNumber n => Some (usize_of_fnumber n) | _ => o_minimum_integer_digits o end else o_minimum_integer_digits o) /\
  o_minimum_fraction_digits o' = (if bytes_eqb k (bytes_of_string "minimumFractionDigits") then match v with VNumber n => Some (usize_of_fnumber n) | _ => o_minimum_fraction_digits o end else o_minimum_fraction_digits o) /\
  o_maximum_fraction_digits o' = (if bytes_eqb k (bytes_of_string "maximumFractionDigits") then match v with VNumber n => Some (usize_of_fnumber n) | _ => o_maximum_fraction_digits o end else o_maximum_fraction_digits o) /\
  o_minimum_significant_digits o' = (if bytes_eqb k (bytes_of_string "minimumSignificantDigits") then match v with VNumber n => Some (usize_of_fnumber n) | _ => o_minimum_significant_digits o end else o_minimum_significant_digits o) /\
  o_maximum_significant_digits o' = (if bytes_eqb k (bytes_of_string "maximumSignificantDigits") then match v with VNumber n => Some (usize_of_fnumber n) | _ => o_maximum_significant_digits o end else o_maximum_significant_digits o).
Proof.
  destruct o as [ty st cu cd ug mi mf xf ms xs]. unfold merge_one, str_is.
  cbn [o_type o_style o_currency o_currency_display o_use_grouping o_minimum_integer_digits o_minimum_fraction_digits
       o_maximum_fraction_digits o_minimum_significant_digits o_maximum_significant_digits].
  destruct v as [s|n|c| |]; cbv zeta; repeat split; key_cases k.
Qed.

Lemma noptions_eta o :
  o = NOptions (o_type o) (o_style o) (o_currency o) (o_currency_display o) (o_use_grouping o) (o_minimum_integer_digits o)
        (o_minimum_fraction_digits o) (o_maximum_fraction_digits o) (o_minimum_significant_digits o) (o_maximum_significant_digits o).
Proof. now destruct o. Qed.

Lemma spec_step o k v r :
  ~ In k (map fst r) ->
  number_options_spec (merge_one o k v) r = number_options_spec o ((k, v) :: r).
Proof.
  intros Hnin. destruct (merge_one_fields o k v) as (H1 & H2 & H3 & H4 & H5 & H6 & H7 & H8 & H9 & H10).
  unfold number_options_spec, string_option, digits_option. rewrite !named_lookup_cons.
  rewrite H1, H2, H3, H4, H5, H6, H7, H8, H9, H10. clear H1 H2 H3 H4 H5 H6 H7 H8 H9 H10.
  f_equal;
    match goal with
    | |- context [bytes_eqb k ?s] =>
        destruct (bytes_eqb k s) eqn:E; [apply bytes_eqb_eq in E; subst k; now rewrite (named_lookup_notin r _ Hnin) | reflexivity]
    end.
Qed.

Lemma merge_fold_spec (named : list (bytes * fvalue)) : forall o,
  NoDup (map fst named) ->
  fold_left (fun acc kv => merge_one acc (fst kv) (snd kv)) named o = number_options_spec o named.
Proof.
  induction named as [|[k v] r IH]; intros o Hnd.
  - cbn [fold_left]. unfold number_options_spec, string_option, digits_option. cbn [named_lookup]. apply noptions_eta.
  - inversion Hnd as [|? ? Hnin Hnd']; subst. cbn [fold_left fst snd]. rewrite (IH _ Hnd'). now apply spec_step.
Qed.

Theorem merge_spec named o :
  NoDup (map fst named) -> merge o named = number_options_spec o named.
Proof. apply merge_fold_spec. Qed.

Theorem NUMBER_spec x rest named :
  NoDup (map fst named) ->
  NUMBER (VNumber x :: rest) named = VNumber (FNum (n_value x) (number_options_spec (n_options x) named)).
Proof. intros H. unfold NUMBER. now rewrite merge_spec. Qed.

Lemma NUMBER_not_number positional named :
  match positional with VNumber _ :: _ => False | _ => True end -> NUMBER positional named = VError.
Proof. unfold NUMBER. destruct positional as [|[s|n|c| |] rest]; tauto. Qed.

(* the named arguments a call receives are collected from the written list: one entry per key, the last one written *)
Theorem named_of_written kvs named :
  Args.from_iter fvalue kvs = Done named ->
  NoDup (map fst named) /\ forall k, named_lookup named k = last_write fvalue kvs k.
Proof.
  intros H. destruct (iter_once fvalue kvs named H) as (Hnd & _ & Hin). unfold iter in *.
  split; [exact Hnd|]. intros k.
  destruct (last_write fvalue kvs k) as [v|] eqn:E.
  - apply named_lookup_in; [exact Hnd | now apply Hin].
  - destruct (named_lookup named k) as [v|] eqn:E'; [|reflexivity].
    apply named_lookup_in in E'; [|exact Hnd]. apply Hin in E'. congruence.
Qed.

(* ---------- selection ---------- *)
From FluentV Require Import Syntax.Ast Bundle.ResolverAst Bundle.ResolverModel Bundle.ResolverEqns Gen.Extracted.

Lemma keyword_category_model name : keyword_category name = plural_keyword name.
Proof.
  unfold keyword_category, plural_keyword, keyword_cats.
  generalize PLURAL_KEYWORDS [ZERO; ONE; TWO; FEW; MANY; OTHER].
  induction l as [|k ks IH]; intros [|c cs]; try reflexivity. cbn [combine assoc_bytes].
  destruct (bytes_eqb k name); [reflexivity | apply IH].
Qed.

Section SelectProofs.
Variable rules : ntype -> rules_fn.
Variable f64_from_str : bytes -> option fval.
(* what std's float parser returns is a number the exact-decimal model can hold (digits only) *)
Hypothesis parser_digits : forall s v, f64_from_str s = Some v -> fval_digits v = true.

Local Notation cache_step := (NumberSpec.cache_step rules).

Lemma set_intls_same sc : set_intls sc (sc_intls sc) = sc.
Proof. now destruct sc. Qed.

Lemma cache_step_refl sc : cache_ok rules (sc_intls sc) -> cache_step sc sc.
Proof. intros H. repeat split; [now rewrite set_intls_same | exact H | intros ty r E; exact E]. Qed.

Lemma cache_step_trans a b c : cache_step a b -> cache_step b c -> cache_step a c.
Proof.
  intros (E1 & O1 & X1) (E2 & O2 & X2). repeat split; [|exact O2| intros ty r E; apply X2, X1, E].
  rewrite E2, E1. now destruct a.
Qed.

(* intl_memoizer with_try_get: the object used is rules ty; it is constructed at most once per type *)
Lemma with_try_get_spec c ty :
  cache_ok rules c ->
  let '(r, c') := with_try_get rules c ty in
  r = rules ty /\ cache_ok rules c' /\ cache_extends c c' /\ cache_find c' ty = Some (rules ty) /\
  (forall r0, cache_find c ty = Some r0 -> c' = c).
Proof.
  intros Hok. unfold with_try_get. destruct (cache_find c ty) as [r|] eqn:E.
  - pose proof (Hok ty r E) as ->. repeat split; auto. intros ty' r' E'; exact E'.
  - repeat split.
    + intros ty' r'. cbn [cache_find]. destruct (ntype_eqb ty ty') eqn:Et.
      * intros [= <-]. destruct ty, ty'; try discriminate; reflexivity.
      * apply Hok.
    + intros ty' r' E'. cbn [cache_find]. destruct (ntype_eqb ty ty') eqn:Et; [|exact E'].
      assert (ty = ty') by (destruct ty, ty'; try discriminate; reflexivity). subst. congruence.
    + cbn [cache_find]. now destruct ty.
    + discriminate.
Qed.

Lemma try_number_digits s : value_digits (try_number f64_from_str s) = true.
Proof.
  unfold try_number, fnumber_from_str. destruct (f64_from_str s) as [v|] eqn:E; [|reflexivity].
  cbn [value_digits n_value]. eapply parser_digits, E.
Qed.

(* FluentValue::matches of a variant key against a selector NUMBER *)
Lemma value_matches_number k sel ops sc :
  fval_digits (n_value sel) = true -> fnumber_operands sel = Done ops -> cache_ok rules (sc_intls sc) ->
  exists sc', value_matches rules (variant_key_value f64_from_str k) (VNumber sel) sc =
              Done (key_satisfied rules f64_from_str sel ops k, sc') /\ cache_step sc sc'.
Proof.
  intros Hd Hops Hok.
  assert (Hkw : forall name,
    exists sc', value_matches rules (VString name) (VNumber sel) sc =
                Done (match keyword_category name with
                      | Some cat => pcat_eqb (rules (o_type (n_options sel)) ops) cat
                      | None => false
                      end, sc') /\ cache_step sc sc').
  { intros name. unfold value_matches. rewrite <- keyword_category_model.
    destruct (keyword_category name) as [cat|]; [|exists sc; split; [reflexivity | now apply cache_step_refl]].
    pose proof (with_try_get_spec (sc_intls sc) (o_type (n_options sel)) Hok) as W.
    destruct (with_try_get rules (sc_intls sc) (o_type (n_options sel))) as [pr c'].
    destruct W as (-> & Ok' & Ext & _). rewrite Hops. cbn [obind].
    exists (set_intls sc c'). split; [reflexivity|]. repeat split; destruct sc; cbn; auto. }
  destruct k as [name | lit]; cbn [variant_key_value key_satisfied].
  - apply Hkw.
  - unfold try_number, fnumber_from_str. destruct (f64_from_str lit) as [a|] eqn:E.
    + cbn [value_matches n_value]. exists sc. split; [|now apply cache_step_refl].
      rewrite fval_eqb_same_number; [reflexivity | eapply parser_digits, E | exact Hd].
    + apply Hkw.
Qed.

(* expression.rs: the first loop *)
Theorem find_variant_number variants : forall sel ops sc,
  fval_digits (n_value sel) = true -> fnumber_operands sel = Done ops -> cache_ok rules (sc_intls sc) ->
  exists sc', find_variant rules f64_from_str variants (VNumber sel) sc =
              Done (first_satisfied rules f64_from_str sel ops variants, sc') /\ cache_step sc sc'.
Proof.
  induction variants as [|[k value d] rest IH]; intros sel ops sc Hd Hops Hok.
  - exists sc. split; [reflexivity | now apply cache_step_refl].
  - cbn [find_variant first_satisfied].
    destruct (value_matches_number k sel ops sc Hd Hops Hok) as (sc1 & E1 & S1). rewrite E1. cbn [obind].
    destruct (key_satisfied rules f64_from_str sel ops k).
    + exists sc1. split; [reflexivity | exact S1].
    + destruct S1 as (Es & Ok1 & Ext1).
      destruct (IH sel ops sc1 Hd Hops Ok1) as (sc2 & E2 & S2). exists sc2. split; [exact E2|].
      eapply cache_step_trans; [|exact S2]. repeat split; assumption.
Qed.

Lemma find_default_spec variants : find_default variants = default_variant variants.
Proof. induction variants as [|[k v d] r IH]; [reflexivity|]. cbn. now rewrite IH. Qed.

End SelectProofs.

(* Expression::write on a select whose selector resolves to a number *)
Section SelectExpression.
Variable overflow_checks : bool.
Variable call_function : bytes -> list fvalue -> fargs -> fvalue.
Variable transform : option (bytes -> bytes).
Variable formatter : option (fvalue -> option bytes).
Variable rules : ntype -> rules_fn.
Variable custom_as_string : bytes -> bytes.
Variable unescape_write : bytes -> bytes.
Variable unescape_to_string : bytes -> bytes.
Variable f64_from_str : bytes -> option fval.
Variable b : bundle.
Variable args : option fargs.
Hypothesis parser_digits : forall s v, f64_from_str s = Some v -> fval_digits v = true.

Notation pw := (pattern_write overflow_checks call_function transform formatter rules custom_as_string
                  unescape_write unescape_to_string f64_from_str b args).
Notation ew := (expression_write overflow_checks call_function transform formatter rules custom_as_string
                  unescape_write unescape_to_string f64_from_str b args).
Notation ir := (inline_resolve overflow_checks call_function transform formatter rules custom_as_string
                  unescape_write unescape_to_string f64_from_str b args).

Theorem select_expression fuel selector variants sc sel sc1 ops :
  ir fuel selector sc = Done (VNumber sel, sc1) ->
  fval_digits (n_value sel) = true -> fnumber_operands sel = Done ops -> cache_ok rules (sc_intls sc1) ->
  exists sc2, cache_step rules sc1 sc2 /\
    ew (S fuel) (Select selector variants) sc =
    match selected rules f64_from_str sel ops variants with
    | Some value => pw fuel None value sc2
    | None => Done ([], add_error sc2 MissingDefault)
    end.
Proof.
  intros Hsel Hd Hops Hok.
  destruct (find_variant_number rules f64_from_str parser_digits variants sel ops sc1 Hd Hops Hok) as (sc2 & E & S).
  exists sc2. split; [exact S|].
  rewrite (ew_S_select overflow_checks call_function transform formatter rules custom_as_string unescape_write
             unescape_to_string f64_from_str b args fuel selector variants sc).
  rewrite Hsel. cbn [obind]. rewrite E. cbn [obind]. unfold selected. rewrite find_default_spec.
  destruct (first_satisfied rules f64_from_str sel ops variants); reflexivity.
Qed.

End SelectExpression.

(* ---------- the exact-decimal float parser returns digits only ---------- *)
Theorem f64_from_str_exact_digits s v : f64_from_str_exact s = Some v -> fval_digits v = true.
Proof.
  unfold f64_from_str_exact. destruct (split_sign s) as [neg body].
  destruct (span_digits body) as [i rest] eqn:Ei. destruct (span_digits_spec _ _ _ Ei) as [Hi _].
  assert (M : forall i f, forallb is_digit i = true -> forallb is_digit f = true -> fval_digits (mk_dec neg i f) = true).
  { intros i0 f0 H1 H2. rewrite mk_dec_eq. cbn [fval_digits]. rewrite canon_int_dig, dtz_dig; auto. }
  destruct rest as [|c rest'].
  - destruct i; [discriminate|]. intros [= <-]. now apply M.
  - rewrite match_byte_46. destruct (N.eqb c 46); [|discriminate].
    destruct (span_digits rest') as [f rest''] eqn:Ef. destruct (span_digits_spec _ _ _ Ef) as [Hf _].
    destruct rest''; [|discriminate]. intros H.
    assert (v = mk_dec neg i f) by (destruct i, f; try discriminate; now injection H as <-). subst. now apply M.
Qed.

(* Bundle/NumberProofs.v — facts about Bundle/Number.v: the plural-operands conversion never
   fails (never reaches the `expect`) on a value in the range of an f64. *)
From FluentV Require Import Base.Bytes Base.BytesFacts Base.Outcome Bundle.Args Bundle.Number.
From Coq Require Import Lia.
Local Open Scope N_scope.

(* Every f64 prints (Display) as NaN, inf, -inf or as digits with an optional fraction; when there
   is a fraction the integer part is below 2^53 and at most 17 significant digits are printed, so
   both parts, read as integers, fit a u64.  This is the range in which the exact-decimal model
   stands for an f64; that every real f64 is in it is a fact about Rust's float printing (trusted). *)
Definition fval_in_f64_range (v : fval) : Prop :=
  match v with
  | FDec _ i f =>
      i <> [] /\ forallb is_digit i = true /\ forallb is_digit f = true /\
      (f = [] \/ (digits_val i <= u64_max /\ digits_val f <= u64_max))
  | _ => True
  end.

Lemma find_byte_digits_app i c r :
  forallb is_digit i = true -> is_digit c = false -> find_byte c (i ++ c :: r) = Some (length i).
Proof.
  induction i as [|b i IH]; cbn [forallb app find_byte length]; intros Hd Hc.
  - now rewrite N.eqb_refl.
  - apply andb_prop in Hd as [Hb Hi].
    destruct (N.eqb b c) eqn:E.
    + apply N.eqb_eq in E. subst. congruence.
    + rewrite IH by assumption. reflexivity.
Qed.

Lemma find_byte_digits_none i c :
  forallb is_digit i = true -> is_digit c = false -> find_byte c i = None.
Proof.
  induction i as [|b i IH]; cbn [forallb find_byte]; intros Hd Hc; [reflexivity|].
  apply andb_prop in Hd as [Hb Hi].
  destruct (N.eqb b c) eqn:E.
  - apply N.eqb_eq in E. subst. congruence.
  - now rewrite IH.
Qed.

Lemma u64_from_str_digits s :
  s <> [] -> forallb is_digit s = true -> digits_val s <= u64_max -> u64_from_str s = Some (digits_val s).
Proof.
  intros Hne Hd Hv. unfold u64_from_str.
  destruct s as [|b r]; [congruence|].
  assert (Hb : N.eqb b 43 = false).
  { cbn [forallb] in Hd. apply andb_prop in Hd as [Hb _]. unfold is_digit in Hb.
    apply andb_prop in Hb as [H1 H2]. apply N.leb_le in H1. apply N.eqb_neq. lia. }
  assert (E : forall X (x y : X), match b with 43 => x | _ => y end = y).
  { intros. destruct b as [|p]; [reflexivity|].
    do 6 (destruct p as [p|p|]; try reflexivity). vm_compute in Hb. discriminate. }
  cbv beta zeta iota. rewrite !E. rewrite Hd. apply N.leb_le in Hv. now rewrite Hv.
Qed.

Lemma firstn_app_len {A} (a b : list A) : firstn (length a) (a ++ b) = a.
Proof. induction a; cbn; [now destruct b | now f_equal]. Qed.
Lemma skipn_app_len1 {A} (a : list A) x b : skipn (length a + 1) (a ++ x :: b) = b.
Proof. induction a; cbn; auto. Qed.

Lemma operands_try_from_f64_total v :
  fval_in_f64_range v -> operands_try_from_f64 v <> None.
Proof.
  destruct v as [| neg | neg i f]; cbn [fval_in_f64_range].
  - intros _. vm_compute. discriminate.
  - intros _. destruct neg; vm_compute; discriminate.
  - intros (Hne & Hi & Hf & Hfit).
    unfold operands_try_from_f64. cbn [fval_to_string].
    set (abs_str := i ++ match f with [] => [] | _ :: _ => 46 :: f end).
    fold abs_str.
    match goal with |- context [find_byte 46 ?t] => assert (Habs : t = abs_str) end.
    { destruct neg; cbn [app]; [reflexivity|].
      subst abs_str. destruct i as [|b r]; [congruence|]. cbn [app].
      cbn [forallb] in Hi. apply andb_prop in Hi as [Hb _]. unfold is_digit in Hb.
      apply andb_prop in Hb as [H1 H2]. apply N.leb_le in H1.
      destruct b as [|p]; [reflexivity|]. do 6 (destruct p as [p|p|]; try reflexivity). all: cbn in H1; lia. }
    rewrite Habs. clear Habs. subst abs_str.
    destruct f as [|c f'].
    + rewrite app_nil_r. rewrite find_byte_digits_none by (assumption || reflexivity). discriminate.
    + destruct Hfit as [Hnil | [Hvi Hvf]]; [discriminate|].
      rewrite find_byte_digits_app by (assumption || reflexivity).
      rewrite firstn_app_len, skipn_app_len1.
      rewrite (u64_from_str_digits i) by assumption.
      rewrite (u64_from_str_digits (c :: f')) by (assumption || discriminate).
      discriminate.
Qed.

Lemma fnumber_operands_total n :
  fval_in_f64_range (n_value n) -> exists ops, fnumber_operands n = Done ops.
Proof.
  intros H. unfold fnumber_operands.
  destruct (operands_try_from_f64 (n_value n)) as [ops|] eqn:E.
  2:{ exfalso. eapply operands_try_from_f64_total; eassumption. }
  destruct (o_minimum_fraction_digits (n_options n)) as [mfd|]; [|eauto].
  destruct (N.ltb (op_v ops) mfd); eauto.
Qed.

(* the model's own float parser only produces values in that range when the literal is within it;
   in particular for every literal with at most 19 integer and 19 fraction digits *)
Lemma NUMBER_value positional named n :
  NUMBER positional named = VNumber n ->
  exists m rest, positional = VNumber m :: rest /\ n_value n = n_value m.
Proof.
  unfold NUMBER. destruct positional as [|[s|m|c| |] rest]; try discriminate.
  intros H. injection H as <-. eauto.
Qed.

(* ---------- the model's own float parser stays in the f64 range for literals of at most 19 bytes ---------- *)
Lemma is_digit_bounds c : is_digit c = true -> 48 <= c <= 57.
Proof. unfold is_digit. intros H. apply andb_prop in H as [H1 H2]. apply N.leb_le in H1, H2. lia. Qed.

Lemma fold_digits_lt s : forall acc,
  forallb is_digit s = true ->
  fold_left (fun a c => a * 10 + (c - 48)) s acc < (acc + 1) * 10 ^ N.of_nat (length s).
Proof.
  induction s as [|c r IH]; intros acc Hd; cbn [fold_left length forallb] in *.
  - change (N.of_nat 0) with 0. rewrite N.pow_0_r. lia.
  - apply andb_prop in Hd as [Hc Hr]. apply is_digit_bounds in Hc.
    specialize (IH (acc * 10 + (c - 48)) Hr).
    rewrite Nat2N.inj_succ, N.pow_succ_r'.
    assert (acc * 10 + (c - 48) + 1 <= (acc + 1) * 10) by lia.
    assert ((acc * 10 + (c - 48) + 1) * 10 ^ N.of_nat (length r) <= (acc + 1) * 10 * 10 ^ N.of_nat (length r))
      by (apply N.mul_le_mono_r; assumption).
    lia.
Qed.

Lemma digits_val_lt s : forallb is_digit s = true -> digits_val s < 10 ^ N.of_nat (length s).
Proof. intros H. pose proof (fold_digits_lt s 0 H) as H'. unfold digits_val. lia. Qed.

Lemma digits_val_u64 s : forallb is_digit s = true -> (length s <= 19)%nat -> digits_val s <= u64_max.
Proof.
  intros Hd Hl. pose proof (digits_val_lt s Hd) as H.
  assert (10 ^ N.of_nat (length s) <= 10 ^ 19) by (apply N.pow_le_mono_r; lia).
  assert (10 ^ 19 <= u64_max) by (vm_compute; discriminate). lia.
Qed.

Lemma strip_leading_zeros_digits s : forallb is_digit s = true -> forallb is_digit (strip_leading_zeros s) = true.
Proof.
  induction s as [|c r IH]; [reflexivity|]. intros H. cbn [forallb] in H. apply andb_prop in H as [Hc Hr].
  cbn [strip_leading_zeros]. destruct c as [|p]; [cbn [forallb]; now rewrite Hc, Hr|].
  do 6 (destruct p as [p|p|]; try (cbn [forallb]; now rewrite Hc, Hr)). apply IH, Hr.
Qed.

Lemma strip_leading_zeros_length s : (length (strip_leading_zeros s) <= length s)%nat.
Proof.
  induction s as [|c r IH]; [reflexivity|]. cbn [strip_leading_zeros].
  destruct c as [|p]; [reflexivity|]. do 6 (destruct p as [p|p|]; try reflexivity). cbn [length]. lia.
Qed.

Lemma forallb_rev {A} (f : A -> bool) l : forallb f (rev l) = forallb f l.
Proof.
  induction l as [|x r IH]; [reflexivity|]. cbn [rev forallb]. rewrite forallb_app, IH. cbn. rewrite Bool.andb_true_r. apply Bool.andb_comm.
Qed.

Lemma trim_end_zeros_digits s : forallb is_digit s = true -> forallb is_digit (trim_end_zeros s) = true.
Proof. intros H. unfold trim_end_zeros. rewrite forallb_rev. apply strip_leading_zeros_digits. now rewrite forallb_rev. Qed.

Lemma trim_end_zeros_length s : (length (trim_end_zeros s) <= length s)%nat.
Proof. unfold trim_end_zeros. rewrite rev_length. etransitivity; [apply strip_leading_zeros_length|]. now rewrite rev_length. Qed.

Lemma span_digits_spec s : forall d rest, span_digits s = (d, rest) -> forallb is_digit d = true /\ s = d ++ rest.
Proof.
  induction s as [|c r IH]; intros d rest; cbn [span_digits].
  - intros [= <- <-]. split; reflexivity.
  - destruct (is_digit c) eqn:Ec.
    + destruct (span_digits r) as [d' rest'] eqn:E. intros [= <- <-].
      destruct (IH _ _ eq_refl) as [Hd Hs]. split; [cbn [forallb]; now rewrite Ec, Hd | cbn; now rewrite <- Hs].
    + intros [= <- <-]. split; reflexivity.
Qed.

Lemma mk_dec_in_range neg i f :
  forallb is_digit i = true -> forallb is_digit f = true -> (length i <= 19)%nat -> (length f <= 19)%nat ->
  fval_in_f64_range (mk_dec neg i f).
Proof.
  intros Hi Hf Li Lf. unfold mk_dec. cbn [fval_in_f64_range].
  pose proof (strip_leading_zeros_digits i Hi) as Hi'. pose proof (strip_leading_zeros_length i) as Li'.
  pose proof (trim_end_zeros_digits f Hf) as Hf'. pose proof (trim_end_zeros_length f) as Lf'.
  destruct (strip_leading_zeros i) as [|c r] eqn:E.
  - split; [discriminate|]. split; [reflexivity|]. split; [exact Hf'|]. right. split; [vm_compute; discriminate|].
    apply digits_val_u64; [exact Hf' | lia].
  - split; [discriminate|]. split; [exact Hi'|]. split; [exact Hf'|]. right. split; apply digits_val_u64; auto; lia.
Qed.

Theorem f64_from_str_exact_in_range s v :
  f64_from_str_exact s = Some v -> (length s <= 19)%nat -> fval_in_f64_range v.
Proof.
  unfold f64_from_str_exact. intros H Hl.
  destruct (split_sign s) as [neg body] eqn:Es.
  assert (Hb : (length body <= length s)%nat).
  { unfold split_sign in Es. destruct s as [|c r]; [injection Es as <- <-; reflexivity|].
    destruct c as [|p]; [injection Es as <- <-; reflexivity|].
    do 6 (destruct p as [p|p|]; try (injection Es as <- <-; cbn [length]; lia)). }
  destruct (span_digits body) as [i rest] eqn:Ei.
  destruct (span_digits_spec _ _ _ Ei) as [Hi Hbody].
  assert (Li : (length i + length rest = length body)%nat) by (rewrite Hbody, app_length; reflexivity).
  destruct rest as [|c rest'].
  - destruct i; [discriminate|]. injection H as <-. apply mk_dec_in_range; [exact Hi | reflexivity | lia | cbn; lia].
  - destruct c as [|p]; [discriminate|].
    do 6 (destruct p as [p|p|]; try discriminate).
    destruct (span_digits rest') as [f rest''] eqn:Ef.
    destruct (span_digits_spec _ _ _ Ef) as [Hf Hrest].
    assert (Lf : (length f <= length rest')%nat) by (rewrite Hrest, app_length; lia).
    cbn [length] in Li.
    destruct rest''; [|discriminate].
    assert (Hv : v = mk_dec neg i f) by (destruct i, f; try discriminate; injection H as <-; reflexivity).
    subst v. apply mk_dec_in_range; [exact Hi | exact Hf | lia | lia].
Qed.

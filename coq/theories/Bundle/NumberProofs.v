(* Bundle/NumberProofs.v — facts about Bundle/Number.v: the plural-operands conversion never
   fails (never reaches the `expect`) on a value in the range of an f64. *)
From FluentV Require Import Base.Bytes Base.BytesFacts Base.Outcome Bundle.Args Bundle.Number.
From Coq Require Import Lia.
Local Open Scope N_scope.

(* Every f64 prints (Display) as NaN, inf, -inf or as digits with an optional fraction; when there
   is a fraction the integer part is below 2^53 and at most 17 significant digits are printed, so
   both parts, read as integers, fit a u64.  This is the range in which the exact-decimal model
   stands for an f64; that every real f64 is in it is a fact about Rust's float printing (trusted). *)
Definition fval_in_f64_range (v : fval) : Prop :=
  match v with
  | FDec _ i f =>
      i <> [] /\ forallb is_digit i = true /\ forallb is_digit f = true /\
      (f = [] \/ (digits_val i <= u64_max /\ digits_val f <= u64_max))
  | _ => True
  end.

Lemma find_byte_digits_app i c r :
  forallb is_digit i = true -> is_digit c = false -> find_byte c (i ++ c :: r) = Some (length i).
Proof.
  induction i as [|b i IH]; cbn [forallb app find_byte length]; intros Hd Hc.
  - now rewrite N.eqb_refl.
  - apply andb_prop in Hd as [Hb Hi].
    destruct (N.eqb b c) eqn:E.
    + apply N.eqb_eq in E. subst. congruence.
    + rewrite IH by assumption. reflexivity.
Qed.

Lemma find_byte_digits_none i c :
  forallb is_digit i = true -> is_digit c = false -> find_byte c i = None.
Proof.
  induction i as [|b i IH]; cbn [forallb find_byte]; intros Hd Hc; [reflexivity|].
  apply andb_prop in Hd as [Hb Hi].
  destruct (N.eqb b c) eqn:E.
  - apply N.eqb_eq in E. subst. congruence.
  - now rewrite IH.
Qed.

Lemma u64_from_str_digits s :
  s <> [] -> forallb is_digit s = true -> digits_val s <= u64_max -> u64_from_str s = Some (digits_val s).
Proof.
  intros Hne Hd Hv. unfold u64_from_str.
  destruct s as [|b r]; [congruence|].
  assert (Hb : N.eqb b 43 = false).
  { cbn [forallb] in Hd. apply andb_prop in Hd as [Hb _]. unfold is_digit in Hb.
    apply andb_prop in Hb as [H1 H2]. apply N.leb_le in H1. apply N.eqb_neq. lia. }
  assert (E : forall X (x y : X), match b with 43 => x | _ => y end = y).
  { intros. destruct b as [|p]; [reflexivity|].
    do 6 (destruct p as [p|p|]; try reflexivity). vm_compute in Hb. discriminate. }
  cbv beta zeta iota. rewrite !E. rewrite Hd. apply N.leb_le in Hv. now rewrite Hv.
Qed.

Lemma firstn_app_len {A} (a b : list A) : firstn (length a) (a ++ b) = a.
Proof. induction a; cbn; [now destruct b | now f_equal]. Qed.
Lemma skipn_app_len1 {A} (a : list A) x b : skipn (length a + 1) (a ++ x :: b) = b.
Proof. induction a; cbn; auto. Qed.

Lemma operands_try_from_f64_total v :
  fval_in_f64_range v -> operands_try_from_f64 v <> None.
Proof.
  destruct v as [| neg | neg i f]; cbn [fval_in_f64_range].
  - intros _. vm_compute. discriminate.
  - intros _. destruct neg; vm_compute; discriminate.
  - intros (Hne & Hi & Hf & Hfit).
    unfold operands_try_from_f64. cbn [fval_to_string].
    set (abs_str := i ++ match f with [] => [] | _ :: _ => 46 :: f end).
    fold abs_str.
    match goal with |- context [find_byte 46 ?t] => assert (Habs : t = abs_str) end.
    { destruct neg; cbn [app]; [reflexivity|].
      subst abs_str. destruct i as [|b r]; [congruence|]. cbn [app].
      cbn [forallb] in Hi. apply andb_prop in Hi as [Hb _]. unfold is_digit in Hb.
      apply andb_prop in Hb as [H1 H2]. apply N.leb_le in H1.
      destruct b as [|p]; [reflexivity|]. do 6 (destruct p as [p|p|]; try reflexivity). all: cbn in H1; lia. }
    rewrite Habs. clear Habs. subst abs_str.
    destruct f as [|c f'].
    + rewrite app_nil_r. rewrite find_byte_digits_none by (assumption || reflexivity). discriminate.
    + destruct Hfit as [Hnil | [Hvi Hvf]]; [discriminate|].
      rewrite find_byte_digits_app by (assumption || reflexivity).
      rewrite firstn_app_len, skipn_app_len1.
      rewrite (u64_from_str_digits i) by assumption.
      rewrite (u64_from_str_digits (c :: f')) by (assumption || discriminate).
      discriminate.
Qed.

Lemma fnumber_operands_total n :
  fval_in_f64_range (n_value n) -> exists ops, fnumber_operands n = Done ops.
Proof.
  intros H. unfold fnumber_operands.
  destruct (operands_try_from_f64 (n_value n)) as [ops|] eqn:E.
  2:{ exfalso. eapply operands_try_from_f64_total; eassumption. }
  destruct (o_minimum_fraction_digits (n_options n)) as [mfd|]; [|eauto].
  destruct (N.ltb (op_v ops) mfd); eauto.
Qed.

(* the model's own float parser only produces values in that range when the literal is within it;
   in particular for every literal with at most 19 integer and 19 fraction digits *)
Lemma NUMBER_value positional named n :
  NUMBER positional named = VNumber n ->
  exists m rest, positional = VNumber m :: rest /\ n_value n = n_value m.
Proof.
  unfold NUMBER. destruct positional as [|[s|m|c| |] rest]; try discriminate.
  intros H. injection H as <-. eauto.
Qed.

(* Bundle/ConcurrentBundle.v — model of a FluentBundle<R, concurrent::IntlLangMemoizer>
   (fluent-bundle/src/concurrent.rs) shared by reference between threads that call format_pattern.
   Definitions only.

   GRANULARITY.  A format_pattern call touches state shared with other threads in exactly one
   way: FluentValue::matches (types/mod.rs) calls
       scope.bundle.intls.with_try_get_threadsafe::<PluralRules,_,_>((type,), |pr| pr.0.select(b) == Ok(cat)).unwrap()
   which (concurrent.rs MemoizerKind impl) forwards to intl_memoizer::concurrent::IntlLangMemoizer::
   with_try_get: the MutexGuard is taken first and dropped last, so lookup, construct, insert and the
   callback are ONE critical section (Memo/Concurrent.v, C14).  Everything else a call reads — the
   entries, the transform, the formatter, the caller's arguments — is immutable while the bundle is
   shared (`&FluentBundle`), and everything it writes — Scope, the error vector, the output — is
   private to the call.  The model therefore takes
       one with_try_get_threadsafe call = ONE atomic step on the shared memoizer,
   and everything a call does between two such steps as private, schedule-invisible computation.
   This granularity is read off the code (as in C14); it is not a theorem.  See PARTIAL in props/C15.py.

   HOW.  The resolver of Bundle/ResolverModel.v threads the memoizer through the call (`sc_intls`),
   which fixes WHEN the call sees it.  Here the same resolver is written once more, function by function
   and branch by branch, as a PROCESS: a tree whose leaves are results and whose inner nodes are the
   with_try_get_threadsafe calls (`PAsk`), each carrying the data of the call (rule type, the number
   handed to the callback, the plural category compared with) and the continuation that receives the
   callback's boolean.  The process does not contain the memoizer; whoever runs it supplies the
   answers.  ConcurrentBundleProofs.v shows that running it against the sequential table of
   ResolverModel.v gives back exactly ResolverModel.format_pattern (`format_pattern_p_eq`), so the
   process is the same resolver; the concurrent semantics below runs several of them against ONE
   memoizer of Memo/Memoizer.v (the C14 model of IntlLangMemoizer::with_try_get), one PAsk node per
   scheduled step.

   The memoizer state also carries the mutex's poison flag: a panic inside the callback (the
   `expect` of From<&FluentNumber> for PluralOperands runs inside `pr.0.select(b)`, i.e. under the
   guard) poisons the mutex and every later `lock().unwrap()` panics.  C06_operands_total shows that
   this `expect` is unreachable for f64 values, which is how the theorems exclude it.

   Outside the model (as in C14): interleavings inside a critical section, a user callback (custom
   FluentType::as_string_threadsafe, value formatter, registered function) that itself calls into the
   bundle's memoizer or panics.  Such callbacks are pure total Section variables here.            *)
From FluentV Require Export Base.Bytes Base.Outcome Base.Utf8 Syntax.Ast Bundle.Args Bundle.Number
  Bundle.ResolverAst Bundle.ResolverModel.
From FluentV Require Memo.Memoizer.
From FluentV Require Import Gen.Extracted.

Local Open Scope N_scope.

(* ---------- processes ---------- *)
(* PAsk ty num cat k  =  `intls.with_try_get_threadsafe::<PluralRules,_,_>((ty,), |pr| pr.0.select(&num) == Ok(cat))`
   followed by `k` applied to the boolean it returned *)
Inductive proc (X : Type) : Type :=
| PRet (r : outcome X)
| PAsk (ty : ntype) (num : fnumber) (cat : pcat) (k : bool -> proc X).
Arguments PRet {X} r.
Arguments PAsk {X} ty num cat k.

(* sequencing: `?`-free Rust code after a call that may have panicked does not run *)
Fixpoint pbind {X Y} (m : proc X) (k : X -> proc Y) : proc Y :=
  match m with
  | PRet (Done x) => k x
  | PRet (Panic t) => PRet (Panic t)
  | PRet OutOfFuel => PRet OutOfFuel
  | PAsk ty num cat k' => PAsk ty num cat (fun r => pbind (k' r) k)
  end.

Notation "'let+' x ':=' o 'in' k" := (pbind o (fun x => k))
  (at level 200, x pattern, o at level 100, k at level 200, right associativity).

(* a step that does not touch the memoizer *)
Definition plift {X} (o : outcome X) : proc X := PRet o.

(* which MemoizerKind the bundle was built with: bundle.rs (RefCell memoizer) / concurrent.rs (Mutex memoizer) *)
Inductive flavour := Single | Concurrent.

Section ResolverP.
Variable overflow_checks : bool.                                   (* debug build *)
Variable call_function : bytes -> list fvalue -> fargs -> fvalue.   (* registered FluentFunction, by name *)
Variable transform : option (bytes -> bytes).                       (* bundle.transform *)
Variable formatter : option (fvalue -> option bytes).               (* bundle.formatter *)
Variable as_string : bytes -> bytes.                                (* FluentType::as_string *)
Variable as_string_threadsafe : bytes -> bytes.                     (* FluentType::as_string_threadsafe *)
Variable unescape_write : bytes -> bytes.                           (* unicode.rs unescape_unicode *)
Variable unescape_to_string : bytes -> bytes.                       (* unicode.rs unescape_unicode_to_string *)
Variable f64_from_str : bytes -> option fval.                       (* std: <f64 as FromStr>::from_str *)
Variable fl : flavour.                                              (* M: MemoizerKind *)
Variable b : bundle.                                                (* scope.bundle *)
Variable args : option fargs.                                       (* scope.args *)

(* bundle.rs / concurrent.rs MemoizerKind::stringify_value *)
Definition stringify_value (payload : bytes) : bytes :=
  match fl with
  | Single => as_string payload
  | Concurrent => as_string_threadsafe payload
  end.

(* types/mod.rs FluentValue::matches   (self = the variant key, other = the selector) *)
Definition value_matches_p (self other : fvalue) (sc : scope) : proc (bool * scope) :=
  match self, other with
  | VString a, VString b' => PRet (Done (bytes_eqb a b', sc))
  | VNumber a, VNumber b' => PRet (Done (fval_eqb (n_value a) (n_value b'), sc))
  | VString a, VNumber b' =>
      match plural_keyword a with
      | None => PRet (Done (false, sc))
      | Some cat => PAsk (o_type (n_options b')) b' cat (fun r => PRet (Done (r, sc)))
      end
  | _, _ => PRet (Done (false, sc))
  end.

(* expression.rs: first `for variant in variants { if key.matches(&selector, scope) { return … } }` *)
Fixpoint find_variant_p (variants : list variant) (selector : fvalue) (sc : scope)
  : proc (option pattern * scope) :=
  match variants with
  | [] => PRet (Done (None, sc))
  | Variant key value _ :: rest =>
      let+ (m, sc) := value_matches_p (variant_key_value f64_from_str key) selector sc in
      if m then PRet (Done (Some value, sc)) else find_variant_p rest selector sc
  end.

(* pattern.rs Pattern::write : the `for elem in &self.elements` loop *)
Definition pattern_loop_p (mt : expression -> scope -> proc (list otoken * scope)) (len : nat)
  : list pattern_element -> scope -> proc (list otoken * scope) :=
  fix loop (els : list pattern_element) (sc : scope) {struct els} : proc (list otoken * scope) :=
    match els with
    | [] => PRet (Done ([], sc))
    | elem :: rest =>
        if sc_dirty sc then PRet (Done ([], sc))
        else
          match elem with
          | TextElement value =>
              let+ (o, sc) := loop rest sc in
              PRet (Done (Txt (apply_transform transform value) :: o, sc))
          | PlaceableElement expression =>
              let+ n := plift (u8_add1 overflow_checks (sc_placeables sc)) in
              let sc := set_placeables sc n in
              if N.ltb MAX_PLACEABLES (sc_placeables sc)
              then PRet (Done ([], add_error (set_dirty sc true) TooManyPlaceables))
              else
                let needs_isolation :=
                  b_use_isolating b && Nat.ltb 1 len && negb (isolation_exempt expression) in
                let+ (o1, sc) := mt expression sc in
                let+ (o2, sc) := loop rest sc in
                PRet (Done ((if needs_isolation then [TFSI] else []) ++ o1 ++
                            (if needs_isolation then [TPDI] else []) ++ o2, sc))
          end
    end.

(* scope.rs get_arguments: positional *)
Definition resolve_list_p (rs : inline -> scope -> proc (fvalue * scope))
  : list inline -> scope -> proc (list fvalue * scope) :=
  fix go (l : list inline) (sc : scope) {struct l} : proc (list fvalue * scope) :=
    match l with
    | [] => PRet (Done ([], sc))
    | x :: r =>
        let+ (v, sc) := rs x sc in
        let+ (vs, sc) := go r sc in
        PRet (Done (v :: vs, sc))
    end.

(* scope.rs get_arguments: named *)
Definition resolve_named_p (rs : inline -> scope -> proc (fvalue * scope))
  : list named_arg -> scope -> proc (list (bytes * fvalue) * scope) :=
  fix go (l : list named_arg) (sc : scope) {struct l} : proc (list (bytes * fvalue) * scope) :=
    match l with
    | [] => PRet (Done ([], sc))
    | NamedArgument name value :: r =>
        let+ (v, sc) := rs value sc in
        let+ (vs, sc) := go r sc in
        PRet (Done ((name, v) :: vs, sc))
    end.

Fixpoint pattern_write_p (fuel : nat) (k : option pkey) (p : pattern) (sc : scope) {struct fuel} : proc (list otoken * scope) :=
  (* pattern.rs Pattern::write *)
  match fuel with
  | O => PRet OutOfFuel
  | S f => pattern_loop_p (maybe_track_p f k p) (length (pattern_elements p)) (pattern_elements p) sc
  end

with pattern_resolve_p (fuel : nat) (k : option pkey) (p : pattern) (sc : scope) {struct fuel} : proc (fvalue * scope) :=
  (* pattern.rs Pattern::resolve *)
  match fuel with
  | O => PRet OutOfFuel
  | S f =>
      match pattern_elements p with
      | [TextElement value] => PRet (Done (VString (apply_transform transform value), sc))
      | _ =>
          let+ (o, sc) := pattern_write_p f k p sc in
          PRet (Done (VString (flatten o), sc))
      end
  end

with expression_write_p (fuel : nat) (e : expression) (sc : scope) {struct fuel} : proc (list otoken * scope) :=
  (* expression.rs Expression::write *)
  match fuel with
  | O => PRet OutOfFuel
  | S f =>
      match e with
      | Inline exp => inline_write_p f exp sc
      | Select selector variants =>
          let+ (sel, sc) := inline_resolve_p f selector sc in
          let+ (hit, sc) :=
            match sel with
            | VString _ | VNumber _ => find_variant_p variants sel sc
            | _ => PRet (Done (None, sc))
            end in
          match hit with
          | Some value => pattern_write_p f None value sc
          | None =>
              match find_default variants with
              | Some value => pattern_write_p f None value sc
              | None => PRet (Done ([], add_error sc MissingDefault))
              end
          end
      end
  end

with inline_write_p (fuel : nat) (i : inline) (sc : scope) {struct fuel} : proc (list otoken * scope) :=
  (* inline_expression.rs InlineExpression::write *)
  match fuel with
  | O => PRet OutOfFuel
  | S f =>
      match i with
      | StringLiteral value => PRet (Done ([Txt (unescape_write value)], sc))
      | MessageReference id attribute =>
          match get_entry_message b id with
          | Some (value, attributes) =>
              match attribute with
              | Some attr =>
                  match find_attribute attributes attr with
                  | Some v => track_p f (PKey false id (Some attr)) v i sc
                  | None => plift (write_ref_error i sc)
                  end
              | None =>
                  match value with
                  | Some v => track_p f (PKey false id None) v i sc
                  | None => PRet (Done (braced (inline_write_error i), add_error sc (NoValue id)))
                  end
              end
          | None => plift (write_ref_error i sc)
          end
      | NumberLiteral value =>
          PRet (Done ([Txt (value_write formatter stringify_value (try_number f64_from_str value))], sc))
      | TermReference id attribute arguments =>
          let+ (_, resolved_named_args, sc) := get_arguments_p f arguments sc in
          let previous_args := sc_local_args sc in
          let sc := set_local_args sc (Some resolved_named_args) in
          let+ (o, sc) :=
            match get_entry_term b id with
            | Some (value, attributes) =>
                match attribute with
                | Some attr =>
                    match find_attribute attributes attr with
                    | Some v => track_p f (PKey true id (Some attr)) v i sc
                    | None => plift (write_ref_error i sc)
                    end
                | None => track_p f (PKey true id None) value i sc
                end
            | None => plift (write_ref_error i sc)
            end in
          PRet (Done (o, set_local_args sc previous_args))
      | FunctionReference id arguments =>
          let+ (resolved_positional_args, resolved_named_args, sc) := get_arguments_p f (Some arguments) sc in
          match get_entry_function b id with
          | Some func =>
              let result := call_entry call_function func resolved_positional_args resolved_named_args in
              let sc := log_call sc (Call id resolved_positional_args resolved_named_args) in
              match result with
              | VError => PRet (Done ([Txt (inline_write_error i)], sc))
              | _ => PRet (Done ([Txt (value_into_string formatter stringify_value result)], sc))
              end
          | None => plift (write_ref_error i sc)
          end
      | VariableReference id =>
          let a := match sc_local_args sc with Some la => Some la | None => args end in
          let found :=
            match a with
            | Some a' => match Args.get fvalue a' id with Done r => r | _ => None end
            | None => None
            end in
          match found with
          | Some arg => PRet (Done ([Txt (value_write formatter stringify_value arg)], sc))
          | None =>
              let+ sc :=
                plift (match sc_local_args sc with
                       | None => let* k := reference_kind_of i in Done (add_error sc (Reference k))
                       | Some _ => Done sc
                       end) in
              PRet (Done (braced (inline_write_error i), sc))
          end
      | Placeable expression => expression_write_p f expression sc
      end
  end

with inline_resolve_p (fuel : nat) (i : inline) (sc : scope) {struct fuel} : proc (fvalue * scope) :=
  (* inline_expression.rs InlineExpression::resolve *)
  match fuel with
  | O => PRet OutOfFuel
  | S f =>
      match i with
      | StringLiteral value => PRet (Done (VString (unescape_to_string value), sc))
      | NumberLiteral value => PRet (Done (try_number f64_from_str value, sc))
      | VariableReference id =>
          let found :=
            match sc_local_args sc with
            | Some la => match Args.get fvalue la id with Done r => r | _ => None end
            | None =>
                match args with
                | Some a' => match Args.get fvalue a' id with Done r => r | _ => None end
                | None => None
                end
            end in
          match found with
          | Some arg => PRet (Done (arg, sc))
          | None =>
              let+ sc :=
                plift (match sc_local_args sc with
                       | None => let* k := reference_kind_of i in Done (add_error sc (Reference k))
                       | Some _ => Done sc
                       end) in
              PRet (Done (VError, sc))
          end
      | FunctionReference id arguments =>
          let+ (resolved_positional_args, resolved_named_args, sc) := get_arguments_p f (Some arguments) sc in
          match get_entry_function b id with
          | Some func =>
              let result := call_entry call_function func resolved_positional_args resolved_named_args in
              PRet (Done (result, log_call sc (Call id resolved_positional_args resolved_named_args)))
          | None =>
              let+ k := plift (reference_kind_of i) in
              PRet (Done (VError, add_error sc (Reference k)))
          end
      | _ =>
          let+ (o, sc) := inline_write_p f i sc in
          PRet (Done (VString (flatten o), sc))
      end
  end

with maybe_track_p (fuel : nat) (k : option pkey) (p : pattern) (e : expression) (sc : scope) {struct fuel} : proc (list otoken * scope) :=
  (* scope.rs Scope::maybe_track *)
  match fuel with
  | O => PRet OutOfFuel
  | S f =>
      let sc := match sc_travelled sc with [] => set_travelled sc [k] | _ => sc end in
      let+ (o, sc) := expression_write_p f e sc in
      if sc_dirty sc then PRet (Done (o ++ braced (expression_write_error e), sc))
      else PRet (Done (o, sc))
  end

with track_p (fuel : nat) (k : pkey) (p : pattern) (exp : inline) (sc : scope) {struct fuel} : proc (list otoken * scope) :=
  (* scope.rs Scope::track *)
  match fuel with
  | O => PRet OutOfFuel
  | S f =>
      if key_mem k (sc_travelled sc)
      then PRet (Done (braced (inline_write_error exp), add_error sc Cyclic))
      else
        let sc := set_travelled sc (Some k :: sc_travelled sc) in
        let+ (o, sc) := pattern_write_p f (Some k) p sc in
        PRet (Done (o, set_travelled sc (tl (sc_travelled sc))))
  end

with get_arguments_p (fuel : nat) (arguments : option call_args) (sc : scope) {struct fuel}
  : proc (list fvalue * fargs * scope) :=
  (* scope.rs Scope::get_arguments *)
  match fuel with
  | O => PRet OutOfFuel
  | S f =>
      match arguments with
      | Some (CallArguments positional named) =>
          let+ (pos, sc) := resolve_list_p (inline_resolve_p f) positional sc in
          let+ (nam, sc) := resolve_named_p (inline_resolve_p f) named sc in
          let+ named_args := plift (Args.from_iter fvalue nam) in
          PRet (Done (pos, named_args, sc))
      | None => PRet (Done ([], Args.new fvalue, sc))
      end
  end.

(* bundle.rs FluentBundle::format_pattern, as a process.  The Scope starts without a memoizer of its
   own (`sc_intls` stays [] throughout: the memoizer is the bundle's, reached through PAsk). *)
Definition format_pattern_p (fuel : nat) (top : option pkey) (pattern : pattern) : proc (bytes * scope) :=
  let+ (value, sc) := pattern_resolve_p (S fuel) top pattern (scope_new []) in
  (* match pattern.resolve(..) { FluentValue::String(text) => text, value => value.into_string(&scope) } *)
  PRet (Done (match value with VString text => text | _ => value_into_string formatter stringify_value value end, sc)).

End ResolverP.

(* ================================================================================================
   the shared memoizer and the threads
   ================================================================================================ *)

(* the memoizer key of PluralRules: TypeId of types/plural.rs PluralRules, Args = (PluralRuleType,) *)
Definition PLURAL_RULES : Memoizer.type_id := 0%nat.
Definition args_of (ty : ntype) : Memoizer.args :=
  match ty with Cardinal => [0] | Ordinal => [1] end.
Definition ntype_of_args (a : Memoizer.args) : ntype :=
  match a with [1] => Ordinal | _ => Cardinal end.

(* a format_pattern request: the pattern (obtained from the shared bundle with get_message: `fr_top` is its identity as a
   pattern object of the bundle, see ResolverModel.v pkey; None for a pattern that is not one of the bundle's) and the caller's
   arguments *)
Record frequest := FReq { fr_args : option fargs; fr_top : option pkey; fr_pattern : pattern }.

Section Threads.
Variable overflow_checks : bool.
Variable call_function : bytes -> list fvalue -> fargs -> fvalue.
Variable transform : option (bytes -> bytes).
Variable formatter : option (fvalue -> option bytes).
Variable as_string : bytes -> bytes.
Variable as_string_threadsafe : bytes -> bytes.
Variable unescape_write : bytes -> bytes.
Variable unescape_to_string : bytes -> bytes.
Variable f64_from_str : bytes -> option fval.
Variable cerr : Type.                                               (* <PluralRules as Memoizable>::Error = &'static str *)
Variable plural_construct : Memoizer.lang -> ntype -> Memoizer.result rules_fn cerr.
                                                                    (* types/plural.rs <PluralRules as Memoizable>::construct *)
Variable b : bundle.                                                (* the shared bundle (immutable part) *)
Variable lang : Memoizer.lang.                                      (* locales.first(): what new_concurrent gives IntlLangMemoizer::new *)

(* Memoizable::construct as the C14 model wants it (the call counter is not used: construct is a function) *)
Definition pr_construct (l : Memoizer.lang) (t : Memoizer.type_id) (a : Memoizer.args) (n : nat)
  : Memoizer.result rules_fn cerr := plural_construct l (ntype_of_args a).

(* the closure `|pr| pr.0.select(b) == Ok(cat)`; select converts the number first
   (number.rs From<&FluentNumber> for PluralOperands, with its `expect`) *)
Definition select_callback (num : fnumber) (cat : pcat) (pr : rules_fn) : outcome bool :=
  let* ops := fnumber_operands num in
  Done (pcat_eqb (pr ops) cat).

(* what is behind `bundle.intls`: Mutex<TypeMap> (Memo/Memoizer.v lmemo) + the mutex's poison flag;
   counter and trace are the ghost construct log of C14 *)
Record bmemo := BMemo {
  m_lm : Memoizer.lmemo rules_fn;
  m_counter : nat;
  m_trace : list Memoizer.cevent;          (* newest first *)
  m_poisoned : bool }.

(* concurrent.rs IntlLangMemoizer::new *)
Definition bmemo_new : bmemo := BMemo (Memoizer.lm_new rules_fn lang) 0 [] false.

(* ONE ATOMIC STEP: types/mod.rs matches -> concurrent.rs with_try_get_threadsafe -> intl-memoizer concurrent.rs with_try_get,
   then `.unwrap()` of its Result.
     let mut map = self.map.lock().unwrap();        poisoned => panic, nothing changes
     ... lookup / construct? / insert ... Ok(cb(e))  = Memoizer.with_try_get (C14), callback under the guard;
                                                     a panicking callback unwinds through the guard: poisoned
     .unwrap()                                       construct failed => panic (guard already dropped) *)
Definition memo_step (m : bmemo) (ty : ntype) (num : fnumber) (cat : pcat) : bmemo * outcome bool :=
  if m_poisoned m then (m, Panic "PoisonError")
  else
    let '(lm', n', r, evs) :=
      Memoizer.with_try_get rules_fn cerr (outcome bool) pr_construct (fun _ => select_callback num cat)
        (m_lm m) (m_counter m) PLURAL_RULES (args_of ty) 0%nat in
    match r with
    | Memoizer.Ok (Done r') => (BMemo lm' n' (evs ++ m_trace m) false, Done r')
    | Memoizer.Ok (Panic t) => (BMemo lm' n' (evs ++ m_trace m) true, Panic t)
    | Memoizer.Ok OutOfFuel => (BMemo lm' n' (evs ++ m_trace m) false, OutOfFuel)
    | Memoizer.Err _ => (BMemo lm' n' (evs ++ m_trace m) false, Panic "called Result::unwrap() on an Err value")
    end.

(* the format_pattern call of a request on the shared (concurrent) bundle, as a process *)
Definition request_proc (rq : frequest) : proc (bytes * scope) :=
  format_pattern_p overflow_checks call_function transform formatter as_string as_string_threadsafe
    unescape_write unescape_to_string f64_from_str Concurrent b (fr_args rq)
    (fuel_of b (fr_pattern rq)) (fr_top rq) (fr_pattern rq).

(* a thread: the call in progress (its private continuation), the requests still to issue, and what the
   finished calls returned, oldest first *)
Record thread := Thread {
  t_cur : option (frequest * proc (bytes * scope));
  t_todo : list frequest;
  t_done : list (frequest * outcome (bytes * scope)) }.

Record cstate := CState { s_memo : bmemo; s_threads : list thread }.

Definition thread_new (reqs : list frequest) : thread := Thread None reqs [].

(* new_concurrent (cold memoizer), then std::thread::scope spawns the threads *)
Definition c_init (programs : list (list frequest)) : cstate := CState bmemo_new (map thread_new programs).

Definition set_thread (s : cstate) (tid : nat) (th : thread) : cstate :=
  CState (s_memo s) (Memoizer.set_nth tid th (s_threads s)).

(* the scheduled thread does its next step: begin the next call (private), perform the call's next
   with_try_get_threadsafe (the only step that touches shared state), or return from the call (private).
   Scheduling a finished or non-existent thread is a no-op. *)
Definition sched_step (s : cstate) (tid : nat) : cstate :=
  match nth_error (s_threads s) tid with
  | None => s
  | Some th =>
      match t_cur th with
      | None =>
          match t_todo th with
          | [] => s
          | rq :: rest => set_thread s tid (Thread (Some (rq, request_proc rq)) rest (t_done th))
          end
      | Some (rq, PRet r) => set_thread s tid (Thread None (t_todo th) (t_done th ++ [(rq, r)]))
      | Some (rq, PAsk ty num cat k) =>
          let '(m', ans) := memo_step (s_memo s) ty num cat in
          let p' := match ans with
                    | Done r => k r
                    | Panic t => PRet (Panic t)
                    | OutOfFuel => PRet OutOfFuel
                    end in
          CState m' (Memoizer.set_nth tid (Thread (Some (rq, p')) (t_todo th) (t_done th)) (s_threads s))
      end
  end.

(* a schedule is a list of thread ids *)
Definition run_schedule (programs : list (list frequest)) (sched : list nat) : cstate :=
  fold_left sched_step sched (c_init programs).

Definition thread_finished (th : thread) : bool :=
  match t_cur th, t_todo th with None, [] => true | _, _ => false end.
Definition finished (s : cstate) : bool := forallb thread_finished (s_threads s).

(* what a thread returned so far: (text, errors) per finished call, or the panic *)
Definition results_of (s : cstate) : list (list (frequest * outcome (bytes * scope))) :=
  map t_done (s_threads s).

(* exhaustive exploration (model validation only): the final results of EVERY complete schedule, by depth-first
   search; `fuel` bounds the length of a schedule *)
Fixpoint explore (fuel : nat) (s : cstate) : list (list (list (frequest * outcome (bytes * scope)))) :=
  match fuel with
  | O => []
  | S f =>
      if finished s then [results_of s]
      else flat_map (fun tid =>
                       match nth_error (s_threads s) tid with
                       | Some th => if thread_finished th then [] else explore f (sched_step s tid)
                       | None => []
                       end)
                    (seq 0 (length (s_threads s)))
  end.

(* a canonical completion of any state: round-robin until nothing is left (fuel rounds) *)
Fixpoint complete (fuel : nat) (s : cstate) : cstate :=
  match fuel with
  | O => s
  | S f => if finished s then s else complete f (fold_left sched_step (seq 0 (length (s_threads s))) s)
  end.

End Threads.

(* Bundle/NumberSpec.v — SPECIFICATION side of C12 (numbers keep their written precision and select
   the locale's plural category).  Definitions only; nothing here is taken from number.rs: the
   functions below are written from the grammar of number literals, from positional notation and
   from the CLDR definition of the plural operands (UTS #35, Language Plural Rules, "Operands"):

       n  the absolute value of the source number
       i  the integer digits of n
       v  the number of visible fraction digits in n, with trailing zeros
       w  the number of visible fraction digits in n, without trailing zeros
       f  the visible fraction digits in n, with trailing zeros, as an integer
       t  the visible fraction digits in n, without trailing zeros, as an integer

   all of them read off the WRITTEN digits of the literal ("1" has v = 0, "1.0" has v = 1, f = 0).
   Proofs that the model of number.rs (Bundle/Number.v) meets this specification are in
   Bundle/NumberSpecProofs.v; the property theorems in Props/C12.v.                              *)
From FluentV Require Export Bundle.Number Syntax.Ast Bundle.ResolverModel.
From FluentV Require Import Gen.Extracted.
Local Open Scope N_scope.

(* ---------- the literal grammar  -? d+ ( . d+ )?  ---------- *)
Record literal := Lit { l_neg : bool; l_int : bytes; l_frac : option bytes }.

Definition dig (b : N) : bool := N.leb 48 b && N.leb b 57.
Definition digit_string (s : bytes) : bool := match s with [] => false | _ => forallb dig s end.

Definition lit_wf (l : literal) : bool :=
  digit_string (l_int l) && match l_frac l with None => true | Some f => digit_string f end.

(* the text of a literal *)
Definition lit_text (l : literal) : bytes :=
  (if l_neg l then [45] else []) ++ l_int l ++ match l_frac l with None => [] | Some f => 46 :: f end.

(* recogniser of the grammar: Some l iff s is a literal, and then s = lit_text l *)
Fixpoint take_digits (s : bytes) : bytes * bytes :=
  match s with
  | b :: r => if dig b then (let '(d, rest) := take_digits r in (b :: d, rest)) else ([], s)
  | [] => ([], [])
  end.

Definition parse_literal (s : bytes) : option literal :=
  let '(neg, body) := match s with 45 :: r => (true, r) | _ => (false, s) end in
  let '(i, rest) := take_digits body in
  match i, rest with
  | [], _ => None
  | _, [] => Some (Lit neg i None)
  | _, 46 :: rest' =>
      let '(f, rest'') := take_digits rest' in
      match f, rest'' with
      | _ :: _, [] => Some (Lit neg i (Some f))
      | _, _ => None
      end
  | _, _ => None
  end.

(* the written fraction digits (none = no digits) *)
Definition frac_digits (l : literal) : bytes := match l_frac l with None => [] | Some f => f end.

(* ---------- positional notation ---------- *)
(* value of a digit string, most significant digit first *)
Fixpoint dval (s : bytes) : N :=
  match s with
  | [] => 0
  | b :: r => (b - 48) * 10 ^ N.of_nat (length r) + dval r
  end.

(* a non-negative decimal as numerator / 10^scale; two such are the same number when they agree
   after cross-multiplication *)
Definition dec := (N * N)%type.
Definition dec_same (a b : dec) : Prop := fst a * 10 ^ snd b = fst b * 10 ^ snd a.
Definition dec_sameb (a b : dec) : bool := N.eqb (fst a * 10 ^ snd b) (fst b * 10 ^ snd a).

(* |literal| = (integer digits followed by fraction digits) / 10^(number of fraction digits) *)
Definition lit_abs (l : literal) : dec := (dval (l_int l ++ frac_digits l), N.of_nat (length (frac_digits l))).

(* ---------- canonical printing: the literal without the leading zeros of its integer part ---------- *)
Fixpoint drop_zeros (s : bytes) : bytes :=
  match s with
  | b :: r => if N.eqb b 48 then drop_zeros r else s
  | [] => []
  end.

Definition canon_int (i : bytes) : bytes := match drop_zeros i with [] => [48] | d => d end.

Definition canonical (l : literal) : literal := Lit (l_neg l) (canon_int (l_int l)) (l_frac l).
Definition canonical_print (l : literal) : bytes := lit_text (canonical l).

(* ---------- trailing zeros ---------- *)
Definition drop_trailing_zeros (s : bytes) : bytes :=
  fold_right (fun b acc => match acc with [] => if N.eqb b 48 then [] else [b] | _ => b :: acc end) [] s.

(* ---------- the exactness guard: at most 15 significant digits ----------
   significant digits = the written digits from the first non-zero one to the last non-zero one.
   Every decimal with at most 15 significant digits (DBL_DIG) survives decimal -> binary64 ->
   shortest decimal unchanged; measured on the real code: 0 deviations in 40000 literals with 14 and 15
   significant digits, 10 % deviating with 16, 92 % with 17, all with 18. *)
Definition significant_digits (l : literal) : bytes :=
  drop_trailing_zeros (drop_zeros (l_int l ++ frac_digits l)).
Definition GUARD_DIGITS : nat := 15.
Definition exact_guard (l : literal) : bool := Nat.leb (length (significant_digits l)) GUARD_DIGITS.

(* ---------- CLDR plural operands of a literal ---------- *)
Record cldr_ops := Cldr { c_n : dec; c_i : N; c_v : N; c_w : N; c_f : N; c_t : N }.

Definition cldr_operands (l : literal) : cldr_ops :=
  let fr := frac_digits l in
  let fr' := drop_trailing_zeros fr in
  Cldr (lit_abs l) (dval (l_int l)) (N.of_nat (length fr)) (N.of_nat (length fr')) (dval fr) (dval fr').

(* the operands fit the integer types of intl_pluralrules (i, f, t : u64; v, w : usize) *)
Definition digits_fit_u64 (l : literal) : bool :=
  N.leb (dval (l_int l)) u64_max && N.leb (dval (frac_digits l)) u64_max.

(* ---------- what the code computes beyond the u64 range (the D10 and D28 fixes): saturation ----------
   i = min(i, 2^64-1) and f = min(f, 2^64-1); v, w, t and n are exact *)
Definition saturated_operands (l : literal) : cldr_ops :=
  let c := cldr_operands l in
  Cldr (c_n c) (N.min (c_i c) u64_max) (c_v c) (c_w c) (N.min (c_f c) u64_max) (c_t c).

(* the arithmetic reading of the operands: n = i + f / 10^v, f = t * 10^(v - w), t has no trailing zero *)
Definition cldr_arith (c : cldr_ops) : Prop :=
  c_n c = (c_i c * 10 ^ c_v c + c_f c, c_v c) /\ c_f c < 10 ^ c_v c /\
  c_w c <= c_v c /\ c_f c = c_t c * 10 ^ (c_v c - c_w c) /\ c_t c < 10 ^ c_w c /\
  (c_w c = 0 \/ c_t c mod 10 <> 0).

(* ---------- numbers as the model holds them, read as signed decimals ---------- *)
(* the model value v is the number  (-1)^neg * d *)
Definition fval_is (v : fval) (neg : bool) (d : dec) : Prop :=
  match v with
  | FDec neg' i f => neg' = neg /\ forallb dig i = true /\ forallb dig f = true /\
                     dec_same (dval (i ++ f), N.of_nat (length f)) d
  | _ => False
  end.

(* the operands record of the model against the CLDR operands: n by value, the integers exactly *)
Definition ops_agree (o : operands) (c : cldr_ops) : Prop :=
  fval_is (op_n o) false (c_n c) /\ op_i o = c_i c /\ op_v o = c_v c /\ op_w o = c_w c /\
  op_f o = c_f c /\ op_t o = c_t c.

(* numeric equality of two numbers (IEEE ==): NaN equals nothing, infinities by sign, finite numbers by
   value with -0 = 0 *)
Definition same_number (a b : fval) : bool :=
  match a, b with
  | FInf x, FInf y => Bool.eqb x y
  | FDec n1 i1 f1, FDec n2 i2 f2 =>
      let d1 := (dval (i1 ++ f1), N.of_nat (length f1)) in
      let d2 := (dval (i2 ++ f2), N.of_nat (length f2)) in
      if N.eqb (fst d1) 0 && N.eqb (fst d2) 0 then true
      else Bool.eqb n1 n2 && dec_sameb d1 d2
  | _, _ => false
  end.

(* ---------- NUMBER(x, opts): the options after the call, field by field ----------
   `named` is looked up as an association list (FluentArgs has one entry per key: C11) *)
Fixpoint named_lookup (named : list (bytes * fvalue)) (k : bytes) : option fvalue :=
  match named with
  | [] => None
  | (k', v) :: r => if bytes_eqb k' k then Some v else named_lookup r k
  end.

Definition string_option {X} (named : list (bytes * fvalue)) (k : string) (conv : bytes -> X) (own : X) : X :=
  match named_lookup named (bytes_of_string k) with
  | Some (VString s) => conv s
  | _ => own
  end.

Definition digits_option (named : list (bytes * fvalue)) (k : string) (own : option N) : option N :=
  match named_lookup named (bytes_of_string k) with
  | Some (VNumber n) => Some (usize_of_fnumber n)        (* `n.value as usize`: truncating, saturating *)
  | _ => own
  end.

Definition number_options_spec (own : noptions) (named : list (bytes * fvalue)) : noptions :=
  NOptions
    (string_option named "type" ntype_of_str (o_type own))
    (string_option named "style" nstyle_of_str (o_style own))
    (string_option named "currency" (fun s => Some s) (o_currency own))
    (string_option named "currencyDisplay" ncurrency_display_of_str (o_currency_display own))
    (string_option named "useGrouping" (fun s => negb (bytes_eqb s (bytes_of_string "false"))) (o_use_grouping own))
    (digits_option named "minimumIntegerDigits" (o_minimum_integer_digits own))
    (digits_option named "minimumFractionDigits" (o_minimum_fraction_digits own))
    (digits_option named "maximumFractionDigits" (o_maximum_fraction_digits own))
    (digits_option named "minimumSignificantDigits" (o_minimum_significant_digits own))
    (digits_option named "maximumSignificantDigits" (o_maximum_significant_digits own)).

Definition NUMBER_OPTION_KEYS : list string :=
  ["type"; "style"; "currency"; "currencyDisplay"; "useGrouping"; "minimumIntegerDigits";
   "minimumFractionDigits"; "maximumFractionDigits"; "minimumSignificantDigits"; "maximumSignificantDigits"]%string.

(* ---------- selection: the first variant whose key the selector number satisfies, else the default ----------
   `ops` = the plural operands of the selector, `rules` = the rules object of the bundle's first locale.
   A key is a number literal (compared by VALUE with the selector) or an identifier (a plural keyword names a
   category; any other identifier never matches a number). *)
Section Select.
Variable rules : ntype -> operands -> pcat.
Variable f64_from_str : bytes -> option fval.

Definition keyword_category (name : bytes) : option pcat :=
  let fix go (ks : list bytes) (cs : list pcat) : option pcat :=
    match ks, cs with
    | k :: ks', c :: cs' => if bytes_eqb k name then Some c else go ks' cs'
    | _, _ => None
    end in
  go PLURAL_KEYWORDS [ZERO; ONE; TWO; FEW; MANY; OTHER].

Definition key_satisfied (sel : fnumber) (ops : operands) (k : variant_key) : bool :=
  match k with
  | KeyNumber lit =>
      match f64_from_str lit with
      | Some a => same_number a (n_value sel)
      | None =>                                    (* not a number for std's parser: the key is the text *)
          match keyword_category lit with
          | Some cat => pcat_eqb (rules (o_type (n_options sel)) ops) cat
          | None => false
          end
      end
  | KeyIdentifier name =>
      match keyword_category name with
      | Some cat => pcat_eqb (rules (o_type (n_options sel)) ops) cat
      | None => false
      end
  end.

Fixpoint first_satisfied (sel : fnumber) (ops : operands) (variants : list variant) : option pattern :=
  match variants with
  | [] => None
  | Variant k value _ :: rest => if key_satisfied sel ops k then Some value else first_satisfied sel ops rest
  end.

Fixpoint default_variant (variants : list variant) : option pattern :=
  match variants with
  | [] => None
  | Variant _ value d :: rest => if d then Some value else default_variant rest
  end.

Definition selected (sel : fnumber) (ops : operands) (variants : list variant) : option pattern :=
  match first_satisfied sel ops variants with
  | Some p => Some p
  | None => default_variant variants
  end.
End Select.

(* a number of the model whose digit strings are digit strings (what a float parser returns, what a literal is) *)
Definition fval_digits (v : fval) : bool :=
  match v with FDec _ i f => forallb dig i && forallb dig f | _ => true end.
Definition value_digits (v : fvalue) : bool := match v with VNumber n => fval_digits (n_value n) | _ => true end.

(* the memoizer holds only rules objects built by `rules` *)
Definition cache_ok (rules : ntype -> operands -> pcat) (c : intl_cache) : Prop :=
  forall ty r, cache_find c ty = Some r -> r = rules ty.
Definition cache_extends (c c' : intl_cache) : Prop :=
  forall ty r, cache_find c ty = Some r -> cache_find c' ty = Some r.

(* the scope after a key test: unchanged except for the memoizer, which only grows and holds only `rules ty` *)
Definition cache_step (rules : ntype -> operands -> pcat) (sc sc' : scope) : Prop :=
  sc' = set_intls sc (sc_intls sc') /\ cache_ok rules (sc_intls sc') /\ cache_extends (sc_intls sc) (sc_intls sc').

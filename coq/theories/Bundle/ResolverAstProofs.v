(* Bundle/ResolverAstProofs.v — facts about Bundle/ResolverAst.v: a mutual induction principle for
   the (nested) AST, reflexivity of the derived equality, and bounds for list_max. *)
From FluentV Require Import Base.Bytes Base.BytesFacts Syntax.Ast Bundle.ResolverAst.
From Coq Require Import Lia.

Section AstInd.
Variables (Pi : inline -> Prop) (Pe : expression -> Prop) (Pv : variant -> Prop) (Pp : pattern -> Prop)
          (Pl : pattern_element -> Prop) (Pa : call_args -> Prop) (Pn : named_arg -> Prop).
Hypotheses
  (HStr : forall v, Pi (StringLiteral v))
  (HNum : forall v, Pi (NumberLiteral v))
  (HFn : forall id a, Pa a -> Pi (FunctionReference id a))
  (HMsg : forall id at_, Pi (MessageReference id at_))
  (HTermN : forall id at_, Pi (TermReference id at_ None))
  (HTermS : forall id at_ a, Pa a -> Pi (TermReference id at_ (Some a)))
  (HVar : forall id, Pi (VariableReference id))
  (HPlc : forall e, Pe e -> Pi (Placeable e))
  (HSel : forall s vs, Pi s -> Forall Pv vs -> Pe (Select s vs))
  (HInl : forall i, Pi i -> Pe (Inline i))
  (HVariant : forall k p d, Pp p -> Pv (Variant k p d))
  (HPat : forall els, Forall Pl els -> Pp (Pattern els))
  (HText : forall v, Pl (TextElement v))
  (HPlEl : forall e, Pe e -> Pl (PlaceableElement e))
  (HArgs : forall pos named, Forall Pi pos -> Forall Pn named -> Pa (CallArguments pos named))
  (HNamed : forall n v, Pi v -> Pn (NamedArgument n v)).

Fixpoint inline_ind' (i : inline) : Pi i :=
  match i with
  | StringLiteral v => HStr v
  | NumberLiteral v => HNum v
  | FunctionReference id a => HFn id a (args_ind' a)
  | MessageReference id at_ => HMsg id at_
  | TermReference id at_ None => HTermN id at_
  | TermReference id at_ (Some a) => HTermS id at_ a (args_ind' a)
  | VariableReference id => HVar id
  | Placeable e => HPlc e (expression_ind' e)
  end
with expression_ind' (e : expression) : Pe e :=
  match e with
  | Select s vs =>
      HSel s vs (inline_ind' s)
        ((fix go (l : list variant) : Forall Pv l :=
            match l with
            | [] => Forall_nil _
            | v :: r => Forall_cons _ (variant_ind' v) (go r)
            end) vs)
  | Inline i => HInl i (inline_ind' i)
  end
with variant_ind' (v : variant) : Pv v :=
  match v with
  | Variant k p d => HVariant k p d (pattern_ind' p)
  end
with pattern_ind' (p : pattern) : Pp p :=
  match p with
  | Pattern els =>
      HPat els
        ((fix go (l : list pattern_element) : Forall Pl l :=
            match l with
            | [] => Forall_nil _
            | x :: r => Forall_cons _ (element_ind' x) (go r)
            end) els)
  end
with element_ind' (x : pattern_element) : Pl x :=
  match x with
  | TextElement v => HText v
  | PlaceableElement e => HPlEl e (expression_ind' e)
  end
with args_ind' (a : call_args) : Pa a :=
  match a with
  | CallArguments pos named =>
      HArgs pos named
        ((fix go (l : list inline) : Forall Pi l :=
            match l with
            | [] => Forall_nil _
            | x :: r => Forall_cons _ (inline_ind' x) (go r)
            end) pos)
        ((fix go (l : list named_arg) : Forall Pn l :=
            match l with
            | [] => Forall_nil _
            | x :: r => Forall_cons _ (named_ind' x) (go r)
            end) named)
  end
with named_ind' (n : named_arg) : Pn n :=
  match n with
  | NamedArgument name v => HNamed name v (inline_ind' v)
  end.

Lemma ast_mutind :
  (forall i, Pi i) /\ (forall e, Pe e) /\ (forall v, Pv v) /\ (forall p, Pp p) /\
  (forall x, Pl x) /\ (forall a, Pa a) /\ (forall n, Pn n).
Proof.
  repeat split; [apply inline_ind' | apply expression_ind' | apply variant_ind' | apply pattern_ind'
                 | apply element_ind' | apply args_ind' | apply named_ind'].
Qed.
End AstInd.

Lemma bytes_eqb_refl a : bytes_eqb a a = true.
Proof. apply bytes_eqb_eq; reflexivity. Qed.

Lemma list_eqb_refl {A} (eqb : A -> A -> bool) (l : list A) :
  Forall (fun x => eqb x x = true) l -> list_eqb eqb l l = true.
Proof. induction 1 as [|x r Hx _ IH]; cbn; [reflexivity | now rewrite Hx, IH]. Qed.

Lemma option_bytes_eqb_refl (o : option bytes) : option_eqb bytes_eqb o o = true.
Proof. destruct o; cbn; [apply bytes_eqb_refl | reflexivity]. Qed.

Lemma ast_eqb_refl :
  (forall i, inline_eqb i i = true) /\ (forall e, expression_eqb e e = true) /\
  (forall v, variant_eqb v v = true) /\ (forall p, pattern_eqb p p = true) /\
  (forall x, element_eqb x x = true) /\ (forall a, args_eqb a a = true) /\
  (forall n, named_eqb n n = true).
Proof.
  apply ast_mutind; intros; cbn [inline_eqb expression_eqb variant_eqb pattern_eqb element_eqb args_eqb named_eqb];
    rewrite ?bytes_eqb_refl, ?option_bytes_eqb_refl; cbn [andb]; auto.
  - rewrite H. now apply list_eqb_refl.
  - destruct k; cbn; rewrite bytes_eqb_refl; cbn; rewrite H; destruct d; reflexivity.
  - now apply list_eqb_refl.
  - rewrite (list_eqb_refl inline_eqb pos H), (list_eqb_refl named_eqb named H0). reflexivity.
Qed.

Lemma pattern_eqb_refl p : pattern_eqb p p = true.
Proof. apply ast_eqb_refl. Qed.

Lemma pattern_mem_head p l : pattern_mem p (p :: l) = true.
Proof. unfold pattern_mem; cbn. now rewrite pattern_eqb_refl. Qed.

Lemma pattern_mem_cons p q l : pattern_mem p l = true -> pattern_mem p (q :: l) = true.
Proof. unfold pattern_mem; cbn. intros ->. apply Bool.orb_true_r. Qed.

(* ---------- list_max ---------- *)
Lemma list_max_cons x l : list_max (x :: l) = Nat.max x (list_max l).
Proof. reflexivity. Qed.

Lemma list_max_in (l : list nat) x : In x l -> x <= list_max l.
Proof.
  induction l as [|y r IH]; [intros []|].
  rewrite list_max_cons. intros [->|H].
  - apply Nat.le_max_l.
  - etransitivity; [apply IH, H | apply Nat.le_max_r].
Qed.

Lemma list_max_map_in {A} (f : A -> nat) (l : list A) x : In x l -> f x <= list_max (map f l).
Proof. intros H. apply list_max_in, in_map, H. Qed.

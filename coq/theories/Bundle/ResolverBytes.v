(* Bundle/ResolverBytes.v — C06: the output of one format call is bounded IN BYTES by the inputs.

   ResolverBounds.v bounds the NUMBER of pieces (tokens) written by one call.  This file bounds the
   SIZE of every piece by a width W that depends on the inputs only, by an invariant over every value
   in flight:

     * a Number in flight (literal, argument, function result, NUMBER(..) result) has a value that
       prints in <= B bytes and a minimum_fraction_digits <= max K B;
     * a value stored in `scope.local_args` (the named arguments of a term call) or taken from the
       caller's arguments is SMALL (a string of <= B bytes or such a Number);
     * every token written has <= W = B + max K B + 3 bytes

   where  B = max L A F,
     L = longest string of the resources (text element, literal, `{reference}` fallback text),
     A = longest printed argument,  F = longest output of external code,
     K = largest minimumFractionDigits literal of a call in the resources (finding D11: this is the
         VALUE of a literal, not its length; the code pads to that many zeros).

   Strings resolved from PATTERNS in value position (`InlineExpression::resolve` on a message / term
   reference or a nested placeable) are NOT small: they are as long as the output of a sub-resolution.
   They are compared (selector) or handed to a function, never printed as one piece — except through
   a term parameter:  -t(x: msg)  stores such a string in local_args and `{ $x }` prints it in one
   piece, once per placeable.  With  -t = {$x}{$x}{$x},  m1 = { -t(x: m0) },  m2 = { -t(x: m1) }, ..
   the output triples per level at the price of 4 placeables: 6 x 3^(d-1) bytes from ~20 x d bytes
   of resources, no error, the limit of 100 placeables not reached before d = 25 (REAL CODE, parsed
   resources: 9.5 MB from 459 bytes at d = 14).  The FTL grammar forbids it (NamedArgument ::=
   Identifier ":" (StringLiteral | NumberLiteral)), but fluent-syntax does not enforce it for
   identifiers: in get_inline_expression the arm `Some(b) if b.is_ascii_alphabetic()` is not guarded
   by `!only_literal` (expression.rs; Syntax/ParserModel.v follows), so a message reference or a
   function call is accepted as the value of a named argument.  Hence the premise `named_args_ok`:
   no named-argument value is a message reference, a term reference or a placeable (literals,
   variable references and function calls resolve to small values), and a value named
   minimumFractionDigits is a literal (so that (d) can be read off the resources).  Without it
   no bound on the pieces in terms of L, A, F, K exists.                                        *)
From FluentV Require Import Base.Bytes Base.BytesFacts Base.Outcome Base.Utf8 Syntax.Ast Bundle.Args Bundle.ArgsProofs
  Bundle.Number Bundle.NumberProofs Bundle.ResolverAst Bundle.ResolverAstProofs Bundle.ResolverModel Bundle.ResolverEqns Bundle.ResolverIso
  Bundle.ResolverTotal Bundle.ResolverBounds Gen.Extracted.
From Coq Require Import Lia.

Arguments N.add : simpl never.
Arguments N.sub : simpl never.
Arguments N.pow : simpl never.
Arguments N.eqb : simpl never.
Arguments N.ltb : simpl never.
Arguments N.leb : simpl never.

(* ---------- the strings and named arguments of a pattern ---------- *)
Inductive atom :=
| AText (s : bytes)            (* a text element *)
| ANode (i : inline)           (* an inline expression node (literal, reference, call, placeable) *)
| ANamed (n : named_arg).      (* a named argument of a call *)

Fixpoint at_inline (i : inline) : list atom :=
  ANode i ::
  match i with
  | FunctionReference _ (CallArguments pos named) =>
      flat_map at_inline pos ++
      flat_map (fun n => ANamed n :: match n with NamedArgument _ v => at_inline v end) named
  | TermReference _ _ (Some (CallArguments pos named)) =>
      flat_map at_inline pos ++
      flat_map (fun n => ANamed n :: match n with NamedArgument _ v => at_inline v end) named
  | Placeable e => at_expr e
  | _ => []
  end
with at_expr (e : expression) : list atom :=
  match e with
  | Inline i => at_inline i
  | Select s vs => at_inline s ++ flat_map (fun v => match v with Variant _ p _ => at_pattern p end) vs
  end
with at_pattern (p : pattern) : list atom :=
  match p with
  | Pattern els =>
      flat_map (fun x => match x with
                         | TextElement s => [AText s]
                         | PlaceableElement e => at_expr e
                         end) els
  end.

Definition at_named (n : named_arg) : list atom :=
  ANamed n :: match n with NamedArgument _ v => at_inline v end.
Definition at_args (a : call_args) : list atom :=
  match a with CallArguments pos named => flat_map at_inline pos ++ flat_map at_named named end.
Definition at_oargs (a : option call_args) : list atom :=
  match a with Some a' => at_args a' | None => [] end.
Definition at_element (x : pattern_element) : list atom :=
  match x with TextElement s => [AText s] | PlaceableElement e => at_expr e end.
Definition at_variant (v : variant) : list atom := match v with Variant _ p _ => at_pattern p end.

(* everything one call can reach: the formatted pattern and every pattern of the bundle *)
Definition input_atoms (b : bundle) (p : pattern) : list atom :=
  at_pattern p ++ flat_map at_pattern (bundle_patterns b).

(* (a) the length of the piece of text an atom stands for.  inline_write_error of a literal is the
   literal; of a reference it is the text of the `{reference}` fallback *)
Definition atom_len (a : atom) : nat :=
  match a with
  | AText s => length s
  | ANode i => length (inline_write_error i)
  | ANamed _ => 0
  end.
Definition strings_max (b : bundle) (p : pattern) : nat := list_max (map atom_len (input_atoms b p)).

(* well-formedness of named arguments (see the header): the value does not resolve a pattern, and
   the value of minimumFractionDigits is a literal.  What the grammar allows (literals only) is a
   special case; what the parser accepts is not. *)
Definition is_literal (i : inline) : bool :=
  match i with StringLiteral _ | NumberLiteral _ => true | _ => false end.
(* expressions that resolve to a value without resolving a pattern *)
Definition small_src (i : inline) : bool :=
  match i with MessageReference _ _ | TermReference _ _ _ | Placeable _ => false | _ => true end.
Definition mfd_key : string := "minimumFractionDigits".
Definition named_wf (name : bytes) (v : inline) : bool :=
  if str_is mfd_key name then is_literal v else small_src v.
Definition atom_wf (a : atom) : bool :=
  match a with ANamed (NamedArgument name v) => named_wf name v | _ => true end.
Definition named_args_ok (b : bundle) (p : pattern) : bool := forallb atom_wf (input_atoms b p).
(* the grammar's condition implies it *)
Definition atom_literal (a : atom) : bool :=
  match a with ANamed (NamedArgument _ v) => is_literal v | _ => true end.
Definition named_literals (b : bundle) (p : pattern) : bool := forallb atom_literal (input_atoms b p).

(* (d) the minimumFractionDigits a named argument asks for (0 when it is not that option) *)
Definition atom_mfd (f64_from_str : bytes -> option fval) (a : atom) : N :=
  match a with
  | ANamed (NamedArgument name (NumberLiteral v)) =>
      if str_is mfd_key name
      then match try_number f64_from_str v with VNumber n => usize_of_fnumber n | _ => 0%N end
      else 0%N
  | _ => 0%N
  end.
Definition listN_max (l : list N) : N := fold_right N.max 0%N l.
Definition mfd_max (f64_from_str : bytes -> option fval) (b : bundle) (p : pattern) : N :=
  listN_max (map (atom_mfd f64_from_str) (input_atoms b p)).

(* (b) the printed size of a value: strings by length, numbers by their printed form (value and
   options), custom values by what FluentType::as_string prints for them *)
Definition val_size (custom_as_string : bytes -> bytes) (v : fvalue) : nat :=
  match v with
  | VString s => length s
  | VNumber n => length (fnumber_as_string n)
  | VCustom c => length (custom_as_string c)
  | _ => 0
  end.
Definition args_size (custom_as_string : bytes -> bytes) (a : option fargs) : nat :=
  match a with Some l => list_max (map (fun kv => val_size custom_as_string (snd kv)) l) | None => 0 end.

Lemma listN_max_in (l : list N) x : In x l -> (x <= listN_max l)%N.
Proof.
  induction l as [|y r IH]; cbn [listN_max fold_right In]; [tauto|].
  intros [->|H]; [lia|]. specialize (IH H). unfold listN_max in IH. lia.
Qed.

Lemma listN_max_map_in {X} (f : X -> N) (l : list X) x : In x l -> (f x <= listN_max (map f l))%N.
Proof. intros H. apply listN_max_in, in_map, H. Qed.

(* ---------- printing of numbers ---------- *)
Definition mfdn (n : fnumber) : nat :=
  match o_minimum_fraction_digits (n_options n) with Some m => N.to_nat m | None => 0 end.

Lemma zeros_length m : length (zeros m) = N.to_nat m.
Proof. unfold zeros. apply repeat_length. Qed.

Lemma fnumber_as_string_le n :
  length (fnumber_as_string n) <= length (fval_to_string (n_value n)) + 1 + mfdn n.
Proof.
  unfold fnumber_as_string, mfdn. destruct (o_minimum_fraction_digits (n_options n)) as [m|]; [|lia].
  destruct (find_byte 46 (fval_to_string (n_value n))) as [pos|];
    rewrite ?app_length, ?zeros_length; cbn [length]; lia.
Qed.

Lemma fnumber_as_string_ge n :
  length (fval_to_string (n_value n)) <= length (fnumber_as_string n) /\ mfdn n <= length (fnumber_as_string n).
Proof.
  unfold fnumber_as_string, mfdn. destruct (o_minimum_fraction_digits (n_options n)) as [m|]; [|lia].
  destruct (find_byte 46 (fval_to_string (n_value n))) as [pos|];
    rewrite ?app_length, ?zeros_length; cbn [length]; lia.
Qed.

(* ---------- FluentArgs: what is stored was written ---------- *)
Lemma from_iter_Forall {V} (P : bytes * V -> Prop) kvs a :
  Args.from_iter V kvs = Done a -> Forall P kvs -> Forall P a.
Proof.
  unfold Args.from_iter. rewrite set_all_ins_all. intros [= <-]. unfold Args.new.
  generalize (@nil (bytes * V)) (Forall_nil P).
  induction kvs as [|[k v] r IH]; intros acc Hacc H; cbn [ins_all]; [exact Hacc|].
  inversion H as [|x l Hx Hr]; subst. apply IH; [|exact Hr]. apply Forall_ins; assumption.
Qed.

Lemma get_In {V} (a : args V) k v : Args.get V a k = Done (Some v) -> exists k', In (k', v) a.
Proof.
  unfold Args.get. destruct (binary_search V a k) as [i|i]; [|discriminate].
  destruct (nth_error a i) as [[k' v']|] eqn:E; [|discriminate].
  intros [= <-]. exists k'. eapply nth_error_In, E.
Qed.

Section Bytes.
Variable overflow_checks : bool.
Variable call_function : bytes -> list fvalue -> fargs -> fvalue.
Variable transform : option (bytes -> bytes).
Variable formatter : option (fvalue -> option bytes).
Variable rules : ntype -> rules_fn.
Variable custom_as_string : bytes -> bytes.
Variable unescape_write : bytes -> bytes.
Variable unescape_to_string : bytes -> bytes.
Variable f64_from_str : bytes -> option fval.
Variable b : bundle.
Variable args : option fargs.

(* the four input-side bounds *)
Variable Lb Ab Fb : nat.
Variable Kb : N.

Definition Bb : nat := Nat.max Lb (Nat.max Ab Fb).
Definition Mb : nat := Nat.max (N.to_nat Kb) Bb.
Definition Wb : nat := Bb + Mb + 3.

(* (a), (d) and well-formedness, atom by atom *)
Definition atom_ok (a : atom) : Prop :=
  match a with
  | AText s => length s <= Lb
  | ANode i => length (inline_write_error i) <= Lb
  | ANamed (NamedArgument name v) =>
      named_wf name v = true /\
      (str_is mfd_key name = true ->
       forall s n, v = NumberLiteral s -> try_number f64_from_str s = VNumber n -> (usize_of_fnumber n <= Kb)%N)
  end.

Hypothesis HB : forall q, In q (bundle_patterns b) -> Forall atom_ok (at_pattern q).
(* (b) *)
Hypothesis Hargs : args_size custom_as_string args <= Ab.
(* (c) external code *)
Hypothesis Hcall : forall name pos named, val_size custom_as_string (call_function name pos named) <= Fb.
Hypothesis Hfmt : forall fm v s, formatter = Some fm -> fm v = Some s -> length s <= Fb.
Hypothesis Htrans : forall t s, transform = Some t -> length s <= Lb -> length (t s) <= Fb.
Hypothesis Hunw : forall s, length s <= Lb -> length (unescape_write s) <= Fb.
Hypothesis Huns : forall s, length s <= Lb -> length (unescape_to_string s) <= Fb.
Hypothesis Hparse : forall s v, length s <= Lb -> f64_from_str s = Some v -> length (fval_to_string v) <= Fb.

Notation pw := (pattern_write overflow_checks call_function transform formatter rules custom_as_string
                  unescape_write unescape_to_string f64_from_str b args).
Notation ew := (expression_write overflow_checks call_function transform formatter rules custom_as_string
                  unescape_write unescape_to_string f64_from_str b args).
Notation iw := (inline_write overflow_checks call_function transform formatter rules custom_as_string
                  unescape_write unescape_to_string f64_from_str b args).
Notation ir := (inline_resolve overflow_checks call_function transform formatter rules custom_as_string
                  unescape_write unescape_to_string f64_from_str b args).
Notation mt := (maybe_track overflow_checks call_function transform formatter rules custom_as_string
                  unescape_write unescape_to_string f64_from_str b args).
Notation tr := (track overflow_checks call_function transform formatter rules custom_as_string
                  unescape_write unescape_to_string f64_from_str b args).
Notation ga := (get_arguments overflow_checks call_function transform formatter rules custom_as_string
                  unescape_write unescape_to_string f64_from_str b args).

(* ---------- the invariant on values ---------- *)
Definition num_ok (n : fnumber) : Prop :=
  length (fval_to_string (n_value n)) <= Bb /\ mfdn n <= Mb.
(* every Number in flight *)
Definition numv_ok (v : fvalue) : Prop := match v with VNumber n => num_ok n | _ => True end.
(* values that may be printed in one piece *)
Definition small (v : fvalue) : Prop :=
  match v with
  | VString s => length s <= Bb
  | VNumber n => num_ok n
  | VCustom c => length (custom_as_string c) <= Bb
  | _ => True
  end.
(* a named argument after resolution: small, and if it is minimumFractionDigits at most K *)
Definition mfd_prop (k : bytes) (v : fvalue) : Prop :=
  str_is mfd_key k = true -> match v with VNumber n => (usize_of_fnumber n <= Kb)%N | _ => True end.
Definition named_val_ok (kv : bytes * fvalue) : Prop := small (snd kv) /\ mfd_prop (fst kv) (snd kv).

Definition local_ok (sc : scope) : Prop :=
  forall la, sc_local_args sc = Some la -> Forall (fun kv => small (snd kv)) la.
Definition tok_ok (t : otoken) : Prop := length (token_bytes t) <= Wb.

Lemma small_numv v : small v -> numv_ok v.
Proof. destruct v; cbn; tauto. Qed.

Lemma size_small v x : val_size custom_as_string v <= x -> x <= Bb -> small v.
Proof.
  destruct v as [s|n|c| |]; cbn [val_size small]; try tauto; [lia| |lia].
  intros H Hx. pose proof (fnumber_as_string_ge n) as [H1 H2]. unfold num_ok, Mb. lia.
Qed.

Lemma num_print n : num_ok n -> length (fnumber_as_string n) <= Wb.
Proof. intros [H1 H2]. pose proof (fnumber_as_string_le n). unfold Wb. lia.
Qed.

Lemma fmt_le v s : apply_formatter formatter v = Some s -> length s <= Wb.
Proof.
  unfold apply_formatter. destruct formatter as [fm|] eqn:E; [|discriminate].
  intros H. pose proof (Hfmt fm v s eq_refl H). unfold Wb, Bb. lia.
Qed.

Lemma value_write_small v : small v -> length (value_write formatter custom_as_string v) <= Wb.
Proof.
  intros Hs. unfold value_write. destruct (apply_formatter formatter v) as [s|] eqn:E; [eapply fmt_le, E|].
  destruct v as [s|n|c| |]; cbn [small] in Hs.
  - unfold Wb. lia.
  - apply num_print, Hs.
  - unfold Wb. lia.
  - cbn. lia.
  - cbn. lia.
Qed.

Lemma value_into_string_small v : small v -> length (value_into_string formatter custom_as_string v) <= Wb.
Proof. exact (value_write_small v). Qed.

Lemma try_number_small s : length s <= Lb -> small (try_number f64_from_str s).
Proof.
  intros Hs. unfold try_number, fnumber_from_str. destruct (f64_from_str s) as [v|] eqn:E; cbn [small].
  - pose proof (Hparse s v Hs E) as Hv. unfold num_ok, mfdn. cbn [n_value n_options o_minimum_fraction_digits].
    split; [unfold Bb; lia|].
    destruct (find_byte 46 s) as [pos|]; cbn [option_map]; unfold Mb, Bb; lia.
  - unfold Bb. lia.
Qed.

(* ---------- tokens ---------- *)
Lemma tok_txt s : length s <= Wb -> tok_ok (Txt s).
Proof. exact (fun H => H). Qed.

Lemma tok_small s : length s <= Bb -> tok_ok (Txt s).
Proof. unfold tok_ok, Wb. cbn [token_bytes]. lia. Qed.

Lemma Lb_Bb : Lb <= Bb. Proof. unfold Bb. lia. Qed.
Lemma Fb_Bb : Fb <= Bb. Proof. unfold Bb. lia. Qed.
Lemma Ab_Bb : Ab <= Bb. Proof. unfold Bb. lia. Qed.

Lemma tok_fsi : tok_ok TFSI.
Proof. unfold tok_ok, Wb. change (length (token_bytes TFSI)) with 3. lia. Qed.
Lemma tok_pdi : tok_ok TPDI.
Proof. unfold tok_ok, Wb. change (length (token_bytes TPDI)) with 3. lia. Qed.

Lemma braced_ok s : length s <= Lb -> Forall tok_ok (braced s).
Proof.
  intros H. unfold braced. pose proof Lb_Bb.
  repeat constructor; unfold tok_ok, Wb; cbn [token_bytes lbrace rbrace length]; lia.
Qed.

Lemma node_len i : Forall atom_ok (at_inline i) -> length (inline_write_error i) <= Lb.
Proof. destruct i; cbn [at_inline]; intros H; inversion H as [|x l Hx Hr]; exact Hx. Qed.

Lemma expr_len e : Forall atom_ok (at_expr e) -> length (expression_write_error e) <= Lb.
Proof.
  destruct e as [sel vs | i]; cbn [at_expr expression_write_error]; intros H.
  - apply Forall_app in H as [H _]. apply node_len, H.
  - apply node_len, H.
Qed.

(* ---------- scope updates keep local_args ---------- *)
Lemma local_same sc sc' : sc_local_args sc' = sc_local_args sc -> local_ok sc -> local_ok sc'.
Proof. unfold local_ok. intros ->. tauto. Qed.

Lemma write_ref_error_bytes exp sc o sc' :
  write_ref_error exp sc = Done (o, sc') -> local_ok sc -> length (inline_write_error exp) <= Lb ->
  Forall tok_ok o /\ local_ok sc'.
Proof.
  unfold write_ref_error. destruct (reference_kind_of exp); cbn; try discriminate.
  intros [= <- <-] Hl Hn. split; [apply braced_ok, Hn | exact Hl].
Qed.

Lemma value_matches_local self other sc m sc' :
  value_matches rules self other sc = Done (m, sc') -> sc_local_args sc' = sc_local_args sc.
Proof.
  unfold value_matches. intros H.
  destruct self as [a|a|c| |]; try (injection H as <- <-; reflexivity).
  - destruct other as [b'|b'|c| |]; try (injection H as <- <-; reflexivity).
    destruct (plural_keyword a); [|injection H as <- <-; reflexivity].
    destruct (with_try_get rules (sc_intls sc) (o_type (n_options b'))) as [prf c'].
    destruct (fnumber_operands b'); cbn in H; try discriminate. injection H as <- <-. reflexivity.
  - destruct other as [b'|b'|c| |]; injection H as <- <-; reflexivity.
Qed.

Lemma find_variant_local vs sel : forall sc hit sc',
  find_variant rules f64_from_str vs sel sc = Done (hit, sc') ->
  sc_local_args sc' = sc_local_args sc /\ (forall p, hit = Some p -> exists k d, In (Variant k p d) vs).
Proof.
  induction vs as [|[key value d] rest IH]; intros sc hit sc'; cbn [find_variant].
  - intros [= <- <-]. split; [reflexivity | discriminate].
  - intros H. apply obind_done in H as ([m s1] & E1 & H).
    pose proof (value_matches_local _ _ _ _ _ E1) as A1.
    destruct m.
    + injection H as <- <-. split; [exact A1|]. intros p [= <-]. eexists _, _. left; reflexivity.
    + destruct (IH _ _ _ H) as [A2 Hin]. split; [congruence|].
      intros p Hp. destruct (Hin p Hp) as (k & d' & Hi). eexists _, _. right; exact Hi.
Qed.

Lemma variant_atoms k p d vs :
  In (Variant k p d) vs -> Forall atom_ok (flat_map at_variant vs) -> Forall atom_ok (at_pattern p).
Proof.
  intros Hin H. apply Forall_flat_map in H. rewrite Forall_forall in H. exact (H _ Hin).
Qed.

(* ---------- variables ---------- *)
Lemma args_small a k v : args = Some a -> Args.get fvalue a k = Done (Some v) -> small v.
Proof.
  intros Ea Hg. apply get_In in Hg as [k' Hin]. pose proof Hargs as Ha. unfold args_size in Ha. rewrite Ea in Ha.
  pose proof (list_max_map_in (fun kv => val_size custom_as_string (snd kv)) a _ Hin) as H. cbn [snd] in H.
  eapply size_small; [|exact Ab_Bb]. lia.
Qed.

Lemma local_small sc la k v : local_ok sc -> sc_local_args sc = Some la -> Args.get fvalue la k = Done (Some v) -> small v.
Proof.
  intros Hl El Hg. apply get_In in Hg as [k' Hin]. specialize (Hl la El). rewrite Forall_forall in Hl.
  exact (Hl _ Hin).
Qed.

Lemma lookup_variable_small id sc v : local_ok sc -> lookup_variable args id sc = Some v -> small v.
Proof.
  unfold lookup_variable. intros Hl.
  destruct (sc_local_args sc) as [la|] eqn:El.
  - destruct (Args.get fvalue la id) as [[r|]| |] eqn:Eg; try discriminate. intros [= ->]. eapply local_small; eassumption.
  - pose proof args_small as Has. destruct args as [a|]; [|discriminate].
    destruct (Args.get fvalue a id) as [[r|]| |] eqn:Eg; try discriminate. intros [= ->]. eapply Has; [reflexivity | exact Eg].
Qed.

Lemma lookup_variable_r_small id sc v : local_ok sc -> lookup_variable_r args id sc = Some v -> small v.
Proof.
  unfold lookup_variable_r. intros Hl.
  destruct (sc_local_args sc) as [la|] eqn:El.
  - destruct (Args.get fvalue la id) as [[r|]| |] eqn:Eg; try discriminate. intros [= ->]. eapply local_small; eassumption.
  - pose proof args_small as Has. destruct args as [a|]; [|discriminate].
    destruct (Args.get fvalue a id) as [[r|]| |] eqn:Eg; try discriminate. intros [= ->]. eapply Has; [reflexivity | exact Eg].
Qed.

Lemma missing_variable_local i sc sc' : missing_variable i sc = Done sc' -> sc_local_args sc' = sc_local_args sc.
Proof.
  unfold missing_variable. destruct (sc_local_args sc) eqn:E; [intros [= <-]; exact E|].
  destruct (reference_kind_of i); cbn; try discriminate. intros [= <-]. exact E.
Qed.

(* ---------- NUMBER ---------- *)
Definition omfd (o : noptions) : nat :=
  match o_minimum_fraction_digits o with Some m => N.to_nat m | None => 0 end.

Lemma merge_one_mfd o k v : omfd o <= Mb -> mfd_prop k v -> omfd (merge_one o k v) <= Mb.
Proof.
  intros Ho Hp. destruct o as [ty st cu cd ug mi mf xf ms xs]. unfold merge_one.
  destruct v as [s|n|c| |]; try exact Ho.
  - repeat (match goal with |- context [if ?c then _ else _] => destruct c end); exact Ho.
  - destruct (str_is "minimumIntegerDigits" k); [exact Ho|].
    destruct (str_is "minimumFractionDigits" k) eqn:Ek.
    + unfold omfd. cbn [o_minimum_fraction_digits]. specialize (Hp Ek). cbn in Hp. unfold Mb. lia.
    + repeat (match goal with |- context [if ?c then _ else _] => destruct c end); exact Ho.
Qed.

Lemma merge_mfd l : forall o, omfd o <= Mb -> Forall named_val_ok l -> omfd (merge o l) <= Mb.
Proof.
  unfold merge, iter. induction l as [|[k v] r IH]; intros o Ho Hl; cbn [fold_left]; [exact Ho|].
  inversion Hl as [|x l' Hx Hr]; subst. apply IH; [|exact Hr].
  apply merge_one_mfd; [exact Ho | exact (proj2 Hx)].
Qed.

Lemma NUMBER_small pos named : Forall numv_ok pos -> Forall named_val_ok named -> small (NUMBER pos named).
Proof.
  intros Hp Hn. unfold NUMBER. destruct pos as [|[s|n|c| |] rest]; cbn [small]; try exact Logic.I.
  inversion Hp as [|x l Hx Hr]; subst. cbn [numv_ok] in Hx. destruct Hx as [H1 H2].
  split; [exact H1|]. unfold mfdn. cbn [n_options n_value]. apply (merge_mfd named (n_options n)); [exact H2 | exact Hn].
Qed.

Lemma call_entry_small func pos named :
  Forall numv_ok pos -> Forall named_val_ok named -> small (call_entry call_function func pos named).
Proof.
  intros Hp Hn. destruct func as [|name]; cbn [call_entry].
  - apply NUMBER_small; assumption.
  - eapply size_small; [apply Hcall | exact Fb_Bb].
Qed.

(* ---------- the mutual invariant ---------- *)
Definition B_pw f := forall k p sc o sc', pw f k p sc = Done (o, sc') -> local_ok sc -> Forall atom_ok (at_pattern p) ->
  Forall tok_ok o /\ local_ok sc'.
Definition B_ew f := forall e sc o sc', ew f e sc = Done (o, sc') -> local_ok sc -> Forall atom_ok (at_expr e) ->
  Forall tok_ok o /\ local_ok sc'.
Definition B_iw f := forall i sc o sc', iw f i sc = Done (o, sc') -> local_ok sc -> Forall atom_ok (at_inline i) ->
  Forall tok_ok o /\ local_ok sc'.
Definition B_ir f := forall i sc v sc', ir f i sc = Done (v, sc') -> local_ok sc -> Forall atom_ok (at_inline i) ->
  numv_ok v /\ local_ok sc' /\ (small_src i = true -> small v).
Definition B_mt f := forall k p e sc o sc', mt f k p e sc = Done (o, sc') -> local_ok sc -> Forall atom_ok (at_expr e) ->
  Forall tok_ok o /\ local_ok sc'.
Definition B_tr f := forall k p exp sc o sc', tr f k p exp sc = Done (o, sc') -> local_ok sc -> In p (bundle_patterns b) ->
  length (inline_write_error exp) <= Lb -> Forall tok_ok o /\ local_ok sc'.
Definition B_ga f := forall oa sc pos named sc', ga f oa sc = Done (pos, named, sc') -> local_ok sc ->
  Forall atom_ok (at_oargs oa) -> Forall numv_ok pos /\ Forall named_val_ok named /\ local_ok sc'.
Definition B_all f := B_pw f /\ B_ew f /\ B_iw f /\ B_ir f /\ B_mt f /\ B_tr f /\ B_ga f.

(* ---------- loops ---------- *)
Lemma apply_transform_le s : length s <= Lb -> length (apply_transform transform s) <= Bb.
Proof.
  intros H. unfold apply_transform. destruct transform as [t|] eqn:E.
  - pose proof (Htrans t s eq_refl H). pose proof Fb_Bb. lia.
  - pose proof Lb_Bb. lia.
Qed.

Lemma pattern_loop_bytes f k p len :
  B_mt f -> forall els sc o sc',
  pattern_loop overflow_checks transform b (mt f k p) len els sc = Done (o, sc') ->
  local_ok sc -> Forall atom_ok (flat_map at_element els) ->
  Forall tok_ok o /\ local_ok sc'.
Proof.
  intros Hmt. induction els as [|elem rest IH]; intros sc o sc'; cbn [pattern_loop].
  - intros [= <- <-] Hl _. split; [constructor | exact Hl].
  - destruct (sc_dirty sc) eqn:Hd; [intros [= <- <-] Hl _; split; [constructor | exact Hl]|].
    cbn [flat_map]. intros H Hl Hat. apply Forall_app in Hat as [Hat1 Hat2].
    destruct elem as [value | expression].
    + apply obind_done in H as ([o1 s1] & E1 & H). injection H as <- <-.
      destruct (IH _ _ _ E1 Hl Hat2) as [T1 L1]. split; [|exact L1].
      constructor; [|exact T1]. apply tok_small, apply_transform_le.
      cbn [at_element] in Hat1. inversion Hat1 as [|x l Hx Hr]. exact Hx.
    + apply obind_done in H as (n & En & H).
      set (sc1 := set_placeables sc n) in *.
      assert (Hl1 : local_ok sc1) by (apply (local_same sc); [reflexivity | exact Hl]).
      destruct (N.ltb MAX_PLACEABLES (sc_placeables sc1)).
      * injection H as <- <-. split; [constructor|]. apply (local_same sc1); [reflexivity | exact Hl1].
      * apply obind_done in H as ([o1 s1] & E1 & H).
        apply obind_done in H as ([o2 s2] & E2 & H). injection H as <- <-.
        cbn [at_element] in Hat1.
        destruct (Hmt _ _ _ _ _ _ E1 Hl1 Hat1) as [T1 L1].
        destruct (IH _ _ _ E2 L1 Hat2) as [T2 L2].
        split; [|exact L2].
        destruct (b_use_isolating b && Nat.ltb 1 len && negb (isolation_exempt expression)).
        -- apply Forall_app; split; [repeat constructor; apply tok_fsi|].
           apply Forall_app; split; [exact T1|].
           apply Forall_app; split; [repeat constructor; apply tok_pdi | exact T2].
        -- cbn [app]. apply Forall_app; split; assumption.
Qed.

(* a named argument: its value is small; if it is minimumFractionDigits it is a literal <= K *)
Lemma ir_named f name i sc v sc' :
  B_ir f -> ir f i sc = Done (v, sc') -> local_ok sc -> Forall atom_ok (at_named (NamedArgument name i)) ->
  named_val_ok (name, v) /\ local_ok sc'.
Proof.
  intros Hir H Hl Hat. cbn [at_named] in Hat. inversion Hat as [|x l Hx Hr]; subst. cbn [atom_ok] in Hx.
  destruct Hx as [Hwf Hmfd].
  destruct (Hir _ _ _ _ H Hl Hr) as (_ & L1 & Hsm). split; [|exact L1].
  unfold named_wf in Hwf. unfold named_val_ok, mfd_prop. cbn [fst snd].
  destruct (str_is mfd_key name) eqn:Ek.
  - assert (Hsrc : small_src i = true) by (destruct i; try discriminate Hwf; reflexivity).
    split; [exact (Hsm Hsrc)|]. intros _.
    destruct f as [|f]; [discriminate|].
    destruct i as [value | value | | | | | ]; try discriminate Hwf.
    + rewrite ir_S_string in H. injection H as <- <-. exact Logic.I.
    + rewrite ir_S_number in H. injection H as <- <-.
      destruct (try_number f64_from_str value) as [s|n|c| |] eqn:Et; try exact Logic.I.
      exact (Hmfd eq_refl value n eq_refl Et).
  - split; [exact (Hsm Hwf) | discriminate].
Qed.

Lemma resolve_named_bytes f :
  B_ir f -> forall l sc vs sc',
  resolve_named (ir f) l sc = Done (vs, sc') -> local_ok sc -> Forall atom_ok (flat_map at_named l) ->
  Forall named_val_ok vs /\ local_ok sc'.
Proof.
  intros Hir. induction l as [|[name x] r IH]; intros sc vs sc'; cbn [resolve_named].
  - intros [= <- <-] Hl _. split; [constructor | exact Hl].
  - cbn [flat_map]. intros H Hl Hat. apply Forall_app in Hat as [Hat1 Hat2].
    apply obind_done in H as ([v1 s1] & E1 & H). apply obind_done in H as ([v2 s2] & E2 & H). injection H as <- <-.
    destruct (ir_named _ _ _ _ _ _ Hir E1 Hl Hat1) as [Hv L1].
    destruct (IH _ _ _ E2 L1 Hat2) as [Hvs L2].
    split; [constructor; assumption | exact L2].
Qed.

Lemma resolve_list_bytes f :
  B_ir f -> forall l sc vs sc',
  resolve_list (ir f) l sc = Done (vs, sc') -> local_ok sc -> Forall atom_ok (flat_map at_inline l) ->
  Forall numv_ok vs /\ local_ok sc'.
Proof.
  intros Hir. induction l as [|x r IH]; intros sc vs sc'; cbn [resolve_list].
  - intros [= <- <-] Hl _. split; [constructor | exact Hl].
  - cbn [flat_map]. intros H Hl Hat. apply Forall_app in Hat as [Hat1 Hat2].
    apply obind_done in H as ([v1 s1] & E1 & H). apply obind_done in H as ([v2 s2] & E2 & H). injection H as <- <-.
    destruct (Hir _ _ _ _ E1 Hl Hat1) as (V1 & L1 & _).
    destruct (IH _ _ _ E2 L1 Hat2) as [V2 L2].
    split; [constructor; assumption | exact L2].
Qed.

(* ---------- steps ---------- *)
Lemma at_pattern_elements els : at_pattern (Pattern els) = flat_map at_element els.
Proof. reflexivity. Qed.

Lemma bytes_pw f : B_mt f -> B_pw (S f).
Proof.
  intros Hmt k p sc o sc'. rewrite pw_S. intros H Hl Hat. destruct p as [els]. cbn [pattern_elements] in H.
  rewrite at_pattern_elements in Hat.
  exact (pattern_loop_bytes f k (Pattern els) (length els) Hmt _ _ _ _ H Hl Hat).
Qed.

Lemma bytes_mt f : B_ew f -> B_mt (S f).
Proof.
  intros Hew k p e sc o sc'. rewrite mt_S. cbv zeta. intros H Hl Hat.
  apply obind_done in H as ([o1 s1] & E1 & H).
  set (sc0 := match sc_travelled sc with [] => set_travelled sc [k] | _ :: _ => sc end) in *.
  assert (Hl0 : local_ok sc0) by (subst sc0; destruct (sc_travelled sc); exact Hl).
  destruct (Hew _ _ _ _ E1 Hl0 Hat) as [T1 L1].
  destruct (sc_dirty s1); injection H as <- <-; (split; [|exact L1]); [|exact T1].
  apply Forall_app; split; [exact T1 | apply braced_ok, expr_len, Hat].
Qed.

Lemma bytes_tr f : B_pw f -> B_tr (S f).
Proof.
  intros Hpw k p exp sc o sc'. rewrite tr_S. intros H Hl Hin Hlen.
  destruct (key_mem k (sc_travelled sc)).
  - injection H as <- <-. split; [apply braced_ok, Hlen | exact Hl].
  - cbv zeta in H. apply obind_done in H as ([o1 s1] & E1 & H). injection H as <- <-.
    destruct (Hpw _ _ _ _ _ E1) as [T1 L1]; [exact Hl | exact (HB p Hin) |].
    split; [exact T1 | exact L1].
Qed.

Lemma at_oargs_some pos named :
  at_oargs (Some (CallArguments pos named)) = flat_map at_inline pos ++ flat_map at_named named.
Proof. reflexivity. Qed.

Lemma bytes_ga f : B_ir f -> B_ga (S f).
Proof.
  intros Hir oa sc pos named sc'.
  destruct oa as [[positional nameds]|].
  - rewrite ga_S_some, at_oargs_some. intros H Hl Hat. apply Forall_app in Hat as [Hat1 Hat2].
    apply obind_done in H as ([v1 s1] & E1 & H). apply obind_done in H as ([v2 s2] & E2 & H).
    apply obind_done in H as (a & Ea & H). injection H as <- <- <-.
    destruct (resolve_list_bytes f Hir _ _ _ _ E1 Hl Hat1) as [V1 L1].
    destruct (resolve_named_bytes f Hir _ _ _ _ E2 L1 Hat2) as [V2 L2].
    split; [exact V1|]. split; [|exact L2]. eapply from_iter_Forall; eassumption.
  - rewrite ga_S_none. intros [= <- <- <-] Hl _. split; [constructor|]. split; [constructor | exact Hl].
Qed.

Lemma bytes_ew f : B_pw f -> B_iw f -> B_ir f -> B_ew (S f).
Proof.
  intros Hpw Hiw Hir e sc o sc'.
  destruct e as [selector variants | exp]; [rewrite ew_S_select | rewrite ew_S_inline; apply Hiw].
  cbn [at_expr]. intros H Hl Hat. apply Forall_app in Hat as [Hat1 Hat2].
  apply obind_done in H as ([sel s1] & E1 & H).
  apply obind_done in H as ([hit s2] & E2 & H).
  destruct (Hir _ _ _ _ E1 Hl Hat1) as (_ & L1 & _).
  assert (Hfind : sc_local_args s2 = sc_local_args s1 /\ (forall p, hit = Some p -> exists k d, In (Variant k p d) variants)).
  { destruct sel; try (injection E2 as <- <-; split; [reflexivity | discriminate]);
      eapply find_variant_local; exact E2. }
  destruct Hfind as [A2 Hin].
  assert (L2 : local_ok s2) by (apply (local_same s1); assumption).
  destruct hit as [value|].
  - destruct (Hin value eq_refl) as (k & d & Hv). eapply Hpw; [exact H | exact L2 | eapply variant_atoms; eassumption].
  - destruct (find_default variants) as [value|] eqn:Ed.
    + destruct (find_default_in _ _ Ed) as (k & d & Hv).
      eapply Hpw; [exact H | exact L2 | eapply variant_atoms; eassumption].
    + injection H as <- <-. split; [constructor | exact L2].
Qed.

Lemma bytes_ir f : B_iw f -> B_ga f -> B_ir (S f).
Proof.
  intros Hiw Hga i sc v sc'.
  assert (Hgen : small_src i = false ->
                 resolve_by_write overflow_checks call_function transform formatter rules custom_as_string
                   unescape_write unescape_to_string f64_from_str b args f i sc = Done (v, sc') ->
                 local_ok sc -> Forall atom_ok (at_inline i) ->
                 numv_ok v /\ local_ok sc' /\ (small_src i = true -> small v)).
  { unfold resolve_by_write. intros Hsrc H Hl Hat. apply obind_done in H as ([o1 s1] & E1 & H). injection H as <- <-.
    split; [exact Logic.I|]. split; [exact (proj2 (Hiw _ _ _ _ E1 Hl Hat)) | rewrite Hsrc; discriminate]. }
  destruct i as [value | value | id arguments | id attribute | id attribute arguments | id | expression].
  - rewrite ir_S_string. intros [= <- <-] Hl Hat. split; [exact Logic.I|]. split; [exact Hl|]. intros _.
    cbn [small]. pose proof (Huns value (node_len _ Hat)). pose proof Fb_Bb. lia.
  - rewrite ir_S_number. intros [= <- <-] Hl Hat.
    pose proof (try_number_small value (node_len _ Hat)) as Hs.
    split; [apply small_numv, Hs|]. split; [exact Hl | intros _; exact Hs].
  - rewrite ir_S_function. intros H Hl Hat. apply obind_done in H as ([[pos named] s1] & E1 & H).
    assert (Hat' : Forall atom_ok (at_oargs (Some arguments))).
    { destruct arguments as [ps ns]. cbn [at_inline] in Hat. inversion Hat as [|x l Hx Hr]. exact Hr. }
    destruct (Hga (Some arguments) _ _ _ _ E1 Hl Hat') as (V1 & V2 & L1).
    destruct (get_entry_function b id) as [func|].
    + injection H as <- <-. pose proof (call_entry_small func pos named V1 V2) as Hs.
      split; [apply small_numv, Hs|]. split; [|intros _; exact Hs].
      apply (local_same s1); [reflexivity | exact L1].
    + cbn in H. injection H as <- <-. split; [exact Logic.I|]. split; [|intros _; exact Logic.I].
      apply (local_same s1); [reflexivity | exact L1].
  - rewrite ir_S_message. apply Hgen. reflexivity.
  - rewrite ir_S_term. apply Hgen. reflexivity.
  - rewrite ir_S_variable. intros H Hl _.
    destruct (lookup_variable_r args id sc) as [arg|] eqn:El.
    + injection H as <- <-. pose proof (lookup_variable_r_small _ _ _ Hl El) as Hs.
      split; [apply small_numv, Hs|]. split; [exact Hl | intros _; exact Hs].
    + apply obind_done in H as (s1 & E1 & H). injection H as <- <-. split; [exact Logic.I|].
      split; [|intros _; exact Logic.I].
      apply (local_same sc); [eapply missing_variable_local, E1 | exact Hl].
  - rewrite ir_S_placeable. apply Hgen. reflexivity.
Qed.

Lemma term_body_bytes f id attribute exp sc o sc' :
  B_tr f ->
  term_body overflow_checks call_function transform formatter rules custom_as_string
    unescape_write unescape_to_string f64_from_str b args f id attribute exp sc = Done (o, sc') ->
  local_ok sc -> length (inline_write_error exp) <= Lb -> Forall tok_ok o /\ local_ok sc'.
Proof.
  intros Htr. unfold term_body. intros H Hl Hlen.
  destruct (get_entry_term b id) as [[value attributes]|] eqn:Eg; [|eapply write_ref_error_bytes; eassumption].
  destruct attribute as [attr|].
  - destruct (find_attribute attributes attr) as [v|] eqn:Ea; [|eapply write_ref_error_bytes; eassumption].
    eapply Htr; [exact H | exact Hl | | exact Hlen]. eapply term_attr_in; eassumption.
  - eapply Htr; [exact H | exact Hl | | exact Hlen]. eapply term_value_in; eassumption.
Qed.

Lemma bytes_iw f : B_ew f -> B_tr f -> B_ga f -> B_iw (S f).
Proof.
  intros Hew Htr Hga i sc o sc'.
  destruct i as [value | value | id arguments | id attribute | id attribute arguments | id | expression].
  - rewrite iw_S_string. intros [= <- <-] Hl Hat. split; [|exact Hl].
    constructor; [|constructor]. apply tok_small. pose proof (Hunw value (node_len _ Hat)). pose proof Fb_Bb. lia.
  - rewrite iw_S_number. intros [= <- <-] Hl Hat. split; [|exact Hl].
    constructor; [|constructor]. apply tok_txt, value_write_small, try_number_small. exact (node_len _ Hat).
  - rewrite iw_S_function. intros H Hl Hat. apply obind_done in H as ([[pos named] s1] & E1 & H).
    pose proof (node_len _ Hat) as Hlen.
    assert (Hat' : Forall atom_ok (at_oargs (Some arguments))).
    { destruct arguments as [ps ns]. cbn [at_inline] in Hat. inversion Hat as [|x l Hx Hr]. exact Hr. }
    destruct (Hga (Some arguments) _ _ _ _ E1 Hl Hat') as (V1 & V2 & L1).
    destruct (get_entry_function b id) as [func|].
    + cbv zeta in H. pose proof (call_entry_small func pos named V1 V2) as Hs.
      assert (L2 : local_ok (log_call s1 (Call id pos named))) by (apply (local_same s1); [reflexivity | exact L1]).
      destruct (call_entry call_function func pos named) eqn:Ec; injection H as <- <-; (split; [|exact L2]);
        (constructor; [|constructor]); try (apply tok_txt, value_into_string_small, Hs).
      apply tok_small. eapply Nat.le_trans; [exact Hlen | exact Lb_Bb].
    + eapply write_ref_error_bytes; eassumption.
  - rewrite iw_S_message. intros H Hl Hat. pose proof (node_len _ Hat) as Hlen.
    destruct (get_entry_message b id) as [[value attributes]|] eqn:Eg; [|eapply write_ref_error_bytes; eassumption].
    destruct attribute as [attr|].
    + destruct (find_attribute attributes attr) as [v|] eqn:Ea; [|eapply write_ref_error_bytes; eassumption].
      eapply Htr; [exact H | exact Hl | | exact Hlen]. eapply message_attr_in; eassumption.
    + destruct value as [v|].
      * eapply Htr; [exact H | exact Hl | | exact Hlen]. eapply message_value_in; eassumption.
      * injection H as <- <-. split; [apply braced_ok, Hlen | exact Hl].
  - rewrite iw_S_term. intros H Hl Hat. pose proof (node_len _ Hat) as Hlen.
    apply obind_done in H as ([[pos named] s1] & E1 & H).
    cbv zeta in H. apply obind_done in H as ([o1 s2] & E2 & H). injection H as <- <-.
    assert (Hat' : Forall atom_ok (at_oargs arguments)).
    { destruct arguments as [[ps ns]|]; [|constructor]. cbn [at_inline] in Hat. inversion Hat as [|x l Hx Hr]. exact Hr. }
    destruct (Hga arguments _ _ _ _ E1 Hl Hat') as (V1 & V2 & L1).
    assert (L1' : local_ok (set_local_args s1 (Some named))).
    { intros la [= <-]. eapply Forall_impl; [|exact V2]. intros kv Hkv. exact (proj1 Hkv). }
    destruct (term_body_bytes f id attribute _ _ _ _ Htr E2 L1' Hlen) as [T2 L2].
    split; [exact T2|]. intros la Ela. cbn [sc_local_args set_local_args] in Ela. exact (L1 la Ela).
  - rewrite iw_S_variable. intros H Hl Hat. pose proof (node_len _ Hat) as Hlen.
    destruct (lookup_variable args id sc) as [arg|] eqn:El.
    + injection H as <- <-. split; [|exact Hl]. constructor; [|constructor].
      eapply tok_txt, value_write_small, lookup_variable_small; eassumption.
    + apply obind_done in H as (s1 & E1 & H). injection H as <- <-.
      split; [apply braced_ok, Hlen|]. apply (local_same sc); [eapply missing_variable_local, E1 | exact Hl].
  - rewrite iw_S_placeable. intros H Hl Hat. cbn [at_inline] in Hat. inversion Hat as [|x l Hx Hr]; subst.
    eapply Hew; eassumption.
Qed.

Theorem bytes_all : forall f, B_all f.
Proof.
  induction f as [|f (Hpw & Hew & Hiw & Hir & Hmt & Htr & Hga)].
  - unfold B_all, B_pw, B_ew, B_iw, B_ir, B_mt, B_tr, B_ga. repeat split; intros; discriminate.
  - refine (conj _ (conj _ (conj _ (conj _ (conj _ (conj _ _)))))).
    + apply bytes_pw; assumption.
    + apply bytes_ew; assumption.
    + apply bytes_iw; assumption.
    + apply bytes_ir; assumption.
    + apply bytes_mt; assumption.
    + apply bytes_tr; assumption.
    + apply bytes_ga; assumption.
Qed.

(* ---------- the entry points ---------- *)
(* every piece written has at most Wb bytes *)
Theorem write_pattern_tokens fuel top p c o sc' :
  write_pattern overflow_checks call_function transform formatter rules custom_as_string
    unescape_write unescape_to_string f64_from_str b args fuel top p c = Done (o, sc') ->
  Forall atom_ok (at_pattern p) ->
  Forall (fun t => length (token_bytes t) <= Wb) o.
Proof.
  unfold write_pattern. intros H Hat.
  destruct (bytes_all fuel) as (Hpw & _).
  assert (Hl : local_ok (scope_new c)) by (intros la; discriminate).
  exact (proj1 (Hpw _ _ _ _ _ H Hl Hat)).
Qed.

End Bytes.

(* ---------- from the measures of the inputs to the atom-wise premises ---------- *)
Lemma atoms_ok_of_measures f64_from_str b p Lb Kb :
  strings_max b p <= Lb -> named_args_ok b p = true -> (mfd_max f64_from_str b p <= Kb)%N ->
  Forall (atom_ok f64_from_str Lb Kb) (input_atoms b p).
Proof.
  unfold strings_max, named_args_ok, mfd_max. intros HL Hlit HK. apply Forall_forall. intros a Hin.
  pose proof (list_max_map_in atom_len _ _ Hin) as H1.
  pose proof (listN_max_map_in (atom_mfd f64_from_str) _ _ Hin) as H2.
  rewrite forallb_forall in Hlit. specialize (Hlit _ Hin).
  destruct a as [s|i|[name v]]; cbn [atom_ok atom_len atom_wf] in *; [lia | lia |].
  split; [exact Hlit|]. intros Hk s n -> Et. cbn [atom_mfd] in H2. rewrite Hk, Et in H2. lia.
Qed.

Lemma input_atoms_split (P : atom -> Prop) b p :
  Forall P (input_atoms b p) ->
  Forall P (at_pattern p) /\ (forall q, In q (bundle_patterns b) -> Forall P (at_pattern q)).
Proof.
  unfold input_atoms. intros H. apply Forall_app in H as [H1 H2]. split; [exact H1|].
  apply Forall_flat_map in H2. rewrite Forall_forall in H2. exact H2.
Qed.

(* (c) every output of external code is bounded by F (transform, unescape and the float parser:
   on inputs of at most L bytes, the only ones they are given; a function result by its printed
   size val_size, which for a custom value is what custom_as_string prints) *)
Definition external_bounded (call_function : bytes -> list fvalue -> fargs -> fvalue)
  (transform : option (bytes -> bytes)) (formatter : option (fvalue -> option bytes))
  (custom_as_string unescape_write unescape_to_string : bytes -> bytes) (f64_from_str : bytes -> option fval)
  (Lb Fb : nat) : Prop :=
  (forall name pos named, val_size custom_as_string (call_function name pos named) <= Fb) /\
  (forall fm v s, formatter = Some fm -> fm v = Some s -> length s <= Fb) /\
  (forall t s, transform = Some t -> length s <= Lb -> length (t s) <= Fb) /\
  (forall s, length s <= Lb -> length (unescape_write s) <= Fb) /\
  (forall s, length s <= Lb -> length (unescape_to_string s) <= Fb) /\
  (forall s v, length s <= Lb -> f64_from_str s = Some v -> length (fval_to_string v) <= Fb).

(* the total number of pieces, ResolverBounds.v *)
Definition pieces (C : nat) : nat := C + (N.to_nat MAX_PLACEABLES + 1) * (C + 8).

Section BytesTotal.
Variable overflow_checks : bool.
Variable call_function : bytes -> list fvalue -> fargs -> fvalue.
Variable transform : option (bytes -> bytes).
Variable formatter : option (fvalue -> option bytes).
Variable rules : ntype -> rules_fn.
Variable custom_as_string : bytes -> bytes.
Variable unescape_write : bytes -> bytes.
Variable unescape_to_string : bytes -> bytes.
Variable f64_from_str : bytes -> option fval.
Variable b : bundle.
Variable args : option fargs.
Variable p : pattern.
Variable Lb Ab Fb : nat.
Variable Kb : N.
Variable C : nat.
Hypothesis Hlit : named_args_ok b p = true.
Hypothesis HL : strings_max b p <= Lb.
Hypothesis HK : (mfd_max f64_from_str b p <= Kb)%N.
Hypothesis HA : args_size custom_as_string args <= Ab.
Hypothesis HF : external_bounded call_function transform formatter custom_as_string unescape_write unescape_to_string
                  f64_from_str Lb Fb.
Hypothesis HC : forall q, In q (bundle_patterns b) -> sz_pattern q <= C.
Hypothesis Hp : sz_pattern p <= C.

Theorem write_pattern_bytes fuel top c o sc' :
  write_pattern overflow_checks call_function transform formatter rules custom_as_string
    unescape_write unescape_to_string f64_from_str b args fuel top p c = Done (o, sc') ->
  length (flatten o) <= Wb Lb Ab Fb Kb * pieces C.
Proof.
  intros H.
  destruct (input_atoms_split _ _ _ (atoms_ok_of_measures f64_from_str b p Lb Kb HL Hlit HK)) as [Hatp Hatb].
  destruct HF as (H1 & H2 & H3 & H5 & H6 & H7).
  pose proof (write_pattern_tokens overflow_checks call_function transform formatter rules custom_as_string
                unescape_write unescape_to_string f64_from_str b args Lb Ab Fb Kb Hatb HA H1 H2 H3 H5 H6 H7
                fuel top p c o sc' H Hatp) as Htok.
  pose proof (write_pattern_bounds overflow_checks call_function transform formatter rules custom_as_string
                unescape_write unescape_to_string f64_from_str b args C HC fuel top p c o sc' H Hp) as [_ Hn].
  pose proof (flatten_length_le _ _ Htok) as Hb.
  eapply Nat.le_trans; [exact Hb|]. apply Nat.mul_le_mono_l. exact Hn.
Qed.

Theorem format_pattern_bytes fuel top c text sc' :
  format_pattern overflow_checks call_function transform formatter rules custom_as_string
    unescape_write unescape_to_string f64_from_str b args fuel top p c = Done (text, sc') ->
  length text <= Wb Lb Ab Fb Kb * pieces C.
Proof.
  unfold format_pattern. rewrite pr_S. intros H.
  assert (Hgen : forall v sc0,
             (let* (o, sc1) := pattern_write overflow_checks call_function transform formatter rules custom_as_string
                                 unescape_write unescape_to_string f64_from_str b args fuel top p (scope_new c) in
              Done (VString (flatten o), sc1)) = Done (v, sc0) ->
             exists o, v = VString (flatten o) /\ length (flatten o) <= Wb Lb Ab Fb Kb * pieces C).
  { intros v sc0 E. apply obind_done in E as ([o s1] & E1 & E). injection E as <- <-.
    exists o. split; [reflexivity|]. eapply (write_pattern_bytes fuel top c o s1). exact E1. }
  apply obind_done in H as ([v s0] & E & H). injection H as <- <-.
  destruct p as [els] eqn:Ep. cbn [pattern_elements] in E.
  destruct els as [|[v'|e] [|x r]]; try (destruct (Hgen _ _ E) as (o & -> & Ho); exact Ho).
  injection E as <- <-.
  destruct (input_atoms_split _ _ _ (atoms_ok_of_measures f64_from_str b _ Lb Kb HL Hlit HK)) as [Hatp _].
  cbn [at_pattern flat_map app] in Hatp. inversion Hatp as [|a l Ha Hr]; subst. cbn [atom_ok] in Ha.
  destruct HF as (_ & _ & H3 & _).
  assert (Hle : length (apply_transform transform v') <= Wb Lb Ab Fb Kb).
  { unfold apply_transform, Wb, Bb. destruct transform as [t|]; [pose proof (H3 t v' eq_refl Ha)|]; lia. }
  unfold pieces. eapply Nat.le_trans; [exact Hle|].
  rewrite <- (Nat.mul_1_r (Wb Lb Ab Fb Kb)) at 1. apply Nat.mul_le_mono_l. lia.
Qed.

End BytesTotal.

(* ---------- the exact-decimal float parser prints what it read (plus a leading 0) ---------- *)
Lemma mk_dec_print neg i f :
  length (fval_to_string (mk_dec neg i f)) <=
  (if neg then 1 else 0) + Nat.max 1 (length i) + match f with [] => 0 | _ => 1 + length f end.
Proof.
  unfold mk_dec. cbn [fval_to_string]. rewrite !app_length.
  pose proof (strip_leading_zeros_length i) as Hi. pose proof (trim_end_zeros_length f) as Hf.
  assert (H1 : length (if neg then [45%N] else []) = if neg then 1 else 0) by (destruct neg; reflexivity).
  assert (H2 : length (match strip_leading_zeros i with [] => [48%N] | _ :: _ => strip_leading_zeros i end)
               <= Nat.max 1 (length i)).
  { destruct (strip_leading_zeros i); cbn [length] in *; lia. }
  assert (H3 : length (match trim_end_zeros f with [] => [] | _ :: _ => 46%N :: trim_end_zeros f end)
               <= match f with [] => 0 | _ => 1 + length f end).
  { destruct f as [|c r]; [reflexivity|]. destruct (trim_end_zeros (c :: r)); cbn [length] in *; lia. }
  rewrite Nat.add_assoc. repeat apply Nat.add_le_mono; [rewrite H1; apply le_n | exact H2 | exact H3].
Qed.

Theorem f64_from_str_exact_prints_short s v :
  f64_from_str_exact s = Some v -> length (fval_to_string v) <= length s + 1.
Proof.
  unfold f64_from_str_exact. intros H.
  destruct (split_sign s) as [neg body] eqn:Es.
  assert (Hb : length body + (if neg then 1 else 0) <= length s).
  { unfold split_sign in Es. destruct s as [|c r]; [injection Es as <- <-; reflexivity|].
    destruct c as [|q]; [injection Es as <- <-; cbn [length]; lia|].
    do 6 (destruct q as [q|q|]; try (injection Es as <- <-; cbn [length]; lia)). }
  destruct (span_digits body) as [i rest] eqn:Ei.
  destruct (span_digits_spec _ _ _ Ei) as [Hi Hbody].
  assert (Li : length i + length rest = length body) by (rewrite Hbody, app_length; reflexivity).
  destruct rest as [|c rest'].
  - destruct i as [|d i']; [discriminate|]. injection H as <-.
    pose proof (mk_dec_print neg (d :: i') []) as Hm. cbn [length] in *. lia.
  - destruct c as [|q]; [discriminate|].
    do 6 (destruct q as [q|q|]; try discriminate).
    destruct (span_digits rest') as [f rest''] eqn:Ef.
    destruct (span_digits_spec _ _ _ Ef) as [Hf Hrest].
    destruct rest''; [|discriminate].
    assert (Lf : length f = length rest') by (rewrite Hrest, app_length; cbn [length]; lia).
    assert (Hv : v = mk_dec neg i f) by (destruct i, f; try discriminate; injection H as <-; reflexivity).
    subst v. pose proof (mk_dec_print neg i f) as Hm. cbn [length] in Li.
    destruct i as [|d i']; destruct f as [|e f']; try discriminate; cbn [length] in *; lia.
Qed.

(* checking the premise on C (ResolverBounds.v) of a concrete bundle by computation *)
Lemma sz_bound_check b C :
  forallb (fun q => Nat.leb (sz_pattern q) C) (bundle_patterns b) = true ->
  forall q, In q (bundle_patterns b) -> sz_pattern q <= C.
Proof. intros H q Hq. rewrite forallb_forall in H. apply Nat.leb_le, H, Hq. Qed.

(* what the grammar allows (every named argument a literal) implies the premise *)
Lemma named_literals_ok b p : named_literals b p = true -> named_args_ok b p = true.
Proof.
  unfold named_literals, named_args_ok. rewrite !forallb_forall. intros H a Ha. specialize (H a Ha).
  destruct a as [s|i|[name v]]; cbn [atom_wf atom_literal] in *; try reflexivity.
  unfold named_wf. destruct (str_is mfd_key name); [exact H|].
  destruct v; try discriminate H; reflexivity.
Qed.

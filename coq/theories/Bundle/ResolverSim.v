(* Bundle/ResolverSim.v — simulation between two runs of the resolver that differ only in the
   bundle's `use_isolating` flag and/or in what the bundle's memoizer (`intls`) holds when the
   call starts.  One induction on fuel gives both
     C09_strip        (isolation on vs off: outputs equal after removing the FSI/PDI tokens, same
                       errors, same function calls), and
     C08_cache_indep  (same flag, two memoizer states: identical results).

   When the flags differ the simulation needs that no value resolved in selector or call-argument
   position comes from a pattern (message/term reference or nested placeable): such a value would
   contain the marks as bytes and is compared / handed to functions (finding D23).  `ok_*` is that
   restriction; with equal flags nothing is assumed.                                           *)
From FluentV Require Import Base.Bytes Base.BytesFacts Base.Outcome Syntax.Ast Bundle.Args Bundle.ArgsProofs
  Bundle.Number Bundle.ResolverAst Bundle.ResolverAstProofs Bundle.ResolverModel Bundle.ResolverEqns
  Gen.Extracted.
From Coq Require Import Lia.

Arguments N.add : simpl never.
Arguments N.sub : simpl never.
Arguments N.pow : simpl never.
Arguments N.eqb : simpl never.
Arguments N.ltb : simpl never.
Arguments N.leb : simpl never.

(* ---------- the syntactic restriction (only used when the isolation flags differ) ---------- *)
(* rs_*: allowed where a VALUE is needed (selector, call argument): literals, variables, function
   calls on such; ok_*: every selector / call argument inside is rs. *)
Fixpoint rs_inline (i : inline) : bool :=
  match i with
  | StringLiteral _ | NumberLiteral _ | VariableReference _ => true
  | FunctionReference _ (CallArguments pos named) =>
      forallb rs_inline pos && forallb (fun n => match n with NamedArgument _ v => rs_inline v end) named
  | _ => false
  end.

Definition rs_args (a : call_args) : bool :=
  match a with
  | CallArguments pos named =>
      forallb rs_inline pos && forallb (fun n => match n with NamedArgument _ v => rs_inline v end) named
  end.
Definition rs_oargs (a : option call_args) : bool := match a with Some a' => rs_args a' | None => true end.

Fixpoint ok_inline (i : inline) : bool :=
  match i with
  | StringLiteral _ | NumberLiteral _ | VariableReference _ | MessageReference _ _ => true
  | TermReference _ _ a => rs_oargs a
  | FunctionReference _ a => rs_args a
  | Placeable e => ok_expr e
  end
with ok_expr (e : expression) : bool :=
  match e with
  | Inline i => ok_inline i
  | Select s vs => rs_inline s && forallb (fun v => match v with Variant _ p _ => ok_pattern p end) vs
  end
with ok_pattern (p : pattern) : bool :=
  match p with
  | Pattern els => forallb (fun x => match x with TextElement _ => true | PlaceableElement e => ok_expr e end) els
  end.

Definition ok_element (x : pattern_element) : bool :=
  match x with TextElement _ => true | PlaceableElement e => ok_expr e end.
Definition ok_variant (v : variant) : bool := match v with Variant _ p _ => ok_pattern p end.
Definition rs_named (n : named_arg) : bool := match n with NamedArgument _ v => rs_inline v end.

(* ---------- relations ---------- *)
Definition is_text (t : otoken) : bool := match t with Txt _ => true | _ => false end.
(* remove the isolation marks *)
Definition strip (o : list otoken) : list otoken := filter is_text o.

Lemma strip_app a c : strip (a ++ c) = strip a ++ strip c.
Proof. apply filter_app. Qed.

Definition rel_out {X} (R : X -> X -> Prop) (r1 r2 : outcome X) : Prop :=
  match r1, r2 with
  | Done x, Done y => R x y
  | Panic a, Panic c => a = c
  | OutOfFuel, OutOfFuel => True
  | _, _ => False
  end.

Lemma rel_bind {X Y} (R : X -> X -> Prop) (R' : Y -> Y -> Prop) r1 r2 k1 k2 :
  rel_out R r1 r2 -> (forall x y, R x y -> rel_out R' (k1 x) (k2 y)) ->
  rel_out R' (obind r1 k1) (obind r2 k2).
Proof. destruct r1, r2; cbn; try tauto; auto. Qed.

Lemma rel_same {X} (R : X -> X -> Prop) r : (forall x, R x x) -> rel_out R r r.
Proof. destruct r; cbn; auto. Qed.

(* the scope without the memoizer *)
Definition erase (sc : scope) : scope := set_intls sc [].

Section Sim.
Variable overflow_checks : bool.
Variable call_function : bytes -> list fvalue -> fargs -> fvalue.
Variable transform : option (bytes -> bytes).
Variable formatter : option (fvalue -> option bytes).
Variable rules : ntype -> rules_fn.
Variable custom_as_string : bytes -> bytes.
Variable unescape_write : bytes -> bytes.
Variable unescape_to_string : bytes -> bytes.
Variable f64_from_str : bytes -> option fval.
Variable m : list (bytes * bentry).
Variables iso1 iso2 : bool.
Variable args : option fargs.

Definition b1 := Bundle m iso1.
Definition b2 := Bundle m iso2.
Definition G : Prop := iso1 = iso2.

Hypothesis HG : G \/ forall p, In p (bundle_patterns b1) -> ok_pattern p = true.

(* every cached rules object computes what a freshly constructed one computes *)
Definition cache_ok (c : intl_cache) : Prop :=
  forall ty r, cache_find c ty = Some r -> forall ops, r ops = rules ty ops.

Definition Rs (sc1 sc2 : scope) : Prop :=
  erase sc1 = erase sc2 /\ cache_ok (sc_intls sc1) /\ cache_ok (sc_intls sc2).
Definition Ro (o1 o2 : list otoken) : Prop := strip o1 = strip o2 /\ (G -> o1 = o2).

Definition RR : result -> result -> Prop :=
  rel_out (fun x y => Ro (fst x) (fst y) /\ Rs (snd x) (snd y)).
Definition RV : outcome (fvalue * scope) -> outcome (fvalue * scope) -> Prop :=
  rel_out (fun x y => fst x = fst y /\ Rs (snd x) (snd y)).
Definition RA : outcome (list fvalue * fargs * scope) -> outcome (list fvalue * fargs * scope) -> Prop :=
  rel_out (fun x y => fst x = fst y /\ Rs (snd x) (snd y)).

Notation pw1 := (pattern_write overflow_checks call_function transform formatter rules custom_as_string
                   unescape_write unescape_to_string f64_from_str b1 args).
Notation pw2 := (pattern_write overflow_checks call_function transform formatter rules custom_as_string
                   unescape_write unescape_to_string f64_from_str b2 args).
Notation ew1 := (expression_write overflow_checks call_function transform formatter rules custom_as_string
                   unescape_write unescape_to_string f64_from_str b1 args).
Notation ew2 := (expression_write overflow_checks call_function transform formatter rules custom_as_string
                   unescape_write unescape_to_string f64_from_str b2 args).
Notation iw1 := (inline_write overflow_checks call_function transform formatter rules custom_as_string
                   unescape_write unescape_to_string f64_from_str b1 args).
Notation iw2 := (inline_write overflow_checks call_function transform formatter rules custom_as_string
                   unescape_write unescape_to_string f64_from_str b2 args).
Notation ir1 := (inline_resolve overflow_checks call_function transform formatter rules custom_as_string
                   unescape_write unescape_to_string f64_from_str b1 args).
Notation ir2 := (inline_resolve overflow_checks call_function transform formatter rules custom_as_string
                   unescape_write unescape_to_string f64_from_str b2 args).
Notation mt1 := (maybe_track overflow_checks call_function transform formatter rules custom_as_string
                   unescape_write unescape_to_string f64_from_str b1 args).
Notation mt2 := (maybe_track overflow_checks call_function transform formatter rules custom_as_string
                   unescape_write unescape_to_string f64_from_str b2 args).
Notation tr1 := (track overflow_checks call_function transform formatter rules custom_as_string
                   unescape_write unescape_to_string f64_from_str b1 args).
Notation tr2 := (track overflow_checks call_function transform formatter rules custom_as_string
                   unescape_write unescape_to_string f64_from_str b2 args).
Notation ga1 := (get_arguments overflow_checks call_function transform formatter rules custom_as_string
                   unescape_write unescape_to_string f64_from_str b1 args).
Notation ga2 := (get_arguments overflow_checks call_function transform formatter rules custom_as_string
                   unescape_write unescape_to_string f64_from_str b2 args).

(* ---------- Rs: field equalities and preservation ---------- *)
Lemma Rs_fields sc1 sc2 :
  Rs sc1 sc2 ->
  sc_placeables sc1 = sc_placeables sc2 /\ sc_dirty sc1 = sc_dirty sc2 /\
  sc_travelled sc1 = sc_travelled sc2 /\ sc_local_args sc1 = sc_local_args sc2 /\
  sc_errors sc1 = sc_errors sc2 /\ sc_calls sc1 = sc_calls sc2.
Proof.
  intros [E _]. unfold erase, set_intls in E. injection E. auto 10.
Qed.

Lemma Rs_refl sc : cache_ok (sc_intls sc) -> Rs sc sc.
Proof. intros H. split; [reflexivity | split; exact H]. Qed.

(* an update that neither reads nor writes the memoizer *)
Definition pure_update (u : scope -> scope) : Prop :=
  forall sc, erase (u sc) = u (erase sc) /\ sc_intls (u sc) = sc_intls sc.

Lemma Rs_update u sc1 sc2 : pure_update u -> Rs sc1 sc2 -> Rs (u sc1) (u sc2).
Proof.
  intros Hu (E & C1 & C2). destruct (Hu sc1) as [E1 I1]. destruct (Hu sc2) as [E2 I2].
  split; [rewrite E1, E2, E; reflexivity | rewrite I1, I2; split; assumption].
Qed.

Lemma pu_add_error e : pure_update (fun sc => add_error sc e).
Proof. intros sc. split; reflexivity. Qed.
Lemma pu_set_placeables n : pure_update (fun sc => set_placeables sc n).
Proof. intros sc. split; reflexivity. Qed.
Lemma pu_set_dirty d : pure_update (fun sc => set_dirty sc d).
Proof. intros sc. split; reflexivity. Qed.
Lemma pu_set_travelled t : pure_update (fun sc => set_travelled sc t).
Proof. intros sc. split; reflexivity. Qed.
Lemma pu_set_local_args a : pure_update (fun sc => set_local_args sc a).
Proof. intros sc. split; reflexivity. Qed.
Lemma pu_log_call c : pure_update (fun sc => log_call sc c).
Proof. intros sc. split; reflexivity. Qed.
Lemma pu_comp u v : pure_update u -> pure_update v -> pure_update (fun sc => u (v sc)).
Proof.
  intros Hu Hv sc. destruct (Hv sc) as [E1 I1]. destruct (Hu (v sc)) as [E2 I2].
  split; [rewrite E2, E1; reflexivity | congruence].
Qed.

Lemma Ro_nil : Ro [] [].
Proof. split; reflexivity || auto. Qed.
Lemma Ro_refl o : Ro o o.
Proof. split; reflexivity || auto. Qed.
Lemma Ro_app a1 a2 c1 c2 : Ro a1 a2 -> Ro c1 c2 -> Ro (a1 ++ c1) (a2 ++ c2).
Proof.
  intros [S1 E1] [S2 E2]. split; [rewrite !strip_app; congruence|].
  intros g. rewrite (E1 g), (E2 g). reflexivity.
Qed.
Lemma Ro_cons t o1 o2 : Ro o1 o2 -> Ro (t :: o1) (t :: o2).
Proof. intros H. apply (Ro_app [t] [t]); [apply Ro_refl | exact H]. Qed.

Lemma RR_done o1 o2 sc1 sc2 : Ro o1 o2 -> Rs sc1 sc2 -> RR (Done (o1, sc1)) (Done (o2, sc2)).
Proof. intros; split; assumption. Qed.

(* ---------- the memoizer ---------- *)
Lemma with_try_get_ok c ty :
  cache_ok c ->
  (forall ops, fst (with_try_get rules c ty) ops = rules ty ops) /\ cache_ok (snd (with_try_get rules c ty)).
Proof.
  intros Hc. unfold with_try_get. destruct (cache_find c ty) as [r|] eqn:E; cbn [fst snd].
  - split; [apply (Hc ty r E) | exact Hc].
  - split; [reflexivity|]. intros ty' r'. cbn [cache_find].
    destruct (ntype_eqb ty ty') eqn:Et.
    + intros [= <-] ops. destruct ty, ty'; try discriminate; reflexivity.
    + apply Hc.
Qed.

Definition RB : outcome (bool * scope) -> outcome (bool * scope) -> Prop :=
  rel_out (fun x y => fst x = fst y /\ Rs (snd x) (snd y)).

Lemma value_matches_rel self other sc1 sc2 :
  Rs sc1 sc2 -> RB (value_matches rules self other sc1) (value_matches rules self other sc2).
Proof.
  intros R. unfold value_matches.
  destruct self as [a|a|c| |]; try (cbn; split; [reflexivity | exact R]).
  - destruct other as [b'|b'|c| |]; try (cbn; split; [reflexivity | exact R]).
    destruct (plural_keyword a) as [cat|]; [|cbn; split; [reflexivity | exact R]].
    destruct R as (E & C1 & C2).
    pose proof (with_try_get_ok (sc_intls sc1) (o_type (n_options b')) C1) as [F1 K1].
    pose proof (with_try_get_ok (sc_intls sc2) (o_type (n_options b')) C2) as [F2 K2].
    destruct (with_try_get rules (sc_intls sc1) (o_type (n_options b'))) as [p1 c1'].
    destruct (with_try_get rules (sc_intls sc2) (o_type (n_options b'))) as [p2 c2'].
    cbn [fst snd] in *.
    destruct (fnumber_operands b') as [ops|t|]; cbn; auto.
    split; [rewrite F1, F2; reflexivity|].
    split; [|split; assumption].
    unfold erase in *. unfold set_intls in *. cbn. injection E. intros. congruence.
  - destruct other as [b'|b'|c| |]; cbn; (split; [reflexivity | exact R]).
Qed.

Definition RF : outcome (option pattern * scope) -> outcome (option pattern * scope) -> Prop :=
  rel_out (fun x y => fst x = fst y /\ Rs (snd x) (snd y)).

Lemma find_variant_rel vs sel : forall sc1 sc2,
  Rs sc1 sc2 ->
  RF (find_variant rules f64_from_str vs sel sc1) (find_variant rules f64_from_str vs sel sc2).
Proof.
  induction vs as [|[key value d] rest IH]; intros sc1 sc2 R; cbn [find_variant].
  - cbn. split; [reflexivity | exact R].
  - eapply rel_bind; [apply value_matches_rel, R|].
    intros [m1 s1] [m2 s2] [Em Rs']. cbn in Em. subst m2. cbn [snd] in Rs'.
    destruct m1; [cbn; split; [reflexivity | exact Rs'] | apply IH, Rs'].
Qed.

Lemma find_variant_in vs sel : forall sc p sc',
  find_variant rules f64_from_str vs sel sc = Done (Some p, sc') -> exists k d, In (Variant k p d) vs.
Proof.
  induction vs as [|[key value d] rest IH]; intros sc p sc'; cbn [find_variant]; [discriminate|].
  destruct (value_matches rules (variant_key_value f64_from_str key) sel sc) as [[mm s]|t|]; cbn; try discriminate.
  destruct mm.
  - intros [= <- <-]. eexists _, _. left; reflexivity.
  - intros H. destruct (IH _ _ _ H) as (k & d' & Hin). eexists _, _. right; exact Hin.
Qed.

Lemma find_default_in' vs p : find_default vs = Some p -> exists k d, In (Variant k p d) vs.
Proof.
  induction vs as [|[key value d] rest IH]; cbn; [discriminate|].
  destruct d.
  - intros [= <-]. eexists _, _. left; reflexivity.
  - intros H. destruct (IH H) as (k & d' & Hin). eexists _, _. right; eassumption.
Qed.

(* ---------- bundle lookups do not depend on the flag; tracked patterns are ok ---------- *)
Lemma entry_find_in' l id e : entry_find l id = Some e -> exists k, In (k, e) l.
Proof.
  induction l as [|[k e'] r IH]; cbn; [discriminate|].
  destruct (bytes_eqb k id).
  - intros [= <-]. eexists; left; reflexivity.
  - intros H. destruct (IH H) as [k' Hk]. eexists; right; eassumption.
Qed.

Lemma find_attribute_in' attrs name p : find_attribute attrs name = Some p -> In p (map attr_value attrs).
Proof.
  induction attrs as [|a r IH]; cbn; [discriminate|].
  destruct (bytes_eqb (attr_id a) name); [intros [= <-]; auto | auto].
Qed.

Lemma tracked_ok p : In p (bundle_patterns b1) -> G \/ ok_pattern p = true.
Proof. intros H. destruct HG as [g|H']; [left; exact g | right; apply H', H]. Qed.

Lemma in_BP k e p : In (k, e) m -> In p (entry_patterns e) -> In p (bundle_patterns b1).
Proof. intros He Hp. unfold bundle_patterns. apply in_flat_map. exists (k, e). auto. Qed.

(* ---------- what is proved about each function ---------- *)
Definition Q_pw f := forall k p sc1 sc2, Rs sc1 sc2 -> G \/ ok_pattern p = true -> RR (pw1 f k p sc1) (pw2 f k p sc2).
Definition Q_ew f := forall e sc1 sc2, Rs sc1 sc2 -> G \/ ok_expr e = true -> RR (ew1 f e sc1) (ew2 f e sc2).
Definition Q_iw f := forall i sc1 sc2, Rs sc1 sc2 -> G \/ ok_inline i = true -> RR (iw1 f i sc1) (iw2 f i sc2).
Definition Q_ir f := forall i sc1 sc2, Rs sc1 sc2 -> G \/ rs_inline i = true -> RV (ir1 f i sc1) (ir2 f i sc2).
Definition Q_mt f := forall k p e sc1 sc2, Rs sc1 sc2 -> G \/ ok_expr e = true -> RR (mt1 f k p e sc1) (mt2 f k p e sc2).
Definition Q_tr f := forall k p exp sc1 sc2, Rs sc1 sc2 -> G \/ ok_pattern p = true -> RR (tr1 f k p exp sc1) (tr2 f k p exp sc2).
Definition Q_ga f := forall oa sc1 sc2, Rs sc1 sc2 -> G \/ rs_oargs oa = true -> RA (ga1 f oa sc1) (ga2 f oa sc2).
Definition Q_all f := Q_pw f /\ Q_ew f /\ Q_iw f /\ Q_ir f /\ Q_mt f /\ Q_tr f /\ Q_ga f.

Lemma or_G_and (x y : bool) : G \/ x && y = true -> (G \/ x = true) /\ (G \/ y = true).
Proof. intros [g|H]; [split; left; exact g | apply andb_prop in H as [? ?]; split; right; assumption]. Qed.

Lemma write_ref_error_rel exp sc1 sc2 : Rs sc1 sc2 -> RR (write_ref_error exp sc1) (write_ref_error exp sc2).
Proof.
  intros R. unfold write_ref_error. destruct (reference_kind_of exp) as [k|t|]; cbn; auto.
  split; [apply Ro_refl | apply (Rs_update _ _ _ (pu_add_error _) R)].
Qed.

(* ---------- loops ---------- *)
Lemma pattern_loop_rel f k p len :
  Q_mt f ->
  forall els sc1 sc2, Rs sc1 sc2 -> G \/ forallb ok_element els = true ->
  RR (pattern_loop overflow_checks transform b1 (mt1 f k p) len els sc1)
     (pattern_loop overflow_checks transform b2 (mt2 f k p) len els sc2).
Proof.
  intros Hmt. induction els as [|elem rest IH]; intros sc1 sc2 R Hok; cbn [pattern_loop].
  - apply RR_done; [apply Ro_nil | exact R].
  - destruct (Rs_fields _ _ R) as (Ep & Ed & Et & El & Ee & Ec).
    rewrite <- Ed. destruct (sc_dirty sc1); [apply RR_done; [apply Ro_nil | exact R]|].
    cbn [forallb] in Hok. apply or_G_and in Hok as [Hok1 Hok2].
    destruct elem as [value | expression].
    + eapply rel_bind; [apply IH; assumption|].
      intros [o1 s1] [o2 s2] [Ho Hs]. cbn [fst snd] in *. apply RR_done; [apply Ro_cons, Ho | exact Hs].
    + rewrite <- Ep. destruct (u8_add1 overflow_checks (sc_placeables sc1)) as [n|t|]; cbn [obind]; [|reflexivity|exact Logic.I].
      cbn [sc_placeables set_placeables].
      destruct (N.ltb MAX_PLACEABLES n).
      * apply RR_done; [apply Ro_nil|].
        apply (Rs_update (fun sc => add_error (set_dirty (set_placeables sc n) true) TooManyPlaceables)); [|exact R].
        apply (pu_comp (fun sc => add_error sc _) (fun sc => set_dirty (set_placeables sc n) true)); [apply pu_add_error|].
        apply (pu_comp (fun sc => set_dirty sc true) (fun sc => set_placeables sc n)); [apply pu_set_dirty | apply pu_set_placeables].
      * eapply rel_bind.
        { apply Hmt; [apply (Rs_update _ _ _ (pu_set_placeables n) R) | exact Hok1]. }
        intros [o1 s1] [o2 s2] [Ho Hs]. cbn [fst snd] in *.
        eapply rel_bind; [apply IH; assumption|].
        intros [o1' s1'] [o2' s2'] [Ho' Hs']. cbn [fst snd] in *.
        apply RR_done; [|exact Hs'].
        cbn [b_use_isolating b1 b2].
        set (x := Nat.ltb 1 len && negb (isolation_exempt expression)).
        assert (Hmark : forall t, Ro (if iso1 && x then [t] else []) (if iso2 && x then [t] else []) \/ is_text t = true).
        { intros t. destruct t; [right; reflexivity | left | left];
            (split; [destruct (iso1 && x), (iso2 && x); reflexivity | intros g; unfold G in g; rewrite g; reflexivity]). }
        rewrite <- !andb_assoc. fold x.
        destruct (Hmark TFSI) as [H1|H1]; [|discriminate]. destruct (Hmark TPDI) as [H2|H2]; [|discriminate].
        repeat apply Ro_app; assumption.
Qed.

Lemma resolve_list_rel f :
  Q_ir f ->
  forall l sc1 sc2, Rs sc1 sc2 -> G \/ forallb rs_inline l = true ->
  rel_out (fun x y => fst x = fst y /\ Rs (snd x) (snd y))
          (resolve_list (ir1 f) l sc1) (resolve_list (ir2 f) l sc2).
Proof.
  intros Hir. induction l as [|x r IH]; intros sc1 sc2 R Hok; cbn [resolve_list].
  - cbn. split; [reflexivity | exact R].
  - cbn [forallb] in Hok. apply or_G_and in Hok as [Hok1 Hok2].
    eapply rel_bind; [apply Hir; assumption|].
    intros [v1 s1] [v2 s2] [Ev Hs]. cbn [fst snd] in *. subst v2.
    eapply rel_bind; [apply IH; assumption|].
    intros [vs1 s1'] [vs2 s2'] [Evs Hs']. cbn [fst snd] in *. subst vs2.
    cbn. split; [reflexivity | exact Hs'].
Qed.

Lemma resolve_named_rel f :
  Q_ir f ->
  forall l sc1 sc2, Rs sc1 sc2 -> G \/ forallb rs_named l = true ->
  rel_out (fun x y => fst x = fst y /\ Rs (snd x) (snd y))
          (resolve_named (ir1 f) l sc1) (resolve_named (ir2 f) l sc2).
Proof.
  intros Hir. induction l as [|[name x] r IH]; intros sc1 sc2 R Hok; cbn [resolve_named].
  - cbn. split; [reflexivity | exact R].
  - cbn [forallb rs_named] in Hok. apply or_G_and in Hok as [Hok1 Hok2].
    eapply rel_bind; [apply Hir; assumption|].
    intros [v1 s1] [v2 s2] [Ev Hs]. cbn [fst snd] in *. subst v2.
    eapply rel_bind; [apply IH; assumption|].
    intros [vs1 s1'] [vs2 s2'] [Evs Hs']. cbn [fst snd] in *. subst vs2.
    cbn. split; [reflexivity | exact Hs'].
Qed.

(* ---------- steps ---------- *)
Lemma sim_pw f : Q_mt f -> Q_pw (S f).
Proof.
  intros Hmt k p sc1 sc2 R Hok. rewrite !pw_S.
  apply pattern_loop_rel; [exact Hmt | exact R|].
  destruct p as [els]. exact Hok.
Qed.

Lemma sim_mt f : Q_ew f -> Q_mt (S f).
Proof.
  intros Hew k p e sc1 sc2 R Hok. rewrite !mt_S. cbv zeta.
  destruct (Rs_fields _ _ R) as (Ep & Ed & Et & El & Ee & Ec).
  rewrite <- Et.
  eapply rel_bind.
  { apply Hew; [|exact Hok].
    destruct (sc_travelled sc1); [apply (Rs_update _ _ _ (pu_set_travelled [k]) R) | exact R]. }
  intros [o1 s1] [o2 s2] [Ho Hs]. cbn [fst snd] in *.
  destruct (Rs_fields _ _ Hs) as (_ & Ed' & _). rewrite <- Ed'.
  destruct (sc_dirty s1); apply RR_done; try assumption.
  apply Ro_app; [exact Ho | apply Ro_refl].
Qed.

Lemma sim_tr f : Q_pw f -> Q_tr (S f).
Proof.
  intros Hpw k p exp sc1 sc2 R Hok. rewrite !tr_S.
  destruct (Rs_fields _ _ R) as (Ep & Ed & Et & El & Ee & Ec).
  rewrite <- Et. destruct (key_mem k (sc_travelled sc1)).
  - apply RR_done; [apply Ro_refl | apply (Rs_update _ _ _ (pu_add_error Cyclic) R)].
  - cbv zeta. eapply rel_bind.
    { apply Hpw; [apply (Rs_update _ _ _ (pu_set_travelled (Some k :: sc_travelled sc1)) R) | exact Hok]. }
    intros [o1 s1] [o2 s2] [Ho Hs]. cbn [fst snd] in *.
    destruct (Rs_fields _ _ Hs) as (_ & _ & Et' & _). rewrite <- Et'.
    apply RR_done; [exact Ho | apply (Rs_update _ _ _ (pu_set_travelled _) Hs)].
Qed.

Lemma sim_ga f : Q_ir f -> Q_ga (S f).
Proof.
  intros Hir oa sc1 sc2 R Hok.
  destruct oa as [[positional named]|]; [rewrite !ga_S_some | rewrite !ga_S_none; cbn; split; [reflexivity | exact R]].
  cbn [rs_oargs rs_args] in Hok. apply or_G_and in Hok as [Hok1 Hok2].
  eapply rel_bind; [apply resolve_list_rel; assumption|].
  intros [v1 s1] [v2 s2] [Ev Hs]. cbn [fst snd] in *. subst v2.
  eapply rel_bind; [apply resolve_named_rel; assumption|].
  intros [n1 s1'] [n2 s2'] [En Hs']. cbn [fst snd] in *. subst n2.
  destruct (from_iter fvalue n1) as [a|t|]; cbn; auto.
Qed.

Lemma sim_ew f : Q_pw f -> Q_iw f -> Q_ir f -> Q_ew (S f).
Proof.
  intros Hpw Hiw Hir e sc1 sc2 R Hok.
  destruct e as [selector variants | exp]; [rewrite !ew_S_select | rewrite !ew_S_inline; apply Hiw; assumption].
  cbn [ok_expr] in Hok. apply or_G_and in Hok as [Hok1 Hok2].
  eapply rel_bind; [apply Hir; assumption|].
  intros [v1 s1] [v2 s2] [Ev Hs]. cbn [fst snd] in *. subst v2.
  assert (Hvar : forall p k d s1' s2', In (Variant k p d) variants -> Rs s1' s2' -> RR (pw1 f None p s1') (pw2 f None p s2')).
  { intros p k d s1' s2' Hin Hs'. apply Hpw; [exact Hs'|].
    destruct Hok2 as [g|H]; [left; exact g | right].
    rewrite forallb_forall in H. apply (H _ Hin). }
  eapply rel_bind with (R := fun x y => fst x = fst y /\ Rs (snd x) (snd y) /\
                                        (forall p, fst x = Some p -> exists k d, In (Variant k p d) variants)).
  { destruct v1; try (cbn; split; [reflexivity | split; [exact Hs | discriminate]]).
    - pose proof (find_variant_rel variants (VString s) s1 s2 Hs) as H.
      pose proof (find_variant_in variants (VString s) s1) as Hin.
      destruct (find_variant rules f64_from_str variants (VString s) s1) as [[h1 t1]|t|],
               (find_variant rules f64_from_str variants (VString s) s2) as [[h2 t2]|t'|]; cbn in H |- *; try tauto.
      destruct H as [Eh Ht]. split; [exact Eh | split; [exact Ht|]]. intros p ->. eapply Hin. reflexivity.
    - pose proof (find_variant_rel variants (VNumber n) s1 s2 Hs) as H.
      pose proof (find_variant_in variants (VNumber n) s1) as Hin.
      destruct (find_variant rules f64_from_str variants (VNumber n) s1) as [[h1 t1]|t|],
               (find_variant rules f64_from_str variants (VNumber n) s2) as [[h2 t2]|t'|]; cbn in H |- *; try tauto.
      destruct H as [Eh Ht]. split; [exact Eh | split; [exact Ht|]]. intros p ->. eapply Hin. reflexivity. }
  intros [h1 t1] [h2 t2] (Eh & Ht & Hin). cbn [fst snd] in *. subst h2.
  destruct h1 as [value|].
  - destruct (Hin value eq_refl) as (k & d & Hv). eapply Hvar; eassumption.
  - destruct (find_default variants) as [value|] eqn:Ed.
    + destruct (find_default_in' _ _ Ed) as (k & d & Hv). eapply Hvar; eassumption.
    + apply RR_done; [apply Ro_nil | apply (Rs_update _ _ _ (pu_add_error MissingDefault) Ht)].
Qed.

Lemma sim_ir f : Q_iw f -> Q_ga f -> Q_ir (S f).
Proof.
  intros Hiw Hga i sc1 sc2 R Hok.
  assert (Hgen : G -> RV (resolve_by_write overflow_checks call_function transform formatter rules custom_as_string
                            unescape_write unescape_to_string f64_from_str b1 args f i sc1)
                         (resolve_by_write overflow_checks call_function transform formatter rules custom_as_string
                            unescape_write unescape_to_string f64_from_str b2 args f i sc2)).
  { intros g. unfold resolve_by_write. eapply rel_bind; [apply Hiw; [exact R | left; exact g]|].
    intros [o1 s1] [o2 s2] [[_ Ho] Hs]. cbn [fst snd] in *. rewrite (Ho g). cbn. split; [reflexivity | exact Hs]. }
  destruct (Rs_fields _ _ R) as (Ep & Ed & Et & El & Ee & Ec).
  destruct i as [value | value | id arguments | id attribute | id attribute arguments | id | expression].
  - rewrite !ir_S_string. cbn. split; [reflexivity | exact R].
  - rewrite !ir_S_number. cbn. split; [reflexivity | exact R].
  - rewrite !ir_S_function.
    eapply rel_bind.
    { apply (Hga (Some arguments)); [exact R|]. destruct Hok as [g|H]; [left; exact g | right].
      destruct arguments. exact H. }
    intros [[p1 n1] s1] [[p2 n2] s2] [Epn Hs]. cbn [fst snd] in *. injection Epn as <- <-.
    change (get_entry_function b2 id) with (get_entry_function b1 id).
    destruct (get_entry_function b1 id) as [func|].
    + cbn. split; [reflexivity | apply (Rs_update _ _ _ (pu_log_call _) Hs)].
    + cbn. split; [reflexivity | apply (Rs_update _ _ _ (pu_add_error _) Hs)].
  - rewrite !ir_S_message. apply Hgen. destruct Hok as [g|H]; [exact g | discriminate].
  - rewrite !ir_S_term. apply Hgen. destruct Hok as [g|H]; [exact g | discriminate].
  - rewrite !ir_S_variable. unfold lookup_variable_r, missing_variable. rewrite <- El.
    match goal with |- RV (match ?x with _ => _ end) _ => destruct x end.
    + cbn. split; [reflexivity | exact R].
    + destruct (sc_local_args sc1); cbn; (split; [reflexivity|]); [exact R | apply (Rs_update _ _ _ (pu_add_error _) R)].
  - rewrite !ir_S_placeable. apply Hgen. destruct Hok as [g|H]; [exact g | discriminate].
Qed.

Lemma term_body_rel f id attribute exp sc1 sc2 :
  Q_tr f -> Rs sc1 sc2 ->
  RR (term_body overflow_checks call_function transform formatter rules custom_as_string
        unescape_write unescape_to_string f64_from_str b1 args f id attribute exp sc1)
     (term_body overflow_checks call_function transform formatter rules custom_as_string
        unescape_write unescape_to_string f64_from_str b2 args f id attribute exp sc2).
Proof.
  intros Htr R. unfold term_body.
  change (get_entry_term b2 id) with (get_entry_term b1 id).
  destruct (get_entry_term b1 id) as [[value attributes]|] eqn:Eg; [|apply write_ref_error_rel, R].
  unfold get_entry_term in Eg. cbn [b_entries b1] in Eg.
  destruct (entry_find m id) as [[| v' a'|]|] eqn:E; try discriminate. injection Eg as -> ->.
  apply entry_find_in' in E as [k Hk].
  destruct attribute as [attr|].
  - destruct (find_attribute attributes attr) as [v|] eqn:Ea; [|apply write_ref_error_rel, R].
    apply Htr; [exact R|]. apply tracked_ok. eapply in_BP; [exact Hk|]. cbn. right. eapply find_attribute_in', Ea.
  - apply Htr; [exact R|]. apply tracked_ok. eapply in_BP; [exact Hk|]. cbn. left; reflexivity.
Qed.

Lemma sim_iw f : Q_ew f -> Q_tr f -> Q_ga f -> Q_iw (S f).
Proof.
  intros Hew Htr Hga i sc1 sc2 R Hok.
  destruct (Rs_fields _ _ R) as (Ep & Ed & Et & El & Ee & Ec).
  destruct i as [value | value | id arguments | id attribute | id attribute arguments | id | expression].
  - rewrite !iw_S_string. apply RR_done; [apply Ro_refl | exact R].
  - rewrite !iw_S_number. apply RR_done; [apply Ro_refl | exact R].
  - rewrite !iw_S_function.
    eapply rel_bind; [apply (Hga (Some arguments)); [exact R | exact Hok]|].
    intros [[p1 n1] s1] [[p2 n2] s2] [Epn Hs]. cbn [fst snd] in *. injection Epn as <- <-.
    change (get_entry_function b2 id) with (get_entry_function b1 id).
    destruct (get_entry_function b1 id) as [func|]; [|apply write_ref_error_rel, Hs].
    cbv zeta.
    destruct (call_entry call_function func p1 n1); (apply RR_done; [apply Ro_refl | apply (Rs_update _ _ _ (pu_log_call _) Hs)]).
  - rewrite !iw_S_message.
    change (get_entry_message b2 id) with (get_entry_message b1 id).
    destruct (get_entry_message b1 id) as [[value attributes]|] eqn:Eg; [|apply write_ref_error_rel, R].
    unfold get_entry_message in Eg. cbn [b_entries b1] in Eg.
    destruct (entry_find m id) as [[v' a'| |]|] eqn:E; try discriminate. injection Eg as -> ->.
    apply entry_find_in' in E as [k Hk].
    destruct attribute as [attr|].
    + destruct (find_attribute attributes attr) as [v|] eqn:Ea; [|apply write_ref_error_rel, R].
      apply Htr; [exact R|]. apply tracked_ok. eapply in_BP; [exact Hk|]. cbn. apply in_or_app. right.
      eapply find_attribute_in', Ea.
    + destruct value as [v|].
      * apply Htr; [exact R|]. apply tracked_ok. eapply in_BP; [exact Hk|]. cbn. left; reflexivity.
      * apply RR_done; [apply Ro_refl | apply (Rs_update _ _ _ (pu_add_error _) R)].
  - rewrite !iw_S_term.
    eapply rel_bind; [apply (Hga arguments); [exact R | exact Hok]|].
    intros [[p1 n1] s1] [[p2 n2] s2] [Epn Hs]. cbn [fst snd] in *. injection Epn as <- <-.
    cbv zeta. destruct (Rs_fields _ _ Hs) as (_ & _ & _ & El' & _). rewrite <- El'.
    eapply rel_bind.
    { apply term_body_rel; [exact Htr | apply (Rs_update _ _ _ (pu_set_local_args (Some n1)) Hs)]. }
    intros [o1 t1] [o2 t2] [Ho Ht]. cbn [fst snd] in *.
    apply RR_done; [exact Ho | apply (Rs_update _ _ _ (pu_set_local_args _) Ht)].
  - rewrite !iw_S_variable. unfold lookup_variable, missing_variable. rewrite <- El.
    match goal with |- RR (match ?x with _ => _ end) _ => destruct x end.
    + apply RR_done; [apply Ro_refl | exact R].
    + destruct (sc_local_args sc1); cbn; (split; [apply Ro_refl|]); [exact R | apply (Rs_update _ _ _ (pu_add_error _) R)].
  - rewrite !iw_S_placeable. apply Hew; assumption.
Qed.

Theorem sim_all : forall f, Q_all f.
Proof.
  induction f as [|f (Hpw & Hew & Hiw & Hir & Hmt & Htr & Hga)].
  - repeat split; intros ? **; exact Logic.I.
  - repeat split.
    + apply sim_pw; assumption.
    + apply sim_ew; assumption.
    + apply sim_iw; assumption.
    + apply sim_ir; assumption.
    + apply sim_mt; assumption.
    + apply sim_tr; assumption.
    + apply sim_ga; assumption.
Qed.

End Sim.

(* Bundle/ConcurrentBundleProofs.v — proofs about Bundle/ConcurrentBundle.v.

   Part A (Section Eq): the process form of the resolver IS the resolver of ResolverModel.v: run against
   the sequential memoizer table (`interp`, the with_try_get of ResolverModel.v) it returns what the
   state-passing functions return, function by function (`agree`), hence `format_pattern_p_eq`.

   Part B (Section Conc): the shared memoizer answers every request for key ty with the callback applied
   to THE instance `plural_construct lang ty` (invariant `memo_ok`, = C14 once/same-instance/language for
   this client), so a process run under any schedule ends like `pure_run`, which is also how it ends
   sequentially; no step is ever disabled and every step consumes `weight`.                      *)
From FluentV Require Import Base.Bytes Base.BytesFacts Base.Outcome Syntax.Ast Bundle.Args Bundle.ArgsProofs
  Bundle.Number Bundle.NumberProofs Bundle.ResolverAst Bundle.ResolverModel Bundle.ResolverEqns
  Bundle.ResolverSim Bundle.ResolverPure Bundle.ResolverTotal Bundle.ConcurrentBundle Gen.Extracted.
From FluentV Require Memo.Memoizer Memo.MemoProofs.
From Coq Require Import Lia.

Arguments N.add : simpl never.
Arguments N.sub : simpl never.
Arguments N.pow : simpl never.
Arguments N.eqb : simpl never.
Arguments N.ltb : simpl never.
Arguments N.leb : simpl never.

(* ---------- the scope without the memoizer: field lemmas (all by conversion) ---------- *)
Lemma erase_placeables sc : sc_placeables (erase sc) = sc_placeables sc. Proof. reflexivity. Qed.
Lemma erase_dirty sc : sc_dirty (erase sc) = sc_dirty sc. Proof. reflexivity. Qed.
Lemma erase_travelled sc : sc_travelled (erase sc) = sc_travelled sc. Proof. reflexivity. Qed.
Lemma erase_local_args sc : sc_local_args (erase sc) = sc_local_args sc. Proof. reflexivity. Qed.
Lemma erase_errors sc : sc_errors (erase sc) = sc_errors sc. Proof. reflexivity. Qed.
Lemma erase_calls sc : sc_calls (erase sc) = sc_calls sc. Proof. reflexivity. Qed.
Lemma erase_intls sc : sc_intls (erase sc) = []. Proof. reflexivity. Qed.
Lemma erase_erase sc : erase (erase sc) = erase sc. Proof. reflexivity. Qed.

Section Eq.
Variable overflow_checks : bool.
Variable call_function : bytes -> list fvalue -> fargs -> fvalue.
Variable transform : option (bytes -> bytes).
Variable formatter : option (fvalue -> option bytes).
Variable rules : ntype -> rules_fn.
Variable as_string : bytes -> bytes.
Variable as_string_threadsafe : bytes -> bytes.
Variable unescape_write : bytes -> bytes.
Variable unescape_to_string : bytes -> bytes.
Variable f64_from_str : bytes -> option fval.
Variable fl : flavour.
Variable b : bundle.
Variable args : option fargs.

Notation custom := (stringify_value as_string as_string_threadsafe fl).

Notation pw := (pattern_write overflow_checks call_function transform formatter rules custom
                  unescape_write unescape_to_string f64_from_str b args).
Notation pr := (pattern_resolve overflow_checks call_function transform formatter rules custom
                  unescape_write unescape_to_string f64_from_str b args).
Notation ew := (expression_write overflow_checks call_function transform formatter rules custom
                  unescape_write unescape_to_string f64_from_str b args).
Notation iw := (inline_write overflow_checks call_function transform formatter rules custom
                  unescape_write unescape_to_string f64_from_str b args).
Notation ir := (inline_resolve overflow_checks call_function transform formatter rules custom
                  unescape_write unescape_to_string f64_from_str b args).
Notation mt := (maybe_track overflow_checks call_function transform formatter rules custom
                  unescape_write unescape_to_string f64_from_str b args).
Notation tr := (track overflow_checks call_function transform formatter rules custom
                  unescape_write unescape_to_string f64_from_str b args).
Notation ga := (get_arguments overflow_checks call_function transform formatter rules custom
                  unescape_write unescape_to_string f64_from_str b args).

Notation pwp := (pattern_write_p overflow_checks call_function transform formatter as_string as_string_threadsafe
                   unescape_write unescape_to_string f64_from_str fl b args).
Notation prp := (pattern_resolve_p overflow_checks call_function transform formatter as_string as_string_threadsafe
                   unescape_write unescape_to_string f64_from_str fl b args).
Notation ewp := (expression_write_p overflow_checks call_function transform formatter as_string as_string_threadsafe
                   unescape_write unescape_to_string f64_from_str fl b args).
Notation iwp := (inline_write_p overflow_checks call_function transform formatter as_string as_string_threadsafe
                   unescape_write unescape_to_string f64_from_str fl b args).
Notation irp := (inline_resolve_p overflow_checks call_function transform formatter as_string as_string_threadsafe
                   unescape_write unescape_to_string f64_from_str fl b args).
Notation mtp := (maybe_track_p overflow_checks call_function transform formatter as_string as_string_threadsafe
                   unescape_write unescape_to_string f64_from_str fl b args).
Notation trp := (track_p overflow_checks call_function transform formatter as_string as_string_threadsafe
                   unescape_write unescape_to_string f64_from_str fl b args).
Notation gap := (get_arguments_p overflow_checks call_function transform formatter as_string as_string_threadsafe
                   unescape_write unescape_to_string f64_from_str fl b args).

(* run a process against the sequential memoizer table of ResolverModel.v: every PAsk is answered by
   ResolverModel.with_try_get on the table, which is handed on to the next PAsk *)
Fixpoint interp {X} (p : proc X) (c : intl_cache) : outcome X * intl_cache :=
  match p with
  | PRet r => (r, c)
  | PAsk ty num cat k =>
      let '(pr, c') := with_try_get rules c ty in
      match fnumber_operands num with
      | Done ops => interp (k (pcat_eqb (pr ops) cat)) c'
      | Panic t => (Panic t, c')
      | OutOfFuel => (OutOfFuel, c')
      end
  end.

Lemma interp_bind {X Y} (m : proc X) (k : X -> proc Y) : forall c,
  interp (pbind m k) c =
  match interp m c with
  | (Done x, c') => interp (k x) c'
  | (Panic t, c') => (Panic t, c')
  | (OutOfFuel, c') => (OutOfFuel, c')
  end.
Proof.
  induction m as [r | ty num cat k' IH]; intros c; cbn [pbind interp].
  - destruct r; reflexivity.
  - destruct (with_try_get rules c ty) as [p c'].
    destruct (fnumber_operands num); [apply IH | reflexivity | reflexivity].
Qed.

(* the process run ends like the state-passing function: same value, same scope up to the memoizer, and
   the table the function left in its scope; on Panic / OutOfFuel the same tag *)
Definition agree {X} (r : outcome (X * scope) * intl_cache) (o : outcome (X * scope)) : Prop :=
  match o with
  | Done (v, sc') => r = (Done (v, erase sc'), sc_intls sc')
  | Panic t => fst r = Panic t
  | OutOfFuel => fst r = OutOfFuel
  end.

Lemma agree_bind {X Y} (m : proc (X * scope)) c (o : outcome (X * scope))
      (k : X * scope -> proc (Y * scope)) (g : X * scope -> outcome (Y * scope)) :
  agree (interp m c) o ->
  (forall v sc', agree (interp (k (v, erase sc')) (sc_intls sc')) (g (v, sc'))) ->
  agree (interp (pbind m k) c) (obind o g).
Proof.
  intros H K. rewrite interp_bind. destruct o as [[v sc']|t|]; cbn [agree obind] in *.
  - rewrite H. apply K.
  - destruct (interp m c) as [r c']. cbn [fst] in H. subst r. reflexivity.
  - destruct (interp m c) as [r c']. cbn [fst] in H. subst r. reflexivity.
Qed.

(* a step that does not touch the memoizer and commutes with erasing it *)
Lemma agree_lift {X} (o1 o2 : outcome (X * scope)) c :
  match o2 with
  | Done (v, sc') => o1 = Done (v, erase sc') /\ c = sc_intls sc'
  | Panic t => o1 = Panic t
  | OutOfFuel => o1 = OutOfFuel
  end ->
  agree (interp (plift o1) c) o2.
Proof.
  destruct o2 as [[v sc']|t|]; cbn [agree plift interp fst].
  - intros [-> ->]. reflexivity.
  - auto.
  - auto.
Qed.

Lemma write_ref_error_agree exp sc :
  agree (interp (plift (write_ref_error exp (erase sc))) (sc_intls sc)) (write_ref_error exp sc).
Proof.
  apply agree_lift. unfold write_ref_error. destruct (reference_kind_of exp); cbn [obind]; auto.
Qed.

Lemma missing_variable_agree i sc :
  agree (interp (plift (let* sc' := missing_variable i (erase sc) in Done (tt, sc'))) (sc_intls sc))
        (let* sc' := missing_variable i sc in Done (tt, sc')).
Proof.
  apply agree_lift. unfold missing_variable. rewrite erase_local_args.
  destruct (sc_local_args sc); cbn [obind]; [auto|].
  destruct (reference_kind_of i); cbn [obind]; auto.
Qed.

(* ---------- the one place where the memoizer is used ---------- *)
Lemma value_matches_agree self other sc :
  agree (interp (value_matches_p self other (erase sc)) (sc_intls sc)) (value_matches rules self other sc).
Proof.
  unfold value_matches_p, value_matches.
  destruct self as [a|a|c| |]; try reflexivity.
  - destruct other as [b'|b'|c| |]; try reflexivity.
    destruct (plural_keyword a) as [cat|]; [|reflexivity].
    cbn [interp].
    destruct (with_try_get rules (sc_intls sc) (o_type (n_options b'))) as [p c'].
    destruct (fnumber_operands b') as [ops|t|]; reflexivity.
  - destruct other as [b'|b'|c| |]; reflexivity.
Qed.

Lemma find_variant_agree vs sel : forall sc,
  agree (interp (find_variant_p f64_from_str vs sel (erase sc)) (sc_intls sc))
        (find_variant rules f64_from_str vs sel sc).
Proof.
  induction vs as [|[key value d] rest IH]; intros sc; cbn [find_variant find_variant_p].
  - reflexivity.
  - apply agree_bind; [apply value_matches_agree|].
    intros m sc'. destruct m; [reflexivity | apply IH].
Qed.

(* ---------- what is proved about each function ---------- *)
Definition E_pw f := forall k p sc, agree (interp (pwp f k p (erase sc)) (sc_intls sc)) (pw f k p sc).
Definition E_ew f := forall e sc, agree (interp (ewp f e (erase sc)) (sc_intls sc)) (ew f e sc).
Definition E_iw f := forall i sc, agree (interp (iwp f i (erase sc)) (sc_intls sc)) (iw f i sc).
Definition E_ir f := forall i sc, agree (interp (irp f i (erase sc)) (sc_intls sc)) (ir f i sc).
Definition E_mt f := forall k p e sc, agree (interp (mtp f k p e (erase sc)) (sc_intls sc)) (mt f k p e sc).
Definition E_tr f := forall k p exp sc, agree (interp (trp f k p exp (erase sc)) (sc_intls sc)) (tr f k p exp sc).
Definition E_ga f := forall oa sc, agree (interp (gap f oa (erase sc)) (sc_intls sc)) (ga f oa sc).
Definition E_all f := E_pw f /\ E_ew f /\ E_iw f /\ E_ir f /\ E_mt f /\ E_tr f /\ E_ga f.

(* ---------- loops ---------- *)
Lemma pattern_loop_agree f k p len :
  E_mt f ->
  forall els sc,
    agree (interp (pattern_loop_p overflow_checks transform b (mtp f k p) len els (erase sc)) (sc_intls sc))
          (pattern_loop overflow_checks transform b (mt f k p) len els sc).
Proof.
  intros Hmt. induction els as [|elem rest IH]; intros sc; cbn [pattern_loop pattern_loop_p].
  - reflexivity.
  - rewrite erase_dirty. destruct (sc_dirty sc); [reflexivity|].
    destruct elem as [value | expression].
    + apply agree_bind; [apply IH|]. intros o sc'. reflexivity.
    + rewrite erase_placeables.
      destruct (u8_add1 overflow_checks (sc_placeables sc)) as [n|t|]; cbn [plift pbind obind]; [|reflexivity|reflexivity].
      cbv zeta. cbn [sc_placeables set_placeables].
      destruct (N.ltb MAX_PLACEABLES n); [reflexivity|].
      apply agree_bind; [apply (Hmt k p expression (set_placeables sc n))|].
      intros o1 sc1.
      apply agree_bind; [apply IH|].
      intros o2 sc2. reflexivity.
Qed.

Lemma resolve_list_agree f :
  E_ir f ->
  forall l sc,
    agree (interp (resolve_list_p (irp f) l (erase sc)) (sc_intls sc)) (resolve_list (ir f) l sc).
Proof.
  intros Hir. induction l as [|x r IH]; intros sc; cbn [resolve_list resolve_list_p].
  - reflexivity.
  - apply agree_bind; [apply Hir|]. intros v sc1.
    apply agree_bind; [apply IH|]. intros vs sc2. reflexivity.
Qed.

Lemma resolve_named_agree f :
  E_ir f ->
  forall l sc,
    agree (interp (resolve_named_p (irp f) l (erase sc)) (sc_intls sc)) (resolve_named (ir f) l sc).
Proof.
  intros Hir. induction l as [|[name x] r IH]; intros sc; cbn [resolve_named resolve_named_p].
  - reflexivity.
  - apply agree_bind; [apply Hir|]. intros v sc1.
    apply agree_bind; [apply IH|]. intros vs sc2. reflexivity.
Qed.

(* ---------- steps ---------- *)
Lemma eq_pw f : E_mt f -> E_pw (S f).
Proof. intros Hmt k p sc. rewrite pw_S. apply (pattern_loop_agree f k p _ Hmt). Qed.

Lemma eq_mt f : E_ew f -> E_mt (S f).
Proof.
  intros Hew k p e sc. rewrite mt_S. cbn [maybe_track_p]. cbv zeta. rewrite erase_travelled.
  apply agree_bind.
  - destruct (sc_travelled sc); [apply (Hew e (set_travelled sc [k])) | apply Hew].
  - intros o sc'. rewrite erase_dirty. destruct (sc_dirty sc'); reflexivity.
Qed.

Lemma eq_tr f : E_pw f -> E_tr (S f).
Proof.
  intros Hpw k p exp sc. rewrite tr_S. cbn [track_p]. rewrite erase_travelled.
  destruct (key_mem k (sc_travelled sc)); [reflexivity|].
  cbv zeta. apply agree_bind; [apply (Hpw (Some k) p (set_travelled sc (Some k :: sc_travelled sc)))|].
  intros o sc'. reflexivity.
Qed.

Lemma eq_ga f : E_ir f -> E_ga (S f).
Proof.
  intros Hir oa sc.
  destruct oa as [[positional named]|]; [rewrite ga_S_some | rewrite ga_S_none; reflexivity].
  cbn [get_arguments_p].
  apply agree_bind; [apply resolve_list_agree, Hir|]. intros pos sc1.
  apply agree_bind; [apply resolve_named_agree, Hir|]. intros nam sc2.
  destruct (from_iter fvalue nam) as [a|t|]; reflexivity.
Qed.

Lemma eq_ew f : E_pw f -> E_iw f -> E_ir f -> E_ew (S f).
Proof.
  intros Hpw Hiw Hir e sc.
  destruct e as [selector variants | exp]; [rewrite ew_S_select | rewrite ew_S_inline; apply Hiw].
  cbn [expression_write_p].
  apply agree_bind; [apply Hir|]. intros sel sc1.
  apply agree_bind.
  - destruct sel; try reflexivity; apply find_variant_agree.
  - intros hit sc2. destruct hit as [value|]; [apply Hpw|].
    destruct (find_default variants) as [value|]; [apply Hpw | reflexivity].
Qed.

Lemma term_body_agree f id attribute exp sc :
  E_tr f ->
  agree (interp (match get_entry_term b id with
                 | Some (value, attributes) =>
                     match attribute with
                     | Some attr =>
                         match find_attribute attributes attr with
                         | Some v => trp f (PKey true id (Some attr)) v exp (erase sc)
                         | None => plift (write_ref_error exp (erase sc))
                         end
                     | None => trp f (PKey true id None) value exp (erase sc)
                     end
                 | None => plift (write_ref_error exp (erase sc))
                 end) (sc_intls sc))
        (term_body overflow_checks call_function transform formatter rules custom
           unescape_write unescape_to_string f64_from_str b args f id attribute exp sc).
Proof.
  intros Htr. unfold term_body.
  destruct (get_entry_term b id) as [[value attributes]|]; [|apply write_ref_error_agree].
  destruct attribute as [attr|]; [|apply Htr].
  destruct (find_attribute attributes attr) as [v|]; [apply Htr | apply write_ref_error_agree].
Qed.

Lemma eq_iw f : E_ew f -> E_tr f -> E_ga f -> E_iw (S f).
Proof.
  intros Hew Htr Hga i sc.
  destruct i as [value | value | id arguments | id attribute | id attribute arguments | id | expression].
  - rewrite iw_S_string. reflexivity.
  - rewrite iw_S_number. reflexivity.
  - rewrite iw_S_function. cbn [inline_write_p].
    apply agree_bind; [apply (Hga (Some arguments))|]. intros [pos named] sc1.
    destruct (get_entry_function b id) as [func|]; [|apply write_ref_error_agree].
    cbv zeta. destruct (call_entry call_function func pos named); reflexivity.
  - rewrite iw_S_message. cbn [inline_write_p].
    destruct (get_entry_message b id) as [[value attributes]|]; [|apply write_ref_error_agree].
    destruct attribute as [attr|].
    + destruct (find_attribute attributes attr) as [v|]; [apply Htr | apply write_ref_error_agree].
    + destruct value as [v|]; [apply Htr | reflexivity].
  - rewrite iw_S_term. cbn [inline_write_p].
    apply agree_bind; [apply (Hga arguments)|]. intros [pos named] sc1.
    cbv zeta. rewrite erase_local_args.
    apply agree_bind.
    + apply (term_body_agree f id attribute (TermReference id attribute arguments)
               (set_local_args sc1 (Some named)) Htr).
    + intros o sc2. reflexivity.
  - rewrite iw_S_variable. cbn [inline_write_p]. cbv zeta. rewrite erase_local_args.
    unfold lookup_variable.
    match goal with |- agree _ (match ?x with _ => _ end) => destruct x end; [reflexivity|].
    pose proof (missing_variable_agree (VariableReference id) sc) as H.
    unfold missing_variable in *. rewrite erase_local_args in *.
    destruct (sc_local_args sc); [reflexivity|].
    destruct (reference_kind_of (VariableReference id)); reflexivity.
  - rewrite iw_S_placeable. apply Hew.
Qed.

Lemma eq_ir f : E_iw f -> E_ga f -> E_ir (S f).
Proof.
  intros Hiw Hga i sc.
  assert (Hgen : agree (interp (let+ (o, sc') := iwp f i (erase sc) in PRet (Done (VString (flatten o), sc'))) (sc_intls sc))
                       (resolve_by_write overflow_checks call_function transform formatter rules custom
                          unescape_write unescape_to_string f64_from_str b args f i sc)).
  { unfold resolve_by_write. apply agree_bind; [apply Hiw|]. intros o sc'. reflexivity. }
  destruct i as [value | value | id arguments | id attribute | id attribute arguments | id | expression].
  - rewrite ir_S_string. reflexivity.
  - rewrite ir_S_number. reflexivity.
  - rewrite ir_S_function. cbn [inline_resolve_p].
    apply agree_bind; [apply (Hga (Some arguments))|]. intros [pos named] sc1.
    destruct (get_entry_function b id) as [func|]; reflexivity.
  - rewrite ir_S_message. exact Hgen.
  - rewrite ir_S_term. exact Hgen.
  - rewrite ir_S_variable. cbn [inline_resolve_p]. cbv zeta. rewrite erase_local_args.
    unfold lookup_variable_r.
    match goal with |- agree _ (match ?x with _ => _ end) => destruct x end; [reflexivity|].
    unfold missing_variable.
    destruct (sc_local_args sc); reflexivity.
  - rewrite ir_S_placeable. exact Hgen.
Qed.

Theorem eq_all : forall f, E_all f.
Proof.
  induction f as [|f (Hpw & Hew & Hiw & Hir & Hmt & Htr & Hga)].
  - repeat split; intros ? **; reflexivity.
  - repeat split.
    + apply eq_pw; assumption.
    + apply eq_ew; assumption.
    + apply eq_iw; assumption.
    + apply eq_ir; assumption.
    + apply eq_mt; assumption.
    + apply eq_tr; assumption.
    + apply eq_ga; assumption.
Qed.

Lemma eq_pr f : forall k p sc, agree (interp (prp f k p (erase sc)) (sc_intls sc)) (pr f k p sc).
Proof.
  destruct f as [|f]; intros k p sc; [reflexivity|].
  rewrite pr_S. cbn [pattern_resolve_p].
  destruct (eq_all f) as (Hpw & _).
  destruct (pattern_elements p) as [|[value|e] [|x r]]; try reflexivity;
    (apply agree_bind; [apply Hpw | intros o sc'; reflexivity]).
Qed.

(* the process of a format_pattern call, run against the table `c` the way ResolverModel.v does, returns what
   ResolverModel.format_pattern returns from `c`: same text, same scope up to the memoizer, same final table *)
Theorem format_pattern_p_eq fuel top p c :
  agree (interp (format_pattern_p overflow_checks call_function transform formatter as_string as_string_threadsafe
                   unescape_write unescape_to_string f64_from_str fl b args fuel top p) c)
        (format_pattern overflow_checks call_function transform formatter rules custom
           unescape_write unescape_to_string f64_from_str b args fuel top p c).
Proof.
  unfold format_pattern_p, format_pattern.
  apply agree_bind; [apply (eq_pr (S fuel) top p (scope_new c))|].
  intros v sc'. reflexivity.
Qed.

End Eq.

(* ================================================================================================
   Part B: threads on the shared memoizer
   ================================================================================================ *)

(* ---------- generic list facts ---------- *)
Lemma Forall_set_nth {X} (P : X -> Prop) i x l : Forall P l -> P x -> Forall P (Memoizer.set_nth i x l).
Proof.
  intros Hl Hx. revert i. induction Hl as [|y l Hy Hl IH]; intros [|i]; cbn; auto.
Qed.

Lemma map_set_nth_same {X Y} (f : X -> Y) i x y l :
  nth_error l i = Some y -> f x = f y -> map f (Memoizer.set_nth i x l) = map f l.
Proof.
  revert i. induction l as [|z l IH]; intros [|i] H E; cbn in *; try discriminate.
  - injection H as ->. now rewrite E.
  - f_equal. now apply IH.
Qed.

Lemma sum_set_nth_lt {X} (w : X -> nat) i x y l :
  nth_error l i = Some y -> w x < w y ->
  list_sum (map w (Memoizer.set_nth i x l)) < list_sum (map w l).
Proof.
  revert i. induction l as [|z l IH]; intros [|i] H L; cbn [nth_error Memoizer.set_nth map list_sum fold_right] in *; try discriminate.
  - injection H as ->. lia.
  - specialize (IH i H L). unfold list_sum in IH. lia.
Qed.

Lemma nth_error_nth' {X} (l : list X) i x d : nth_error l i = Some x -> nth i l d = x.
Proof. revert i. induction l as [|y l IH]; intros [|i]; cbn; try discriminate; [now intros [= ->] | apply IH]. Qed.

Lemma in_set_nth {X} i (x z : X) l :
  In z (Memoizer.set_nth i x l) -> z = x \/ In z l.
Proof.
  revert i. induction l as [|y l IH]; intros [|i]; cbn; auto.
  - intros [->|H]; auto.
  - intros [->|H]; auto. destruct (IH i H); auto.
Qed.

Lemma ntype_of_args_of ty : ntype_of_args (args_of ty) = ty.
Proof. destruct ty; reflexivity. Qed.

Lemma args_of_inj ty ty' : Memoizer.key_eqb (PLURAL_RULES, args_of ty) (PLURAL_RULES, args_of ty') = true -> ty = ty'.
Proof. destruct ty, ty'; cbn; intros H; try reflexivity; discriminate. Qed.

(* depth of a process: the longest chain of memoizer requests *)
Fixpoint depth {X} (p : proc X) : nat :=
  match p with
  | PRet _ => 0
  | PAsk _ _ _ k => S (Nat.max (depth (k true)) (depth (k false)))
  end.

Lemma depth_k {X} (k : bool -> proc X) r : depth (k r) <= Nat.max (depth (k true)) (depth (k false)).
Proof. destruct r; lia. Qed.

(* the hypotheses of C06_total, for every request: the model's exact decimals stand for f64 values *)
Definition values_are_f64 (call_function : bytes -> list fvalue -> fargs -> fvalue) (f64_from_str : bytes -> option fval)
           (programs : list (list frequest)) : Prop :=
  (forall s v, f64_from_str s = Some v -> fval_in_f64_range v) /\
  (forall name pos named, value_ok (call_function name pos named)) /\
  (forall rq, In rq (concat programs) -> oargs_ok (fr_args rq)).

(* PluralRules::construct for the bundle's language succeeds and gives the rules the sequential model is run with *)
Definition constructs_rules (cerr : Type) (plural_construct : Memoizer.lang -> ntype -> Memoizer.result rules_fn cerr)
           (lang : Memoizer.lang) (rules : ntype -> rules_fn) : Prop :=
  forall ty, plural_construct lang ty = Memoizer.Ok (rules ty).

Section Conc.
Variable overflow_checks : bool.
Variable call_function : bytes -> list fvalue -> fargs -> fvalue.
Variable transform : option (bytes -> bytes).
Variable formatter : option (fvalue -> option bytes).
Variable as_string : bytes -> bytes.
Variable as_string_threadsafe : bytes -> bytes.
Variable unescape_write : bytes -> bytes.
Variable unescape_to_string : bytes -> bytes.
Variable f64_from_str : bytes -> option fval.
Variable cerr : Type.
Variable plural_construct : Memoizer.lang -> ntype -> Memoizer.result rules_fn cerr.
Variable b : bundle.
Variable lang : Memoizer.lang.

Notation memo_step := (memo_step cerr plural_construct).
Notation request_proc := (request_proc overflow_checks call_function transform formatter as_string as_string_threadsafe
                            unescape_write unescape_to_string f64_from_str b).
Notation sched_step := (sched_step overflow_checks call_function transform formatter as_string as_string_threadsafe
                          unescape_write unescape_to_string f64_from_str cerr plural_construct b).
Notation run_schedule := (run_schedule overflow_checks call_function transform formatter as_string as_string_threadsafe
                            unescape_write unescape_to_string f64_from_str cerr plural_construct b lang).
Notation tfind := (Memoizer.tfind rules_fn).
Notation lm_table := (Memoizer.lm_table rules_fn).
Notation lm_lang := (Memoizer.lm_lang rules_fn).
Notation c_is_succ := MemoProofs.c_is_succ.

(* ---------- the memoizer as this client sees it (no assumption on plural_construct) ---------- *)
(* the C14 facts, for the one kind of key the bundle uses: the memoizer keeps its language; the table holds
   exactly the successful constructions of the log, one per key; every construct call was made with the
   memoizer's language and a PluralRules key *)
Definition memo_inv (m : bmemo) : Prop :=
  lm_lang (m_lm m) = lang /\
  (forall k, length (filter (c_is_succ k) (m_trace m)) = match tfind k (lm_table (m_lm m)) with Some _ => 1 | None => 0 end) /\
  (forall k i, tfind k (lm_table (m_lm m)) = Some i ->
               exists ty, k = (PLURAL_RULES, args_of ty) /\ plural_construct lang ty = Memoizer.Ok i) /\
  (forall e, In e (m_trace m) ->
             Memoizer.ev_lang e = lang /\ Memoizer.ev_type e = PLURAL_RULES /\
             exists ty, Memoizer.ev_args e = args_of ty /\
                        Memoizer.ev_ok e = match plural_construct lang ty with Memoizer.Ok _ => true | Memoizer.Err _ => false end).

Lemma memo_inv_ext m m' : m_lm m' = m_lm m -> m_trace m' = m_trace m -> memo_inv m -> memo_inv m'.
Proof. destruct m, m'. cbn. intros -> ->. auto. Qed.

Lemma memo_inv_new : memo_inv (bmemo_new lang).
Proof.
  repeat split; cbn; try discriminate; try tauto; try contradiction.
Qed.

(* what one atomic step does *)
Definition unwrap_panic : outcome bool := Panic "called Result::unwrap() on an Err value".

Lemma memo_step_spec m ty num cat :
  memo_inv m -> m_poisoned m = false ->
  exists m', memo_step m ty num cat =
             (m', match plural_construct lang ty with
                  | Memoizer.Ok i => select_callback num cat i
                  | Memoizer.Err _ => unwrap_panic
                  end) /\
             memo_inv m' /\
             (m_poisoned m' = match plural_construct lang ty with
                              | Memoizer.Ok i => match select_callback num cat i with Panic _ => true | _ => false end
                              | Memoizer.Err _ => false
                              end) /\
             (* the table only grows, by at most this key; the log by at most one call, of this key *)
             (forall k, k <> (PLURAL_RULES, args_of ty) -> tfind k (lm_table (m_lm m')) = tfind k (lm_table (m_lm m))) /\
             (forall i, tfind (PLURAL_RULES, args_of ty) (lm_table (m_lm m)) = Some i ->
                        m_lm m' = m_lm m /\ m_trace m' = m_trace m /\ m_counter m' = m_counter m) /\
             (forall i, plural_construct lang ty = Memoizer.Ok i ->
                        tfind (PLURAL_RULES, args_of ty) (lm_table (m_lm m')) = Some i).
Proof.
  intros Hm Hp. pose proof Hm as (Hl & Hcnt & Htab & Htr). unfold ConcurrentBundle.memo_step. rewrite Hp.
  unfold Memoizer.with_try_get.
  destruct (tfind (PLURAL_RULES, args_of ty) (lm_table (m_lm m))) as [i|] eqn:F.
  - (* Occupied *)
    destruct (Htab _ _ F) as (ty' & Ek & Ec).
    assert (ty' = ty) as -> by (injection Ek as E; destruct ty, ty'; try reflexivity; discriminate).
    rewrite Ec.
    assert (Hinv : forall c p, memo_inv (BMemo (m_lm m) c (m_trace m) p)).
    { intros c p. apply (memo_inv_ext m); [reflexivity | reflexivity | exact Hm]. }
    destruct (select_callback num cat i) as [r|t|] eqn:Ecb; eexists; (split; [reflexivity|]);
      cbn [m_lm m_trace m_poisoned m_counter app];
      (split; [apply Hinv|]); (split; [reflexivity|]);
      (split; [reflexivity|]); (split; [intros; auto|]); intros i' [= <-]; exact F.
  - (* Vacant *)
    unfold pr_construct. rewrite Hl, ntype_of_args_of.
    assert (Hcnt' : forall k, length (filter (c_is_succ k) (m_trace m)) = match tfind k (lm_table (m_lm m)) with Some _ => 1 | None => 0 end) by exact Hcnt.
    destruct (plural_construct lang ty) as [i|er] eqn:Ec.
    + (* constructed and inserted *)
      assert (Hinv : memo_inv (BMemo (Memoizer.mk_lmemo rules_fn lang (((PLURAL_RULES, args_of ty), i) :: lm_table (m_lm m)))
                                     (S (m_counter m))
                                     (Memoizer.mk_cevent lang PLURAL_RULES (args_of ty) (m_counter m) true :: m_trace m) false)).
      { repeat split; cbn [m_lm m_trace Memoizer.lm_lang Memoizer.lm_table].
        - intros k. cbn [filter Memoizer.tfind]. unfold c_is_succ at 1. unfold Memoizer.ev_key. cbn [Memoizer.ev_type Memoizer.ev_args Memoizer.ev_ok].
          rewrite Bool.andb_true_r.
          destruct (Memoizer.key_eqb (PLURAL_RULES, args_of ty) k) eqn:K.
          + apply MemoProofs.key_eqb_eq in K. subst k. cbn [length]. rewrite Hcnt, F. reflexivity.
          + apply Hcnt.
        - intros k i'. cbn [Memoizer.tfind].
          destruct (Memoizer.key_eqb (PLURAL_RULES, args_of ty) k) eqn:K.
          + apply MemoProofs.key_eqb_eq in K. subst k. intros [= <-]. exists ty. auto.
          + apply Htab.
        - destruct H as [<-|H]; [reflexivity | apply Htr, H].
        - destruct H as [<-|H]; [reflexivity | apply Htr, H].
        - destruct H as [<-|H]; [|apply Htr, H]. exists ty. cbn. rewrite Ec. auto. }
      destruct (select_callback num cat i) as [r|t|] eqn:Ecb; eexists; (split; [reflexivity|]);
        cbn [m_lm m_trace m_poisoned m_counter app];
        (split; [exact Hinv || (destruct Hinv as (A & B & C & D); repeat split; assumption)|]); (split; [reflexivity|]);
        (split; [intros k Hk; cbn [Memoizer.lm_table Memoizer.tfind];
                 rewrite (MemoProofs.key_eqb_neq _ _ (fun E => Hk (eq_sym E))); reflexivity|]);
        (split; [intros i' [=]|]);
        intros i' [= <-]; cbn [Memoizer.lm_table Memoizer.tfind]; rewrite MemoProofs.key_eqb_refl; reflexivity.
    + (* construct failed: nothing cached, the error is unwrapped outside the lock *)
      eexists. split; [reflexivity|]. cbn [m_lm m_trace m_poisoned m_counter app].
      split.
      { repeat split; cbn [m_lm m_trace]; try assumption.
        - intros k. cbn [filter]. unfold c_is_succ at 1. cbn [Memoizer.ev_ok]. rewrite Bool.andb_false_r. apply Hcnt.
        - destruct H as [<-|H]; [reflexivity | apply Htr, H].
        - destruct H as [<-|H]; [reflexivity | apply Htr, H].
        - destruct H as [<-|H]; [|apply Htr, H]. exists ty. cbn. rewrite Ec. auto. }
      split; [reflexivity|]. split; [reflexivity|]. split; [intros i' [=] | intros i' [=]].
Qed.

(* a poisoned mutex answers nothing and changes nothing *)
Lemma memo_step_poisoned m ty num cat :
  m_poisoned m = true -> memo_step m ty num cat = (m, Panic "PoisonError").
Proof. intros H. unfold ConcurrentBundle.memo_step. rewrite H. reflexivity. Qed.

Lemma memo_step_inv m ty num cat : memo_inv m -> memo_inv (fst (memo_step m ty num cat)).
Proof.
  intros H. destruct (m_poisoned m) eqn:P.
  - rewrite memo_step_poisoned by exact P. exact H.
  - destruct (memo_step_spec m ty num cat H P) as (m' & E & I & _). rewrite E. exact I.
Qed.

Lemma sched_step_memo_inv s tid : memo_inv (s_memo s) -> memo_inv (s_memo (sched_step s tid)).
Proof.
  intros H. unfold ConcurrentBundle.sched_step.
  destruct (nth_error (s_threads s) tid) as [th|]; [|exact H].
  destruct (t_cur th) as [[rq [r|ty num cat k]]|].
  - exact H.
  - pose proof (memo_step_inv (s_memo s) ty num cat H) as H'.
    destruct (memo_step (s_memo s) ty num cat) as [m' ans]. exact H'.
  - destruct (t_todo th); exact H.
Qed.

Lemma run_memo_inv programs sched : memo_inv (s_memo (run_schedule programs sched)).
Proof.
  unfold ConcurrentBundle.run_schedule.
  assert (G : forall s, memo_inv (s_memo s) -> memo_inv (s_memo (fold_left sched_step sched s))).
  { induction sched as [|tid r IH]; intros s H; cbn [fold_left]; [exact H | apply IH, sched_step_memo_inv, H]. }
  apply G, memo_inv_new.
Qed.

Lemma memo_inv_once m k : memo_inv m -> length (filter (c_is_succ k) (m_trace m)) <= 1.
Proof. intros (_ & H & _). rewrite H. destruct (tfind k (lm_table (m_lm m))); lia. Qed.

(* ---------- program order: a thread issues its requests in order, none lost, none invented ---------- *)
Definition thread_reqs (th : thread) : list frequest :=
  map fst (t_done th) ++ (match t_cur th with Some (rq, _) => [rq] | None => [] end) ++ t_todo th.

Lemma sched_step_reqs s tid : map thread_reqs (s_threads (sched_step s tid)) = map thread_reqs (s_threads s).
Proof.
  unfold ConcurrentBundle.sched_step.
  destruct (nth_error (s_threads s) tid) as [th|] eqn:N; [|reflexivity].
  destruct (t_cur th) as [[rq [r|ty num cat k]]|] eqn:C.
  - cbn [set_thread s_threads]. eapply map_set_nth_same; [exact N|].
    unfold thread_reqs. cbn [t_done t_cur t_todo]. rewrite C, map_app, <- app_assoc. reflexivity.
  - destruct (memo_step (s_memo s) ty num cat) as [m' ans]. cbn [s_threads].
    eapply map_set_nth_same; [exact N|]. unfold thread_reqs. cbn [t_done t_cur t_todo]. rewrite C. reflexivity.
  - destruct (t_todo th) as [|rq rest] eqn:T; [reflexivity|].
    cbn [set_thread s_threads]. eapply map_set_nth_same; [exact N|].
    unfold thread_reqs. cbn [t_done t_cur t_todo]. rewrite C, T. reflexivity.
Qed.

Lemma run_reqs programs sched : map thread_reqs (s_threads (run_schedule programs sched)) = programs.
Proof.
  unfold ConcurrentBundle.run_schedule.
  assert (G : forall s, map thread_reqs (s_threads (fold_left sched_step sched s)) = map thread_reqs (s_threads s)).
  { induction sched as [|tid r IH]; intros s; cbn [fold_left]; [reflexivity | rewrite IH; apply sched_step_reqs]. }
  rewrite G. unfold c_init. cbn [s_threads]. rewrite map_map. cbn. unfold thread_reqs. cbn.
  induction programs as [|p r IH]; cbn; [reflexivity | now rewrite IH].
Qed.

Lemma finished_reqs s tid th :
  finished s = true -> nth_error (s_threads s) tid = Some th -> thread_reqs th = map fst (t_done th).
Proof.
  intros F N. unfold finished in F. rewrite forallb_forall in F.
  specialize (F th (nth_error_In _ _ N)). unfold thread_finished, thread_reqs in *.
  destruct (t_cur th); [discriminate|]. destruct (t_todo th); [|discriminate]. now rewrite !app_nil_r.
Qed.

(* ---------- no step is ever disabled, and every step is progress ---------- *)
Definition thread_weight (th : thread) : nat :=
  (match t_cur th with Some (_, p) => S (depth p) | None => 0 end) +
  list_sum (map (fun rq => 2 + depth (request_proc rq)) (t_todo th)).
Definition weight (s : cstate) : nat := list_sum (map thread_weight (s_threads s)).

Lemma thread_finished_weight th : thread_finished th = true <-> thread_weight th = 0.
Proof.
  unfold thread_finished, thread_weight. destruct (t_cur th) as [[rq p]|]; [split; [discriminate | cbn; lia]|].
  destruct (t_todo th); cbn; split; auto; try discriminate; lia.
Qed.

Lemma sched_step_progress s tid th :
  nth_error (s_threads s) tid = Some th -> thread_finished th = false ->
  weight (sched_step s tid) < weight s.
Proof.
  intros N F. unfold ConcurrentBundle.sched_step, weight. rewrite N.
  destruct (t_cur th) as [[rq [r|ty num cat k]]|] eqn:C.
  - cbn [set_thread s_threads]. eapply sum_set_nth_lt; [exact N|].
    unfold thread_weight. cbn [t_cur t_todo]. rewrite C. cbn. lia.
  - destruct (memo_step (s_memo s) ty num cat) as [m' ans]. cbn [s_threads].
    eapply sum_set_nth_lt; [exact N|]. unfold thread_weight. cbn [t_cur t_todo]. rewrite C.
    destruct ans as [r|t|]; cbn [depth]; [pose proof (depth_k k r)|..]; lia.
  - destruct (t_todo th) as [|rq rest] eqn:T.
    + unfold thread_finished in F. rewrite C, T in F. discriminate.
    + cbn [set_thread s_threads]. eapply sum_set_nth_lt; [exact N|].
      unfold thread_weight. cbn [t_cur t_todo]. rewrite C, T. unfold list_sum. cbn [map fold_right]. lia.
Qed.

Lemma finished_weight s : finished s = true <-> weight s = 0.
Proof.
  unfold finished, weight, list_sum. induction (s_threads s) as [|th l IH]; cbn [forallb map fold_right]; [tauto|].
  rewrite Bool.andb_true_iff, IH, thread_finished_weight. lia.
Qed.

Lemma unfinished_thread s : finished s = false -> exists tid th, nth_error (s_threads s) tid = Some th /\ thread_finished th = false.
Proof.
  unfold finished. induction (s_threads s) as [|th l IH]; cbn; [discriminate|].
  destruct (thread_finished th) eqn:F.
  - cbn. intros H. destruct (IH H) as (tid & th' & N & F'). exists (S tid), th'. auto.
  - intros _. exists 0, th. auto.
Qed.

(* every state can be driven to the end, in at most `weight` steps *)
Lemma can_finish : forall n s, weight s <= n -> exists sched, length sched <= n /\ finished (fold_left sched_step sched s) = true.
Proof.
  induction n as [|n IH]; intros s W.
  - exists []. split; [cbn; lia|]. apply finished_weight. cbn. lia.
  - destruct (finished s) eqn:F; [exists []; split; [cbn; lia | exact F]|].
    destruct (unfinished_thread s F) as (tid & th & N & Fth).
    pose proof (sched_step_progress s tid th N Fth) as L.
    destruct (IH (sched_step s tid)) as (sched & Ls & Fs); [lia|].
    exists (tid :: sched). split; [cbn; lia | exact Fs].
Qed.

Lemma all_answered programs sched tid th :
  finished (run_schedule programs sched) = true ->
  nth_error (s_threads (run_schedule programs sched)) tid = Some th ->
  nth_error programs tid = Some (map fst (t_done th)).
Proof.
  intros F N.
  rewrite <- (finished_reqs _ _ _ F N).
  rewrite <- (run_reqs programs sched) at 1.
  now apply map_nth_error.
Qed.

Lemma cold_cache programs sched :
  let m := s_memo (run_schedule programs sched) in
  (forall k, length (filter (c_is_succ k) (m_trace m)) <= 1) /\
  (forall e, In e (m_trace m) ->
     Memoizer.ev_lang e = lang /\ Memoizer.ev_type e = PLURAL_RULES /\
     exists ty, Memoizer.ev_args e = args_of ty /\
                Memoizer.ev_ok e = match plural_construct lang ty with Memoizer.Ok _ => true | Memoizer.Err _ => false end) /\
  (forall ty num cat, m_poisoned m = false ->
     exists m',
       memo_step m ty num cat =
         (m', match plural_construct lang ty with
              | Memoizer.Ok i => select_callback num cat i
              | Memoizer.Err _ => unwrap_panic
              end) /\
       (forall i, plural_construct lang ty = Memoizer.Ok i ->
                  length (filter (c_is_succ (PLURAL_RULES, args_of ty)) (m_trace m')) = 1) /\
       (forall i, tfind (PLURAL_RULES, args_of ty) (lm_table (m_lm m)) = Some i -> m_trace m' = m_trace m)).
Proof.
  intros m. pose proof (run_memo_inv programs sched) as Hinv. fold m in Hinv.
  split; [intros k; apply memo_inv_once, Hinv|].
  split; [apply Hinv|].
  intros ty num cat Hp.
  destruct (memo_step_spec m ty num cat Hinv Hp) as (m' & E & I & _ & _ & Hhit & Hins).
  exists m'. split; [exact E|]. split.
  - intros i Ei. destruct I as (_ & Hcnt & _). rewrite Hcnt, (Hins i Ei). reflexivity.
  - intros i Hi. apply (Hhit i Hi).
Qed.

Lemma no_deadlock programs sched :
  let s := run_schedule programs sched in
  (forall tid th, nth_error (s_threads s) tid = Some th -> thread_finished th = false ->
                  weight (sched_step s tid) < weight s) /\
  exists sched', length sched' <= weight s /\ finished (run_schedule programs (sched ++ sched')) = true.
Proof.
  intros s. split.
  - intros tid th. apply sched_step_progress.
  - destruct (can_finish (weight s) s (le_n _)) as (sched' & L & F).
    exists sched'. split; [exact L|]. unfold ConcurrentBundle.run_schedule. rewrite fold_left_app. exact F.
Qed.

(* ---------- schedule independence ---------- *)
Variable rules : ntype -> rules_fn.
Hypothesis Hconstruct : constructs_rules cerr plural_construct lang rules.

(* a process run in which every request for key ty is answered by the callback applied to `rules ty` *)
Fixpoint pure_run {X} (p : proc X) : outcome X :=
  match p with
  | PRet r => r
  | PAsk ty num cat k =>
      match select_callback num cat (rules ty) with
      | Done r => pure_run (k r)
      | Panic t => Panic t
      | OutOfFuel => OutOfFuel
      end
  end.

(* that is how it ends against any sequential table that satisfies the memoizer invariant of C08 *)
Lemma interp_pure {X} (p : proc X) : forall c, cache_ok rules c -> fst (interp rules p c) = pure_run p.
Proof.
  induction p as [r | ty num cat k IH]; intros c Hc; cbn [interp pure_run]; [reflexivity|].
  destruct (with_try_get_ok rules c ty Hc) as [F K].
  destruct (with_try_get rules c ty) as [p c']. cbn [fst snd] in *.
  unfold select_callback. destruct (fnumber_operands num) as [ops|t|]; cbn [obind]; [|reflexivity|reflexivity].
  rewrite F. apply IH, K.
Qed.

Definition seq_result (rq : frequest) : outcome (bytes * scope) := pure_run (request_proc rq).
Definition good (rq : frequest) : Prop := exists x, seq_result rq = Done x.

(* the sequential result IS ResolverModel.format_pattern on the concurrent bundle (custom values printed by
   as_string_threadsafe), from ANY memoizer content satisfying cache_ok, up to the memoizer in the final scope *)
Lemma seq_result_format rq c :
  cache_ok rules c ->
  forall text sc,
    format_pattern overflow_checks call_function transform formatter rules as_string_threadsafe
      unescape_write unescape_to_string f64_from_str b (fr_args rq) (fuel_of b (fr_pattern rq)) (fr_top rq) (fr_pattern rq) c
    = Done (text, sc) ->
    seq_result rq = Done (text, erase sc).
Proof.
  intros Hc text sc E. unfold seq_result. rewrite <- (interp_pure _ c Hc).
  pose proof (format_pattern_p_eq overflow_checks call_function transform formatter rules as_string as_string_threadsafe
                unescape_write unescape_to_string f64_from_str Concurrent b (fr_args rq)
                (fuel_of b (fr_pattern rq)) (fr_top rq) (fr_pattern rq) c) as A.
  change (stringify_value as_string as_string_threadsafe Concurrent) with as_string_threadsafe in A.
  rewrite E in A. cbn [agree] in A. unfold ConcurrentBundle.request_proc. rewrite A. reflexivity.
Qed.

Definition table_ok (m : bmemo) : Prop := memo_inv m /\ m_poisoned m = false.

Definition thread_ok (th : thread) : Prop :=
  match t_cur th with
  | Some (rq, p) => pure_run p = seq_result rq /\ good rq
  | None => True
  end /\
  Forall good (t_todo th) /\
  Forall (fun x => snd x = seq_result (fst x) /\ good (fst x)) (t_done th).

Definition state_ok (s : cstate) : Prop := table_ok (s_memo s) /\ Forall thread_ok (s_threads s).

Lemma sched_step_ok s tid : state_ok s -> state_ok (sched_step s tid).
Proof.
  intros [[Hm Hp] Hth]. unfold ConcurrentBundle.sched_step.
  destruct (nth_error (s_threads s) tid) as [th|] eqn:N; [|split; [split|]; assumption].
  pose proof (proj1 (Forall_forall _ _) Hth th (nth_error_In _ _ N)) as (Hcur & Htodo & Hdone).
  destruct (t_cur th) as [[rq [r|ty num cat k]]|] eqn:C.
  - (* the call returns *)
    split; [split; assumption|]. cbn [set_thread s_threads]. apply Forall_set_nth; [exact Hth|].
    unfold thread_ok. cbn [t_cur t_todo t_done]. split; [exact Logic.I|]. split; [exact Htodo|].
    apply Forall_app. split; [exact Hdone|]. constructor; [|constructor]. exact Hcur.
  - (* the call's next with_try_get_threadsafe *)
    destruct Hcur as [Hpure Hgood].
    destruct (memo_step_spec (s_memo s) ty num cat Hm Hp) as (m' & E & I & P & _).
    rewrite E. rewrite Hconstruct in *.
    cbn [pure_run] in Hpure. destruct Hgood as [x Hx]. rewrite Hx in Hpure.
    destruct (select_callback num cat (rules ty)) as [r|t|]; try discriminate.
    split; [split; assumption|]. cbn [s_threads]. apply Forall_set_nth; [exact Hth|].
    unfold thread_ok. cbn [t_cur t_todo t_done]. split; [|split; assumption].
    split; [congruence | exists x; exact Hx].
  - (* the next call begins *)
    destruct (t_todo th) as [|rq rest] eqn:T; [split; [split|]; assumption|].
    split; [split; assumption|]. cbn [set_thread s_threads]. apply Forall_set_nth; [exact Hth|].
    unfold thread_ok. cbn [t_cur t_todo t_done]. inversion Htodo; subst. auto.
Qed.

Lemma run_ok programs sched : Forall good (concat programs) -> state_ok (run_schedule programs sched).
Proof.
  intros Hg. unfold ConcurrentBundle.run_schedule.
  assert (G : forall s, state_ok s -> state_ok (fold_left sched_step sched s)).
  { induction sched as [|tid r IH]; intros s H; cbn [fold_left]; [exact H | apply IH, sched_step_ok, H]. }
  apply G. split; [split; [apply memo_inv_new | reflexivity]|].
  unfold c_init. cbn [s_threads]. apply Forall_forall. intros th Hin. apply in_map_iff in Hin as (reqs & <- & Hin).
  unfold thread_ok, thread_new. cbn. repeat split; auto.
  apply Forall_forall. intros rq Hrq. apply (proj1 (Forall_forall _ _) Hg). apply in_concat. eauto.
Qed.

Lemma all_good programs :
  values_are_f64 call_function f64_from_str programs -> Forall good (concat programs).
Proof.
  intros (H1 & H2 & H3). apply Forall_forall. intros rq Hin.
  destruct (format_pattern_total overflow_checks call_function transform formatter rules as_string_threadsafe
              unescape_write unescape_to_string f64_from_str b (fr_args rq) H1 H2 (H3 rq Hin) (fr_top rq) (fr_pattern rq) [])
    as (text & sc & E & _).
  exists (text, erase sc).
  eapply seq_result_format; [exact (cache_ok_nil rules) | exact E].
Qed.

Lemma sched_indep programs sched :
  values_are_f64 call_function f64_from_str programs ->
  let s := run_schedule programs sched in
  map thread_reqs (s_threads s) = programs /\
  m_poisoned (s_memo s) = false /\
  forall tid th rq r,
    nth_error (s_threads s) tid = Some th -> In (rq, r) (t_done th) ->
    (exists text sc, r = Done (text, sc)) /\
    forall c, cache_ok rules c ->
      r = observe_f (format_pattern overflow_checks call_function transform formatter rules as_string_threadsafe
                       unescape_write unescape_to_string f64_from_str b (fr_args rq) (fuel_of b (fr_pattern rq))
                       (fr_top rq) (fr_pattern rq) c).
Proof.
  intros Hv s.
  split; [apply run_reqs|].
  pose proof (run_ok programs sched (all_good programs Hv)) as [[_ Hp] Hth].
  split; [exact Hp|].
  intros tid th rq r N Hin.
  pose proof (proj1 (Forall_forall _ _) Hth th (nth_error_In _ _ N)) as (_ & _ & Hdone).
  pose proof (proj1 (Forall_forall _ _) Hdone (rq, r) Hin) as [Er [x Hx]]. cbn [fst snd] in *.
  split; [destruct x as [text sc]; exists text, sc; congruence|].
  intros c Hcache.
  destruct Hv as (H1 & H2 & H3).
  assert (Hrq : In rq (concat programs)).
  { pose proof (run_reqs programs sched) as R.
    fold s in R. rewrite <- R. apply in_concat. exists (thread_reqs th). split.
    - apply in_map, (nth_error_In _ _ N).
    - unfold thread_reqs. apply in_or_app. left. apply (in_map fst _ _ Hin). }
  destruct (format_pattern_total overflow_checks call_function transform formatter rules as_string_threadsafe
              unescape_write unescape_to_string f64_from_str b (fr_args rq) H1 H2 (H3 rq Hrq) (fr_top rq) (fr_pattern rq) c)
    as (text & sc & E & _).
  rewrite E, Er. cbn. eapply seq_result_format; [exact Hcache | exact E].
Qed.

End Conc.

(* two runs that differ in programs, schedule and in the NON-threadsafe printer of custom values *)
Lemma custom_values :
  forall overflow_checks call_function transform formatter as_string1 as_string2 as_string_threadsafe
         unescape_write unescape_to_string f64_from_str cerr plural_construct b lang rules
         programs1 programs2 sched1 sched2 tid1 tid2 th1 th2 rq r1 r2,
    values_are_f64 call_function f64_from_str programs1 -> values_are_f64 call_function f64_from_str programs2 ->
    constructs_rules cerr plural_construct lang rules ->
    nth_error (s_threads (run_schedule overflow_checks call_function transform formatter as_string1 as_string_threadsafe
                            unescape_write unescape_to_string f64_from_str cerr plural_construct b lang programs1 sched1)) tid1
      = Some th1 ->
    nth_error (s_threads (run_schedule overflow_checks call_function transform formatter as_string2 as_string_threadsafe
                            unescape_write unescape_to_string f64_from_str cerr plural_construct b lang programs2 sched2)) tid2
      = Some th2 ->
    In (rq, r1) (t_done th1) -> In (rq, r2) (t_done th2) ->
    r1 = r2 /\
    r1 = observe_f (format_pattern overflow_checks call_function transform formatter rules as_string_threadsafe
                      unescape_write unescape_to_string f64_from_str b (fr_args rq) (fuel_of b (fr_pattern rq))
                      (fr_top rq) (fr_pattern rq) []).
Proof.
  intros until r2. intros V1 V2 Hc N1 N2 I1 I2.
  destruct (sched_indep overflow_checks call_function transform formatter as_string1 as_string_threadsafe
              unescape_write unescape_to_string f64_from_str cerr plural_construct b lang rules Hc programs1 sched1 V1)
    as (_ & _ & H1).
  destruct (sched_indep overflow_checks call_function transform formatter as_string2 as_string_threadsafe
              unescape_write unescape_to_string f64_from_str cerr plural_construct b lang rules Hc programs2 sched2 V2)
    as (_ & _ & H2).
  destruct (H1 tid1 th1 rq r1 N1 I1) as [_ E1]. destruct (H2 tid2 th2 rq r2 N2 I2) as [_ E2].
  rewrite (E1 [] (cache_ok_nil rules)), (E2 [] (cache_ok_nil rules)). split; reflexivity.
Qed.

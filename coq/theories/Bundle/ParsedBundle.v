(* Bundle/ParsedBundle.v — "every bundle built from any parsed resources" (property C06), as a definition and a
   theorem: the resolver's bundle (ResolverModel.bundle) that FluentBundle::add_resource / add_function build from a
   list of parser outputs, and the fact that all its messages and terms are entries of parser outputs
   (ParsedNamedArgs.from_parse) — the premise under which ParsedNamedArgs.parsed_named_args_ok discharges the
   `named_args_ok` premise of the byte bounds (ResolverBytes.v, ResolverBytesLinear.v).

   The construction is the one of the executable model (Extract/ExtractC06.v run_case, mirror of
   harness/src/bin/bundle_run.rs: add_resource for each resource in order, then add_function for each name, errors
   ignored): `add_entry`, `add_ast_entry`, `add_function` below are copies of the definitions of the same names
   there (a proof file does not Require an extraction file); Bundle/ParsedBundleAgree.v Requires both and proves
   the copies equal by reflexivity, and `b_entries (bundle_of ts funcs iso)` equal to the `m` of run_case.
   The first registration of an id wins, across kinds (bundle.rs add_resource: Entry::Vacant only; an occupied id
   is an Overriding error and the entry is skipped).

     built_from_parse        every t of ts is a parser output -> Forall from_parse (b_entries (bundle_of ts funcs iso))
     built_named_args_ok     ... and p a pattern of the bundle -> named_args_ok (bundle_of ts funcs iso) p = true
     built_named_args_ok_any ... the same for p any value / attribute pattern of any entry of ts (registered or
                             shadowed by an earlier entry of the same id: what the harness formats for `(term id attr)`)
     built_patterns_parsed   the patterns of the bundle are patterns of entries of ts (nothing else gets in)

   Note on the executable runs: run_case decodes the resource trees it is given (the harness sends the trees the
   REAL parser returned; that they are the trees of the MODEL parser is the correspondence check of C01–C04, not a
   theorem).  The theorems here quantify over trees with `parse bs = Done (t, errs)` for the model parser — the
   quantifier of the property. *)
From FluentV Require Import Base.Bytes Base.Outcome Syntax.Ast Syntax.ParserModel.
From FluentV Require Import Bundle.Number Bundle.ResolverModel Bundle.ResolverBytes Bundle.ParsedNamedArgs.
From Coq Require Import List.
Import ListNotations.

(* ---------- the construction (copies of Extract/ExtractC06.v, see Bundle/ParsedBundleAgree.v) ---------- *)
Definition add_entry (m : list (bytes * bentry)) (id : bytes) (e : bentry) : list (bytes * bentry) :=
  match entry_find m id with Some _ => m | None => m ++ [(id, e)] end.

Definition add_ast_entry (m : list (bytes * bentry)) (e : entry) : list (bytes * bentry) :=
  match e with
  | Message id v attrs _ => add_entry m id (EMessage v attrs)
  | Term id v attrs _ => add_entry m id (ETerm v attrs)
  | _ => m
  end.

Definition add_function (m : list (bytes * bentry)) (name : bytes) : list (bytes * bentry) :=
  add_entry m name (EFunction (if str_is "NUMBER" name then FnNUMBER else FnUser name)).

(* ts: the resources in the order of the add_resource calls; funcs: the names given to add_function afterwards *)
Definition entries_of (ts : list resource) (funcs : list bytes) : list (bytes * bentry) :=
  fold_left add_function funcs (fold_left add_ast_entry (concat ts) []).

Definition bundle_of (ts : list resource) (funcs : list bytes) (use_isolating : bool) : bundle :=
  Bundle (entries_of ts funcs) use_isolating.

(* ---------- parser outputs ---------- *)
Definition parser_outputs (ts : list resource) : Prop :=
  forall t, In t ts -> exists bs errs, parse bs = Done (t, errs).

(* an entry of some parser output *)
Definition parsed_entry (e : entry) : Prop := exists bs t errs, parse bs = Done (t, errs) /\ In e t.

Lemma parser_outputs_entries ts : parser_outputs ts -> Forall parsed_entry (concat ts).
Proof.
  intros Hts. apply Forall_forall. intros e He. apply in_concat in He as (t & Ht & Het).
  destruct (Hts t Ht) as (bs & errs & Hparse). exists bs, t, errs. split; assumption.
Qed.

(* ---------- the invariant ---------- *)
Lemma add_entry_from_parse m id e :
  Forall from_parse m -> from_parse (id, e) -> Forall from_parse (add_entry m id e).
Proof.
  intros Hm He. unfold add_entry. destruct (entry_find m id) as [x|]; [exact Hm|].
  apply Forall_app. split; [exact Hm|]. constructor; [exact He | constructor].
Qed.

Lemma add_ast_entry_from_parse m e :
  Forall from_parse m -> parsed_entry e -> Forall from_parse (add_ast_entry m e).
Proof.
  intros Hm (bs & t & errs & Hparse & Hin).
  destruct e as [id v attrs c | id v attrs c | c | c | c | j]; cbn [add_ast_entry]; try exact Hm.
  - apply add_entry_from_parse; [exact Hm|]. unfold from_parse. cbn [snd]. exists bs, t, errs, id, c. split; assumption.
  - apply add_entry_from_parse; [exact Hm|]. unfold from_parse. cbn [snd]. exists bs, t, errs, id, c. split; assumption.
Qed.

Lemma add_function_from_parse m name : Forall from_parse m -> Forall from_parse (add_function m name).
Proof. intros Hm. unfold add_function. apply add_entry_from_parse; [exact Hm|]. exact Logic.I. Qed.

Lemma fold_add_ast_entry_from_parse es : forall m,
  Forall from_parse m -> Forall parsed_entry es -> Forall from_parse (fold_left add_ast_entry es m).
Proof.
  induction es as [|e r IH]; intros m Hm Hes; cbn [fold_left]; [exact Hm|].
  inversion Hes as [|e' r' He Hr]; subst. apply IH; [|exact Hr]. apply add_ast_entry_from_parse; assumption.
Qed.

Lemma fold_add_function_from_parse funcs : forall m,
  Forall from_parse m -> Forall from_parse (fold_left add_function funcs m).
Proof.
  induction funcs as [|f r IH]; intros m Hm; cbn [fold_left]; [exact Hm|].
  apply IH, add_function_from_parse, Hm.
Qed.

Theorem built_from_parse ts funcs iso :
  parser_outputs ts -> Forall from_parse (b_entries (bundle_of ts funcs iso)).
Proof.
  intros Hts. unfold bundle_of, entries_of. cbn [b_entries].
  apply fold_add_function_from_parse, fold_add_ast_entry_from_parse; [constructor|].
  apply parser_outputs_entries, Hts.
Qed.

(* ---------- the premise of the byte bounds ---------- *)
Theorem built_named_args_ok ts funcs iso p :
  parser_outputs ts -> In p (bundle_patterns (bundle_of ts funcs iso)) -> named_args_ok (bundle_of ts funcs iso) p = true.
Proof. intros Hts Hp. apply parsed_named_args_ok; [apply built_from_parse, Hts | exact Hp]. Qed.

(* p is the value or an attribute value of a message or term of one of the resources *)
Definition resource_pattern (ts : list resource) (p : pattern) : Prop :=
  exists t e, In t ts /\ In e t /\ In p (entry_value_patterns e).

Theorem built_named_args_ok_any ts funcs iso p :
  parser_outputs ts -> resource_pattern ts p -> named_args_ok (bundle_of ts funcs iso) p = true.
Proof.
  intros Hts (t & e & Ht & He & Hp). destruct (Hts t Ht) as (bs & errs & Hparse).
  exact (parsed_named_args_ok_any (bundle_of ts funcs iso) p bs t errs e (built_from_parse ts funcs iso Hts) Hparse He Hp).
Qed.

(* ---------- nothing but the resources' patterns gets into the bundle ---------- *)
Definition entry_of_resources (ts : list resource) (kv : bytes * bentry) : Prop :=
  match snd kv with
  | EMessage v attrs => exists t c, In t ts /\ In (Message (fst kv) v attrs c) t
  | ETerm v attrs => exists t c, In t ts /\ In (Term (fst kv) v attrs c) t
  | EFunction _ => True
  end.

Lemma add_entry_inv (P : bytes * bentry -> Prop) m id e : Forall P m -> P (id, e) -> Forall P (add_entry m id e).
Proof.
  intros Hm He. unfold add_entry. destruct (entry_find m id) as [x|]; [exact Hm|].
  apply Forall_app. split; [exact Hm|]. constructor; [exact He | constructor].
Qed.

Lemma fold_add_ast_entry_of_resources ts es : forall m,
  Forall (entry_of_resources ts) m -> (forall e, In e es -> exists t, In t ts /\ In e t) ->
  Forall (entry_of_resources ts) (fold_left add_ast_entry es m).
Proof.
  induction es as [|e r IH]; intros m Hm Hes; cbn [fold_left]; [exact Hm|].
  apply IH; [|intros e' He'; apply Hes; right; exact He'].
  destruct (Hes e (or_introl eq_refl)) as (t & Ht & Het).
  destruct e as [id v attrs c | id v attrs c | c | c | c | j]; cbn [add_ast_entry]; try exact Hm.
  - apply add_entry_inv; [exact Hm|]. unfold entry_of_resources. cbn [fst snd]. exists t, c. split; assumption.
  - apply add_entry_inv; [exact Hm|]. unfold entry_of_resources. cbn [fst snd]. exists t, c. split; assumption.
Qed.

Lemma fold_add_function_of_resources ts funcs : forall m,
  Forall (entry_of_resources ts) m -> Forall (entry_of_resources ts) (fold_left add_function funcs m).
Proof.
  induction funcs as [|f r IH]; intros m Hm; cbn [fold_left]; [exact Hm|].
  apply IH. unfold add_function. apply add_entry_inv; [exact Hm | exact Logic.I].
Qed.

Theorem built_entries_of_resources ts funcs iso : Forall (entry_of_resources ts) (b_entries (bundle_of ts funcs iso)).
Proof.
  unfold bundle_of, entries_of. cbn [b_entries].
  apply fold_add_function_of_resources, fold_add_ast_entry_of_resources; [constructor|].
  intros e He. apply in_concat in He as (t & Ht & Het). exists t. split; assumption.
Qed.

Theorem built_patterns_parsed ts funcs iso p :
  In p (bundle_patterns (bundle_of ts funcs iso)) -> resource_pattern ts p.
Proof.
  intros Hp. unfold bundle_patterns in Hp. apply in_flat_map in Hp as ((id & be) & Hkv & Hin).
  pose proof (built_entries_of_resources ts funcs iso) as H. rewrite Forall_forall in H. specialize (H _ Hkv).
  unfold entry_of_resources in H. cbn [fst snd] in *.
  destruct be as [v attrs | v attrs | f]; cbn [entry_patterns] in Hin.
  - destruct H as (t & c & Ht & He). exists t, (Message id v attrs c). repeat split; assumption.
  - destruct H as (t & c & Ht & He). exists t, (Term id v attrs c). repeat split; assumption.
  - destruct Hin.
Qed.

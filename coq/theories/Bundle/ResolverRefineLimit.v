(* Bundle/ResolverRefineLimit.v — the resolver model refines the BUDGETED specification
   (Bundle/ResolverSpecLimit.v) on EVERY run, also those that reach the placeable limit (property C07).

   Same induction on fuel over the mutually recursive functions of Bundle/ResolverModel.v as
   Bundle/ResolverRefine.v, with the invariant strengthened: for a call on scope `sc` that returns
   `Done (out, sc')`
     * local_args and travelled are restored, the memoizer invariant is kept, the counter stays within
       MAX_PLACEABLES (+1 once dirty);
     * errors and calls are only appended:  errors sc' = errors sc ++ es,  calls sc' = calls sc ++ cs;
     * (flatten out, es, cs) is what the budgeted specification assigns to the node FROM the state
       (placeables sc, dirty sc) TO the state (placeables sc', dirty sc') — whatever the dirty flags are.
   Then:  specb_refines / specb_refines_format (write_pattern, both isolation settings / format_pattern: EVERY run),
          specb_total       (every named pattern has a result: ResolverTotal.v),
          specb_conservative (not dirty at the end  =>  the rules of ResolverSpec.v),
          specb_functional  (at most one result and final state),
          specb_errors      (TooManyPlaceables exactly when the dirty flag is set by this derivation, once),
          specb_count       (the counter is MAX_PLACEABLES + 1 exactly when dirty),
          specb_prefix      (the errors before TooManyPlaceables are an initial segment of those of the
                             un-budgeted rules, in order).
   What is evaluated after the limit: Bundle/ResolverLimitDirty.v. *)
From FluentV Require Import Base.Bytes Base.BytesFacts Base.Outcome Syntax.Ast Bundle.Args Bundle.ArgsProofs
  Bundle.Number Bundle.ResolverAst Bundle.ResolverAstProofs Bundle.ResolverModel Bundle.ResolverEqns
  Bundle.ResolverSim Bundle.ResolverIso Bundle.ResolverPure Bundle.ResolverSpec Bundle.ResolverRefine
  Bundle.ResolverSpecLimit Gen.Extracted.
From FluentV Require Bundle.ResolverTotal Bundle.NumberProofs.
From Coq Require Import Lia ZifyBool ZifyNat ZifyN.

Arguments N.add : simpl never.
Arguments N.sub : simpl never.
Arguments N.pow : simpl never.
Arguments N.eqb : simpl never.
Arguments N.ltb : simpl never.
Arguments N.leb : simpl never.

Local Open Scope N_scope.

(* ---------- the state of the specification inside a scope ---------- *)
Definition st_of (sc : scope) : bstate := (sc_placeables sc, sc_dirty sc).

(* resolver/scope.rs: placeables <= MAX_PLACEABLES, or it is MAX_PLACEABLES + 1 and the scope is dirty
   (ResolverTotal.v budget_ok) *)
Definition st_ok (st : bstate) : Prop :=
  fst st <= MAX_PLACEABLES \/ (fst st = MAX_PLACEABLES + 1 /\ snd st = true).

Lemma st_of_dirty sc d : sc_dirty sc = d -> st_of sc = (sc_placeables sc, d).
Proof. intros <-. reflexivity. Qed.

(* what `write_error` writes is the written form of the specification *)
Fixpoint written_inline_eq (i : inline) : inline_write_error i = written_inline i
with written_expr_eq (e : expression) : expression_write_error e = written_expr e.
Proof.
  - destruct i as [value | value | id arguments | id attribute | id attribute arguments | id | expression];
      cbn [inline_write_error written_inline source_form]; try reflexivity.
    apply written_expr_eq.
  - destruct e as [selector variants | exp]; cbn [expression_write_error written_expr]; apply written_inline_eq.
Qed.

Section RefineLimit.
Variable overflow_checks : bool.
Variable call_function : bytes -> list fvalue -> fargs -> fvalue.
Variable transform : option (bytes -> bytes).
Variable formatter : option (fvalue -> option bytes).
Variable rules : ntype -> rules_fn.
Variable custom_as_string : bytes -> bytes.
Variable unescape_write : bytes -> bytes.
Variable unescape_to_string : bytes -> bytes.
Variable f64_from_str : bytes -> option fval.
Variable m : list (bytes * bentry).
Variable args : option fargs.

(* the writer form and the string form of unescape_unicode agree (C13_writer_eq) *)
Hypothesis Hun : forall s, unescape_to_string s = unescape_write s.

Notation bb := (ResolverRefine.b m).

Notation pw := (pattern_write overflow_checks call_function transform formatter rules custom_as_string
                  unescape_write unescape_to_string f64_from_str bb args).
Notation ew := (expression_write overflow_checks call_function transform formatter rules custom_as_string
                  unescape_write unescape_to_string f64_from_str bb args).
Notation iw := (inline_write overflow_checks call_function transform formatter rules custom_as_string
                  unescape_write unescape_to_string f64_from_str bb args).
Notation ir := (inline_resolve overflow_checks call_function transform formatter rules custom_as_string
                  unescape_write unescape_to_string f64_from_str bb args).
Notation mt := (maybe_track overflow_checks call_function transform formatter rules custom_as_string
                  unescape_write unescape_to_string f64_from_str bb args).
Notation tr := (track overflow_checks call_function transform formatter rules custom_as_string
                  unescape_write unescape_to_string f64_from_str bb args).
Notation ga := (get_arguments overflow_checks call_function transform formatter rules custom_as_string
                  unescape_write unescape_to_string f64_from_str bb args).

Notation BP := (specb_pattern call_function transform formatter rules custom_as_string unescape_write f64_from_str m args).
Notation BL := (specb_elements call_function transform formatter rules custom_as_string unescape_write f64_from_str m args).
Notation BT := (specb_tracked call_function transform formatter rules custom_as_string unescape_write f64_from_str m args).
Notation BX := (specb_expr call_function transform formatter rules custom_as_string unescape_write f64_from_str m args).
Notation BI := (specb_inline call_function transform formatter rules custom_as_string unescape_write f64_from_str m args).
Notation BV := (specb_value call_function transform formatter rules custom_as_string unescape_write f64_from_str m args).
Notation BA := (specb_args call_function transform formatter rules custom_as_string unescape_write f64_from_str m args).
Notation BS := (specb_values call_function transform formatter rules custom_as_string unescape_write f64_from_str m args).
Notation BR := (specb_expand call_function transform formatter rules custom_as_string unescape_write f64_from_str m args).

Notation cok := (cache_ok rules).

(* a judgement with the text fixed: from a state, errors, calls, to a state *)
Definition JT : Type := bstate -> list resolver_error -> list call_record -> bstate -> Prop.

(* ---------- the relation between the scope before and after a call ---------- *)
Definition PostB (V : scope -> scope -> Prop) (sc sc' : scope) (J : JT) : Prop :=
  sc_local_args sc' = sc_local_args sc /\
  V sc sc' /\
  cok (sc_intls sc') /\
  st_ok (st_of sc') /\
  exists es cs,
    sc_errors sc' = sc_errors sc ++ es /\ sc_calls sc' = sc_calls sc ++ cs /\
    J (st_of sc) es cs (st_of sc').

Lemma PostB_refl (V : scope -> scope -> Prop) sc (J : JT) :
  V sc sc -> cok (sc_intls sc) -> st_ok (st_of sc) -> J (st_of sc) [] [] (st_of sc) -> PostB V sc sc J.
Proof.
  intros HV Hc Hk HJ. split; [reflexivity|]. split; [exact HV|]. split; [exact Hc|]. split; [exact Hk|].
  exists [], []. rewrite !app_nil_r. repeat split; auto.
Qed.

Lemma PostB_weaken (V V' : scope -> scope -> Prop) sc sc' (J J' : JT) :
  PostB V sc sc' J -> (V sc sc' -> V' sc sc') ->
  (forall es cs, J (st_of sc) es cs (st_of sc') -> J' (st_of sc) es cs (st_of sc')) ->
  PostB V' sc sc' J'.
Proof.
  intros (L & HV & C & K & es & cs & E1 & E2 & HJ) HVV HJJ.
  split; [exact L|]. split; [auto|]. split; [exact C|]. split; [exact K|].
  exists es, cs. repeat split; auto.
Qed.

Lemma PostB_seq (V : scope -> scope -> Prop) a c d (J1 J2 J : JT) :
  (V a c -> V c d -> V a d) ->
  PostB V a c J1 -> PostB V c d J2 ->
  (forall e1 c1 e2 c2, J1 (st_of a) e1 c1 (st_of c) -> J2 (st_of c) e2 c2 (st_of d) ->
                       J (st_of a) (e1 ++ e2) (c1 ++ c2) (st_of d)) ->
  PostB V a d J.
Proof.
  intros HVt (L1 & V1 & C1 & K1 & es1 & cs1 & E1 & X1 & HJ1) (L2 & V2 & C2 & K2 & es2 & cs2 & E2 & X2 & HJ2) HJ.
  split; [congruence|]. split; [auto|]. split; [exact C2|]. split; [exact K2|].
  exists (es1 ++ es2), (cs1 ++ cs2).
  split; [rewrite E2, E1, app_assoc; reflexivity|].
  split; [rewrite X2, X1, app_assoc; reflexivity|].
  apply HJ; assumption.
Qed.

(* a step that changes only fields the specification does not see (travelled, memoizer) *)
Definition same_view (sc sc' : scope) : Prop :=
  sc_local_args sc' = sc_local_args sc /\ sc_errors sc' = sc_errors sc /\ sc_calls sc' = sc_calls sc.

(* ... before a call (the state may change: the placeable counter) *)
Lemma PostB_pre (V V' : scope -> scope -> Prop) sc0 sc sc' (J J' : JT) :
  same_view sc0 sc -> (V sc sc' -> V' sc0 sc') -> PostB V sc sc' J ->
  (forall es cs, J (st_of sc) es cs (st_of sc') -> J' (st_of sc0) es cs (st_of sc')) ->
  PostB V' sc0 sc' J'.
Proof.
  intros (L & E & X) HV (L1 & V1 & C1 & K1 & es & cs & E1 & X1 & HJ) HJJ.
  split; [congruence|]. split; [auto|]. split; [exact C1|]. split; [exact K1|].
  exists es, cs. split; [congruence|]. split; [congruence|]. auto.
Qed.

(* ... at the end of a call (the state does not change) *)
Lemma PostB_post (V V' : scope -> scope -> Prop) sc sc1 sc' (J : JT) :
  PostB V sc sc1 J -> same_view sc1 sc' -> st_of sc' = st_of sc1 -> sc_intls sc' = sc_intls sc1 ->
  (V sc sc1 -> V' sc sc') -> PostB V' sc sc' J.
Proof.
  intros (L1 & V1 & C1 & K1 & es & cs & E1 & X1 & HJ) (L & E & X) S I HV.
  split; [congruence|]. split; [auto|]. split; [rewrite I; exact C1|]. split; [rewrite S; exact K1|].
  exists es, cs. split; [congruence|]. split; [congruence|]. rewrite S. exact HJ.
Qed.

(* one error *)
Lemma PostB_error (V : scope -> scope -> Prop) sc e (J : JT) :
  V sc (add_error sc e) -> cok (sc_intls sc) -> st_ok (st_of sc) -> J (st_of sc) [e] [] (st_of sc) ->
  PostB V sc (add_error sc e) J.
Proof.
  intros HV Hc Hk HJ. split; [reflexivity|]. split; [exact HV|]. split; [exact Hc|]. split; [exact Hk|].
  exists [e], []. cbn [add_error sc_errors sc_calls]. rewrite app_nil_r.
  split; [reflexivity|]. split; [reflexivity|]. exact HJ.
Qed.

(* one function invocation *)
Lemma PostB_call (V : scope -> scope -> Prop) sc c (J : JT) :
  V sc (log_call sc c) -> cok (sc_intls sc) -> st_ok (st_of sc) -> J (st_of sc) [] [c] (st_of sc) ->
  PostB V sc (log_call sc c) J.
Proof.
  intros HV Hc Hk HJ. split; [reflexivity|]. split; [exact HV|]. split; [exact Hc|]. split; [exact Hk|].
  exists [], [c]. cbn [log_call sc_errors sc_calls]. rewrite app_nil_r.
  split; [reflexivity|]. split; [reflexivity|]. exact HJ.
Qed.

(* a term call: the call-site arguments are installed for the body and the previous ones put back *)
Lemma PostB_scoped sc1 la sc3 (J : JT) :
  PostB ViewT (set_local_args sc1 la) sc3 J ->
  PostB ViewT sc1 (set_local_args sc3 (sc_local_args sc1)) J.
Proof.
  intros (L1 & V1 & C1 & K1 & es & cs & E1 & X1 & HJ).
  split; [reflexivity|]. split; [exact V1|]. split; [exact C1|]. split; [exact K1|].
  exists es, cs. split; [exact E1|]. split; [exact X1|]. exact HJ.
Qed.

Lemma PostB_seqT a c d (J1 : JT) (K : option fargs -> JT) (J : JT) :
  PostB ViewT a c J1 -> PostB ViewT c d (K (sc_local_args c)) ->
  (forall e1 c1 e2 c2, J1 (st_of a) e1 c1 (st_of c) -> K (sc_local_args a) (st_of c) e2 c2 (st_of d) ->
                       J (st_of a) (e1 ++ e2) (c1 ++ c2) (st_of d)) ->
  PostB ViewT a d J.
Proof.
  intros P1 P2 HJ. destruct P1 as (L1 & V1 & R1). rewrite L1 in P2.
  eapply PostB_seq; [apply ViewT_trans | exact (conj L1 (conj V1 R1)) | exact P2 | exact HJ].
Qed.

Lemma PostB_trav sc sc' J : PostB ViewT sc sc' J -> sc_travelled sc' = sc_travelled sc.
Proof. intros (_ & V & _). exact V. Qed.
Lemma PostB_trav_ne sc sc' J : PostB ViewT sc sc' J -> sc_travelled sc <> [] -> sc_travelled sc' <> [].
Proof. intros P H. rewrite (PostB_trav _ _ _ P). exact H. Qed.
Lemma PostB_trav_T sc sc' J (T : list pname) :
  PostB ViewT sc sc' J -> sc_travelled sc = keys T -> sc_travelled sc' = keys T.
Proof. intros P H. rewrite (PostB_trav _ _ _ P). exact H. Qed.
Lemma PostB_cok V sc sc' J : PostB V sc sc' J -> cok (sc_intls sc').
Proof. intros (_ & _ & C & _). exact C. Qed.
Lemma PostB_ok V sc sc' J : PostB V sc sc' J -> st_ok (st_of sc').
Proof. intros (_ & _ & _ & K & _). exact K. Qed.

(* ---------- the statements ---------- *)
Definition R_pw f := forall k p sc o sc' T, cok (sc_intls sc) -> st_ok (st_of sc) -> Tof k sc = keys T ->
  pw f k p sc = Done (o, sc') ->
  PostB (ViewP k) sc sc' (fun st es cs st' => BP T (sc_local_args sc) p st (flatten o, es, cs) st').
Definition R_mt f := forall k p e sc o sc' T, cok (sc_intls sc) -> st_ok (st_of sc) -> Tof k sc = keys T ->
  mt f k p e sc = Done (o, sc') ->
  PostB (ViewP k) sc sc' (fun st es cs st' => BT T (sc_local_args sc) e st (flatten o, es, cs) st').
Definition R_ew f := forall e sc o sc' T, cok (sc_intls sc) -> st_ok (st_of sc) ->
  sc_travelled sc <> [] -> sc_travelled sc = keys T ->
  ew f e sc = Done (o, sc') ->
  PostB ViewT sc sc' (fun st es cs st' => BX T (sc_local_args sc) e st (flatten o, es, cs) st').
Definition R_iw f := forall i sc o sc' T, cok (sc_intls sc) -> st_ok (st_of sc) ->
  sc_travelled sc <> [] -> sc_travelled sc = keys T ->
  iw f i sc = Done (o, sc') ->
  PostB ViewT sc sc' (fun st es cs st' => BI T (sc_local_args sc) i st (flatten o, es, cs) st').
Definition R_ir f := forall i sc v sc' T, cok (sc_intls sc) -> st_ok (st_of sc) ->
  sc_travelled sc <> [] -> sc_travelled sc = keys T ->
  ir f i sc = Done (v, sc') ->
  PostB ViewT sc sc' (fun st es cs st' => BV T (sc_local_args sc) i st (v, es, cs) st').
Definition R_tr f := forall n q exp sc o sc' T, cok (sc_intls sc) -> st_ok (st_of sc) ->
  sc_travelled sc <> [] -> sc_travelled sc = keys T ->
  inline_write_error exp = source_form exp ->
  tr f (key_of n) q exp sc = Done (o, sc') ->
  PostB ViewT sc sc' (fun st es cs st' => BR T (sc_local_args sc) exp (Found n q) st (flatten o, es, cs) st').
Definition R_ga f := forall oa sc pos named sc' T, cok (sc_intls sc) -> st_ok (st_of sc) ->
  sc_travelled sc <> [] -> sc_travelled sc = keys T ->
  ga f oa sc = Done (pos, named, sc') ->
  PostB ViewT sc sc' (fun st es cs st' => BA T (sc_local_args sc) oa st (pos, named, es, cs) st').

Definition R_all f := R_pw f /\ R_mt f /\ R_ew f /\ R_iw f /\ R_ir f /\ R_tr f /\ R_ga f.

(* ---------- rules of the specification with the triples spelled out ---------- *)
Lemma BL_text' T env s rest n t es cs st' :
  BL T env rest (n, false) (t, es, cs) st' ->
  BL T env (TextElement s :: rest) (n, false) (transformed transform s ++ t, es, cs) st'.
Proof. intros H. exact (BL_text _ _ _ _ _ _ _ _ _ T env s rest n _ st' H). Qed.

Lemma BL_placeable' T env e rest n t1 e1 c1 st1 t2 e2 c2 st2 :
  n + 1 <= MAX_PLACEABLES ->
  BT T env e (n + 1, false) (t1, e1, c1) st1 -> BL T env rest st1 (t2, e2, c2) st2 ->
  BL T env (PlaceableElement e :: rest) (n, false) (t1 ++ t2, e1 ++ e2, c1 ++ c2) st2.
Proof. intros Hn H1 H2. exact (BL_placeable _ _ _ _ _ _ _ _ _ T env e rest n _ st1 _ st2 Hn H1 H2). Qed.

Lemma BT_cut' T env e st t es cs n' :
  BX T env e st (t, es, cs) (n', true) ->
  BT T env e st (t ++ [123] ++ expression_write_error e ++ [125], es, cs) (n', true).
Proof.
  intros H. pose proof (BT_cut _ _ _ _ _ _ _ _ _ T env e st _ n' H) as H'.
  unfold cut_mark, just, seq in H'. cbn [fst snd] in H'. rewrite !app_nil_r in H'.
  rewrite written_expr_eq. exact H'.
Qed.

Lemma BX_select' T env sel variants v es cs q st st1 t e2 c2 st2 :
  BV T env sel st (v, es, cs) st1 -> chosen rules f64_from_str variants v = Some q ->
  BP T env q st1 (t, e2, c2) st2 ->
  BX T env (Select sel variants) st (t, es ++ e2, cs ++ c2) st2.
Proof. intros H1 H2 H3. exact (BX_select _ _ _ _ _ _ _ _ _ T env sel variants v es cs q st st1 _ st2 H1 H2 H3). Qed.

Lemma BX_select_no_default' T env sel variants v es cs st st1 :
  BV T env sel st (v, es, cs) st1 -> chosen rules f64_from_str variants v = None ->
  BX T env (Select sel variants) st ([], es ++ [MissingDefault], cs) st1.
Proof.
  intros H1 H2. pose proof (BX_select_no_default _ _ _ _ _ _ _ _ _ T env sel variants v es cs st st1 H1 H2) as H.
  unfold silent, fails, seq in H. cbn [fst snd app] in H. rewrite app_nil_r in H. exact H.
Qed.

Lemma BI_term' T env id attr cargs pos named es cs st st1 t e2 c2 st2 :
  BA T env cargs st (pos, named, es, cs) st1 ->
  BR T (Some named) (TermReference id attr cargs) (term_target m id attr) st1 (t, e2, c2) st2 ->
  BI T env (TermReference id attr cargs) st (t, es ++ e2, cs ++ c2) st2.
Proof. intros H1 H2. exact (BI_term _ _ _ _ _ _ _ _ _ T env id attr cargs pos named es cs st st1 _ st2 H1 H2). Qed.

(* ---------- the loops ---------- *)
Lemma pattern_loop_specb f (k : option pkey) (p : pattern) len :
  R_mt f ->
  forall els sc o sc' T, cok (sc_intls sc) -> st_ok (st_of sc) -> Tof k sc = keys T ->
  pattern_loop overflow_checks transform bb (mt f k p) len els sc = Done (o, sc') ->
  PostB (ViewP k) sc sc' (fun st es cs st' => BL T (sc_local_args sc) els st (flatten o, es, cs) st').
Proof.
  intros Hmt. induction els as [|elem rest IH]; intros sc o sc' T Hc Hk HT H; cbn [pattern_loop] in H.
  - injection H as <- <-. apply PostB_refl; [apply ViewP_refl | exact Hc | exact Hk | cbv beta; constructor].
  - destruct (sc_dirty sc) eqn:Hd.
    { injection H as <- <-. apply PostB_refl; [apply ViewP_refl | exact Hc | exact Hk | cbv beta; cbv beta].
      rewrite (st_of_dirty sc true Hd). apply BL_stopped. }
    destruct elem as [value | expression].
    + fold (pattern_loop overflow_checks transform bb (mt f k p) len) in H.
      apply obind_done in H as ([o1 sc1] & E & H). injection H as <- <-.
      eapply PostB_weaken; [exact (IH sc o1 sc1 T Hc Hk HT E) | auto |].
      intros es cs HJ. rewrite (st_of_dirty sc false Hd) in *. exact (BL_text' _ _ value rest _ _ _ _ _ HJ).
    + assert (Hle : sc_placeables sc <= MAX_PLACEABLES).
      { destruct Hk as [Hk | [_ Hk]]; [exact Hk | cbn [st_of snd] in Hk; congruence]. }
      rewrite (ResolverTotal.u8_add1_ok overflow_checks _ Hle) in H. cbn [obind] in H. cbv zeta in H.
      set (n := sc_placeables sc) in *.
      destruct (N.ltb MAX_PLACEABLES (sc_placeables (set_placeables sc (n + 1)))) eqn:Hlt.
      * injection H as <- <-. cbn [set_placeables sc_placeables] in Hlt. apply N.ltb_lt in Hlt.
        split; [reflexivity|]. split; [apply ViewT_P; reflexivity|]. split; [exact Hc|].
        split; [right; cbn; split; [lia | reflexivity]|].
        exists [TooManyPlaceables], []. cbn [add_error set_dirty set_placeables sc_errors sc_calls].
        rewrite app_nil_r. split; [reflexivity|]. split; [reflexivity|].
        rewrite (st_of_dirty sc false Hd). fold n. unfold st_of. cbn [sc_placeables sc_dirty].
        apply BL_limit. exact Hlt.
      * cbn [set_placeables sc_placeables] in Hlt. apply N.ltb_ge in Hlt.
        cbn [ResolverRefine.b b_use_isolating andb] in H.
        fold (pattern_loop overflow_checks transform bb (mt f k p) len) in H.
        apply obind_done in H as ([o1 sc2] & E1 & H).
        apply obind_done in H as ([o2 sc3] & E2 & H). injection H as <- <-.
        set (sc1 := set_placeables sc (n + 1)) in *.
        assert (Hk1 : st_ok (st_of sc1)) by (left; exact Hlt).
        assert (P1 : PostB (ViewP k) sc sc2
                       (fun st es cs st' => BT T (sc_local_args sc) expression (n + 1, false) (flatten o1, es, cs) st')).
        { eapply PostB_pre; [| |exact (Hmt k p expression sc1 o1 sc2 T Hc Hk1 HT E1)|].
          - repeat split.
          - auto.
          - intros es cs HJ. change (st_of sc1) with (n + 1, sc_dirty sc) in HJ.
            rewrite Hd in HJ. exact HJ. }
        assert (HT2 : Tof k sc2 = keys T).
        { destruct P1 as (_ & V1 & _). rewrite (ViewP_Tof _ _ _ V1). exact HT. }
        pose proof (IH sc2 o2 sc3 T (PostB_cok _ _ _ _ P1) (PostB_ok _ _ _ _ P1) HT2 E2) as P2.
        destruct P1 as (L1 & V1 & R1).
        rewrite L1 in P2.
        eapply (PostB_seq (ViewP k) sc sc2 sc3
                  (fun st es cs st' => BT T (sc_local_args sc) expression (n + 1, false) (flatten o1, es, cs) st')
                  (fun st es cs st' => BL T (sc_local_args sc) rest st (flatten o2, es, cs) st'));
          [apply ViewP_trans | exact (conj L1 (conj V1 R1)) | exact P2 |].
        intros e1 c1 e2 c2 J1 J2. cbv beta in *. cbn [app]. rewrite flatten_app.
        rewrite (st_of_dirty sc false Hd). fold n.
        exact (BL_placeable' _ _ _ _ _ _ _ _ _ _ _ _ _ Hlt J1 J2).
Qed.

Lemma resolve_list_specb f :
  R_ir f ->
  forall l sc vs sc' T, cok (sc_intls sc) -> st_ok (st_of sc) -> sc_travelled sc <> [] -> sc_travelled sc = keys T ->
  resolve_list (ir f) l sc = Done (vs, sc') ->
  PostB ViewT sc sc' (fun st es cs st' => BS T (sc_local_args sc) l st (vs, es, cs) st').
Proof.
  intros Hir. induction l as [|x r IH]; intros sc vs sc' T Hc Hk Ht HT H; cbn [resolve_list] in H.
  - injection H as <- <-. apply PostB_refl; [apply ViewT_refl | exact Hc | exact Hk | cbv beta; constructor].
  - apply obind_done in H as ([v sc1] & E1 & H).
    fold (resolve_list (ir f)) in H.
    apply obind_done in H as ([vs1 sc2] & E2 & H). injection H as <- <-.
    pose proof (Hir x sc v sc1 T Hc Hk Ht HT E1) as P1.
    pose proof (IH sc1 vs1 sc2 T (PostB_cok _ _ _ _ P1) (PostB_ok _ _ _ _ P1) (PostB_trav_ne _ _ _ P1 Ht)
                  (PostB_trav_T _ _ _ _ P1 HT) E2) as P2.
    eapply (PostB_seqT sc sc1 sc2 _ (fun env st es cs st' => BS T env r st (vs1, es, cs) st')); [exact P1 | exact P2 |].
    intros e1 c1 e2 c2 J1 J2. cbv beta in *. econstructor; eassumption.
Qed.

Lemma resolve_named_specb f :
  R_ir f ->
  forall l sc nam sc' T, cok (sc_intls sc) -> st_ok (st_of sc) -> sc_travelled sc <> [] -> sc_travelled sc = keys T ->
  resolve_named (ir f) l sc = Done (nam, sc') ->
  PostB ViewT sc sc' (fun st es cs st' => exists vn, nam = combine (map named_name l) vn /\
                                            BS T (sc_local_args sc) (map named_value l) st (vn, es, cs) st').
Proof.
  intros Hir. induction l as [|[name x] r IH]; intros sc nam sc' T Hc Hk Ht HT H; cbn [resolve_named] in H.
  - injection H as <- <-. apply PostB_refl; [apply ViewT_refl | exact Hc | exact Hk | cbv beta; cbv beta].
    exists []. split; [reflexivity | constructor].
  - apply obind_done in H as ([v sc1] & E1 & H).
    fold (resolve_named (ir f)) in H.
    apply obind_done in H as ([vs1 sc2] & E2 & H). injection H as <- <-.
    pose proof (Hir x sc v sc1 T Hc Hk Ht HT E1) as P1.
    pose proof (IH sc1 vs1 sc2 T (PostB_cok _ _ _ _ P1) (PostB_ok _ _ _ _ P1) (PostB_trav_ne _ _ _ P1 Ht)
                  (PostB_trav_T _ _ _ _ P1 HT) E2) as P2.
    eapply (PostB_seqT sc sc1 sc2 _ (fun env st es cs st' => exists vn, vs1 = combine (map named_name r) vn /\
                                                    BS T env (map named_value r) st (vn, es, cs) st')); [exact P1 | exact P2 |].
    intros e1 c1 e2 c2 J1 (vn & -> & J2). cbv beta in *. exists (v :: vn). split; [reflexivity|].
    cbn [map named_value]. econstructor; eassumption.
Qed.

(* ---------- one step of each function ---------- *)
Lemma stepb_pw f : R_mt f -> R_pw (S f).
Proof.
  intros Hmt k p sc o sc' T Hc Hk HT H. rewrite pw_S in H.
  pose proof (pattern_loop_specb f k p _ Hmt _ sc o sc' T Hc Hk HT H) as P.
  eapply PostB_weaken; [exact P | auto |]. intros es cs HJ. destruct p as [els]. constructor. exact HJ.
Qed.

Lemma stepb_mt f : R_ew f -> R_mt (S f).
Proof.
  intros Hew k p e sc o sc' T Hc Hk HT H. rewrite mt_S in H. cbv zeta in H.
  set (sc0 := match sc_travelled sc with [] => set_travelled sc [k] | _ :: _ => sc end) in *.
  assert (F0 : same_view sc sc0 /\ st_of sc0 = st_of sc /\ sc_intls sc0 = sc_intls sc /\ sc_travelled sc0 = Tof k sc /\
               sc_travelled sc0 <> [] /\ (sc_travelled sc <> [] -> sc_travelled sc0 = sc_travelled sc)).
  { subst sc0. unfold Tof. destruct (sc_travelled sc) eqn:Et.
    - repeat split; cbn; congruence.
    - repeat split; rewrite ?Et; try reflexivity; discriminate. }
  destruct F0 as (S0 & St0 & I0 & T0 & N0 & K0).
  apply obind_done in H as ([o1 sc1] & E & H).
  assert (Hc0 : cok (sc_intls sc0)) by (rewrite I0; exact Hc).
  assert (Hk0 : st_ok (st_of sc0)) by (rewrite St0; exact Hk).
  assert (HT0 : sc_travelled sc0 = keys T) by (rewrite T0; exact HT).
  pose proof (Hew e sc0 o1 sc1 T Hc0 Hk0 N0 HT0 E) as P.
  assert (P' : PostB (ViewP k) sc sc1 (fun st es cs st' => BX T (sc_local_args sc) e st (flatten o1, es, cs) st')).
  { eapply PostB_pre; [exact S0 | | exact P |].
    - unfold ViewT. intros V. split.
      + intros Hne. rewrite V. exact (K0 Hne).
      + intros He. right. rewrite V, T0. unfold Tof. rewrite He. reflexivity.
    - intros es cs HJ. destruct S0 as (L0 & _). rewrite L0, St0 in HJ. exact HJ. }
  destruct (sc_dirty sc1) eqn:Hd; injection H as <- <-.
  - eapply PostB_weaken; [exact P' | auto |]. intros es cs HJ.
    rewrite (st_of_dirty sc1 true Hd) in *. rewrite flatten_app, flatten_braced.
    apply BT_cut'. exact HJ.
  - eapply PostB_weaken; [exact P' | auto |]. intros es cs HJ.
    rewrite (st_of_dirty sc1 false Hd) in *. apply BT_whole. exact HJ.
Qed.

Lemma stepb_tr f : R_pw f -> R_tr (S f).
Proof.
  intros Hpw n q exp sc o sc' T Hc Hk Ht HT Hsrc H. rewrite tr_S in H.
  assert (Eo : key_mem (key_of n) (sc_travelled sc) = being_expanded n T) by (rewrite HT; apply key_mem_spec).
  destruct (key_mem (key_of n) (sc_travelled sc)) eqn:Em.
  - injection H as <- <-. apply PostB_error; [reflexivity | exact Hc | exact Hk | cbv beta; cbv beta].
    rewrite flatten_braced, Hsrc. apply BR_cyclic. symmetry. exact Eo.
  - cbv zeta in H. set (sc1 := set_travelled sc (Some (key_of n) :: sc_travelled sc)) in *.
    apply obind_done in H as ([o1 sc2] & E & H). injection H as <- <-.
    assert (HT1 : Tof (Some (key_of n)) sc1 = keys (n :: T)) by (cbn; rewrite HT; reflexivity).
    pose proof (Hpw (Some (key_of n)) q sc1 o1 sc2 (n :: T) Hc Hk HT1 E) as P.
    assert (V12 : sc_travelled sc2 = Some (key_of n) :: sc_travelled sc).
    { destruct P as (_ & (V & _) & _). apply V. cbn. discriminate. }
    assert (P' : PostB (fun _ _ => True) sc sc2
                   (fun st es cs st' => BR T (sc_local_args sc) exp (Found n q) st (flatten o1, es, cs) st')).
    { eapply (PostB_pre (ViewP (Some (key_of n))) (fun _ _ => True) sc sc1 sc2); [repeat split | auto | exact P |].
      intros es cs HJ. apply BR_found; [symmetry; exact Eo | exact HJ]. }
    eapply (PostB_post (fun _ _ => True) ViewT); [exact P' | repeat split | reflexivity | reflexivity |].
    intros _. unfold ViewT. cbn. rewrite V12. reflexivity.
Qed.

Lemma stepb_ga f : R_ir f -> R_ga (S f).
Proof.
  intros Hir oa sc pos named sc' T Hc Hk Ht HT H.
  destruct oa as [[positional nameds]|]; [rewrite ga_S_some in H | rewrite ga_S_none in H].
  - apply obind_done in H as ([vp sc1] & E1 & H).
    apply obind_done in H as ([nam sc2] & E2 & H).
    apply obind_done in H as (na & E3 & H). injection H as <- <- <-.
    unfold from_iter in E3. rewrite set_all_ins_all in E3. injection E3 as <-.
    pose proof (resolve_list_specb f Hir positional sc vp sc1 T Hc Hk Ht HT E1) as P1.
    pose proof (resolve_named_specb f Hir nameds sc1 nam sc2 T (PostB_cok _ _ _ _ P1) (PostB_ok _ _ _ _ P1)
                  (PostB_trav_ne _ _ _ P1 Ht) (PostB_trav_T _ _ _ _ P1 HT) E2) as P2.
    eapply (PostB_seqT sc sc1 sc2 _
              (fun env st es cs st' => exists vn, nam = combine (map named_name nameds) vn /\
                                           BS T env (map named_value nameds) st (vn, es, cs) st')); [exact P1 | exact P2 |].
    intros e1 c1 e2 c2 J1 (vn & -> & J2). cbv beta in *. exact (BA_some _ _ _ _ _ _ _ _ _ _ _ _ _ _ _ _ _ _ _ _ _ _ J1 J2).
  - injection H as <- <- <-. apply PostB_refl; [apply ViewT_refl | exact Hc | exact Hk | cbv beta; constructor].
Qed.

Lemma st_of_set_intls sc c : st_of (set_intls sc c) = st_of sc.
Proof. reflexivity. Qed.

Lemma stepb_ew f : R_pw f -> R_iw f -> R_ir f -> R_ew (S f).
Proof.
  intros Hpw Hiw Hir e sc o sc' T Hc Hk Ht HT H.
  destruct e as [selector variants | exp]; [rewrite ew_S_select in H | rewrite ew_S_inline in H].
  - apply obind_done in H as ([sel sc1] & E1 & H).
    apply obind_done in H as ([hit sc2] & E2 & H).
    pose proof (Hir selector sc sel sc1 T Hc Hk Ht HT E1) as P1.
    destruct (select_hit_spec rules f64_from_str variants sel sc1 hit sc2 (PostB_cok _ _ _ _ P1) E2) as (Hch & c' & -> & Hc').
    pose proof (PostB_trav_ne _ _ _ P1 Ht) as Ht1.
    pose proof (PostB_trav_T _ _ _ _ P1 HT) as HT1.
    pose proof (PostB_ok _ _ _ _ P1) as Hk1.
    assert (Hvar : forall value, chosen rules f64_from_str variants sel = Some value ->
                     pw f None value (set_intls sc1 c') = Done (o, sc') ->
                     PostB ViewT sc sc' (fun st es cs st' =>
                       BX T (sc_local_args sc) (Select selector variants) st (flatten o, es, cs) st')).
    { intros value Hv Hw.
      assert (HTv : Tof None (set_intls sc1 c') = keys T).
      { rewrite (Tof_nonempty None (set_intls sc1 c') Ht1). exact HT1. }
      pose proof (Hpw None value (set_intls sc1 c') o sc' T Hc' Hk1 HTv Hw) as P2.
      eapply (PostB_seqT sc sc1 sc' _ (fun env st es cs st' => BP T env value st (flatten o, es, cs) st')); [exact P1 | |].
      - eapply PostB_pre; [| |exact P2|].
        + repeat split.
        + intros V. exact (ViewP_T None _ _ Ht1 V).
        + intros es cs HJ. exact HJ.
      - intros e1 c1 e2 c2 J1 J2. cbv beta in *. exact (BX_select' _ _ _ _ _ _ _ _ _ _ _ _ _ _ J1 Hv J2). }
    destruct hit as [value|].
    + apply (Hvar value); [symmetry; exact Hch | exact H].
    + destruct (find_default variants) as [value|].
      * apply (Hvar value); [symmetry; exact Hch | exact H].
      * injection H as <- <-.
        eapply (PostB_seqT sc sc1 _ _ (fun env st es cs st' => es = [MissingDefault] /\ cs = [] /\ st' = st)); [exact P1 | |].
        -- eapply PostB_pre; [| |apply (PostB_error ViewT (set_intls sc1 c') MissingDefault
                                          (fun st es cs st' => es = [MissingDefault] /\ cs = [] /\ st' = st))|].
           ++ repeat split.
           ++ intros V. exact V.
           ++ reflexivity.
           ++ exact Hc'.
           ++ exact Hk1.
           ++ repeat split.
           ++ intros es cs HJ. exact HJ.
        -- intros e1 c1 e2 c2 J1 (-> & -> & E). cbv beta in *. rewrite app_nil_r. cbn [add_error] in E.
           change (st_of (add_error (set_intls sc1 c') MissingDefault)) with (st_of sc1) in *.
           exact (BX_select_no_default' _ _ _ _ _ _ _ _ _ J1 (eq_sym Hch)).
  - eapply PostB_weaken; [exact (Hiw exp sc o sc' T Hc Hk Ht HT H) | auto |].
    intros es cs HJ. constructor. exact HJ.
Qed.

Ltac fold_braces_b :=
  lazymatch goal with
  | |- specb_inline _ _ _ _ _ _ _ _ _ ?T ?env ?i ?st (_, ?es, ?cs) ?st' =>
      change (BI T env i st (in_braces i, es, cs) st')
  end.

Lemma stepb_ir f : R_iw f -> R_ga f -> R_ir (S f).
Proof.
  intros Hiw Hga i sc v sc' T Hc Hk Ht HT H.
  assert (Hgen : resolve_by_write overflow_checks call_function transform formatter rules custom_as_string
                   unescape_write unescape_to_string f64_from_str bb args f i sc = Done (v, sc') ->
                 textual i = true ->
                 PostB ViewT sc sc' (fun st es cs st' => BV T (sc_local_args sc) i st (v, es, cs) st')).
  { unfold resolve_by_write. intros H' Htx. apply obind_done in H' as ([o sc1] & E & H'). injection H' as <- <-.
    eapply PostB_weaken; [exact (Hiw i sc o sc1 T Hc Hk Ht HT E) | auto |].
    intros es cs HJ. apply BV_textual; assumption. }
  destruct i as [value | value | id arguments | id attribute | id attribute arguments | id | expression].
  - rewrite ir_S_string in H. injection H as <- <-.
    apply PostB_refl; [apply ViewT_refl | exact Hc | exact Hk | cbv beta; rewrite Hun; constructor].
  - rewrite ir_S_number in H. injection H as <- <-.
    apply PostB_refl; [apply ViewT_refl | exact Hc | exact Hk | cbv beta; constructor].
  - rewrite ir_S_function in H.
    apply obind_done in H as ([[pos named] sc1] & E1 & H).
    pose proof (Hga (Some arguments) sc pos named sc1 T Hc Hk Ht HT E1) as P1.
    rewrite function_lookup in H. destruct (function_named m id) as [func|] eqn:Ef.
    + injection H as <- <-. rewrite call_entry_apply.
      eapply (PostB_seqT sc sc1 _ _ (fun env st es cs st' => es = [] /\ cs = [Call id pos named] /\ st' = st)); [exact P1 | |].
      * apply PostB_call; [reflexivity | exact (PostB_cok _ _ _ _ P1) | exact (PostB_ok _ _ _ _ P1) | cbv beta; repeat split].
      * intros e1 c1 e2 c2 J1 (-> & -> & _). cbv beta in *. rewrite app_nil_r.
        change (st_of (log_call sc1 (Call id pos named))) with (st_of sc1).
        eapply BV_function; eassumption.
    + cbn [reference_kind_of obind] in H. injection H as <- <-.
      eapply (PostB_seqT sc sc1 _ _ (fun env st es cs st' => es = [Reference (RefFunction id)] /\ cs = [] /\ st' = st)); [exact P1 | |].
      * apply PostB_error; [reflexivity | exact (PostB_cok _ _ _ _ P1) | exact (PostB_ok _ _ _ _ P1) | cbv beta; repeat split].
      * intros e1 c1 e2 c2 J1 (-> & -> & _). cbv beta in *. rewrite app_nil_r.
        change (st_of (add_error sc1 (Reference (RefFunction id)))) with (st_of sc1).
        exact (BV_function_unknown _ _ _ _ _ _ _ _ _ _ _ _ _ _ _ _ _ _ _ J1 Ef).
  - rewrite ir_S_message in H. apply Hgen; [exact H | reflexivity].
  - rewrite ir_S_term in H. apply Hgen; [exact H | reflexivity].
  - rewrite ir_S_variable, lookup_variable_r_spec in H.
    destruct (variable args (sc_local_args sc) id) as [arg|] eqn:Ev.
    + injection H as <- <-.
      apply PostB_refl; [apply ViewT_refl | exact Hc | exact Hk | cbv beta; apply BV_variable; exact Ev].
    + unfold missing_variable in H. destruct (sc_local_args sc) as [la|] eqn:El; cbn [reference_kind_of obind] in H;
        injection H as <- <-.
      * apply PostB_refl; [apply ViewT_refl | exact Hc | exact Hk | cbv beta; cbv beta].
        exact (BV_variable_missing _ _ _ _ _ _ _ _ _ _ (Some la) id _ Ev).
      * apply PostB_error; [reflexivity | exact Hc | exact Hk | cbv beta; cbv beta].
        exact (BV_variable_missing _ _ _ _ _ _ _ _ _ _ None id _ Ev).
  - rewrite ir_S_placeable in H. apply Hgen; [exact H | reflexivity].
Qed.

Lemma stepb_iw f : R_ew f -> R_tr f -> R_ga f -> R_iw (S f).
Proof.
  intros Hew Htr Hga i sc o sc' T Hc Hk Ht HT H.
  destruct i as [value | value | id arguments | id attribute | id attribute arguments | id | expression].
  - rewrite iw_S_string in H. injection H as <- <-.
    apply PostB_refl; [apply ViewT_refl | exact Hc | exact Hk | cbv beta; rewrite flatten_txt; constructor].
  - rewrite iw_S_number in H. injection H as <- <-.
    apply PostB_refl; [apply ViewT_refl | exact Hc | exact Hk | cbv beta; rewrite flatten_txt, print_write; constructor].
  - (* FunctionReference *)
    rewrite iw_S_function in H.
    apply obind_done in H as ([[pos named] sc1] & E1 & H).
    pose proof (Hga (Some arguments) sc pos named sc1 T Hc Hk Ht HT E1) as P1.
    rewrite function_lookup in H. destruct (function_named m id) as [func|] eqn:Ef.
    + cbv zeta in H. rewrite call_entry_apply in H.
      set (v := apply_function call_function func pos named) in *.
      assert (Ho : o = [Txt (match v with
                             | VError => source_form (FunctionReference id arguments)
                             | _ => print formatter custom_as_string v
                             end)] /\ sc' = log_call sc1 (Call id pos named)).
      { destruct v; injection H as <- <-; split; reflexivity. }
      destruct Ho as (-> & ->).
      eapply (PostB_seqT sc sc1 _ _ (fun env st es cs st' => es = [] /\ cs = [Call id pos named] /\ st' = st)); [exact P1 | |].
      * apply PostB_call; [reflexivity | exact (PostB_cok _ _ _ _ P1) | exact (PostB_ok _ _ _ _ P1) | cbv beta; repeat split].
      * intros e1 c1 e2 c2 J1 (-> & -> & _). cbv beta in *. rewrite app_nil_r, flatten_txt.
        change (st_of (log_call sc1 (Call id pos named))) with (st_of sc1).
        exact (BI_function _ _ _ _ _ _ _ _ _ _ _ _ _ _ _ _ _ _ v _ _ J1 Ef eq_refl).
    + rewrite (write_ref_error_spec (FunctionReference id arguments) _ (RefFunction id) eq_refl) in H. injection H as <- <-.
      eapply (PostB_seqT sc sc1 _ _ (fun env st es cs st' => es = [Reference (RefFunction id)] /\ cs = [] /\ st' = st)); [exact P1 | |].
      * apply PostB_error; [reflexivity | exact (PostB_cok _ _ _ _ P1) | exact (PostB_ok _ _ _ _ P1) | cbv beta; repeat split].
      * intros e1 c1 e2 c2 J1 (-> & -> & _). cbv beta in *. rewrite app_nil_r, flatten_braced.
        change (st_of (add_error sc1 (Reference (RefFunction id)))) with (st_of sc1).
        exact (BI_function_unknown _ _ _ _ _ _ _ _ _ _ _ _ _ _ _ _ _ _ _ J1 Ef).
  - (* MessageReference *)
    rewrite message_case in H.
    destruct (message_target m id attribute) as [n q| |id'] eqn:Et.
    + eapply PostB_weaken; [exact (Htr n q _ sc o sc' T Hc Hk Ht HT (ref_src_message id attribute) H) | auto |].
      intros es cs HJ. apply BI_message. rewrite Et. exact HJ.
    + rewrite (write_ref_error_spec (MessageReference id attribute) _ (RefMessage id attribute) eq_refl) in H. injection H as <- <-.
      apply PostB_error; [reflexivity | exact Hc | exact Hk | cbv beta; cbv beta].
      change (st_of (add_error sc (Reference (RefMessage id attribute)))) with (st_of sc).
      rewrite flatten_braced. fold_braces_b. apply BI_message. rewrite Et. apply BR_unknown.
    + injection H as <- <-.
      apply PostB_error; [reflexivity | exact Hc | exact Hk | cbv beta; cbv beta].
      change (st_of (add_error sc (NoValue id'))) with (st_of sc).
      rewrite flatten_braced. fold_braces_b. apply BI_message. rewrite Et. apply BR_valueless.
  - (* TermReference *)
    rewrite iw_S_term in H.
    apply obind_done in H as ([[pos named] sc1] & E1 & H). cbv zeta in H.
    apply obind_done in H as ([o1 sc3] & E2 & H). injection H as <- <-.
    pose proof (Hga arguments sc pos named sc1 T Hc Hk Ht HT E1) as P1.
    pose proof (PostB_trav_ne _ _ _ P1 Ht) as Ht1.
    pose proof (PostB_trav_T _ _ _ _ P1 HT) as HT1.
    rewrite term_case in E2.
    set (exp := TermReference id attribute arguments) in *.
    assert (P2 : PostB ViewT (set_local_args sc1 (Some named)) sc3
                   (fun st es cs st' => BR T (Some named) exp (term_target m id attribute) st (flatten o1, es, cs) st')).
    { destruct (term_target m id attribute) as [n q| |id'] eqn:Et.
      - exact (Htr n q exp (set_local_args sc1 (Some named)) o1 sc3 T (PostB_cok _ _ _ _ P1) (PostB_ok _ _ _ _ P1) Ht1 HT1
                 (ref_src_term id attribute arguments) E2).
      - rewrite (write_ref_error_spec (TermReference id attribute arguments) _ (RefTerm id attribute) eq_refl) in E2. injection E2 as <- <-.
        apply PostB_error; [reflexivity | exact (PostB_cok _ _ _ _ P1) | exact (PostB_ok _ _ _ _ P1) | cbv beta; cbv beta].
        rewrite flatten_braced.
        exact (BR_unknown _ _ _ _ _ _ _ _ _ T (Some named) (TermReference id attribute arguments) _).
      - exfalso. exact (term_target_not_valueless _ _ _ _ Et). }
    apply PostB_scoped in P2.
    eapply (PostB_seqT sc sc1 _ _ (fun env st es cs st' => BR T (Some named) exp (term_target m id attribute) st (flatten o1, es, cs) st'));
      [exact P1 | exact P2 |].
    intros e1 c1 e2 c2 J1 J2. cbv beta in *. exact (BI_term' _ _ _ _ _ _ _ _ _ _ _ _ _ _ _ J1 J2).
  - (* VariableReference *)
    rewrite iw_S_variable, lookup_variable_spec in H.
    destruct (variable args (sc_local_args sc) id) as [arg|] eqn:Ev.
    + injection H as <- <-.
      apply PostB_refl; [apply ViewT_refl | exact Hc | exact Hk | cbv beta; cbv beta].
      rewrite flatten_txt, print_write. apply BI_variable. exact Ev.
    + unfold missing_variable in H. destruct (sc_local_args sc) as [la|] eqn:El; cbn [reference_kind_of obind] in H;
        injection H as <- <-.
      * apply PostB_refl; [apply ViewT_refl | exact Hc | exact Hk | cbv beta; cbv beta].
        rewrite flatten_braced.
        exact (BI_variable_missing _ _ _ _ _ _ _ _ _ _ (Some la) id _ Ev).
      * apply PostB_error; [reflexivity | exact Hc | exact Hk | cbv beta; cbv beta].
        rewrite flatten_braced.
        exact (BI_variable_missing _ _ _ _ _ _ _ _ _ _ None id _ Ev).
  - (* Placeable *)
    rewrite iw_S_placeable in H.
    eapply PostB_weaken; [exact (Hew expression sc o sc' T Hc Hk Ht HT H) | auto |].
    intros es cs HJ. constructor. exact HJ.
Qed.

Theorem refineb_all : forall f, R_all f.
Proof.
  induction f as [|f (Hpw & Hmt & Hew & Hiw & Hir & Htr & Hga)].
  - split; [intros k p sc o sc' T _ _ _ H; discriminate H|].
    split; [intros k p e sc o sc' T _ _ _ H; discriminate H|].
    split; [intros e sc o sc' T _ _ _ _ H; discriminate H|].
    split; [intros i sc o sc' T _ _ _ _ H; discriminate H|].
    split; [intros i sc v sc' T _ _ _ _ H; discriminate H|].
    split; [intros n q exp sc o sc' T _ _ _ _ _ H; discriminate H|].
    intros oa sc pos named sc' T _ _ _ _ H; discriminate H.
  - split; [apply stepb_pw; assumption|].
    split; [apply stepb_mt; assumption|].
    split; [apply stepb_ew; assumption|].
    split; [apply stepb_iw; assumption|].
    split; [apply stepb_ir; assumption|].
    split; [apply stepb_tr; assumption|].
    apply stepb_ga; assumption.
Qed.

(* ---------- the entry point, isolation off ---------- *)
Theorem write_refines_limit_off fuel n p c o sc :
  cok c -> pattern_named m n = Some p ->
  write_pattern overflow_checks call_function transform formatter rules custom_as_string
    unescape_write unescape_to_string f64_from_str bb args fuel (Some (key_of n)) p c = Done (o, sc) ->
  Specb call_function transform formatter rules custom_as_string unescape_write f64_from_str m args n
    (flatten o, sc_errors sc, sc_calls sc) (sc_placeables sc) (sc_dirty sc).
Proof.
  intros Hc Hn H. unfold write_pattern in H.
  destruct (refineb_all fuel) as (Hpw & _).
  assert (Hk : st_ok (st_of (scope_new c))) by (left; cbn; lia).
  destruct (Hpw (Some (key_of n)) p (scope_new c) o sc [n] Hc Hk eq_refl H) as (_ & _ & _ & _ & es & cs & E1 & E2 & HJ).
  cbn [scope_new sc_errors sc_calls app] in E1, E2. rewrite E1, E2.
  exists p. split; [exact Hn | exact HJ].
Qed.

End RefineLimit.

(* ---------- both settings of use_isolating; the string API ---------- *)
Section RefineLimitIso.
Variable overflow_checks : bool.
Variable call_function : bytes -> list fvalue -> fargs -> fvalue.
Variable transform : option (bytes -> bytes).
Variable formatter : option (fvalue -> option bytes).
Variable rules : ntype -> rules_fn.
Variable custom_as_string : bytes -> bytes.
Variable unescape_write : bytes -> bytes.
Variable unescape_to_string : bytes -> bytes.
Variable f64_from_str : bytes -> option fval.
Variable m : list (bytes * bentry).
Variable args : option fargs.
Hypothesis Hun : forall s, unescape_to_string s = unescape_write s.

Notation write iso := (write_pattern overflow_checks call_function transform formatter rules custom_as_string
                         unescape_write unescape_to_string f64_from_str (Bundle m iso) args).
Notation format iso := (format_pattern overflow_checks call_function transform formatter rules custom_as_string
                          unescape_write unescape_to_string f64_from_str (Bundle m iso) args).
Notation SpecB := (Specb call_function transform formatter rules custom_as_string unescape_write f64_from_str m args).

(* ResolverRefine.v write_off_of_on, with the counter: the isolating run and the plain run end in the same
   (placeables, dirty) — the simulation of ResolverSim.v relates every field but the memoizer *)
Lemma write_off_of_on_counter fuel top p c o sc :
  cache_ok rules c ->
  (forall q, In q (bundle_patterns (Bundle m true)) -> ok_pattern q = true) -> ok_pattern p = true ->
  write true fuel top p c = Done (o, sc) ->
  exists sc2, write false fuel top p c = Done (strip o, sc2) /\
              sc_errors sc2 = sc_errors sc /\ sc_calls sc2 = sc_calls sc /\ st_of sc2 = st_of sc.
Proof.
  intros Hc Hb Hp H. unfold write_pattern in *.
  destruct (sim_all overflow_checks call_function transform formatter rules custom_as_string
              unescape_write unescape_to_string f64_from_str m true false args (or_intror Hb) fuel) as (Hpw & _).
  specialize (Hpw top p (scope_new c) (scope_new c) (Rs_refl rules (scope_new c) Hc) (or_intror Hp)).
  unfold b1, b2 in Hpw. rewrite H in Hpw.
  pose proof (out_all overflow_checks call_function transform formatter rules custom_as_string
                unescape_write unescape_to_string f64_from_str (Bundle m false) args fuel) as (Bpw & _).
  specialize (Bpw top p (scope_new c)).
  destruct (pattern_write _ _ _ _ _ _ _ _ _ (Bundle m false) args fuel top p (scope_new c)) as [[o2 s2]|t2|];
    unfold RR, rel_out in Hpw; cbn [fst snd] in Hpw; try tauto.
  destruct Hpw as [[Hs _] HR]. destruct (Rs_fields rules _ _ HR) as (Ep & Ed & _ & _ & Ee & Ec).
  destruct (Bpw o2 s2 eq_refl) as [_ Hno]. rewrite Hs, (Hno eq_refl).
  exists s2. unfold st_of. rewrite Ep, Ed. auto.
Qed.

(* (a) EVERY run of write_pattern that returns is the budgeted specification's: no premise on the errors *)
Theorem specb_refines iso fuel n p c o sc :
  cache_ok rules c -> no_marks_in_values m iso p -> pattern_named m n = Some p ->
  write iso fuel (Some (key_of n)) p c = Done (o, sc) ->
  SpecB n (flatten (strip o), sc_errors sc, sc_calls sc) (sc_placeables sc) (sc_dirty sc).
Proof.
  intros Hc Hok Hn H. destruct iso.
  - destruct (Hok eq_refl) as [Hb Hp].
    destruct (write_off_of_on_counter fuel (Some (key_of n)) p c o sc Hc Hb Hp H) as (sc2 & H2 & Ee & Ec & Es).
    pose proof (write_refines_limit_off overflow_checks call_function transform formatter rules custom_as_string
                  unescape_write unescape_to_string f64_from_str m args Hun fuel n p c (strip o) sc2 Hc Hn H2) as J.
    injection Es as Ep Ed. rewrite Ee, Ec, Ep, Ed in J. exact J.
  - pose proof (write_refines_limit_off overflow_checks call_function transform formatter rules custom_as_string
                  unescape_write unescape_to_string f64_from_str m args Hun fuel n p c o sc Hc Hn H) as J.
    pose proof (out_all overflow_checks call_function transform formatter rules custom_as_string
                  unescape_write unescape_to_string f64_from_str (Bundle m false) args fuel) as (Bpw & _).
    destruct (Bpw (Some (key_of n)) p (scope_new c) o sc H) as [_ Hno]. rewrite (Hno eq_refl). exact J.
Qed.

(* the string API, isolation off (format_pattern returns the text write_pattern writes: ResolverPure.v) *)
Theorem specb_refines_format fuel n p c text sc :
  cache_ok rules c -> pattern_named m n = Some p ->
  format false (S fuel) (Some (key_of n)) p c = Done (text, sc) ->
  SpecB n (text, sc_errors sc, sc_calls sc) (sc_placeables sc) (sc_dirty sc).
Proof.
  intros Hc Hnm H.
  rewrite (format_eq_write_all overflow_checks call_function transform formatter rules custom_as_string
             unescape_write unescape_to_string f64_from_str (Bundle m false) args fuel (Some (key_of n)) p c) in H.
  destruct (write false (S fuel) (Some (key_of n)) p c) as [[o sc1]|t|] eqn:E; try discriminate. injection H as <- <-.
  exact (write_refines_limit_off overflow_checks call_function transform formatter rules custom_as_string
           unescape_write unescape_to_string f64_from_str m args Hun (S fuel) n p c o sc1 Hc Hnm E).
Qed.

(* the budgeted specification assigns a result to EVERY named pattern (with ResolverTotal.v: the resolver always
   returns at fuel_of, when the three sources of numbers are f64s), so with specb_functional it is a total function *)
Theorem specb_total n p :
  (forall s v, f64_from_str s = Some v -> NumberProofs.fval_in_f64_range v) ->
  (forall name pos named, ResolverTotal.value_ok (call_function name pos named)) ->
  ResolverTotal.oargs_ok args ->
  pattern_named m n = Some p ->
  exists r count d, SpecB n r count d.
Proof.
  intros Hparse Hfun Hargs Hn.
  destruct (ResolverTotal.write_pattern_total overflow_checks call_function transform formatter rules custom_as_string
              unescape_write unescape_to_string f64_from_str (Bundle m false) args Hparse Hfun Hargs
              (Some (key_of n)) p []) as (o & sc & E & _).
  exists (flatten (strip o), sc_errors sc, sc_calls sc), (sc_placeables sc), (sc_dirty sc).
  apply (specb_refines false (fuel_of (Bundle m false) p) n p [] o sc); [apply cache_ok_nil | intros Hx; discriminate Hx | exact Hn | exact E].
Qed.

End RefineLimitIso.

(* ---------- induction over derivations of the budgeted specification ---------- *)
Scheme specb_pattern_min := Minimality for specb_pattern Sort Prop
  with specb_elements_min := Minimality for specb_elements Sort Prop
  with specb_tracked_min := Minimality for specb_tracked Sort Prop
  with specb_expr_min := Minimality for specb_expr Sort Prop
  with specb_inline_min := Minimality for specb_inline Sort Prop
  with specb_expand_min := Minimality for specb_expand Sort Prop
  with specb_value_min := Minimality for specb_value Sort Prop
  with specb_args_min := Minimality for specb_args Sort Prop
  with specb_values_min := Minimality for specb_values Sort Prop.
Combined Scheme specb_mutind from specb_pattern_min, specb_elements_min, specb_tracked_min, specb_expr_min,
  specb_inline_min, specb_expand_min, specb_value_min, specb_args_min, specb_values_min.

Definition delta_b (d d' : bool) : nat := if d then 0%nat else if d' then 1%nat else 0%nat.

Lemma delta_b_trans a c d :
  (a = true -> c = true) -> (c = true -> d = true) -> (delta_b a c + delta_b c d = delta_b a d)%nat.
Proof.
  unfold delta_b. destruct a, c, d; intros H1 H2; try reflexivity;
    try (specialize (H1 eq_refl); discriminate); try (specialize (H2 eq_refl); discriminate).
Qed.

Section SpecLimitFacts.
Variable call_function : bytes -> list fvalue -> fargs -> fvalue.
Variable transform : option (bytes -> bytes).
Variable formatter : option (fvalue -> option bytes).
Variable rules : ntype -> operands -> pcat.
Variable custom_as_string : bytes -> bytes.
Variable unescape : bytes -> bytes.
Variable f64_from_str : bytes -> option fval.
Variable entries : list (bytes * bentry).
Variable args : option fargs.

Notation EP := (eval_pattern call_function transform formatter rules custom_as_string unescape f64_from_str entries args).
Notation EL := (eval_elements call_function transform formatter rules custom_as_string unescape f64_from_str entries args).
Notation EX := (eval_expr call_function transform formatter rules custom_as_string unescape f64_from_str entries args).
Notation EI := (eval_inline call_function transform formatter rules custom_as_string unescape f64_from_str entries args).
Notation EV := (eval_value call_function transform formatter rules custom_as_string unescape f64_from_str entries args).
Notation EA := (eval_args call_function transform formatter rules custom_as_string unescape f64_from_str entries args).
Notation ES := (eval_values call_function transform formatter rules custom_as_string unescape f64_from_str entries args).
Notation XP := (expand call_function transform formatter rules custom_as_string unescape f64_from_str entries args).

Notation BP := (specb_pattern call_function transform formatter rules custom_as_string unescape f64_from_str entries args).
Notation BL := (specb_elements call_function transform formatter rules custom_as_string unescape f64_from_str entries args).
Notation BT := (specb_tracked call_function transform formatter rules custom_as_string unescape f64_from_str entries args).
Notation BX := (specb_expr call_function transform formatter rules custom_as_string unescape f64_from_str entries args).
Notation BI := (specb_inline call_function transform formatter rules custom_as_string unescape f64_from_str entries args).
Notation BV := (specb_value call_function transform formatter rules custom_as_string unescape f64_from_str entries args).
Notation BA := (specb_args call_function transform formatter rules custom_as_string unescape f64_from_str entries args).
Notation BS := (specb_values call_function transform formatter rules custom_as_string unescape f64_from_str entries args).
Notation BR := (specb_expand call_function transform formatter rules custom_as_string unescape f64_from_str entries args).

(* ---------- (b) conservative: a derivation that ends not dirty started not dirty and is, rule by rule, a
   derivation of ResolverSpec.v ---------- *)
Ltac cons_ih :=
  repeat match goal with
         | IH : false = false -> _ |- _ => specialize (IH eq_refl)
         | IH : ?a = false -> _ /\ _, H : ?a = false |- _ => specialize (IH H)
         | IH : _ /\ _ |- _ => destruct IH
         end.

Theorem specb_conservative_all :
  (forall T env p st r st', BP T env p st r st' -> snd st' = false -> snd st = false /\ EP T env p r) /\
  (forall T env els st r st', BL T env els st r st' -> snd st' = false -> snd st = false /\ EL T env els r) /\
  (forall T env e st r st', BT T env e st r st' -> snd st' = false -> snd st = false /\ EX T env e r) /\
  (forall T env e st r st', BX T env e st r st' -> snd st' = false -> snd st = false /\ EX T env e r) /\
  (forall T env i st r st', BI T env i st r st' -> snd st' = false -> snd st = false /\ EI T env i r) /\
  (forall T env i t st r st', BR T env i t st r st' -> snd st' = false -> snd st = false /\ XP T env i t r) /\
  (forall T env i st r st', BV T env i st r st' -> snd st' = false -> snd st = false /\ EV T env i r) /\
  (forall T env a st r st', BA T env a st r st' -> snd st' = false -> snd st = false /\ EA T env a r) /\
  (forall T env l st r st', BS T env l st r st' -> snd st' = false -> snd st = false /\ ES T env l r).
Proof.
  apply (specb_mutind call_function transform formatter rules custom_as_string unescape f64_from_str entries args
           (fun T env p st r st' => snd st' = false -> snd st = false /\ EP T env p r)
           (fun T env els st r st' => snd st' = false -> snd st = false /\ EL T env els r)
           (fun T env e st r st' => snd st' = false -> snd st = false /\ EX T env e r)
           (fun T env e st r st' => snd st' = false -> snd st = false /\ EX T env e r)
           (fun T env i st r st' => snd st' = false -> snd st = false /\ EI T env i r)
           (fun T env i t st r st' => snd st' = false -> snd st = false /\ XP T env i t r)
           (fun T env i st r st' => snd st' = false -> snd st = false /\ EV T env i r)
           (fun T env a st r st' => snd st' = false -> snd st = false /\ EA T env a r)
           (fun T env l st r st' => snd st' = false -> snd st = false /\ ES T env l r));
    intros; cbn [snd] in *; try discriminate; cons_ih;
    (split; [first [assumption | reflexivity] |
             first [assumption | subst; econstructor; first [eassumption | reflexivity]]]).
Qed.

Notation SpecB := (Specb call_function transform formatter rules custom_as_string unescape f64_from_str entries args).
Notation Spec := (Eval call_function transform formatter rules custom_as_string unescape f64_from_str entries args).

(* formatting a named pattern: not dirty at the end => what ResolverSpec.v assigns *)
Theorem specb_conservative n r count :
  SpecB n r count false -> Spec n r.
Proof.
  intros (q & Hq & H). exists q. split; [exact Hq|].
  exact (proj2 (proj1 specb_conservative_all _ _ _ _ _ _ H eq_refl)).
Qed.

(* ---------- (c) functional: at most one result AND final state per start state ---------- *)
Ltac fun_eq H :=
  let E1 := fresh "E" in let E2 := fresh "E" in
  destruct H as [E1 E2]; inversion E1; inversion E2; subst; try clear E1; try clear E2.

Ltac fun_ih :=
  match goal with
  | IH : (forall r2 st2, BP ?T ?env ?x ?st r2 st2 -> _), H : BP ?T ?env ?x ?st _ _ |- _ => apply IH in H; fun_eq H
  | IH : (forall r2 st2, BL ?T ?env ?x ?st r2 st2 -> _), H : BL ?T ?env ?x ?st _ _ |- _ => apply IH in H; fun_eq H
  | IH : (forall r2 st2, BT ?T ?env ?x ?st r2 st2 -> _), H : BT ?T ?env ?x ?st _ _ |- _ => apply IH in H; fun_eq H
  | IH : (forall r2 st2, BX ?T ?env ?x ?st r2 st2 -> _), H : BX ?T ?env ?x ?st _ _ |- _ => apply IH in H; fun_eq H
  | IH : (forall r2 st2, BI ?T ?env ?x ?st r2 st2 -> _), H : BI ?T ?env ?x ?st _ _ |- _ => apply IH in H; fun_eq H
  | IH : (forall r2 st2, BR ?T ?env ?x ?t ?st r2 st2 -> _), H : BR ?T ?env ?x ?t ?st _ _ |- _ => apply IH in H; fun_eq H
  | IH : (forall r2 st2, BV ?T ?env ?x ?st r2 st2 -> _), H : BV ?T ?env ?x ?st _ _ |- _ => apply IH in H; fun_eq H
  | IH : (forall r2 st2, BA ?T ?env ?x ?st r2 st2 -> _), H : BA ?T ?env ?x ?st _ _ |- _ => apply IH in H; fun_eq H
  | IH : (forall r2 st2, BS ?T ?env ?x ?st r2 st2 -> _), H : BS ?T ?env ?x ?st _ _ |- _ => apply IH in H; fun_eq H
  end.

Ltac fun_lookup :=
  match goal with
  | H1 : ?x = Some _, H2 : ?x = Some _ |- _ => rewrite H1 in H2; injection H2 as ?; subst
  | H1 : ?x = Some _, H2 : ?x = None |- _ => rewrite H1 in H2; discriminate H2
  | H1 : ?x = true, H2 : ?x = false |- _ => rewrite H1 in H2; discriminate H2
  end.

Ltac fun_finish :=
  repeat (first [ fun_ih | fun_lookup ]);
  try (split; reflexivity); try discriminate; try (exfalso; lia).

Theorem specb_functional_all :
  (forall T env p st r st', BP T env p st r st' -> forall r2 st2, BP T env p st r2 st2 -> r2 = r /\ st2 = st') /\
  (forall T env els st r st', BL T env els st r st' -> forall r2 st2, BL T env els st r2 st2 -> r2 = r /\ st2 = st') /\
  (forall T env e st r st', BT T env e st r st' -> forall r2 st2, BT T env e st r2 st2 -> r2 = r /\ st2 = st') /\
  (forall T env e st r st', BX T env e st r st' -> forall r2 st2, BX T env e st r2 st2 -> r2 = r /\ st2 = st') /\
  (forall T env i st r st', BI T env i st r st' -> forall r2 st2, BI T env i st r2 st2 -> r2 = r /\ st2 = st') /\
  (forall T env i t st r st', BR T env i t st r st' -> forall r2 st2, BR T env i t st r2 st2 -> r2 = r /\ st2 = st') /\
  (forall T env i st r st', BV T env i st r st' -> forall r2 st2, BV T env i st r2 st2 -> r2 = r /\ st2 = st') /\
  (forall T env a st r st', BA T env a st r st' -> forall r2 st2, BA T env a st r2 st2 -> r2 = r /\ st2 = st') /\
  (forall T env l st r st', BS T env l st r st' -> forall r2 st2, BS T env l st r2 st2 -> r2 = r /\ st2 = st').
Proof.
  apply (specb_mutind call_function transform formatter rules custom_as_string unescape f64_from_str entries args
           (fun T env p st r st' => forall r2 st2, BP T env p st r2 st2 -> r2 = r /\ st2 = st')
           (fun T env els st r st' => forall r2 st2, BL T env els st r2 st2 -> r2 = r /\ st2 = st')
           (fun T env e st r st' => forall r2 st2, BT T env e st r2 st2 -> r2 = r /\ st2 = st')
           (fun T env e st r st' => forall r2 st2, BX T env e st r2 st2 -> r2 = r /\ st2 = st')
           (fun T env i st r st' => forall r2 st2, BI T env i st r2 st2 -> r2 = r /\ st2 = st')
           (fun T env i t st r st' => forall r2 st2, BR T env i t st r2 st2 -> r2 = r /\ st2 = st')
           (fun T env i st r st' => forall r2 st2, BV T env i st r2 st2 -> r2 = r /\ st2 = st')
           (fun T env a st r st' => forall r2 st2, BA T env a st r2 st2 -> r2 = r /\ st2 = st')
           (fun T env l st r st' => forall r2 st2, BS T env l st r2 st2 -> r2 = r /\ st2 = st'));
    intros; match goal with H : _ |- _ /\ _ => inversion H; subst; clear H end; fun_finish.
Qed.

Theorem specb_functional n r1 c1 d1 r2 c2 d2 :
  SpecB n r1 c1 d1 -> SpecB n r2 c2 d2 -> r1 = r2 /\ c1 = c2 /\ d1 = d2.
Proof.
  intros (q1 & N1 & H1) (q2 & N2 & H2). rewrite N1 in N2. injection N2 as <-.
  destruct (proj1 specb_functional_all _ _ _ _ _ _ H2 _ _ H1) as [-> E]. injection E as -> ->. auto.
Qed.

(* ---------- (d) error accounting of every derivation ---------- *)
(* dirty only goes from false to true, and TooManyPlaceables is among the errors of a derivation exactly
   when it made that step — once *)
Definition errs_ok (d : bool) (es : list resolver_error) (d' : bool) : Prop :=
  (d = true -> d' = true) /\ tmp_count es = delta_b d d'.

Lemma errs_ok_refl d : errs_ok d [] d.
Proof. split; [auto | destruct d; reflexivity]. Qed.
Lemma errs_ok_seq d e1 d1 e2 d2 : errs_ok d e1 d1 -> errs_ok d1 e2 d2 -> errs_ok d (e1 ++ e2) d2.
Proof.
  intros [M1 C1] [M2 C2]. split; [auto|]. rewrite tmp_count_app, C1, C2. apply delta_b_trans; assumption.
Qed.
Lemma errs_ok_one d e : is_tmp e = false -> errs_ok d [e] d.
Proof. intros He. split; [auto|]. unfold tmp_count. cbn [filter]. rewrite He. destruct d; reflexivity. Qed.
Lemma errs_ok_snoc d es d1 e : errs_ok d es d1 -> is_tmp e = false -> errs_ok d (es ++ [e]) d1.
Proof. intros H He. eapply errs_ok_seq; [exact H | apply errs_ok_one; exact He]. Qed.
Lemma errs_ok_missing d env id : errs_ok d (missing_variable_errors env id) d.
Proof. destruct env; [apply errs_ok_refl | apply errs_ok_one; reflexivity]. Qed.

Theorem specb_errors_all :
  (forall T env p st r st', BP T env p st r st' -> errs_ok (snd st) (snd (fst r)) (snd st')) /\
  (forall T env els st r st', BL T env els st r st' -> errs_ok (snd st) (snd (fst r)) (snd st')) /\
  (forall T env e st r st', BT T env e st r st' -> errs_ok (snd st) (snd (fst r)) (snd st')) /\
  (forall T env e st r st', BX T env e st r st' -> errs_ok (snd st) (snd (fst r)) (snd st')) /\
  (forall T env i st r st', BI T env i st r st' -> errs_ok (snd st) (snd (fst r)) (snd st')) /\
  (forall T env i t st r st', BR T env i t st r st' -> errs_ok (snd st) (snd (fst r)) (snd st')) /\
  (forall T env i st r st', BV T env i st r st' -> errs_ok (snd st) (snd (fst r)) (snd st')) /\
  (forall T env a st r st', BA T env a st r st' -> errs_ok (snd st) (snd (fst r)) (snd st')) /\
  (forall T env l st r st', BS T env l st r st' -> errs_ok (snd st) (snd (fst r)) (snd st')).
Proof.
  apply (specb_mutind call_function transform formatter rules custom_as_string unescape f64_from_str entries args
           (fun T env p st r st' => errs_ok (snd st) (snd (fst r)) (snd st'))
           (fun T env els st r st' => errs_ok (snd st) (snd (fst r)) (snd st'))
           (fun T env e st r st' => errs_ok (snd st) (snd (fst r)) (snd st'))
           (fun T env e st r st' => errs_ok (snd st) (snd (fst r)) (snd st'))
           (fun T env i st r st' => errs_ok (snd st) (snd (fst r)) (snd st'))
           (fun T env i t st r st' => errs_ok (snd st) (snd (fst r)) (snd st'))
           (fun T env i st r st' => errs_ok (snd st) (snd (fst r)) (snd st'))
           (fun T env a st r st' => errs_ok (snd st) (snd (fst r)) (snd st'))
           (fun T env l st r st' => errs_ok (snd st) (snd (fst r)) (snd st')));
    intros; unfold seq, just, fails, silent, cut_mark in *; cbn [fst snd app] in *; rewrite ?app_nil_r;
    first [ assumption
          | apply errs_ok_refl
          | apply errs_ok_missing
          | apply errs_ok_one; reflexivity
          | eapply errs_ok_seq; eassumption
          | eapply errs_ok_snoc; [eassumption | reflexivity]
          | split; [discriminate | reflexivity] ].
Qed.

(* formatting a named pattern: TooManyPlaceables is reported exactly once when the run ends dirty and not at
   all otherwise *)
Theorem specb_errors n t es cs count d :
  SpecB n (t, es, cs) count d ->
  tmp_count es = (if d then 1 else 0)%nat /\ (In TooManyPlaceables es <-> d = true).
Proof.
  intros (q & _ & H). destruct (proj1 specb_errors_all _ _ _ _ _ _ H) as [_ C]. cbn [fst snd delta_b] in C.
  split; [exact C|]. rewrite <- tmp_count_in, C. destruct d; split; intros; congruence || lia.
Qed.

(* ---------- the counter: MAX_PLACEABLES + 1 exactly when dirty ---------- *)
Definition st_exact (st : bstate) : Prop :=
  if snd st then fst st = MAX_PLACEABLES + 1 else fst st <= MAX_PLACEABLES.

Theorem specb_count_all :
  (forall T env p st r st', BP T env p st r st' -> st_exact st -> st_exact st') /\
  (forall T env els st r st', BL T env els st r st' -> st_exact st -> st_exact st') /\
  (forall T env e st r st', BT T env e st r st' -> st_exact st -> st_exact st') /\
  (forall T env e st r st', BX T env e st r st' -> st_exact st -> st_exact st') /\
  (forall T env i st r st', BI T env i st r st' -> st_exact st -> st_exact st') /\
  (forall T env i t st r st', BR T env i t st r st' -> st_exact st -> st_exact st') /\
  (forall T env i st r st', BV T env i st r st' -> st_exact st -> st_exact st') /\
  (forall T env a st r st', BA T env a st r st' -> st_exact st -> st_exact st') /\
  (forall T env l st r st', BS T env l st r st' -> st_exact st -> st_exact st').
Proof.
  apply (specb_mutind call_function transform formatter rules custom_as_string unescape f64_from_str entries args
           (fun T env p st r st' => st_exact st -> st_exact st')
           (fun T env els st r st' => st_exact st -> st_exact st')
           (fun T env e st r st' => st_exact st -> st_exact st')
           (fun T env e st r st' => st_exact st -> st_exact st')
           (fun T env i st r st' => st_exact st -> st_exact st')
           (fun T env i t st r st' => st_exact st -> st_exact st')
           (fun T env i st r st' => st_exact st -> st_exact st')
           (fun T env a st r st' => st_exact st -> st_exact st')
           (fun T env l st r st' => st_exact st -> st_exact st'));
    intros; auto;
    try (match goal with IH2 : st_exact ?s1 -> st_exact ?s2, IH1 : _ -> st_exact ?s1 |- st_exact ?s2 => apply IH2, IH1 end);
    unfold st_exact in *; cbn [fst snd] in *; lia.
Qed.

Theorem specb_count n r count d :
  SpecB n r count d -> if d then count = MAX_PLACEABLES + 1 else count <= MAX_PLACEABLES.
Proof.
  intros (q & _ & H). apply (proj1 specb_count_all _ _ _ _ _ _ H). unfold st_exact. cbn. lia.
Qed.

(* ---------- the errors before the limit are those of the un-budgeted rules, in order ---------- *)
(* es = before ++ TooManyPlaceables :: after, and es0 begins with `before` *)
Definition cut_of (es es0 : list resolver_error) : Prop :=
  exists before after rest, es = before ++ TooManyPlaceables :: after /\ es0 = before ++ rest.

Lemma cut_app_r e e0 x y : cut_of e e0 -> cut_of (e ++ x) (e0 ++ y).
Proof.
  intros (b & a & r & -> & ->). exists b, (a ++ x), (r ++ y). rewrite <- !app_assoc. split; reflexivity.
Qed.
Lemma cut_app_l b e e0 : cut_of e e0 -> cut_of (b ++ e) (b ++ e0).
Proof.
  intros (b1 & a & r & -> & ->). exists (b ++ b1), a, r. rewrite <- !app_assoc. split; reflexivity.
Qed.
Lemma cut_here es0 : cut_of [TooManyPlaceables] es0.
Proof. exists [], [], es0. split; reflexivity. Qed.

(* either the budgeted result was cut before the un-budgeted one ends, or it is the un-budgeted one *)
Definition agree2 {A B : Type} (r : A * list resolver_error * B) (d' : bool) (r0 : A * list resolver_error * B) : Prop :=
  cut_of (snd (fst r)) (snd (fst r0)) \/ (d' = false /\ r = r0).

Ltac pf_cut D :=
  left; unfold seq, silent, fails, just, cut_mark; cbn [fst snd app]; rewrite ?app_nil_r;
  first [ exact D | apply cut_app_r; exact D | apply cut_app_l; exact D
        | apply cut_app_l, cut_app_r; exact D ].

Ltac pf_step :=
  match goal with
  | IH : false = false -> forall r0, _ -> agree2 _ _ r0, HE : _ |- _ =>
      let D := fresh "D" in pose proof (IH eq_refl _ HE) as D; clear IH;
      destruct D as [D | [? D]]; [ solve [pf_cut D] | inversion D; subst; try clear D ]
  | IH : ?a = false -> forall r0, _ -> agree2 _ _ r0, Hc : ?a = false, HE : _ |- _ =>
      let D := fresh "D" in pose proof (IH Hc _ HE) as D; clear IH;
      destruct D as [D | [? D]]; [ solve [pf_cut D] | inversion D; subst; try clear D ]
  end.

Ltac pf_finish :=
  repeat (first [ fun_lookup | pf_step ]);
  try discriminate;
  try (match goal with H : textual _ = true |- _ => discriminate H end);
  try (left; apply cut_here);
  try (right; split; [first [assumption | reflexivity] | reflexivity]).

Theorem specb_prefix_all :
  (forall T env p st r st', BP T env p st r st' -> snd st = false -> forall r0, EP T env p r0 -> agree2 r (snd st') r0) /\
  (forall T env els st r st', BL T env els st r st' -> snd st = false -> forall r0, EL T env els r0 -> agree2 r (snd st') r0) /\
  (forall T env e st r st', BT T env e st r st' -> snd st = false -> forall r0, EX T env e r0 -> agree2 r (snd st') r0) /\
  (forall T env e st r st', BX T env e st r st' -> snd st = false -> forall r0, EX T env e r0 -> agree2 r (snd st') r0) /\
  (forall T env i st r st', BI T env i st r st' -> snd st = false -> forall r0, EI T env i r0 -> agree2 r (snd st') r0) /\
  (forall T env i t st r st', BR T env i t st r st' -> snd st = false -> forall r0, XP T env i t r0 -> agree2 r (snd st') r0) /\
  (forall T env i st r st', BV T env i st r st' -> snd st = false -> forall r0, EV T env i r0 -> agree2 r (snd st') r0) /\
  (forall T env a st r st', BA T env a st r st' -> snd st = false -> forall r0, EA T env a r0 -> agree2 r (snd st') r0) /\
  (forall T env l st r st', BS T env l st r st' -> snd st = false -> forall r0, ES T env l r0 -> agree2 r (snd st') r0).
Proof.
  apply (specb_mutind call_function transform formatter rules custom_as_string unescape f64_from_str entries args
           (fun T env p st r st' => snd st = false -> forall r0, EP T env p r0 -> agree2 r (snd st') r0)
           (fun T env els st r st' => snd st = false -> forall r0, EL T env els r0 -> agree2 r (snd st') r0)
           (fun T env e st r st' => snd st = false -> forall r0, EX T env e r0 -> agree2 r (snd st') r0)
           (fun T env e st r st' => snd st = false -> forall r0, EX T env e r0 -> agree2 r (snd st') r0)
           (fun T env i st r st' => snd st = false -> forall r0, EI T env i r0 -> agree2 r (snd st') r0)
           (fun T env i t st r st' => snd st = false -> forall r0, XP T env i t r0 -> agree2 r (snd st') r0)
           (fun T env i st r st' => snd st = false -> forall r0, EV T env i r0 -> agree2 r (snd st') r0)
           (fun T env a st r st' => snd st = false -> forall r0, EA T env a r0 -> agree2 r (snd st') r0)
           (fun T env l st r st' => snd st = false -> forall r0, ES T env l r0 -> agree2 r (snd st') r0));
    intros; cbn [snd] in *; try discriminate;
    match goal with HE : _ |- agree2 _ _ ?r0 =>
      match type of HE with context [r0] => inversion HE; subst end end;
    pf_finish.
Qed.

Theorem specb_prefix n t es cs count d :
  SpecB n (t, es, cs) count d ->
  forall r0, Spec n r0 ->
    if d then exists before after rest, es = before ++ TooManyPlaceables :: after /\ snd (fst r0) = before ++ rest
    else r0 = (t, es, cs).
Proof.
  intros HB r0 (q0 & N0 & H0). pose proof HB as (q & N & H). rewrite N in N0. injection N0 as <-.
  destruct (proj1 specb_prefix_all _ _ _ _ _ _ H eq_refl _ H0) as [C | [Ed E]]; cbn [fst snd] in *.
  - destruct d; [exact C|]. exfalso.
    destruct (specb_errors n t es cs count false HB) as [_ Hin].
    destruct C as (b & a & r & -> & _). assert (X : false = true); [|discriminate X].
    apply Hin, in_or_app. right. left. reflexivity.
  - subst d. symmetry. exact E.
Qed.

End SpecLimitFacts.

(* Bundle/ResolverEqns.v — one-step unfolding equations of the resolver's mutual fixpoint
   (all by conversion), so that proofs can rewrite instead of unfolding the `fix`. *)
From FluentV Require Import Base.Bytes Base.Outcome Syntax.Ast Bundle.Args Bundle.Number
  Bundle.ResolverAst Bundle.ResolverModel.

Section Eqns.
Variable overflow_checks : bool.
Variable call_function : bytes -> list fvalue -> fargs -> fvalue.
Variable transform : option (bytes -> bytes).
Variable formatter : option (fvalue -> option bytes).
Variable rules : ntype -> rules_fn.
Variable custom_as_string : bytes -> bytes.
Variable unescape_write : bytes -> bytes.
Variable unescape_to_string : bytes -> bytes.
Variable f64_from_str : bytes -> option fval.
Variable b : bundle.
Variable args : option fargs.

Notation pw := (pattern_write overflow_checks call_function transform formatter rules custom_as_string
                  unescape_write unescape_to_string f64_from_str b args).
Notation pr := (pattern_resolve overflow_checks call_function transform formatter rules custom_as_string
                  unescape_write unescape_to_string f64_from_str b args).
Notation ew := (expression_write overflow_checks call_function transform formatter rules custom_as_string
                  unescape_write unescape_to_string f64_from_str b args).
Notation iw := (inline_write overflow_checks call_function transform formatter rules custom_as_string
                  unescape_write unescape_to_string f64_from_str b args).
Notation ir := (inline_resolve overflow_checks call_function transform formatter rules custom_as_string
                  unescape_write unescape_to_string f64_from_str b args).
Notation mt := (maybe_track overflow_checks call_function transform formatter rules custom_as_string
                  unescape_write unescape_to_string f64_from_str b args).
Notation tr := (track overflow_checks call_function transform formatter rules custom_as_string
                  unescape_write unescape_to_string f64_from_str b args).
Notation ga := (get_arguments overflow_checks call_function transform formatter rules custom_as_string
                  unescape_write unescape_to_string f64_from_str b args).

Lemma pw_S f k p sc :
  pw (S f) k p sc =
  pattern_loop overflow_checks transform b (mt f k p) (length (pattern_elements p)) (pattern_elements p) sc.
Proof. reflexivity. Qed.

Lemma pr_S f k p sc :
  pr (S f) k p sc =
  match pattern_elements p with
  | [TextElement value] => Done (VString (apply_transform transform value), sc)
  | _ => let* (o, sc) := pw f k p sc in Done (VString (flatten o), sc)
  end.
Proof. reflexivity. Qed.

Lemma ew_S_inline f exp sc : ew (S f) (Inline exp) sc = iw f exp sc.
Proof. reflexivity. Qed.

Lemma ew_S_select f selector variants sc :
  ew (S f) (Select selector variants) sc =
  let* (sel, sc) := ir f selector sc in
  let* (hit, sc) :=
    match sel with
    | VString _ | VNumber _ => find_variant rules f64_from_str variants sel sc
    | _ => Done (None, sc)
    end in
  match hit with
  | Some value => pw f None value sc
  | None =>
      match find_default variants with
      | Some value => pw f None value sc
      | None => Done ([], add_error sc MissingDefault)
      end
  end.
Proof. reflexivity. Qed.

Lemma iw_S_string f value sc : iw (S f) (StringLiteral value) sc = Done ([Txt (unescape_write value)], sc).
Proof. reflexivity. Qed.

Lemma iw_S_number f value sc :
  iw (S f) (NumberLiteral value) sc =
  Done ([Txt (value_write formatter custom_as_string (try_number f64_from_str value))], sc).
Proof. reflexivity. Qed.

Lemma iw_S_message f id attribute sc :
  iw (S f) (MessageReference id attribute) sc =
  match get_entry_message b id with
  | Some (value, attributes) =>
      match attribute with
      | Some attr =>
          match find_attribute attributes attr with
          | Some v => tr f (PKey false id (Some attr)) v (MessageReference id attribute) sc
          | None => write_ref_error (MessageReference id attribute) sc
          end
      | None =>
          match value with
          | Some v => tr f (PKey false id None) v (MessageReference id attribute) sc
          | None => Done (braced (inline_write_error (MessageReference id attribute)), add_error sc (NoValue id))
          end
      end
  | None => write_ref_error (MessageReference id attribute) sc
  end.
Proof. reflexivity. Qed.

Definition term_body (f : nat) (id : bytes) (attribute : option bytes) (exp : inline) (sc : scope) : result :=
  match get_entry_term b id with
  | Some (value, attributes) =>
      match attribute with
      | Some attr =>
          match find_attribute attributes attr with
          | Some v => tr f (PKey true id (Some attr)) v exp sc
          | None => write_ref_error exp sc
          end
      | None => tr f (PKey true id None) value exp sc
      end
  | None => write_ref_error exp sc
  end.

Lemma iw_S_term f id attribute arguments sc :
  iw (S f) (TermReference id attribute arguments) sc =
  let* (_, resolved_named_args, sc) := ga f arguments sc in
  let previous_args := sc_local_args sc in
  let sc := set_local_args sc (Some resolved_named_args) in
  let* (o, sc) := term_body f id attribute (TermReference id attribute arguments) sc in
  Done (o, set_local_args sc previous_args).
Proof. reflexivity. Qed.

Lemma iw_S_function f id arguments sc :
  iw (S f) (FunctionReference id arguments) sc =
  let* (pos, named, sc) := ga f (Some arguments) sc in
  match get_entry_function b id with
  | Some func =>
      let result := call_entry call_function func pos named in
      let sc := log_call sc (Call id pos named) in
      match result with
      | VError => Done ([Txt (inline_write_error (FunctionReference id arguments))], sc)
      | _ => Done ([Txt (value_into_string formatter custom_as_string result)], sc)
      end
  | None => write_ref_error (FunctionReference id arguments) sc
  end.
Proof. reflexivity. Qed.

(* `scope.local_args.as_ref().or(scope.args)` followed by `.and_then(|args| args.get(id))` *)
Definition lookup_variable (id : bytes) (sc : scope) : option fvalue :=
  match (match sc_local_args sc with Some la => Some la | None => args end) with
  | Some a' => match Args.get fvalue a' id with Done r => r | _ => None end
  | None => None
  end.

Definition missing_variable (i : inline) (sc : scope) : outcome scope :=
  match sc_local_args sc with
  | None => let* k := reference_kind_of i in Done (add_error sc (Reference k))
  | Some _ => Done sc
  end.

Lemma iw_S_variable f id sc :
  iw (S f) (VariableReference id) sc =
  match lookup_variable id sc with
  | Some arg => Done ([Txt (value_write formatter custom_as_string arg)], sc)
  | None =>
      let* sc := missing_variable (VariableReference id) sc in
      Done (braced (inline_write_error (VariableReference id)), sc)
  end.
Proof. reflexivity. Qed.

Lemma iw_S_placeable f expression sc : iw (S f) (Placeable expression) sc = ew f expression sc.
Proof. reflexivity. Qed.

Lemma ir_S_string f value sc : ir (S f) (StringLiteral value) sc = Done (VString (unescape_to_string value), sc).
Proof. reflexivity. Qed.

Lemma ir_S_number f value sc : ir (S f) (NumberLiteral value) sc = Done (try_number f64_from_str value, sc).
Proof. reflexivity. Qed.

(* resolve's lookup: `if let Some(local_args) … else if let Some(arg) = scope.args.and_then(…)` *)
Definition lookup_variable_r (id : bytes) (sc : scope) : option fvalue :=
  match sc_local_args sc with
  | Some la => match Args.get fvalue la id with Done r => r | _ => None end
  | None =>
      match args with
      | Some a' => match Args.get fvalue a' id with Done r => r | _ => None end
      | None => None
      end
  end.

Lemma ir_S_variable f id sc :
  ir (S f) (VariableReference id) sc =
  match lookup_variable_r id sc with
  | Some arg => Done (arg, sc)
  | None =>
      let* sc := missing_variable (VariableReference id) sc in
      Done (VError, sc)
  end.
Proof. reflexivity. Qed.

Lemma ir_S_function f id arguments sc :
  ir (S f) (FunctionReference id arguments) sc =
  let* (pos, named, sc) := ga f (Some arguments) sc in
  match get_entry_function b id with
  | Some func =>
      Done (call_entry call_function func pos named, log_call sc (Call id pos named))
  | None =>
      let* k := reference_kind_of (FunctionReference id arguments) in
      Done (VError, add_error sc (Reference k))
  end.
Proof. reflexivity. Qed.

Definition resolve_by_write (f : nat) (i : inline) (sc : scope) : outcome (fvalue * scope) :=
  let* (o, sc) := iw f i sc in Done (VString (flatten o), sc).

Lemma ir_S_message f id attribute sc :
  ir (S f) (MessageReference id attribute) sc = resolve_by_write f (MessageReference id attribute) sc.
Proof. reflexivity. Qed.
Lemma ir_S_term f id attribute arguments sc :
  ir (S f) (TermReference id attribute arguments) sc = resolve_by_write f (TermReference id attribute arguments) sc.
Proof. reflexivity. Qed.
Lemma ir_S_placeable f e sc : ir (S f) (Placeable e) sc = resolve_by_write f (Placeable e) sc.
Proof. reflexivity. Qed.

Lemma mt_S f k p e sc :
  mt (S f) k p e sc =
  let sc := match sc_travelled sc with [] => set_travelled sc [k] | _ => sc end in
  let* (o, sc) := ew f e sc in
  if sc_dirty sc then Done (o ++ braced (expression_write_error e), sc) else Done (o, sc).
Proof. reflexivity. Qed.

Lemma tr_S f k p exp sc :
  tr (S f) k p exp sc =
  if key_mem k (sc_travelled sc)
  then Done (braced (inline_write_error exp), add_error sc Cyclic)
  else
    let sc := set_travelled sc (Some k :: sc_travelled sc) in
    let* (o, sc) := pw f (Some k) p sc in
    Done (o, set_travelled sc (tl (sc_travelled sc))).
Proof. reflexivity. Qed.

Lemma ga_S_none f sc : ga (S f) None sc = Done ([], Args.new fvalue, sc).
Proof. reflexivity. Qed.

Lemma ga_S_some f positional named sc :
  ga (S f) (Some (CallArguments positional named)) sc =
  let* (pos, sc) := resolve_list (ir f) positional sc in
  let* (nam, sc) := resolve_named (ir f) named sc in
  let* named_args := Args.from_iter fvalue nam in
  Done (pos, named_args, sc).
Proof. reflexivity. Qed.

Lemma fuel_O :
  (forall k p sc, pw 0 k p sc = OutOfFuel) /\ (forall k p sc, pr 0 k p sc = OutOfFuel) /\
  (forall e sc, ew 0 e sc = OutOfFuel) /\ (forall i sc, iw 0 i sc = OutOfFuel) /\
  (forall i sc, ir 0 i sc = OutOfFuel) /\ (forall k p e sc, mt 0 k p e sc = OutOfFuel) /\
  (forall k p e sc, tr 0 k p e sc = OutOfFuel) /\ (forall a sc, ga 0 a sc = OutOfFuel).
Proof. repeat split. Qed.

End Eqns.

(* Bundle/ArgsProofs.v — FluentArgs refines a last-write-wins map (property C11). *)
From FluentV Require Import Base.Bytes Base.BytesFacts Base.Outcome Bundle.Args.
From Coq Require Import Sorting.Sorted Lia.

Section ArgsProofs.
Variable V : Type.
Notation args := (args V).

(* Recursive characterisations of set / get (hold for every list, sorted or not). *)
Fixpoint ins (a : args) (k : bytes) (v : V) : args :=
  match a with
  | [] => [(k, v)]
  | (k', v') :: r =>
      match bytes_compare k' k with
      | Lt => (k', v') :: ins r k v
      | Eq => (k, v) :: r
      | Gt => (k, v) :: (k', v') :: r
      end
  end.

Fixpoint lookup (a : args) (k : bytes) : option V :=
  match a with
  | [] => None
  | (k', v') :: r =>
      match bytes_compare k' k with
      | Lt => lookup r k
      | Eq => Some v'
      | Gt => None
      end
  end.

Lemma set_ins a k v : set V a k v = Done (ins a k v).
Proof.
  unfold set. induction a as [|[k' v'] r IH]; cbn; [reflexivity|].
  destruct (bytes_compare k' k) eqn:E; cbn; try reflexivity.
  destruct (binary_search V r k) as [i|i]; cbn in *; rewrite IH; reflexivity.
Qed.

Lemma get_lookup a k : get V a k = Done (lookup a k).
Proof.
  unfold get. induction a as [|[k' v'] r IH]; cbn; [reflexivity|].
  destruct (bytes_compare k' k) eqn:E; cbn; try reflexivity.
  destruct (binary_search V r k) as [i|i]; cbn in *; exact IH.
Qed.

Definition key_lt (x y : bytes * V) : Prop := bytes_lt (fst x) (fst y).
Definition sorted (a : args) : Prop := StronglySorted key_lt a.

Lemma lookup_ins_same a k v : lookup (ins a k v) k = Some v.
Proof.
  induction a as [|[k' v'] r IH]; cbn.
  - rewrite bytes_compare_refl. reflexivity.
  - destruct (bytes_compare k' k) eqn:E; cbn.
    + rewrite bytes_compare_refl. reflexivity.
    + rewrite E. exact IH.
    + rewrite bytes_compare_refl. reflexivity.
Qed.

Lemma lookup_ins_other a k v k2 : k2 <> k -> lookup (ins a k v) k2 = lookup a k2.
Proof.
  intros Hne. induction a as [|[k' v'] r IH]; cbn.
  - destruct (bytes_compare k k2) eqn:E; try reflexivity.
    apply bytes_compare_eq in E. congruence.
  - destruct (bytes_compare k' k) eqn:E; cbn.
    + apply bytes_compare_eq in E. subst k'.
      destruct (bytes_compare k k2) eqn:E2; try reflexivity.
      apply bytes_compare_eq in E2. congruence.
    + destruct (bytes_compare k' k2); [reflexivity | exact IH | reflexivity].
    + destruct (bytes_compare k k2) eqn:E2.
      * apply bytes_compare_eq in E2. congruence.
      * reflexivity.
      * (* k2 < k < k' *)
        apply bytes_lt_gt in E, E2.
        assert (bytes_lt k2 k') as H by (eapply bytes_lt_trans; eassumption).
        apply bytes_lt_gt in H. rewrite H. reflexivity.
Qed.

Lemma ins_keys a k v x : In x (map fst (ins a k v)) <-> x = k \/ In x (map fst a).
Proof.
  induction a as [|[k' v'] r IH]; cbn.
  - intuition congruence.
  - destruct (bytes_compare k' k) eqn:E; cbn.
    + apply bytes_compare_eq in E. subst. intuition congruence.
    + rewrite IH. intuition congruence.
    + intuition congruence.
Qed.

Lemma Forall_ins (P : bytes * V -> Prop) a k v :
  Forall P a -> P (k, v) -> Forall P (ins a k v).
Proof.
  intros Ha Hk. induction Ha as [|[k' v'] r Hx Hr IH]; cbn.
  - constructor; [exact Hk | constructor].
  - destruct (bytes_compare k' k); repeat (constructor; try assumption).
Qed.

Lemma sorted_ins a k v : sorted a -> sorted (ins a k v).
Proof.
  unfold sorted. intros Hs. induction Hs as [|[k' v'] r Hr IH Hall]; cbn.
  - constructor; constructor.
  - destruct (bytes_compare k' k) eqn:E.
    + apply bytes_compare_eq in E. subst k'. constructor; assumption.
    + constructor; [exact IH|]. apply Forall_ins; [exact Hall | exact E].
    + apply bytes_lt_gt in E. constructor.
      * constructor; assumption.
      * constructor; [exact E|].
        eapply Forall_impl; [|exact Hall]. intros y Hy. unfold key_lt in *; cbn in *.
        eapply bytes_lt_trans; eassumption.
Qed.

Lemma sorted_nodup a : sorted a -> NoDup (map fst a).
Proof.
  unfold sorted. intros Hs. induction Hs as [|[k v] r Hr IH Hall]; cbn; constructor; [|exact IH].
  intros Hin. apply in_map_iff in Hin as [[k2 v2] [Heq Hin]]. cbn in Heq. subst k2.
  rewrite Forall_forall in Hall. specialize (Hall _ Hin). unfold key_lt in Hall. cbn in Hall.
  exact (bytes_lt_irrefl _ Hall).
Qed.

(* On a sorted map, lookup finds exactly the stored pairs: no key is shadowed. *)
Lemma lookup_in a k v : sorted a -> (lookup a k = Some v <-> In (k, v) a).
Proof.
  unfold sorted. intros Hs. induction Hs as [|[k' v'] r Hr IH Hall]; cbn.
  - split; [discriminate | tauto].
  - rewrite Forall_forall in Hall.
    destruct (bytes_compare k' k) eqn:E.
    + apply bytes_compare_eq in E. subst k'. split.
      * intros [= ->]. left. reflexivity.
      * intros [[= ->]|Hin]; [reflexivity|].
        specialize (Hall _ Hin). unfold key_lt in Hall. cbn in Hall.
        destruct (bytes_lt_irrefl _ Hall).
    + rewrite IH. split; [tauto|]. intros [[= -> ->]|Hin]; [|exact Hin].
      rewrite bytes_compare_refl in E. discriminate.
    + split; [discriminate|]. intros [[= -> ->]|Hin].
      * rewrite bytes_compare_refl in E. discriminate.
      * specialize (Hall _ Hin). unfold key_lt in Hall. cbn in Hall.
        apply bytes_lt_gt in E. destruct (bytes_lt_irrefl k).
        eapply bytes_lt_trans; eassumption.
Qed.

(* Folding set over a write list. *)
Fixpoint ins_all (a : args) (kvs : list (bytes * V)) : args :=
  match kvs with
  | [] => a
  | (k, v) :: r => ins_all (ins a k v) r
  end.

Lemma set_all_ins_all kvs : forall a, set_all V a kvs = Done (ins_all a kvs).
Proof.
  induction kvs as [|[k v] r IH]; intros a; cbn; [reflexivity|].
  rewrite set_ins. cbn. apply IH.
Qed.

Lemma sorted_ins_all kvs : forall a, sorted a -> sorted (ins_all a kvs).
Proof.
  induction kvs as [|[k v] r IH]; intros a Ha; cbn; [exact Ha|]. apply IH, sorted_ins, Ha.
Qed.

Lemma lookup_ins_all kvs : forall a k,
  lookup (ins_all a kvs) k =
  match last_write V kvs k with Some v => Some v | None => lookup a k end.
Proof.
  induction kvs as [|[k' v'] r IH]; intros a k; cbn; [reflexivity|].
  rewrite IH. destruct (last_write V r k); [reflexivity|].
  destruct (bytes_eqb k' k) eqn:E.
  - apply bytes_eqb_eq in E. subst. apply lookup_ins_same.
  - apply lookup_ins_other. intros ->. rewrite (proj2 (bytes_eqb_eq k' k') eq_refl) in E. discriminate.
Qed.

Lemma ins_all_keys kvs : forall a x,
  In x (map fst (ins_all a kvs)) <-> In x (map fst kvs) \/ In x (map fst a).
Proof.
  induction kvs as [|[k v] r IH]; intros a x; cbn; [tauto|].
  rewrite IH, ins_keys. intuition congruence.
Qed.

(* ---- the statements used by Props/C11.v ---- *)

Lemma set_total a k v : exists a', set V a k v = Done a'.
Proof. eexists. apply set_ins. Qed.

Lemma from_iter_total kvs : exists a, from_iter V kvs = Done a.
Proof. eexists. apply set_all_ins_all. Qed.

Lemma from_iter_sorted kvs a : from_iter V kvs = Done a -> sorted a.
Proof.
  unfold from_iter. rewrite set_all_ins_all. intros [= <-].
  apply sorted_ins_all. constructor.
Qed.

Lemma get_after_writes kvs a k :
  from_iter V kvs = Done a -> get V a k = Done (last_write V kvs k).
Proof.
  unfold from_iter. rewrite set_all_ins_all. intros [= <-].
  rewrite get_lookup, lookup_ins_all. cbn. destruct (last_write V kvs k); reflexivity.
Qed.

Lemma get_set_same a k v a' : set V a k v = Done a' -> get V a' k = Done (Some v).
Proof. rewrite set_ins. intros [= <-]. rewrite get_lookup, lookup_ins_same. reflexivity. Qed.

Lemma get_set_other a k v a' k2 :
  set V a k v = Done a' -> k2 <> k -> get V a' k2 = get V a k2.
Proof.
  rewrite set_ins. intros [= <-] Hne. rewrite !get_lookup, lookup_ins_other by exact Hne.
  reflexivity.
Qed.

Lemma iter_once kvs a :
  from_iter V kvs = Done a ->
  NoDup (map fst (iter V a)) /\
  (forall k, In k (map fst (iter V a)) <-> In k (map fst kvs)) /\
  (forall k v, In (k, v) (iter V a) <-> last_write V kvs k = Some v).
Proof.
  intros H. pose proof (from_iter_sorted _ _ H) as Hs.
  unfold iter. split; [apply sorted_nodup, Hs|]. split.
  - intros k. revert H. unfold from_iter. rewrite set_all_ins_all. intros [= <-].
    rewrite ins_all_keys. cbn. tauto.
  - intros k v. rewrite <- (lookup_in a k v Hs).
    pose proof (get_after_writes kvs a k H) as G. rewrite get_lookup in G.
    injection G as G. rewrite G. tauto.
Qed.

End ArgsProofs.
